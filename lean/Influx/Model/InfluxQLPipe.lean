/-
  Model.InfluxQLPipe — the iterator pipeline `query.Select` builds for the C22
  subset, stage by stage, written from influxql/query:

    per-series iterators            (storage side: points of [StartTime, EndTime] in opt order)
    call iterators                  `newXReduceYIterator.reduce`   (iterator.gen.go)  + the
                                    Func reducers / Mean reducers  (functions*.go, call_iterator.go)
    merge                           `floatMergeIterator`            (iterator.gen.go)
    re-aggregation after a merge    `Iterators.Merge`               (iterator.go): count ↦ sum, …
    sorted merge (raw queries)      `floatSortedMergeIterator`
    interval / fill / limit         `floatIntervalIterator`, `floatFillIterator`, `floatLimitIterator`
    rows                            `scannerCursor` / `multiScannerCursor` (cursor.go)
    composition                     `buildCursor`, `buildCallIterator`, `callIterator`,
                                    `buildAuxIterator`, `buildFieldIterator` (select.go),
                                    option derivation `Compile`/`Prepare` (compile.go)

  The storage side is the harness' in-memory shard group, which composes per-series
  iterators the way `tsm1.Engine.CreateIterator` does.  Core Lean only.
-/
import Influx.Spec.C22

namespace Influx.InfluxQLPipe
open Influx.Reducers Influx.Spec.C22

variable {V F : Type}

/-- a point travelling through the iterators: `Tags.Subset(dims)`, `Time`, `Value`,
    `Aggregated`, `Nil` -/
structure SP (W : Type) where
  tag : Option String
  t : Int
  v : W
  agg : Nat := 0
  nil : Bool := false

/-- `query.ZeroTime` -/
def zeroTime : Int := -9223372036854775808

/-- the `IteratorOptions` fields the subset reaches -/
structure Opt where
  startTime : Int
  endTime : Int
  dur : Int
  off : Int
  asc : Bool
  fill : Fill
  limit : Nat
  offset : Nat

/-- `Compile.preprocess` + `Prepare` + `newIteratorOptionsStmt` -/
def optOf (q : Query) : Opt :=
  { startTime := startOf q, endTime := endOf q, dur := q.dur, off := q.off, asc := !q.desc,
    fill := q.fill, limit := q.limit, offset := q.offset }

/-- `IteratorOptions.Window` (no time zone; the int64 clamps at MinTime/MaxTime included) -/
def window (o : Opt) (t : Int) : Int × Int :=
  if o.dur = 0 then (o.startTime, o.endTime + 1) else
  let t := t - o.off
  let dt0 := Int.tmod t o.dur
  let dt := if dt0 < 0 then dt0 + o.dur else dt0
  let start := (if minTime + dt ≥ t then minTime else t - dt) + o.off
  let dte := o.dur - dt
  let stop := (if maxTime - dte ≤ t then maxTime else t + dte) + o.off
  (start, stop)

/-! ## storage side -/

/-- one series' iterator: its points inside `[StartTime, EndTime]`, in `opt` order -/
def seriesIter (o : Opt) (byHost : Bool) (s : Series V) : List (SP V) :=
  let l := s.pts.filter fun p => decide (o.startTime ≤ p.t) && decide (p.t ≤ o.endTime)
  let l := if o.asc then l else l.reverse
  l.map fun p => { tag := if byHost then some s.host else none, t := p.t, v := p.v }

/-- series keys in order; reversed for descending statements (`TagSet.Reverse`) -/
def seriesOrder (asc : Bool) (db : List (Series V)) : List (Series V) :=
  let s := sortBy (fun a b => decide (a.host ≤ b.host)) db
  if asc then s else s.reverse

/-! ## call iterators -/

/-- `xReduceYIterator.reduce`: the first unread point fixes the window and the tag set;
    every following point inside `[start, end)` with the same tags is aggregated, the
    first one outside ends the window.  `emit ws pts` is `Emitter.Emit` (with `ZeroTime`
    replaced by the window start). -/
def reduceGo {α β : Type} (o : Opt) (emit : Int → List (SP α) → SP β) :
    Option ((Int × Int) × Option String × List (SP α)) → List (SP α) → List (SP β)
  | none, [] => []
  | some (w, _, acc), [] => [emit w.1 acc]
  | none, p :: ps => reduceGo o emit (some (window o p.t, p.tag, [p])) ps
  | some (w, tg, acc), p :: ps =>
    if decide (p.t < w.2) && decide (w.1 ≤ p.t) && decide (p.tag = tg) then
      reduceGo o emit (some (w, tg, acc ++ [p])) ps
    else emit w.1 acc :: reduceGo o emit (some (window o p.t, p.tag, [p])) ps

def reduceStream {α β : Type} (o : Opt) (emit : Int → List (SP α) → SP β) (l : List (SP α)) : List (SP β) :=
  reduceGo o emit none (l.filter (!·.nil))

/-- `Aggregated` bookkeeping of the Func reducers: `+= p.Aggregated` if it is above 1, else `+1` -/
def aggInc {α : Type} (p : SP α) : Nat := if p.agg > 1 then p.agg else 1

/-- `NewXFuncReducer(fn, nil)` folded over a window: `fn prev curr` for selectors and sum -/
def funcReduce {α : Type} (fn : SP α → SP α → Int × α) (first : SP α → Int × α) (ws : Int)
    (pts : List (SP α)) (dflt : α) : SP α :=
  match pts with
  | [] => { tag := none, t := ws, v := dflt }
  | p :: ps =>
    let st0 : SP α := { tag := p.tag, t := (first p).1, v := (first p).2, agg := aggInc p }
    let st := ps.foldl (fun st c => let r := fn st c; { st with t := r.1, v := r.2, agg := st.agg + aggInc c }) st0
    { st with t := if st.t = zeroTime then ws else st.t }

/-- the value travelling after the first call iterator: count is an integer, mean a float -/
abbrev W (V F : Type) := Val V F

def vLt (A : Arith22 V F) : Val V F → Val V F → Bool
  | .v a, .v b => A.vo.lt a b
  | _, _ => false
def vEq (A : Arith22 V F) : Val V F → Val V F → Bool
  | .v a, .v b => A.vo.eq a b
  | _, _ => false
def vAdd (A : Arith22 V F) : Val V F → Val V F → Val V F
  | .v a, .v b => .v (A.vo.add a b)
  | .i a, .i b => .i (a + b)
  | _, _ => .null

/-- `XMinReduce`, `XMaxReduce`, `XFirstReduce`, `XLastReduce`, `XSumReduce` on `prev`, `curr` -/
def selFn (A : Arith22 V F) : Agg → SP (Val V F) → SP (Val V F) → Int × Val V F
  | .min, p, c => if vLt A c.v p.v || (vEq A c.v p.v && decide (c.t < p.t)) then (c.t, c.v) else (p.t, p.v)
  | .max, p, c => if vLt A p.v c.v || (vEq A c.v p.v && decide (c.t < p.t)) then (c.t, c.v) else (p.t, p.v)
  | .first, p, c => if decide (c.t < p.t) || (decide (c.t = p.t) && vLt A p.v c.v) then (c.t, c.v) else (p.t, p.v)
  | .last, p, c => if decide (c.t > p.t) || (decide (c.t = p.t) && vLt A p.v c.v) then (c.t, c.v) else (p.t, p.v)
  | _, p, c => (p.t, vAdd A p.v c.v)          -- sum (and the sum that merges counts)

def selFirst (a : Agg) (c : SP (Val V F)) : Int × Val V F :=
  if isSelector a then (c.t, c.v) else (zeroTime, c.v)

/-- `FloatMeanReducer` / `IntegerMeanReducer`: running sum and count; a point that already
    aggregates `n ≥ 2` points counts as `n` points of its value -/
def meanEmit (A : Arith22 V F) (ws : Int) (pts : List (SP (Val V F))) : SP (Val V F) :=
  let tag := match pts with | p :: _ => p.tag | [] => none
  -- integer first level: exact integer sum, one division
  let allV := pts.all fun p => match p.v with | .v _ => true | _ => false
  if allV then
    match fold1 A.vo.add (pts.filterMap fun p => match p.v with | .v x => some x | _ => none) with
    | some s => { tag, t := ws, v := .f (A.fo.div (A.vo.toF s) (A.fo.ofInt pts.length)), agg := pts.length }
    | none => { tag, t := ws, v := .null }
  else
    let r := pts.foldl (fun (sc : F × Nat) p =>
      match p.v with
      | .f m => if p.agg ≥ 2 then (A.fo.add sc.1 (A.fo.mul m (A.fo.ofInt p.agg)), sc.2 + p.agg)
                else (A.fo.add sc.1 m, sc.2 + 1)
      | _ => sc) (A.fo.ofInt 0, 0)
    { tag, t := ws, v := .f (A.fo.div r.1 (A.fo.ofInt r.2)), agg := r.2 }

/-- `Emitter.Emit` of the reducer of call `a` over the points of one window; `level1`:
    the input is raw field values (count counts them), otherwise partial aggregates
    (count sums them) -/
def emitOf (A : Arith22 V F) (a : Agg) (level1 : Bool) (ws : Int) (pts : List (SP (Val V F))) : SP (Val V F) :=
  match a with
  | .count =>
    if level1 then
      -- `FloatFuncIntegerReducer(FloatCountReduce, &IntegerPoint{0, ZeroTime})`
      let tag := match pts with | p :: _ => p.tag | [] => none
      { tag, t := ws, v := .i pts.length, agg := (pts.map aggInc).sum }
    else funcReduce (selFn A .sum) (selFirst .sum) ws pts .null
  | .mean => meanEmit A ws pts
  | a => funcReduce (selFn A a) (selFirst a) ws pts .null

/-! ## merge of per-series aggregate streams — `floatMergeIterator` -/

/-- heap order of the inputs: tags, then the start of the head's window -/
def mergeKeyLt (o : Opt) (a b : SP (Val V F)) : Bool :=
  if a.tag ≠ b.tag then
    (if o.asc then decide (a.tag.getD "" < b.tag.getD "") else decide (b.tag.getD "" < a.tag.getD ""))
  else
    let wa := (window o a.t).1
    let wb := (window o b.t).1
    if o.asc then decide (wa < wb) else decide (wb < wa)

/-- index of the input the heap yields: a non-empty input whose head no other head
    precedes (the first such; equal keys are a `container/heap` detail) -/
def pickMin (o : Opt) : List (List (SP (Val V F))) → Option Nat
  | [] => none
  | l :: ls =>
    match l, pickMin o ls with
    | [], none => none
    | [], some i => some (i + 1)
    | _ :: _, none => some 0
    | p :: _, some i =>
      match (ls[i]?).bind List.head? with
      | some q => if mergeKeyLt o q p then some (i + 1) else some 0
      | none => some 0

/-- the points of the chosen input that stay in the window of its head -/
def takeWindow (o : Opt) (w : Int × Int) (tg : Option String) : List (SP (Val V F)) → List (SP (Val V F)) × List (SP (Val V F))
  | [] => ([], [])
  | p :: ps =>
    if decide (p.tag = tg) && (if o.asc then decide (p.t < w.2) else decide (w.1 ≤ p.t)) then
      let r := takeWindow o w tg ps
      (p :: r.1, r.2)
    else ([], p :: ps)

def mergeGo (o : Opt) : Nat → List (List (SP (Val V F))) → List (SP (Val V F))
  | 0, _ => []
  | fuel + 1, ins =>
    match pickMin o ins with
    | none => []
    | some i =>
      match ins[i]? with
      | some (p :: ps) =>
        let r := takeWindow o (window o p.t) p.tag ps
        (p :: r.1) ++ mergeGo o fuel (ins.set i r.2)
      | _ => []

def mergeStreams (o : Opt) (ins : List (List (SP (Val V F)))) : List (SP (Val V F)) :=
  match ins.filter (!·.isEmpty) with
  | [] => []
  | [one] => one              -- `NewMergeIterator`: a single input is returned as is
  | l => mergeGo o ((l.map List.length).sum + 1) l

/-! ## interval, fill, limit -/

/-- `floatIntervalIterator` -/
def intervalIter (o : Opt) (l : List (SP (Val V F))) : List (SP (Val V F)) :=
  l.map fun p => let w := (window o p.t).1; { p with t := if w = minTime then 0 else w }

/-- value of a filled point — `floatFillIterator.Next`, CONSTRUCT branch -/
def fillPoint (A : Arith22 V F) (a : Agg) (fill : Fill) (tg : Option String) (t : Int)
    (prev : Option (Val V F)) : SP (Val V F) :=
  match fill with
  | .value k =>
    { tag := tg, t, v := match a with | .count => .i k | .mean => .f (A.fo.ofInt k) | _ => .v (A.ofIntV k) }
  | .previous =>
    match prev with
    | some v => { tag := tg, t, v }
    | none => { tag := tg, t, v := .null, nil := true }
  | _ => { tag := tg, t, v := .null, nil := true }

/-- `floatFillIterator`: state = tags of the current series, next expected window time,
    previous real value; `fuel` bounds the number of emitted points. -/
def fillGo (A : Arith22 V F) (a : Agg) (o : Opt) (fill : Fill) (first last : Int) :
    Nat → Option (Option String × Int × Option (Val V F)) → List (SP (Val V F)) → List (SP (Val V F))
  | 0, _, _ => []
  | _ + 1, none, [] => []
  | fuel + 1, none, p :: ps =>
    -- first point of the input: open its series at the first window
    fillGo A a o fill first last fuel (some (p.tag, first, none)) (p :: ps)
  | fuel + 1, some (tg, wt, prev), l =>
    let inSeries := match l with | p :: _ => decide (p.tag = tg) | [] => false
    let more := if o.asc then decide (wt ≤ last) else decide (wt ≥ last) && decide (last ≠ minTime)
    let next := if o.asc then wt + o.dur else wt - o.dur
    if !inSeries then
      if more then fillPoint A a fill tg wt prev :: fillGo A a o fill first last fuel (some (tg, next, prev)) l
      else match l with
        | [] => []
        | p :: _ => fillGo A a o fill first last fuel (some (p.tag, first, none)) l
    else match l with
      | [] => []
      | p :: ps =>
        if (o.asc && decide (p.t > wt)) || (!o.asc && decide (p.t < wt)) then
          fillPoint A a fill tg wt prev :: fillGo A a o fill first last fuel (some (tg, next, prev)) l
        else p :: fillGo A a o fill first last fuel (some (tg, next, some p.v)) ps

def fillIter (A : Arith22 V F) (a : Agg) (o : Opt) (l : List (SP (Val V F))) : List (SP (Val V F)) :=
  -- `newFloatFillIterator`: null fill of count() is a number fill of 0
  let fill := if o.fill = Fill.null && a = .count then Fill.value 0 else o.fill
  let first := if o.asc then (window o o.startTime).1 else (window o o.endTime).1
  let last := if o.asc then (window o o.endTime).1 else (window o o.startTime).1
  let span := if o.dur = 0 then 0 else ((if first ≤ last then last - first else first - last) / o.dur).toNat + 2
  let nSeries := (l.map (·.tag)).eraseDups.length
  fillGo A a o fill first last ((span + 1) * (nSeries + 1) + 2 * l.length + 4) none l

/-- `floatLimitIterator`: per (name, tags) -/
def limitGo {α : Type} (o : Opt) : Option (Option String) → Nat → List (SP α) → List (SP α)
  | _, _, [] => []
  | prevTag, n, p :: ps =>
    let n := if prevTag = some p.tag then n else 0
    let n := n + 1
    if n ≤ o.offset then limitGo o (some p.tag) n ps
    else if o.limit > 0 ∧ n - o.offset > o.limit then limitGo o (some p.tag) n ps
    else p :: limitGo o (some p.tag) n ps

def limitIter {α : Type} (o : Opt) (l : List (SP α)) : List (SP α) :=
  if o.limit > 0 ∨ o.offset > 0 then limitGo o none 0 l else l

/-! ## one call of the field list — `buildFieldIterator` / `buildCallIterator` / `callIterator` -/

def callPipeline (A : Arith22 V F) (q : Query) (db : List (Series V)) (selector : Bool) (a : Agg) : List (SP (Val V F)) :=
  let o := optOf q
  -- storage side: per-series call iterators, merged and re-aggregated
  let per := (seriesOrder o.asc db).map fun s =>
    reduceStream o (emitOf A a true) ((seriesIter o q.byHost s).map fun p => { p with v := Val.v p.v })
  let l2 := reduceStream o (emitOf A a false) (mergeStreams o per)
  -- select.go `callIterator`: `Iterators(inputs).Merge(opt)` over the single source
  let l3 := reduceStream o (emitOf A a false) l2
  let l4 := if !selector || o.dur ≠ 0 then
      let i := intervalIter o l3
      if o.dur ≠ 0 && o.fill ≠ Fill.none then fillIter A a o i else i
    else l3
  limitIter o l4

/-! ## rows — `scannerCursor` / `multiScannerCursor` -/

def keyBefore (asc : Bool) (a b : Option String × Int) : Bool :=
  if a.1 ≠ b.1 then (if asc then decide (a.1.getD "" < b.1.getD "") else decide (b.1.getD "" < a.1.getD ""))
  else if asc then decide (a.2 < b.2) else decide (b.2 < a.2)

/-- `multiScannerCursor.scan`: the smallest head key, every scanner whose head has that
    key yields its value, the others the default -/
def joinGo (A : Arith22 V F) (q : Query) : Nat → List (List (SP (Val V F))) → List (Row V F)
  | 0, _ => []
  | fuel + 1, cols =>
    let heads := cols.filterMap fun c => c.head?.map fun p => (p.tag, p.t)
    match heads with
    | [] => []
    | h :: hs =>
      let k := hs.foldl (fun k c => if keyBefore (!q.desc) c k then c else k) h
      let vals := cols.map fun c =>
        match c with
        | p :: _ => if p.tag = k.1 ∧ p.t = k.2 then (if p.nil then Val.null else p.v) else Val.null
        | [] => Val.null
      let cols' := cols.map fun c =>
        match c with
        | p :: ps => if p.tag = k.1 ∧ p.t = k.2 then ps else c
        | [] => []
      ⟨k.1, k.2, vals⟩ :: joinGo A q fuel cols'

/-! ## raw queries — `buildAuxIterator`: sorted merge, limit, scanner -/

/-- `floatSortedMergeHeap.Less` on heads: tags, then time (equal keys: heap detail) -/
def sortedBefore (asc : Bool) (a b : SP V) : Bool := keyBefore asc (a.tag, a.t) (b.tag, b.t)

def pickSorted (asc : Bool) : List (List (SP V)) → Option Nat
  | [] => none
  | l :: ls =>
    match l, pickSorted asc ls with
    | [], none => none
    | [], some i => some (i + 1)
    | _ :: _, none => some 0
    | p :: _, some i =>
      match (ls[i]?).bind List.head? with
      | some q => if sortedBefore asc q p then some (i + 1) else some 0
      | none => some 0

def sortedMergeGo (asc : Bool) : Nat → List (List (SP V)) → List (SP V)
  | 0, _ => []
  | fuel + 1, ins =>
    match pickSorted asc ins with
    | none => []
    | some i =>
      match ins[i]? with
      | some (p :: ps) => p :: sortedMergeGo asc fuel (ins.set i ps)
      | _ => []

def rawPipeline (q : Query) (db : List (Series V)) : List (SP V) :=
  let o := optOf q
  let ins := (seriesOrder o.asc db).map (seriesIter o q.byHost)
  limitIter o (sortedMergeGo o.asc ((ins.map List.length).sum + 1) ins)

/-! ## `Select` -/

def run (A : Arith22 V F) (q : Query) (db : List (Series V)) : Result V F :=
  if !supported q then .err "unsupported" else
  match compileError q with
  | some e => .err e
  | none =>
    if q.isRaw then
      .rows ((rawPipeline q db).map fun p => ⟨p.tag, p.t, [Val.v p.v]⟩)
    else
      -- `valueMapper`: identical calls share one iterator; a sole selector keeps its
      -- point's time (`selector`)
      let distinct := q.calls.eraseDups
      let selector := match distinct with | [a] => isSelector a | _ => false
      let cols := distinct.map fun a => (a, callPipeline A q db selector a)
      let rows := joinGo A q ((cols.map fun c => c.2.length).sum + 1) (cols.map (·.2))
      -- columns back in field order
      .rows (rows.map fun r =>
        { r with vals := q.calls.map fun a =>
            match distinct.idxOf? a with
            | some i => r.vals.getD i Val.null
            | none => Val.null })

/-! ## sparse two-field series (real storage path): the engine's per-series iterators
    drop the points whose condition cursor (`bufCursor.nextAt` aligned to the driving
    field's timestamp, tsm1/iterator.gen.go) yields nil or fails the WHERE expression, and
    carry the aux cursor's value at that timestamp along the point -/

def run2 (A : Arith22 V F) (q : Query2) (db : List (Series2 V)) : Result V F :=
  if !supported2 q then .err "unsupported" else
  match run A q.q (db.map (project A q)) with
  | .rows l => if q.aux then .rows (l.map fun r => { r with vals := r.vals ++ [auxAt db r.host r.time] }) else .rows l
  | e => e

end Influx.InfluxQLPipe
