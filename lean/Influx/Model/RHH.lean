/-
  Model.RHH — pkg/rhh/rhh.go (robin-hood hash map), written from the code as it is.

  * `HashMap.hashes/elems`  ↦ `slots : List (Option Entry)` (`hashes[i] == 0` ⇔ `none`;
    `HashKey` never returns 0, the driver rejects a zero hash).
  * The hash function is a PARAMETER: every `put`/`get` carries the hash of its key
    (the harness sends `rhh.HashKey(key)`), so the slot layout of the real map can be
    compared exactly, and the theorems hold for an arbitrary hash function.
  * `hash & mask` ↦ `hash % cap` (capacity is a power of two in the code; the model and
    the theorems do not need that).
  * Loops that Go runs until an exit condition are fuelled; `none` = the Go loop would not
    terminate (`insert` on a full table without a matching key).

  The model follows the code AFTER fixes/C36-rhh-empty-key-len.patch: before it, `insert`
  computed `match := bytes.Equal(elems[pos].key, searchKey)` also for an EMPTY slot (whose key
  is the empty slice), so storing the empty key into an empty slot reported "overwritten" and
  `put` decremented `n` (`Put([]byte{}, v)` on a fresh map left `Len() == 0`).
-/
namespace Influx.RHH

abbrev Key := List Nat

structure Entry where
  hash : Nat
  key : Key
  val : Int
deriving DecidableEq, Repr

abbrev Slots := List (Option Entry)

/-- `rhh.Dist(hash, i, capacity)` = `(i + capacity - (hash & mask)) & mask`. -/
def dist (hash i cap : Nat) : Nat := (i + cap - hash % cap) % cap

/-- `pow2`: the first of 2, 4, …, 2^61 that is ≥ v; `none` = `panic("unreachable")`. -/
def pow2 (v : Nat) : Option Nat :=
  ((List.range 61).map fun i => 2 ^ (i + 1)).find? (fun p => decide (v ≤ p))

/-- `(*HashMap).insert`: one iteration per unit of fuel.  Returns the new slots and
    `overwritten`. -/
def insertLoop (cap : Nat) : Nat → Slots → Nat → Nat → Entry → Option (Slots × Bool)
  | 0, _, _, _, _ => none
  | fuel + 1, s, pos, d, x =>
    match s[pos]? with
    | none => none
    | some none =>
      -- empty slot: `m.hashes[pos] == 0`, never a match
      some (s.set pos (some x), false)
    | some (some e) =>
      if e.key = x.key then some (s.set pos (some x), true)
      else
        let ed := dist e.hash pos cap
        if ed < d then
          -- swap: x takes the slot, e travels on with its own distance
          insertLoop cap fuel (s.set pos (some x)) ((pos + 1) % cap) (ed + 1) e
        else
          insertLoop cap fuel s ((pos + 1) % cap) (d + 1) x

/-- iterations granted to `insert` (a terminating run needs at most `cap`). -/
def fuelFor (cap : Nat) : Nat := 2 * cap + 2

def insert (s : Slots) (x : Entry) : Option (Slots × Bool) :=
  insertLoop s.length (fuelFor s.length) s (x.hash % s.length) 0 x

/-- `(*HashMap).index`: `none` = -1.  Always terminates in the code (`dist` exceeds every
    `Dist` after `cap` steps), so running out of fuel coincides with -1. -/
def indexLoop (cap : Nat) : Nat → Slots → Nat → Nat → Nat → Key → Option Entry
  | 0, _, _, _, _, _ => none
  | fuel + 1, s, pos, d, h, k =>
    match s[pos]? with
    | none => none
    | some none => none
    | some (some e) =>
      if dist e.hash pos cap < d then none
      else if e.hash = h ∧ e.key = k then some e
      else indexLoop cap fuel s ((pos + 1) % cap) (d + 1) h k

def lookup (s : Slots) (h : Nat) (k : Key) : Option Entry :=
  indexLoop s.length (s.length + 1) s (h % s.length) 0 h k

structure Map where
  slots : Slots
  n : Nat
  lf : Nat
deriving Repr

namespace Map

def cap (m : Map) : Nat := m.slots.length
/-- `alloc`: `threshold = capacity * loadFactor / 100`. -/
def threshold (m : Map) : Nat := m.cap * m.lf / 100

/-- `NewHashMap(Options{Capacity, LoadFactor})`. -/
def new (capacity lf : Nat) : Option Map :=
  (pow2 capacity).map fun c => { slots := List.replicate c none, n := 0, lf := lf }

/-- the loop of `Grow`: re-insert every occupied old slot, in slot order. -/
def reinsert : List (Option Entry) → Slots → Option Slots
  | [], acc => some acc
  | none :: r, acc => reinsert r acc
  | some e :: r, acc =>
    match insert acc e with
    | none => none
    | some (acc', _) => reinsert r acc'

/-- `(*HashMap).Grow(sz)`. -/
def grow (m : Map) (sz : Nat) : Option Map :=
  match pow2 sz with
  | none => none
  | some sz' =>
    if sz' ≤ m.cap then some m
    else (reinsert m.slots (List.replicate sz' none)).map fun s => { m with slots := s }

/-- `(*HashMap).put`. -/
def put (m : Map) (h : Nat) (k : Key) (v : Int) : Option Map :=
  let n1 := m.n + 1
  match (if m.threshold < n1 then m.grow (m.cap * 2) else some m) with
  | none => none
  | some m1 =>
    match insert m1.slots ⟨h, k, v⟩ with
    | none => none
    | some (s, overwritten) => some { m1 with slots := s, n := if overwritten then n1 - 1 else n1 }

/-- `(*HashMap).Get`. -/
def get (m : Map) (h : Nat) (k : Key) : Option Int := (lookup m.slots h k).map (·.val)

/-- `(*HashMap).Reset`. -/
def reset (m : Map) : Map := { m with slots := List.replicate m.cap none, n := 0 }

end Map

/-- `bytes.Compare(a, b) == -1`. -/
def keyLt : Key → Key → Bool
  | [], [] => false
  | [], _ :: _ => true
  | _ :: _, [] => false
  | a :: as, b :: bs => if a < b then true else if b < a then false else keyLt as bs

def insertSorted (k : Key) : List Key → List Key
  | [] => [k]
  | x :: xs => if keyLt k x then k :: x :: xs else x :: insertSorted k xs

def sortKeys (ks : List Key) : List Key := ks.foldr insertSorted []

/-- `(*HashMap).Keys()` (all stored values are non-nil in the harness). -/
def Map.keys (m : Map) : List Key := sortKeys (m.slots.filterMap fun s => s.map (·.key))

end Influx.RHH
