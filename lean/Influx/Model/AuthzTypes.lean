/-
  Types of `authz.go` as the generated `Influx.Generated.Authz` uses them.
  `Action` and `ResourceType` are Go string types: any string can be stored in
  them, so they are `String` here (not an enumeration of the valid ones).
  `*platform.ID` is a pointer to a `uint64`: `Option Nat` (the theorems hold for
  every `Nat`, in particular for every 64-bit id).
-/
namespace Influx

abbrev Action := String
abbrev ResourceType := String
abbrev PID := Nat

structure Resource where
  Type_ : ResourceType
  ID : Option PID
  OrgID : Option PID
deriving Repr, DecidableEq

structure Permission where
  Action : Action
  Resource : Resource
deriving Repr, DecidableEq

end Influx
