/-
  Influx.Model.WindowAgg — the window aggregate array cursors of storage/reads as
  state machines over an input stream of arrays.

  Go source: storage/reads/array_cursor.gen.go (template instantiated for float,
  integer, unsigned, string, boolean — the five instantiations are identical up to
  the value type and the arithmetic of the accumulator):
    *{T}WindowCountArrayCursor.Next, *{T}WindowSumArrayCursor.Next,
    *{T}WindowMinArrayCursor.Next,   *{T}WindowMaxArrayCursor.Next,
    *{T}WindowMeanArrayCursor.Next   — one loop shape ("WINDOWS"), modelled by `Fold.next`
    *{T}WindowFirstArrayCursor.Next  — `First.next`
    *{T}WindowLastArrayCursor.Next   — `Last.next`
    *{T}LimitArrayCursor.Next        — `Limit.next` (first/last without a window)

  A point is `(timestamp, value)`; an array is a list of points; the input cursor is
  the list of arrays it will still return (`Next()` pops the head; on `[]` it
  returns an empty array, for ever).  `B` is `MaxPointsPerBlock` (1000 in Go; a
  parameter here).  The value arithmetic is abstract (`Ops`): `add` is float64 `+`,
  int64/uint64 wrapping `+`; `lt` is `<`; `ofCount` embeds the int64 counter;
  `mean s n` is `s / float64(n)` resp. `float64(s) / float64(n)`.

  Deviations from the Go text, each harmless under the stated condition:
  * after a new window is started the Go loop re-examines the same row
    (`continue WINDOWS` without `rowIdx++`) against the new `windowEnd`; the model
    accumulates the row directly.  Same thing whenever `ts < stop(ts)`, which holds
    for every valid window (`Window.getLatestBounds_contains`); if it did not hold
    the Go loop would not terminate.
  * `windowEnd = math.MinInt64` of the first/last cursors is `none` ("below every
    int64").
  * the `last` cursor writes `res[cur]` with `cur = -1` (index panic) if the first
    row of a `Next` call is not at/after `windowEnd`: `Last.next` returns `none`.
    It also panics if the input cursor returns an empty array and later a
    non-empty one (the result slice was shrunk) — inputs with an empty array in
    the middle are outside the cursor contract and excluded by the theorems.
-/
import Influx.Model.Window

namespace Influx.WindowAgg

abbrev Time := Int
abbrev Pt (α : Type) := Int × α

/-- abstract value arithmetic of one instantiation of the template -/
structure Ops (α : Type) where
  zero : α
  add : α → α → α
  lt : α → α → Bool
  ofCount : Nat → α
  mean : α → Nat → α

/-- the window as the cursors see it: `window.IsZero()` and the value `windowEnd` is set to
    for a row at time `t`: `int64(window.GetLatestBounds(t).Stop())`, resp. `math.MaxInt64`
    for the zero window (`if !c.window.IsZero() { … } else { windowEnd = math.MaxInt64 }`). -/
structure Win where
  isZero : Bool
  stop : Int → Int

def maxInt64 : Int := 9223372036854775807

/-- the zero window (`interval.Window{}`): one window over everything -/
def Win.zero : Win := { isZero := true, stop := fun _ => maxInt64 }
/-- a proper window -/
def Win.ofWindow (w : Window.Window) : Win :=
  { isZero := false, stop := fun t => (w.getLatestBounds t).stop }

/-- `!c.window.IsZero() && ts >= windowEnd` -/
def Win.newWindow (w : Win) (ts windowEnd : Int) : Bool := !w.isZero && decide (ts ≥ windowEnd)

/-- the input cursor's `Next()` -/
def pop {β : Type} : List (List β) → List β × List (List β)
  | [] => ([], [])
  | c :: cs => (c, cs)

/-- state of a cursor between two `Next` calls: the carry-over `tmp` and the input -/
structure St (α : Type) where
  tmp : List (Pt α)
  inp : List (List (Pt α))

/-- all points a cursor will still see -/
def St.rest {α} (s : St α) : List (Pt α) := s.tmp ++ s.inp.flatten

/-! ### the five accumulating cursors -/

/-- accumulator of one aggregate: `add1 none p` is "reset, then take p"; `fin windowEnd acc` the emitted point -/
structure Folder (α γ : Type) where
  add1 : Option γ → Pt α → γ
  fin : Int → γ → Pt α

def countF {α} (o : Ops α) : Folder α Nat where
  add1 acc _ := match acc with | none => 1 | some n => n + 1    -- acc = 0; acc++
  fin we n := (we, o.ofCount n)

def sumF {α} (o : Ops α) : Folder α α where
  add1 acc p := match acc with | none => o.add o.zero p.2 | some s => o.add s p.2   -- acc = 0; acc += v
  fin we s := (we, s)

/-- `if !windowHasPoints || v < acc { acc = v; tsAcc = ts }` -/
def minF {α} (o : Ops α) : Folder α (Pt α) where
  add1 acc p := match acc with | none => p | some m => if o.lt p.2 m.2 then p else m
  fin _ m := m

def maxF {α} (o : Ops α) : Folder α (Pt α) where
  add1 acc p := match acc with | none => p | some m => if o.lt m.2 p.2 then p else m
  fin _ m := m

def meanF {α} (o : Ops α) : Folder α (α × Nat) where
  add1 acc p := match acc with
    | none => (o.add o.zero p.2, 1)
    | some (s, n) => (o.add s p.2, n + 1)
  fin we sn := (we, o.mean sn.1 sn.2)

namespace Fold
variable {α γ : Type}

/-- result of the inner `for ; rowIdx < a.Len(); rowIdx++` loop over one array -/
inductive Scan (α γ : Type) where
  /-- output array full: `break WINDOWS` with `tmp = a[rowIdx:]` -/
  | full (out : List (Pt α)) (rest : List (Pt α))
  /-- array read through -/
  | more (acc : Option γ) (windowEnd : Int) (out : List (Pt α))

/-- `windowHasPoints` is `acc.isSome`. -/
def scan (B : Nat) (F : Folder α γ) (w : Win) :
    List (Pt α) → Option γ → Int → List (Pt α) → Scan α γ
  | [], acc, we, out => .more acc we out
  | p :: ps, acc, we, out =>
    if w.newWindow p.1 we then
      match acc with
      | some g =>
        let out' := out ++ [F.fin we g]
        if out'.length ≥ B then .full out' (p :: ps)
        else scan B F w ps (some (F.add1 none p)) (w.stop p.1) out'
      | none => scan B F w ps (some (F.add1 none p)) (w.stop p.1) out
    else scan B F w ps (some (F.add1 acc p)) we out

/-- "write the final point": `if windowHasPoints { res[pos] = …; pos++ }` -/
def flush (F : Folder α γ) (acc : Option γ) (we : Int) : List (Pt α) :=
  match acc with
  | some g => [F.fin we g]
  | none => []

/-- the `WINDOWS:` loop: scan `a`, then fetch the next array. -/
def run (B : Nat) (F : Folder α γ) (w : Win) :
    List (Pt α) → List (List (Pt α)) → Option γ → Int → List (Pt α) → St α × List (Pt α)
  | a, [], acc, we, out =>
    match scan B F w a acc we out with
    | .full o r => (⟨r, []⟩, o)
    | .more acc' we' o => (⟨[], []⟩, o ++ flush F acc' we')
  | a, c :: cs, acc, we, out =>
    match scan B F w a acc we out with
    | .full o r => (⟨r, c :: cs⟩, o)
    | .more acc' we' o =>
      if c.isEmpty then (⟨[], cs⟩, o ++ flush F acc' we')
      else run B F w c cs acc' we' o

/-- one `Next()` call: new state and the returned array -/
def next (B : Nat) (F : Folder α γ) (w : Win) (s : St α) : St α × List (Pt α) :=
  let (a, inp) := if s.tmp.isEmpty then pop s.inp else (s.tmp, s.inp)
  match a with
  | [] => (⟨[], inp⟩, [])
  | p :: _ => run B F w a inp none (w.stop p.1) []

end Fold

/-! ### first -/
namespace First
variable {α : Type}

structure State (α : Type) where
  st : St α
  windowEnd : Option Int        -- none = math.MinInt64

def before (t : Int) : Option Int → Bool
  | none => false
  | some we => decide (t < we)

inductive Scan (α : Type) where
  | full (out rest : List (Pt α)) (we : Option Int)
  | more (out : List (Pt α)) (we : Option Int)

def scan (B : Nat) (w : Win) : List (Pt α) → Option Int → List (Pt α) → Scan α
  | [], we, out => .more out we
  | p :: ps, we, out =>
    if before p.1 we then scan B w ps we out
    else
      let out' := out ++ [p]
      if out'.length = B then .full out' ps (some (w.stop p.1))
      else scan B w ps (some (w.stop p.1)) out'

def run (B : Nat) (w : Win) : List (Pt α) → List (List (Pt α)) → Option Int → List (Pt α) → State α × List (Pt α)
  | a, [], we, out =>
    match scan B w a we out with
    | .full o r we' => (⟨⟨r, []⟩, we'⟩, o)
    | .more o we' => (⟨⟨[], []⟩, we'⟩, o)
  | a, c :: cs, we, out =>
    match scan B w a we out with
    | .full o r we' => (⟨⟨r, c :: cs⟩, we'⟩, o)
    | .more o we' =>
      if c.isEmpty then (⟨⟨[], cs⟩, we'⟩, o) else run B w c cs we' o

def next (B : Nat) (w : Win) (s : State α) : State α × List (Pt α) :=
  let (a, inp) := if s.st.tmp.isEmpty then pop s.st.inp else (s.st.tmp, s.st.inp)
  if a.isEmpty then (⟨⟨[], inp⟩, s.windowEnd⟩, [])
  else run B w a inp s.windowEnd []

end First

/-! ### last -/
namespace Last
variable {α : Type}

abbrev State := First.State

def atOrAfter (t : Int) : Option Int → Bool
  | none => true
  | some we => decide (t ≥ we)

/-- `out` is `res[:cur+1]`. `none` = index-out-of-range panic (`res[-1]`). -/
inductive Scan (α : Type) where
  | full (out rest : List (Pt α)) (we : Option Int)
  | more (out : List (Pt α)) (we : Option Int)
  | panic

def scan (B : Nat) (w : Win) : List (Pt α) → Option Int → List (Pt α) → Scan α
  | [], we, out => .more out we
  | p :: ps, we, out =>
    if atOrAfter p.1 we then
      -- cur++ ; if cur == MaxPointsPerBlock { tmp = a[i:]; return }
      if out.length = B then .full out (p :: ps) we
      else scan B w ps (some (w.stop p.1)) (out ++ [p])
    else
      match out with
      | [] => .panic
      | _ => scan B w ps (some (w.stop p.1)) (out.dropLast ++ [p])

def run (B : Nat) (w : Win) : List (Pt α) → List (List (Pt α)) → Option Int → List (Pt α) → Option (State α × List (Pt α))
  | a, [], we, out =>
    match scan B w a we out with
    | .full o r we' => some (⟨⟨r, []⟩, we'⟩, o)
    | .more o we' => some (⟨⟨[], []⟩, we'⟩, o)
    | .panic => none
  | a, c :: cs, we, out =>
    match scan B w a we out with
    | .full o r we' => some (⟨⟨r, c :: cs⟩, we'⟩, o)
    | .more o we' =>
      if c.isEmpty then some (⟨⟨[], cs⟩, we'⟩, o) else run B w c cs we' o
    | .panic => none

def next (B : Nat) (w : Win) (s : State α) : Option (State α × List (Pt α)) :=
  let (a, inp) := if s.st.tmp.isEmpty then pop s.st.inp else (s.st.tmp, s.st.inp)
  if a.isEmpty then some (⟨⟨[], inp⟩, s.windowEnd⟩, [])
  else run B w a inp s.windowEnd []

end Last

/-! ### limit (first / last without window: `newLimitArrayCursor`) -/
namespace Limit
variable {α : Type}

structure State (α : Type) where
  inp : List (List (Pt α))
  done : Bool

def next (s : State α) : State α × List (Pt α) :=
  if s.done then (s, [])
  else
    let (a, inp) := pop s.inp
    match a with
    | [] => (⟨inp, false⟩, [])
    | p :: _ => (⟨inp, true⟩, [p])

end Limit

/-! ### which cursor for which request -/

inductive Agg where
  | count | sum | min | max | mean | first | last
deriving Repr, DecidableEq

/-- a cursor of any kind, as one state machine (`none` = the Go code panicked) -/
inductive Cursor (α : Type) where
  | fold (agg : Agg) (s : St α)
  | first (s : First.State α)
  | last (s : Last.State α)
  | limit (s : Limit.State α)

/-- `newWindowAggregateArrayCursor(agg, window, cursor)` over the input `inp`
    (`newWindowFirst/LastArrayCursor` fall back to the limit cursor for the zero window). -/
def Cursor.new {α} (agg : Agg) (w : Win) (inp : List (List (Pt α))) : Cursor α :=
  match agg with
  | .first => if w.isZero then .limit ⟨inp, false⟩ else .first ⟨⟨[], inp⟩, none⟩
  | .last => if w.isZero then .limit ⟨inp, false⟩ else .last ⟨⟨[], inp⟩, none⟩
  | a => .fold a ⟨[], inp⟩

def Cursor.next {α} (B : Nat) (o : Ops α) (w : Win) : Cursor α → Option (Cursor α × List (Pt α))
  | .fold .count s => let r := Fold.next B (countF o) w s; some (.fold .count r.1, r.2)
  | .fold .sum s => let r := Fold.next B (sumF o) w s; some (.fold .sum r.1, r.2)
  | .fold .min s => let r := Fold.next B (minF o) w s; some (.fold .min r.1, r.2)
  | .fold .max s => let r := Fold.next B (maxF o) w s; some (.fold .max r.1, r.2)
  | .fold .mean s => let r := Fold.next B (meanF o) w s; some (.fold .mean r.1, r.2)
  | .fold _ _ => none      -- not constructed by `Cursor.new`
  | .first s => let r := First.next B w s; some (.first r.1, r.2)
  | .last s => (Last.next B w s).map fun r => (.last r.1, r.2)
  | .limit s => let r := Limit.next s; some (.limit r.1, r.2)

/-! ### the request level: storage/reads/aggregate_resultset.go `createCursor` -/

/-- `interval.NewWindow(convertNsecs(every), convertNsecs(every), convertNsecs(offset))` and the
    `everyDur.Nanoseconds() == math.MaxInt64` special case.  `none` = NewWindow's error
    (`every = 0`: "cannot be zero"; `every < 0`: "cannot be negative"). -/
def reqWin (every offset : Int) : Option Win :=
  if every ≤ 0 then none
  else if every = maxInt64 then some Win.zero
  else some (Win.ofWindow ⟨every, every, offset⟩)

/-- the multi-shard array cursor hands the window cursor the shards' arrays one after the
    other (an exhausted shard is skipped): the chunk stream is the concatenation. For the
    `last`-without-window request the result set asks for a *descending* cursor
    (`IsLastDescendingAggregateOptimization`): same points, reverse order. -/
def Cursor.newReq {α} (agg : Agg) (w : Win) (shards : List (List (List (Pt α)))) : Cursor α :=
  let inp := shards.flatten.filter (fun c => !c.isEmpty)
  if agg = .last ∧ w.isZero then Cursor.new agg w (inp.reverse.map List.reverse)
  else Cursor.new agg w inp

/-- What the harness does: `Next()` until an empty array comes back (at most `fuel` calls). -/
def drain {σ β : Type} (next : σ → Option (σ × List β)) : Nat → σ → Option (List (List β))
  | 0, _ => some []
  | n + 1, s =>
    match next s with
    | none => none
    | some (s', o) =>
      if o.isEmpty then some []
      else (drain next n s').map (o :: ·)

end Influx.WindowAgg
