/-
  Model.Snowflake — `/repo/pkg/snowflake/gen.go` `Generator.Next` as a state
  machine of atomic steps, for any number of concurrent callers.

      for i := 0; i < 100; i++ {
        t := (now() - epoch) & timeMask                         -- step `readClock`
        current := atomic.LoadUint64(&g.state)                  -- step `load`
        currentTime := current >> timeShift & timeMask
        currentSeq := current & sequenceMask
        switch {
        case t > currentTime:            state = t << timeShift
        case currentSeq == sequenceMask: state = (currentTime + 1) << timeShift
        default:                         state = current + 1 }
        if atomic.CompareAndSwapUint64(&g.state, current, state) { break }   -- step `cas`
        state = 0
      }
      if state == 0 { state = atomic.AddUint64(&g.state, 1) }   -- step `fallback`
      return state | g.machine

  The shared word `g.state` and all locals are `uint64`, modelled as `Nat` with
  explicit truncation `u64`.  The clock reading `now()` is an arbitrary input of
  each `readClock` step (no monotonicity is assumed).  The bit-width constants
  come from the translator (`Influx.Generated.IDGen`).
-/
import Influx.Generated.IDGen

namespace Influx.Model.Snowflake
open Influx.Generated.IDGen

/-- truncation of `uint64` arithmetic -/
def u64 (n : Nat) : Nat := n % 2 ^ 64

/-- `New(machineID)`: panics (`none`) unless `0 ≤ machineID ≤ serverMax`;
    `machine: uint64(machineID << serverShift)`. -/
def newMachine (machineID : Int) : Option Nat :=
  if machineID < 0 ∨ machineID > (serverMax : Int) then none
  else some (machineID.toNat <<< serverShift)

/-- `t := (now() - epoch) & timeMask` for a `uint64` clock reading `now`. -/
def tOf (now : Nat) : Nat := u64 (u64 now + 2 ^ 64 - epoch) &&& timeMask

/-- the `switch`: the state a loop iteration proposes, given its `t` and the loaded `current`. -/
def propose (t current : Nat) : Nat :=
  let currentTime := (current >>> timeShift) &&& timeMask
  let currentSeq := current &&& sequenceMask
  if t > currentTime then u64 (t <<< timeShift)
  else if currentSeq = sequenceMask then u64 ((currentTime + 1) <<< timeShift)
  else u64 (current + 1)

/-- where a caller is inside `Next` -/
inductive PC where
  | idle                               -- not inside `Next`
  | top (i : Nat)                      -- loop head, `i` failed attempts so far: about to read the clock
  | gotT (i t : Nat)                   -- about to `atomic.LoadUint64`
  | loaded (i t current : Nat)         -- about to `atomic.CompareAndSwapUint64`
  | fallback                           -- loop left with `state == 0`: about to `atomic.AddUint64`
deriving DecidableEq, Repr

/-- the number of CAS attempts (`i < 100`) -/
def maxTries : Nat := 100

structure Sys where
  g : Nat                              -- `g.state`
  machine : Nat                        -- `g.machine`
  pc : Nat → PC                        -- per caller
  out : List Nat                       -- values returned so far, oldest first
  /-- ghost: the values of `state` (before `| machine`) behind `out` -/
  raw : List Nat
  /-- ghost, sticky: a step happened that the distinctness theorem excludes
      (time field exhausted on a bump, or the fallback add carried out of the sequence bits) -/
  bad : Bool

def Sys.init (g machine : Nat) : Sys :=
  { g := g, machine := machine, pc := fun _ => .idle, out := [], raw := [], bad := false }

def setPC (pc : Nat → PC) (tid : Nat) (p : PC) : Nat → PC :=
  fun j => if j = tid then p else pc j

/-- One atomic step of caller `tid`; `now` is the clock reading used if the step reads the clock. -/
def step (s : Sys) (tid now : Nat) : Sys :=
  match s.pc tid with
  | .idle => { s with pc := setPC s.pc tid (.gotT 0 (tOf now)) }          -- call; i = 0 < 100; read clock
  | .top i => { s with pc := setPC s.pc tid (.gotT i (tOf now)) }
  | .gotT i t => { s with pc := setPC s.pc tid (.loaded i t s.g) }
  | .loaded i t cur =>
    let st := propose t cur
    if s.g = cur then
      if st = 0 then
        -- CAS succeeded with the wrapped value 0: `state == 0` sends the caller to the fallback too
        { s with g := st, pc := setPC s.pc tid .fallback, bad := true }
      else
        { s with g := st, pc := setPC s.pc tid .idle,
                 out := s.out ++ [st ||| s.machine], raw := s.raw ++ [st] }
    else if i + 1 < maxTries then { s with pc := setPC s.pc tid (.top (i + 1)) }
    else { s with pc := setPC s.pc tid .fallback }
  | .fallback =>
    let st := u64 (s.g + 1)
    { s with g := st, pc := setPC s.pc tid .idle,
             out := s.out ++ [st ||| s.machine], raw := s.raw ++ [st],
             bad := s.bad || decide (s.g &&& sequenceMask = sequenceMask) }

/-- a schedule: which caller moves, and what the clock shows if it looks -/
abbrev Sched := List (Nat × Nat)

def run (s : Sys) : Sched → Sys
  | [] => s
  | (tid, now) :: rest => run (step s tid now) rest

/-- Sequential use: caller 0 runs one whole `Next` alone with clock reading `now`
    (call+clock, load, CAS, and the fallback add if the CAS wrote 0). -/
def nextSeq (s : Sys) (now : Nat) : Sys :=
  let s3 := run s [(0, now), (0, now), (0, now)]
  match s3.pc 0 with
  | .fallback => step s3 0 now
  | _ => s3

/-- the "well-formed" shared words: below 2^64 with the machine-id bits clear -/
def serverBitsClear (g : Nat) : Bool := (g >>> serverShift) &&& serverMax == 0

end Influx.Model.Snowflake
