/-
  Influx.Model.KCRun — from the inputs of a C06 case (files as written + deleted ranges, seek
  time, direction, observed post-sort order) to the model's answer; and the predicate `orderOK`
  on the post-sort order under which the theorems of Influx.Props.C06 are proved.
-/
import Influx.Model.KeyCursor
import Influx.Spec.C06

namespace Influx.KC
open Influx.Generated.KeyCursor Influx.Spec.C06

/-- the file as the reader presents it after the deletes were applied one by one
    (TSMReader.DeleteRange → Tombstoner → indirectIndex.DeleteRange).  The payload of every
    point is the file's index.  `none`: an empty block (tsmWriter.Write ignores those; the
    generator never emits one). -/
def fileState (fi : Nat) (f : FileSpec) : Option (FileState Nat) :=
  (mkFile (f.blocks.map fun b => b.map fun ts => (ts, fi))).map fun st => f.deletes.foldl applyDelete st

def fileStatesFrom (i : Nat) : List FileSpec → Option (List (FileState Nat))
  | [] => some []
  | f :: fs => do
    let st ← fileState i f
    let rest ← fileStatesFrom (i + 1) fs
    pure (st :: rest)

def fileStates (files : List FileSpec) : Option (List (FileState Nat)) := fileStatesFrom 0 files

/-! ## side conditions of the theorems (all decidable; the oracle reports them as tags) -/

def sortedInts : List Int → Bool
  | [] => true
  | [_] => true
  | a :: b :: r => decide (a < b) && sortedInts (b :: r)

/-- what the TSM writer guarantees of the blocks of one key in one file: no empty block,
    timestamps strictly ascending within and across the blocks, int64 values -/
def fileOK (f : FileSpec) : Bool :=
  f.blocks.all (fun b => !b.isEmpty) && sortedInts f.blocks.flatten &&
    f.blocks.flatten.all fun ts => decide (minI64 ≤ ts) && decide (ts ≤ maxI64)

def filesOK (files : List FileSpec) : Bool := files.all fileOK

/-- the seek time is an int64 other than the extreme at which `t - 1` / `t + 1` wraps (F3) -/
def seekOK (t : Int) (asc : Bool) : Bool :=
  if asc then decide (minI64 < t) && decide (t ≤ maxI64) else decide (minI64 ≤ t) && decide (t < maxI64)

/-- OrderOK: whenever the entries of two locations overlap in time, the one earlier in `seeks`
    comes from the older file.  (Nothing is required of non-overlapping locations.) -/
def orderOK {V : Type} : List (Block V) → Bool
  | [] => true
  | b :: rest =>
    rest.all (fun c => !OverlapsTimeRange b.entry c.entry.MinTime c.entry.MaxTime || decide (b.file < c.file))
      && orderOK rest

/-! ## sort.Sort for at most 12 elements

  Go's sort.Sort (pdqsort) runs `insertionSort(data, 0, n)` when `n <= 12`
  (sort/zsortinterface.go).  That much of it is modelled, so that for up to 12 locations the
  order of `seeks` is a THEOREM (Influx.Props.C06.C06_insertion) instead of a hypothesis; the
  oracle reports whether the observed order is this one. -/

/-- ascLocations.Less / descLocations.Less (file index order = path order) -/
def lessLoc {V : Type} (asc : Bool) (a b : Block V) : Bool :=
  if OverlapsTimeRange a.entry b.entry.MinTime b.entry.MaxTime then decide (a.file < b.file)
  else if asc then decide (a.entry.MinTime < b.entry.MinTime)
  else decide (a.entry.MaxTime < b.entry.MaxTime)

/-- inner loop of insertionSort: `for j := i; j > a && less(j, j-1); j-- { swap(j, j-1) }`;
    the sorted prefix is passed reversed (its last element first) -/
def insGo {α : Type} (less : α → α → Bool) (x : α) : List α → List α
  | [] => [x]
  | y :: ys => if less x y then y :: insGo less x ys else x :: y :: ys

/-- sort.insertionSort -/
def insertionSort {α : Type} (less : α → α → Bool) (l : List α) : List α :=
  (l.foldl (fun rp x => insGo less x rp) []).reverse

/-- `seeks` as newKeyCursor builds it when sort.Sort is an insertion sort -/
def seeksSorted (files : List FileSpec) (t : Int) (asc : Bool) : Option (List (Block Nat)) :=
  (fileStates files).map fun sts => insertionSort (lessLoc asc) (locations sts t asc)

inductive RunErr where
  | emptyBlock | badOrder | stuck
deriving Repr, DecidableEq

/-- the model's answer for one `K` op -/
def modelRead (files : List FileSpec) (t : Int) (asc : Bool) (order : List (Nat × Nat)) :
    Except RunErr (List (Vals Nat)) :=
  match fileStates files with
  | none => .error .emptyBlock
  | some sts =>
    match keyCursorRead sts t asc order with
    | .error .badOrder => .error .badOrder
    | .error .stuck => .error .stuck
    | .ok bs => .ok bs

/-- the post-sort `seeks` for an order, when it is a permutation of the model's locations -/
def seeksOf (files : List FileSpec) (t : Int) (asc : Bool) (order : List (Nat × Nat)) :
    Option (List (Block Nat)) :=
  (fileStates files).bind fun sts => applyOrder (locations sts t asc) order

end Influx.KC
