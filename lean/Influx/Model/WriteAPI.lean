/-
  Influx.Model.WriteAPI — executable model of the /api/v2/write request path.

  Written from the code as it is (quirks included):
    kit/io/limited_read_closer.go   LimitedReadCloser.Read / Close      → `LRC.read`, `LRC.close`
    http/points/batch_reader.go     BatchReadCloser                     → `openBody`
    http/points/points_parser.go    readAll, Parser.parsePoints         → `readAll`, `parsePoints`
    io.ReadAll (Go std)             read until a non-nil error          → `ioReadAll`
    http/write_handler.go           handleWrite, decodeWriteRequest,
                                    findBucket                          → `handle`, `findBucket`
    kit/transport/http/error_handler.go  code → status table            → `Code.status`

  Abstract (not modelled, enter as parameters):
    * gzip: the *decoded* byte stream is the source `Src`; how the decoder
      cuts it into `Read` results is an arbitrary script (`chunks`, `eager`),
      a corrupt stream ends in an error instead of EOF (`term`);
    * the line-protocol parser (`Parser`: the points and the malformed lines of
      a byte string) — models.ParsePointsWithPrecision, covered by C11/C12;
    * organization / bucket lookup services and the points writer: their
      answers are part of the request description `Req`.

  `LRC.read` follows the code *after* fixes/C32-limited-read-closer-exact-limit.patch
  (DESIGN §6 F13): at `N <= 0` the wrapped reader is probed for one byte and the
  limit is flagged as exceeded only if that byte exists.  `LRC.readOld` is the
  code before the patch, kept for the witness theorem `F13_old_code_rejects_exact_limit`.
-/
namespace Influx.WriteAPI

/-- error value returned by a `Read` -/
inductive RErr where
  | eof | other | gzHeader | gzChecksum
deriving DecidableEq, Repr, Inhabited

/-- The (decoded) request body as an `io.ReadCloser`: the bytes still to be
    delivered and a script saying how the reader cuts them. -/
structure Src where
  data : List Nat
  /-- the i-th `Read` on non-empty data delivers at most `chunks[i]` bytes; script exhausted: as many as asked -/
  chunks : List Nat := []
  /-- the terminating error is returned together with the last bytes -/
  eager : Bool := false
  /-- how the stream ends: `eof` = cleanly -/
  term : RErr := .eof
  /-- `Close` returns an error -/
  closeErr : Bool := false
  /-- number of `Close` calls seen -/
  closes : Nat := 0
deriving Repr

/-- how many bytes the next `Read(p)`, `len(p) = k`, may deliver at most -/
def Src.chunk (s : Src) (k : Nat) : Nat :=
  match s.chunks with
  | [] => k
  | c :: _ => min c k

theorem Src.chunk_le (s : Src) (k : Nat) : s.chunk k ≤ k := by
  unfold Src.chunk; split <;> omega

/-- one `Read(p)` with `len(p) = k` on the wrapped reader -/
def Src.read (s : Src) (k : Nat) : Src × List Nat × Option RErr :=
  if s.data.isEmpty then (s, [], some s.term) else
  let n := min (s.chunk k) s.data.length
  ({ s with data := s.data.drop n, chunks := s.chunks.tail }, s.data.take n,
    if n = s.data.length ∧ s.eager then some s.term else none)

def Src.close (s : Src) : Src × Option RErr :=
  ({ s with closes := s.closes + 1 }, if s.closeErr then some .other else none)

/-- error value returned by `Close` -/
inductive CErr where
  | limit            -- io2.ErrReadLimitExceeded
  | under (e : RErr) -- the wrapped reader's Close error
deriving DecidableEq, Repr

/-- kit/io/limited_read_closer.go: type LimitedReadCloser -/
structure LRC where
  r : Src
  n : Int
  err : Option CErr := none
  closed : Bool := false
  limitExceeded : Bool := false
deriving Repr

/-- NewLimitedReadCloser -/
def LRC.new (r : Src) (n : Int) : LRC := { r := r, n := n }

/-- `LimitedReadCloser.Read` (repaired code):
    ```
    if l.N <= 0 {
        if l.limitExceeded { return 0, io.EOF }
        var probe [1]byte
        n, err := l.R.Read(probe[:])
        if n > 0 { l.limitExceeded = true; return 0, io.EOF }
        return 0, err
    }
    if int64(len(p)) > l.N { p = p[0:l.N] }
    n, err = l.R.Read(p); l.N -= int64(n); return
    ``` -/
def LRC.read (l : LRC) (k : Nat) : LRC × List Nat × Option RErr :=
  if l.n ≤ 0 then
    if l.limitExceeded then (l, [], some .eof) else
    match l.r.read 1 with
    | (r', bs, e) =>
      if bs.length > 0 then ({ l with r := r', limitExceeded := true }, [], some .eof)
      else ({ l with r := r' }, [], e)
  else
    let k' := if (k : Int) > l.n then l.n.toNat else k
    match l.r.read k' with
    | (r', bs, e) => ({ l with r := r', n := l.n - bs.length }, bs, e)

/-- `LimitedReadCloser.Read` as it was before the repair (F13):
    `if l.N <= 0 { l.limitExceeded = true; return 0, io.EOF }`. -/
def LRC.readOld (l : LRC) (k : Nat) : LRC × List Nat × Option RErr :=
  if l.n ≤ 0 then ({ l with limitExceeded := true }, [], some .eof)
  else
    let k' := if (k : Int) > l.n then l.n.toNat else k
    match l.r.read k' with
    | (r', bs, e) => ({ l with r := r', n := l.n - bs.length }, bs, e)

/-- `LimitedReadCloser.Close` -/
def LRC.close (l : LRC) : LRC × Option CErr :=
  let l := if l.limitExceeded then { l with err := some .limit } else l
  if l.closed then (l, l.err) else
  match l.r.close with
  | (r', ce) =>
    let l := { l with r := r' }
    let l := match ce, l.err with
      | some e, none => { l with err := some (.under e) }
      | _, _ => l
    ({ l with closed := true }, l.err)

/-- one call on a LimitedReadCloser used on its own -/
inductive Step where
  | read (k : Nat)
  | close
deriving DecidableEq, Repr

/-- what the call returned -/
inductive StepRes where
  | rd (bs : List Nat) (e : Option RErr)
  | cl (e : Option CErr)
deriving Repr

/-- a sequence of Read / Close calls on the (repaired) LimitedReadCloser -/
def LRC.runSteps (l : LRC) : List Step → LRC × List StepRes
  | [] => (l, [])
  | .read k :: ss =>
    match l.read k with
    | (l', bs, e) => let (lf, rs) := LRC.runSteps l' ss; (lf, .rd bs e :: rs)
  | .close :: ss =>
    match l.close with
    | (l', e) => let (lf, rs) := LRC.runSteps l' ss; (lf, .cl e :: rs)

/-- what `points.BatchReadCloser` returns: the source itself (limit ≤ 0) or
    a LimitedReadCloser around it -/
inductive Body where
  | raw (s : Src)
  | limited (l : LRC)
deriving Repr

def Body.src : Body → Src
  | .raw s => s
  | .limited l => l.r

def Body.read (old : Bool) : Body → Nat → Body × List Nat × Option RErr
  | .raw s, k => match s.read k with | (s', bs, e) => (.raw s', bs, e)
  | .limited l, k =>
    match (if old then l.readOld k else l.read k) with
    | (l', bs, e) => (.limited l', bs, e)

def Body.close : Body → Body × Option CErr
  | .raw s => match s.close with | (s', e) => (.raw s', e.map .under)
  | .limited l => match l.close with | (l', e) => (.limited l', e)

/-- BatchReadCloser's `if maxBatchSizeBytes > 0 { rc = NewLimitedReadCloser(rc, max) }` -/
def openBody (s : Src) (limit : Int) : Body :=
  if limit > 0 then .limited (LRC.new s limit) else .raw s

/-- length of the buffer io.ReadAll passes to the next `Read`: always ≥ 1;
    the actual sizes depend on Go's slice growth and are a script here. -/
def bufSize : List Nat → Nat
  | [] => 512
  | b :: _ => b + 1

theorem Src.read_progress (s : Src) (k : Nat) (hk : 0 < k) :
    (s.read k).2.2 = none → (s.read k).1.chunks.length + (s.read k).1.data.length
      < s.chunks.length + s.data.length := by
  unfold Src.read Src.chunk
  cases hd : s.data with
  | nil => simp
  | cons a as =>
    cases hc : s.chunks with
    | nil =>
      simp [List.isEmpty]
      intro _
      omega
    | cons c cs =>
      simp [List.isEmpty]
      intro _
      omega

theorem Body.read_progress (old : Bool) (b : Body) (k : Nat) (hk : 0 < k) :
    (b.read old k).2.2 = none → (b.read old k).1.src.chunks.length + (b.read old k).1.src.data.length
      < b.src.chunks.length + b.src.data.length := by
  cases b with
  | raw s =>
    simp only [Body.read, Body.src]
    exact Src.read_progress s k hk
  | limited l =>
    simp only [Body.read, Body.src]
    cases old
    · simp only [Bool.false_eq_true, ↓reduceIte, LRC.read]
      split
      · split
        · simp
        · have := Src.read_progress l.r 1 (by omega)
          split
          · simp
          · simpa using this
      · have : 0 < (if (k : Int) > l.n then l.n.toNat else k) := by split <;> omega
        simpa using Src.read_progress l.r _ this
    · simp only [↓reduceIte, LRC.readOld]
      split
      · simp
      · have : 0 < (if (k : Int) > l.n then l.n.toNat else k) := by split <;> omega
        simpa using Src.read_progress l.r _ this

/-- Go's `io.ReadAll`: `Read` until an error; EOF is success.  `bufs` scripts
    the buffer lengths. Returns the reader's final state and `(bytes, err)`. -/
def ioReadAll (old : Bool) (b : Body) (bufs : List Nat) (acc : List Nat) :
    Body × List Nat × Option RErr :=
  match h : b.read old (bufSize bufs) with
  | (b', bs, none) => ioReadAll old b' bufs.tail (acc ++ bs)
  | (b', bs, some .eof) => (b', acc ++ bs, none)
  | (b', bs, some e) => (b', acc ++ bs, some e)
termination_by b.src.chunks.length + b.src.data.length
decreasing_by
  have hk : 0 < bufSize bufs := by unfold bufSize; split <;> omega
  have := Body.read_progress old b (bufSize bufs) hk
  rw [h] at this
  exact this rfl

/-- error of points_parser.go `readAll` -/
inductive ReadErr where
  | tooLarge          -- ErrMaxBatchSizeExceeded
  | rd (e : RErr)     -- error of a Read
  | cl (e : RErr)     -- error of Close
deriving DecidableEq, Repr

/-- http/points/points_parser.go `readAll`: io.ReadAll, then the deferred
    Close whose error is used only when reading succeeded. -/
def readAll (old : Bool) (b : Body) (bufs : List Nat) : Body × Except ReadErr (List Nat) :=
  match ioReadAll old b bufs [] with
  | (b1, data, rerr) =>
    match b1.close with
    | (b2, cerr) =>
      match rerr with
      | some e => (b2, .error (.rd e))
      | none =>
        match cerr with
        | some .limit => (b2, .error .tooLarge)
        | some (.under e) => (b2, .error (.cl e))
        | none => (b2, .ok data)

/-- kit/platform/errors codes (+ `plain`: an error that is not a *errors.Error) -/
inductive Code where
  | internal | notImplemented | invalid | unprocessable | emptyValue | conflict | notFound
  | unavailable | forbidden | tooManyRequests | unauthorized | methodNotAllowed | tooLarge
  | plain
deriving DecidableEq, Repr, Inhabited

/-- kit/transport/http/error_handler.go `influxDBErrorToStatusCode` -/
def Code.status : Code → Nat
  | .internal => 500 | .notImplemented => 501 | .invalid => 400 | .unprocessable => 422
  | .emptyValue => 400 | .conflict => 422 | .notFound => 404 | .unavailable => 503
  | .forbidden => 403 | .tooManyRequests => 429 | .unauthorized => 401
  | .methodNotAllowed => 405 | .tooLarge => 413 | .plain => 500

/-- `errors.ErrorCode(err)`: what ends up in the JSON body -/
def Code.wire : Code → Code
  | .plain => .internal
  | c => c

/-- what the points writer answers -/
inductive WriterRes where
  | ok | partialWrite (dropped : Nat) | fail
deriving DecidableEq, Repr

/-- abstract line-protocol parser: the points of a byte string, in order, and
    its malformed lines, in order (models.ParsePointsWithPrecision returns an
    error iff `bad` is non-empty). -/
structure Parser (Pt Ln : Type) where
  points : List Nat → List Pt
  bad : List Nat → List Ln

/-- one write request, with the answers of the services it will meet -/
structure Req where
  hasAuth : Bool := true        -- an authorizer is on the context
  precisionOK : Bool := true    -- models.ValidPrecision(precision)
  bucketGiven : Bool := true    -- ?bucket= is non-empty
  gzip : Bool := false          -- Content-Encoding is gzip / x-gzip
  gzipOpen : Option RErr := none -- error of gzip.NewReader (bad / missing header)
  limit : Int                   -- maxBatchSizeBytes
  src : Src                     -- the decoded body
  org : Option Code := none     -- error of OrganizationService.FindOrganization
  bucketIsID : Bool := false    -- ?bucket= parses as a platform.ID
  bucketByID : Option Code := none    -- error of FindBucket{ID}
  bucketByName : Option Code := none  -- error of FindBucket{Name}
  permitted : Bool := true      -- the authorizer's permission set allows the bucket write
  writer : WriterRes := .ok
deriving Repr

/-- what is observable of one request -/
structure Resp (Pt Ln : Type) where
  status : Nat
  code : Option Code := none      -- `code` of the JSON error body
  named : List Ln := []           -- lines named `unable to parse '…'` in the message
  dropped : Option Nat := none    -- `dropped=N` in the message
  writes : List (List Pt) := []   -- arguments of the PointsWriter.WritePoints calls, in order

def errResp {Pt Ln : Type} (c : Code) : Resp Pt Ln := { status := c.status, code := some c.wire }

/-- WriteHandler.findBucket -/
def findBucket (r : Req) : Option Code :=
  if r.bucketIsID then
    match r.bucketByID with
    | none => none
    | some c => if c.wire ≠ .notFound then some c else r.bucketByName
  else r.bucketByName

/-- Parser.parsePoints' mapping of a readAll error to a code -/
def readErrCode : ReadErr → Code
  | .tooLarge => .tooLarge
  | .rd .gzHeader | .rd .gzChecksum | .cl .gzHeader | .cl .gzChecksum => .invalid
  | _ => .internal

/-- The early returns of WriteHandler.handleWrite before the body is touched, in
    the order of the code: pcontext.GetAuthorizer, decodeWriteRequest (precision,
    bucket parameter, gzip.NewReader inside BatchReadCloser — a raw, non-platform
    error), queryOrganization, findBucket, checkBucketWritePermissions. -/
def gate (r : Req) : Option Code :=
  if !r.hasAuth then some .internal else
  if !r.precisionOK then some .invalid else
  if !r.bucketGiven then some .notFound else
  if r.gzip && r.gzipOpen.isSome then some .plain else
  match r.org with
  | some c => some c
  | none =>
  match findBucket r with
  | some c => some c
  | none => if !r.permitted then some .forbidden else none

/-- Parser.parsePoints after readAll succeeded, then PointsWriter.WritePoints and
    the status selection of handleWrite. -/
def afterRead {Pt Ln : Type} (P : Parser Pt Ln) (w : WriterRes) (data : List Nat) : Resp Pt Ln :=
  if !(P.bad data).isEmpty then { (errResp .invalid : Resp Pt Ln) with named := P.bad data } else
  let pts := P.points data
  match w with
  | .ok => { status := 204, writes := [pts] }
  | .partialWrite k => { (errResp .unprocessable : Resp Pt Ln) with dropped := some k, writes := [pts] }
  | .fail => { (errResp .internal : Resp Pt Ln) with writes := [pts] }

/-- the answer, given what reading the body gave (Parser.parsePoints' error mapping) -/
def finish {Pt Ln : Type} (P : Parser Pt Ln) (w : WriterRes) : Except ReadErr (List Nat) → Resp Pt Ln
  | .error e => errResp (readErrCode e)
  | .ok data => afterRead P w data

/-- WriteHandler.handleWrite -/
def handle {Pt Ln : Type} (old : Bool) (P : Parser Pt Ln) (r : Req) (bufs : List Nat) : Resp Pt Ln :=
  match gate r with
  | some c => errResp c
  | none => finish P r.writer (readAll old (openBody r.src r.limit) bufs).2

end Influx.WriteAPI
