/-
  Influx.Model.Epoch — tsdb/epoch_tracker.go (`epochTracker`: StartWrite, EndWrite,
  WaitDelete, epochWaiter.Done, epochDeleteState.pending) and tsdb/guard.go
  (`guard.Matches` for a guard built by `newGuard(min, max, nil, nil)`, the one
  `Store.DeleteSeriesWithPredicate` installs), as a sequential state machine.
  A write would `Wait` on exactly the active guards that match its points
  (`Store.WriteToShard`); a delete's `Wait` returns iff its `pending` is 0.
-/
namespace Influx.Model.Epoch

/-- `epochDeleteState` + its key in `epochTracker.deletes` + the guard's range -/
structure Del where
  id : Int
  gen : Nat
  lo : Int
  hi : Int
  pending : Int
deriving Repr, DecidableEq

structure Wr where
  id : Int
  gen : Nat
deriving Repr, DecidableEq

structure Tracker where
  epoch : Nat := 0
  largest : Nat := 0
  writes : Int := 0
  deletes : List Del := []
  /-- writes in flight (the caller's `gen`s) -/
  inflight : List Wr := []
deriving Repr

inductive EOp where
  | startWrite (id : Int) (times : List Int)
  | endWrite (id : Int)
  | waitDelete (id : Int) (lo hi : Int)
  | pending (id : Int)
  | done (id : Int)
deriving Repr

inductive EAns where
  | ok
  | badOp
  | started (gen : Nat) (wait : List Int)
  | installed (gen : Nat) (pending : Int)
  | pending (n : Int)
deriving Repr, DecidableEq

/-- `guard.Matches(points)` for a guard without names and expression -/
def guardMatches (d : Del) (times : List Int) : Bool := times.any fun t => d.lo ≤ t ∧ t ≤ d.hi

def insertAsc (x : Int) : List Int → List Int
  | [] => [x]
  | y :: ys => if x ≤ y then x :: y :: ys else y :: insertAsc x ys

def sortAsc (l : List Int) : List Int := l.foldr insertAsc []

def step (t : Tracker) : EOp → Tracker × EAns
  | .startWrite id times =>
    if t.inflight.any (·.id = id) then (t, .badOp) else
    let gen := t.epoch + 1
    -- guards of the deletes registered at this moment; those that match make the write wait
    let wait := sortAsc ((t.deletes.filter fun d => guardMatches d times).map (·.id))
    ({ t with epoch := gen, writes := t.writes + 1, inflight := t.inflight ++ [⟨id, gen⟩] }, .started gen wait)
  | .endWrite id =>
    match t.inflight.find? (·.id = id) with
    | none => (t, .badOp)
    | some w =>
      let deletes := if w.gen ≤ t.largest then
          t.deletes.map fun d => if w.gen > d.gen then d else { d with pending := d.pending - 1 }
        else t.deletes
      ({ t with deletes := deletes, writes := t.writes - 1, inflight := t.inflight.filter (·.id ≠ id) }, .ok)
  | .waitDelete id lo hi =>
    if t.deletes.any (·.id = id) then (t, .badOp) else
    let gen := t.epoch + 1
    ({ t with epoch := gen, largest := gen, deletes := t.deletes ++ [⟨id, gen, lo, hi, t.writes⟩] },
      .installed gen t.writes)
  | .pending id =>
    match t.deletes.find? (·.id = id) with
    | none => (t, .badOp)
    | some d => (t, .pending d.pending)
  | .done id =>
    if t.deletes.any (·.id = id) then ({ t with deletes := t.deletes.filter (·.id ≠ id) }, .ok)
    else (t, .badOp)

def run : Tracker → List EOp → List (EOp × EAns)
  | _, [] => []
  | t, op :: ops => (op, (step t op).2) :: run (step t op).1 ops

end Influx.Model.Epoch
