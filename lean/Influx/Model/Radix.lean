/-
  Model.Radix — pkg/radix/tree.go (fork of armon/go-radix without updates, int values).

  The pointer structure `node{leaf, prefix, edges}` is the mutual inductive `Node`/`Edges`;
  the loops of `Insert`, `Get`, `deletePrefix`, `Minimum`, `Maximum`, `recursiveWalk` become
  structural recursions that visit the same nodes in the same order.

  * `getEdge`: first edge with the label (the code searches linearly below 16 edges and by
    bisection above; both agree because `addEdge` keeps the labels sorted and unique).
  * `addEdge`: inserts before the first edge whose label is ≥ the new label (the bisection point).
  * Quirks kept: `Insert` never updates an existing key; `deletePrefix` empties the node where
    the prefix ends but leaves that (now empty) node hanging on its parent, so later
    `Minimum`/`Maximum` can run into an empty node and report "not found" (see Props.C36).
-/
namespace Influx.Radix

abbrev Key := List Nat

structure Leaf where
  key : Key
  val : Int
deriving Repr, DecidableEq

mutual
inductive Node where
  | mk (leaf : Option Leaf) (pre : Key) (edges : Edges)
inductive Edges where
  | nil
  | cons (label : Nat) (node : Node) (rest : Edges)
end

namespace Node
def leaf : Node → Option Leaf | .mk l _ _ => l
def pre : Node → Key | .mk _ p _ => p
def edges : Node → Edges | .mk _ _ e => e
end Node

def Edges.length : Edges → Nat
  | .nil => 0
  | .cons _ _ r => r.length + 1

/-- `addEdge`: keep the labels sorted. -/
def Edges.add (l : Nat) (n : Node) : Edges → Edges
  | .nil => .cons l n .nil
  | .cons l' n' r => if l' < l then .cons l' n' (Edges.add l n r) else .cons l n (.cons l' n' r)

/-- common prefix of two keys and what remains of each (`longestPrefix` + the slicing). -/
def splitCommon : Key → Key → Key × Key × Key
  | a :: as, b :: bs =>
    if a = b then
      let (c, ra, rb) := splitCommon as bs
      (a :: c, ra, rb)
    else ([], a :: as, b :: bs)
  | as, bs => ([], as, bs)

/-- `bytes.HasPrefix(s, p)` with the remainder of `s`. -/
def stripPrefix : Key → Key → Option Key
  | s, [] => some s
  | [], _ :: _ => none
  | a :: as, b :: bs => if a = b then stripPrefix as bs else none

/-- result of `Insert`: value returned, "inserted" flag -/
structure InsRes where
  val : Int
  inserted : Bool

mutual
/-- one turn of `Insert`'s loop at node `n` with the unconsumed part `search` of the key `s`. -/
def Node.insert : Node → Key → Key → Int → Node × InsRes
  | .mk leaf pre edges, search, s, v =>
    match search with
    | [] =>
      match leaf with
      | some l => (.mk leaf pre edges, ⟨l.val, false⟩)
      | none => (.mk (some ⟨s, v⟩) pre edges, ⟨v, true⟩)
    | c :: rest =>
      match Edges.insertAt edges c (c :: rest) s v with
      | some (edges', r) => (.mk leaf pre edges', r)
      | none =>
        -- no edge: create one
        (.mk leaf pre (Edges.add c (.mk (some ⟨s, v⟩) (c :: rest) .nil) edges), ⟨v, true⟩)
/-- look for the edge labelled `c`; `none` = `getEdge` returned nil. -/
def Edges.insertAt : Edges → Nat → Key → Key → Int → Option (Edges × InsRes)
  | .nil, _, _, _, _ => none
  | .cons l child r, c, search, s, v =>
    if l = c then
      match splitCommon search child.pre with
      | (_, restS, []) =>
        -- commonPrefix == len(n.prefix): descend
        let (child', res) := Node.insert child restS s v
        some (.cons l child' r, res)
      | (common, restS, y :: ys) =>
        -- split the node: `mid` takes the common prefix, the old node keeps the rest
        let old := Node.mk child.leaf (y :: ys) child.edges
        let mid :=
          match restS with
          | [] => Node.mk (some ⟨s, v⟩) common (Edges.add y old .nil)
          | x :: xs =>
            Node.mk none common
              (Edges.add x (.mk (some ⟨s, v⟩) (x :: xs) .nil) (Edges.add y old .nil))
        some (.cons l mid r, ⟨v, true⟩)
    else
      match Edges.insertAt r c search s v with
      | some (r', res) => some (.cons l child r', res)
      | none => none
end

mutual
/-- `Get` at node `n` with the unconsumed `search`. -/
def Node.get : Node → Key → Option Int
  | .mk leaf _ edges, search =>
    match search with
    | [] => leaf.map (·.val)
    | c :: rest => Edges.get edges c (c :: rest)
def Edges.get : Edges → Nat → Key → Option Int
  | .nil, _, _ => none
  | .cons l child r, c, search =>
    if l = c then
      match stripPrefix search child.pre with
      | some rest => Node.get child rest
      | none => none
    else Edges.get r c search
end

mutual
/-- `recursiveWalk`: pre-order, leaf first, then the edges in order. -/
def Node.walk : Node → List Leaf
  | .mk leaf _ edges =>
    (match leaf with | some l => [l] | none => []) ++ Edges.walk edges
def Edges.walk : Edges → List Leaf
  | .nil => []
  | .cons _ child r => Node.walk child ++ Edges.walk r
end

mutual
/-- `Minimum` -/
def Node.min : Node → Option Leaf
  | .mk (some l) _ _ => some l
  | .mk none _ .nil => none
  | .mk none _ (.cons _ child _) => Node.min child
end

mutual
/-- `Maximum`: follow the last edge while there is one, then the leaf. -/
def Node.max : Node → Option Leaf
  | .mk leaf _ edges =>
    match Edges.max edges with
    | none => leaf
    | some r => r
/-- `none` when there is no edge, else the result below the LAST edge. -/
def Edges.max : Edges → Option (Option Leaf)
  | .nil => none
  | .cons _ child .nil => some (Node.max child)
  | .cons _ _ (.cons l c r) => Edges.max (.cons l c r)
end

/-- outcome of `deletePrefix` below an edge list -/
structure DelRes where
  edges : Edges
  count : Nat
  /-- the prefix ended at a direct child (the call that may `mergeChild` its parent) -/
  cleared : Bool

/-- `mergeChild` -/
def mergeChild : Node → Node
  | .mk _ pre (.cons _ child _) => .mk child.leaf (pre ++ child.pre) child.edges
  | n => n

mutual
/-- `deletePrefix(parent, n, prefix)` for a non-empty `prefix`, seen from `n`. -/
def Node.del : Node → Bool → Key → Node × Nat
  | .mk leaf pre edges, isRoot, p =>
    match p with
    | [] => (.mk leaf pre edges, 0)   -- not used: the empty prefix is handled by the caller
    | c :: rest =>
      match Edges.del edges c (c :: rest) with
      | none => (.mk leaf pre edges, 0)
      | some r =>
        let n' := Node.mk leaf pre r.edges
        if r.cleared && !isRoot && r.edges.length == 1 && leaf.isNone then (mergeChild n', r.count)
        else (n', r.count)
def Edges.del : Edges → Nat → Key → Option DelRes
  | .nil, _, _ => none
  | .cons l child r, c, p =>
    if l = c then
      -- `bytes.HasPrefix(child.prefix, prefix) || bytes.HasPrefix(prefix, child.prefix)`
      match stripPrefix child.pre p, stripPrefix p child.pre with
      | none, none => none
      | some (_ :: _), _ =>
        -- len(child.prefix) > len(prefix): the prefix is exhausted inside the edge
        some ⟨.cons l (.mk none child.pre .nil) r, (Node.walk child).length, true⟩
      | _, some [] =>
        some ⟨.cons l (.mk none child.pre .nil) r, (Node.walk child).length, true⟩
      | _, some (x :: xs) =>
        let (child', cnt) := Node.del child false (x :: xs)
        some ⟨.cons l child' r, cnt, false⟩
      | some [], none => none   -- unreachable: equal strings are prefixes of each other
    else
      match Edges.del r c p with
      | some d => some { d with edges := .cons l child d.edges }
      | none => none
end

structure Tree where
  root : Node
  size : Int

def Tree.empty : Tree := ⟨.mk none [] .nil, 0⟩

/-- `Insert` -/
def Tree.insert (t : Tree) (s : Key) (v : Int) : Tree × InsRes :=
  let (root', r) := Node.insert t.root s s v
  (⟨root', if r.inserted then t.size + 1 else t.size⟩, r)

/-- `Get` -/
def Tree.get (t : Tree) (s : Key) : Option Int := Node.get t.root s

/-- `DeletePrefix` -/
def Tree.deletePrefix (t : Tree) (p : Key) : Tree × Nat :=
  match p with
  | [] =>
    let cnt := (Node.walk t.root).length
    (⟨.mk none t.root.pre .nil, t.size - cnt⟩, cnt)
  | _ :: _ =>
    let (root', cnt) := Node.del t.root true p
    (⟨root', t.size - cnt⟩, cnt)

end Influx.Radix
