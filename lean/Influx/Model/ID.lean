/-
  Model.ID — `platform.ID` text encoding (`/repo/kit/platform/id.go`).

  Written from the code as it is:

    func (i *ID) Decode(b []byte) error {
      if len(b) != IDLength { return ErrInvalidIDLength }
      res, err := strconv.ParseUint(unsafeBytesToString(b), 16, 64)
      if err != nil { return ErrInvalidID }
      if *i = ID(res); !i.Valid() { return ErrInvalidID }
      return nil }

    func (i ID) Encode() ([]byte, error) {
      if !i.Valid() { return nil, ErrInvalidID }
      b := make([]byte, hex.DecodedLen(IDLength)); binary.BigEndian.PutUint64(b, uint64(i))
      dst := make([]byte, hex.EncodedLen(len(b))); hex.Encode(dst, b); return dst, nil }

  `strconv.ParseUint(s, 16, 64)` is re-modelled from the Go standard library
  source (strconv/atoi.go): explicit base 16 (so no `0x` prefix and no `_`),
  digits `0-9`, letters through `lower(c) = c | 0x20` — this is what makes
  upper-case digits acceptable —, `d >= base` is a syntax error, the `cutoff`
  and the `n1 < n` overflow tests are kept (they are proved unreachable for 16
  digits).  IDs are `Nat`s; every theorem states `i < 2^64` where it matters.
  `IDLength` comes from the translator (`Influx.Generated.IDGen`).
-/
import Influx.Generated.IDGen

namespace Influx.Model.ID
open Influx.Generated.IDGen

inductive Err where
  | length    -- ErrInvalidIDLength
  | invalid   -- ErrInvalidID
deriving DecidableEq, Repr

/-- strconv: `func lower(c byte) byte { return c | ('x' - 'X') }` -/
def lower (c : UInt8) : UInt8 := c ||| 0x20

/-- one iteration's digit selection of `ParseUint` (base given, so `_` is never accepted):
    `'0' <= c && c <= '9'` → `c - '0'`; `'a' <= lower(c) && lower(c) <= 'z'` → `lower(c) - 'a' + 10`. -/
def digitVal (c : UInt8) : Option Nat :=
  if 48 ≤ c.toNat ∧ c.toNat ≤ 57 then some (c.toNat - 48)
  else if 97 ≤ (lower c).toNat ∧ (lower c).toNat ≤ 122 then some ((lower c).toNat - 97 + 10)
  else none

/-- `cutoff = maxUint64/16 + 1` -/
def cutoff : Nat := (2 ^ 64 - 1) / 16 + 1

/-- the digit loop of `strconv.ParseUint(s, 16, 64)`; `none` = syntax error or range error
    (`Decode` maps both to `ErrInvalidID`). -/
def parseLoop : Nat → List UInt8 → Option Nat
  | n, [] => some n
  | n, c :: cs =>
    match digitVal c with
    | none => none
    | some d =>
      if d ≥ 16 then none                       -- `if d >= byte(base)` → syntax error
      else if n ≥ cutoff then none              -- `if n >= cutoff` → range error
      else if n * 16 + d ≥ 2 ^ 64 then none     -- `n1 < n || n1 > maxVal` → range error
      else parseLoop (n * 16 + d) cs

/-- `strconv.ParseUint(s, 16, 64)` -/
def parseUint16 (s : List UInt8) : Option Nat :=
  if s.isEmpty then none else parseLoop 0 s

/-- `(*ID).Decode` / `DecodeFromString` / `UnmarshalText` / `IDFromString` -/
def decode (b : List UInt8) : Except Err Nat :=
  if b.length ≠ IDLength then .error .length
  else match parseUint16 b with
    | none => .error .invalid
    | some r => if r = 0 then .error .invalid else .ok r

/-- encoding/hex `hextable = "0123456789abcdef"` -/
def hextable (n : Nat) : UInt8 :=
  if n < 10 then UInt8.ofNat (48 + n) else UInt8.ofNat (87 + n)

/-- `binary.BigEndian.PutUint64` into `hex.DecodedLen(IDLength)` = 8 bytes -/
def putUint64BE (v : Nat) : List Nat :=
  [(v >>> 56) % 256, (v >>> 48) % 256, (v >>> 40) % 256, (v >>> 32) % 256,
   (v >>> 24) % 256, (v >>> 16) % 256, (v >>> 8) % 256, v % 256]

/-- `hex.Encode`: `dst[j*2] = hextable[v>>4]; dst[j*2+1] = hextable[v&0x0f]` -/
def hexEncode : List Nat → List UInt8
  | [] => []
  | b :: bs => hextable (b >>> 4) :: hextable (b &&& 0x0f) :: hexEncode bs

/-- `ID.Encode` / `MarshalText` -/
def encode (i : Nat) : Except Err (List UInt8) :=
  if i = 0 then .error .invalid else .ok (hexEncode (putUint64BE i))

/-- `ID.String`: the encoding, or the empty string for the invalid ID -/
def toStr (i : Nat) : List UInt8 :=
  match encode i with
  | .ok s => s
  | .error _ => []

/-- ASCII lower-casing of `A`–`Z` (used only in statements, not by the code) -/
def asciiLower (c : UInt8) : UInt8 :=
  if 65 ≤ c.toNat ∧ c.toNat ≤ 90 then c + 32 else c

/-- `0-9a-f` -/
def isLowerHex (c : UInt8) : Bool :=
  (48 ≤ c.toNat && c.toNat ≤ 57) || (97 ≤ c.toNat && c.toNat ≤ 102)

end Influx.Model.ID
