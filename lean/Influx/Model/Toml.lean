/-
  Model.Toml — the size and duration text forms of `/repo/toml/toml.go`
  (SizeV1/SSizeV1, SizeV2/SSizeV2 = the 2.x `Size`/`SSize` aliases of
  `toml/size_alias.go`, `Duration`), written from the code as it is.

  Re-modelled library code (checked by correspondence only, see checks/C34.json):
  `strconv.ParseUint/ParseInt/AppendUint/AppendInt` (base 10), the three
  regular expressions as explicit scanners, `humanize.ParseBytes` (go-humanize
  v1.0.1) with its float64 arithmetic (`Model.Float`), `strconv.ParseFloat` as
  correctly rounded decimal → binary64, `time.Duration.String` and
  `time.ParseDuration` (Go 1.26), and the BurntSushi/toml v1.4.0 treatment of an
  integer value for a `TextUnmarshaler` target (`unifyText`: `%d` of an int64).

  Text is a list of bytes.  `humanize.ParseBytes`, `strings.TrimSpace`,
  `strings.ToLower` and `bytes.TrimSpace` consult Unicode tables for non-ASCII
  input; the model covers ASCII input only and says so (`Res.unsupported`), the
  driver then does not predict the answer.  Everything the marshalers emit is
  ASCII except the `µ` of sub-millisecond durations, which `ParseDuration`
  handles byte-wise and the model follows exactly.
-/
import Influx.Model.Float

namespace Influx.Model.Toml
open Influx.Model

abbrev Bytes := List UInt8

/-- what an unmarshal call did -/
inductive Res (α : Type) where
  | ok (v : α)
  | err
  | unsupported      -- input outside the modelled (ASCII) domain
deriving Repr, DecidableEq

def Res.ofOption {α : Type} : Option α → Res α
  | some v => .ok v
  | none => .err

def isDigit (c : UInt8) : Bool := 48 ≤ c.toNat && c.toNat ≤ 57
def digitVal (c : UInt8) : Nat := c.toNat - 48
def digitChar (d : Nat) : UInt8 := UInt8.ofNat (48 + d)

/-- RE2 `\s` = `[\t\n\f\r ]` -/
def isReSpace (c : UInt8) : Bool := c == 9 || c == 10 || c == 12 || c == 13 || c == 32
/-- `unicode.IsSpace` on ASCII: `\t \n \v \f \r` and space -/
def isGoSpace (c : UInt8) : Bool := (9 ≤ c.toNat && c.toNat ≤ 13) || c == 32
def isAscii (s : Bytes) : Bool := s.all fun c => c.toNat < 128
/-- `[kKmMgG]` -/
def isBareSuffix (c : UInt8) : Bool := c == 107 || c == 75 || c == 109 || c == 77 || c == 103 || c == 71

def chr (c : Char) : UInt8 := UInt8.ofNat c.toNat
def str (s : String) : Bytes := s.toList.map chr

/-! ### strconv, base 10 -/

/-- `strconv.AppendUint(nil, n, 10)` -/
def fmtNat (n : Nat) : Bytes :=
  if n < 10 then [digitChar n] else fmtNat (n / 10) ++ [digitChar (n % 10)]
decreasing_by omega

/-- `strconv.AppendInt(nil, i, 10)` -/
def fmtInt (i : Int) : Bytes :=
  if i < 0 then 45 :: fmtNat (-i).toNat else fmtNat i.toNat

/-- `cutoff = maxUint64/10 + 1` -/
def cutoff10 : Nat := (2 ^ 64 - 1) / 10 + 1

/-- one iteration of the digit loop of `strconv.ParseUint(s, 10, 64)`; `none` = syntax or range error -/
def parseUintStep (n : Nat) (c : UInt8) : Option Nat :=
  if !isDigit c then none
  else if n ≥ cutoff10 then none
  else if n * 10 + digitVal c ≥ 2 ^ 64 then none
  else some (n * 10 + digitVal c)

/-- `strconv.ParseUint(s, 10, 64)` -/
def parseUint10 (s : Bytes) : Option Nat :=
  if s.isEmpty then none else s.foldlM parseUintStep 0

/-- `strconv.ParseInt(s, 10, 64)` -/
def parseInt10 (s : Bytes) : Option Int :=
  match s with
  | [] => none
  | c :: rest =>
    let neg := c == 45
    let body := if c == 43 || c == 45 then rest else s
    match parseUint10 body with
    | none => none
    | some un =>
      if !neg && un ≥ 2 ^ 63 then none
      else if neg && un > 2 ^ 63 then none
      else some (if neg then -(un : Int) else (un : Int))

/-! ### 64-bit wrap-around -/

def wrapU (n : Nat) : Nat := n % 2 ^ 64
/-- two's-complement `int64` of an integer -/
def wrapS (i : Int) : Int := (i + 2 ^ 63) % 2 ^ 64 - 2 ^ 63

/-! ### SizeV1 / SSizeV1 -/

/-- `marshalSizeV1` for `SizeV1` (uint64, `strconv.AppendUint`) -/
def marshalV1U (size : Nat) : Bytes :=
  if size / 2 ^ 30 ≠ 0 ∧ size % 2 ^ 30 = 0 then fmtNat (size / 2 ^ 30) ++ [chr 'g']
  else if size / 2 ^ 20 ≠ 0 ∧ size % 2 ^ 20 = 0 then fmtNat (size / 2 ^ 20) ++ [chr 'm']
  else if size / 2 ^ 10 ≠ 0 ∧ size % 2 ^ 10 = 0 then fmtNat (size / 2 ^ 10) ++ [chr 'k']
  else fmtNat size

/-- `marshalSizeV1` for `SSizeV1` (int64: Go's `/` truncates, `%` follows the dividend) -/
def marshalV1S (size : Int) : Bytes :=
  if size.tdiv (2 ^ 30) ≠ 0 ∧ size.tmod (2 ^ 30) = 0 then fmtInt (size.tdiv (2 ^ 30)) ++ [chr 'g']
  else if size.tdiv (2 ^ 20) ≠ 0 ∧ size.tmod (2 ^ 20) = 0 then fmtInt (size.tdiv (2 ^ 20)) ++ [chr 'm']
  else if size.tdiv (2 ^ 10) ≠ 0 ∧ size.tmod (2 ^ 10) = 0 then fmtInt (size.tdiv (2 ^ 10)) ++ [chr 'k']
  else fmtInt size

/-- after the number: `\s*([kKmMgG]?)\z` -/
def matchTail (rest : Bytes) : Option (Option UInt8) :=
  match rest.dropWhile isReSpace with
  | [] => some none
  | [c] => if isBareSuffix c then some (some c) else none
  | _ => none

/-- `sizeV1Pattern = \A([0-9]+)\s*([kKmMgG]?)\z` : the two captures -/
def matchSizeV1 (text : Bytes) : Option (Bytes × Option UInt8) :=
  let ds := text.takeWhile isDigit
  if ds.isEmpty then none
  else (matchTail (text.dropWhile isDigit)).map fun suf => (ds, suf)

/-- `ssizeV1Pattern = \A([+-]?[0-9]+)\s*([kKmMgG]?)\z` -/
def matchSSizeV1 (text : Bytes) : Option (Bytes × Option UInt8) :=
  let (sign, body) : Bytes × Bytes := match text with
    | c :: rest => if c == 43 || c == 45 then ([c], rest) else ([], text)
    | [] => ([], [])
  let ds := body.takeWhile isDigit
  if ds.isEmpty then none
  else (matchTail (body.dropWhile isDigit)).map fun suf => (sign ++ ds, suf)

/-- the `switch m[2][0]` of `unmarshalSizeV1` -/
def bareMult : Option UInt8 → Nat
  | none => 1
  | some c =>
    if c == 107 || c == 75 then 2 ^ 10
    else if c == 109 || c == 77 then 2 ^ 20
    else if c == 103 || c == 71 then 2 ^ 30
    else 1

/-- the strconv branch of `unmarshalSizeV1` for uint64: `result := n * mult; if result/mult != n → overflow` -/
def fastU (digits : Bytes) (suf : Option UInt8) : Option Nat :=
  match parseUint10 digits with
  | none => none
  | some n =>
    let mult := bareMult suf
    let result := wrapU (n * mult)
    if result / mult ≠ n then none else some result

/-- the strconv branch for int64 (`/` is Go's truncating division) -/
def fastS (digits : Bytes) (suf : Option UInt8) : Option Int :=
  match parseInt10 digits with
  | none => none
  | some n =>
    let mult : Int := bareMult suf
    let result := wrapS (n * mult)
    if result.tdiv mult ≠ n then none else some result

/-! ### `rewriteBareIECSuffix` -/

def trimRight (p : UInt8 → Bool) (s : Bytes) : Bytes := (s.reverse.dropWhile p).reverse
def trimGoSpace (s : Bytes) : Bytes := trimRight isGoSpace (s.dropWhile isGoSpace)

/-- `bareIECSuffixRe = \A(.*[0-9\s])\s*([kKmMgG])\s*\z` followed by
    `bytes.TrimSpace(m[1]) + " " + canonical`.  `.` does not match `\n`.
    Worked out by hand from the leftmost-first semantics: strip trailing `\s`; the last
    character must be a bare suffix letter; of what precedes it strip trailing `\s` (call the
    result `q0`): there is a match iff `q0` contains no `\n` and (whitespace was stripped or `q0`
    ends in a digit); every match gives the same `TrimSpace(m[1])`, namely `TrimSpace(q0)`. -/
def rewriteBareIECSuffix (text : Bytes) : Bytes :=
  let t := trimRight isReSpace text
  match t.reverse with
  | [] => text
  | l :: qrev =>
    if !isBareSuffix l then text
    else
      let q := qrev.reverse
      let q0 := trimRight isReSpace q
      let stripped := q0.length < q.length
      let endsDigit := match q0.reverse with
        | c :: _ => isDigit c
        | [] => false
      if q0.any (· == 10) || !(stripped || endsDigit) then text
      else
        let canonical := if l == 107 || l == 75 then str "kib" else if l == 109 || l == 77 then str "mib" else str "gib"
        trimGoSpace q0 ++ [32] ++ canonical

/-! ### `humanize.ParseBytes` (ASCII) -/

def asciiLower (c : UInt8) : UInt8 := if 65 ≤ c.toNat ∧ c.toNat ≤ 90 then c + 32 else c

/-- `bytesSizeTable` -/
def bytesSizeTable (extra : Bytes) : Option Nat :=
  let tbl : List (String × Nat) :=
    [("b", 1), ("kib", 2 ^ 10), ("kb", 10 ^ 3), ("mib", 2 ^ 20), ("mb", 10 ^ 6), ("gib", 2 ^ 30), ("gb", 10 ^ 9),
     ("tib", 2 ^ 40), ("tb", 10 ^ 12), ("pib", 2 ^ 50), ("pb", 10 ^ 15), ("eib", 2 ^ 60), ("eb", 10 ^ 18),
     ("", 1), ("ki", 2 ^ 10), ("k", 10 ^ 3), ("mi", 2 ^ 20), ("m", 10 ^ 6), ("gi", 2 ^ 30), ("g", 10 ^ 9),
     ("ti", 2 ^ 40), ("t", 10 ^ 12), ("pi", 2 ^ 50), ("p", 10 ^ 15), ("ei", 2 ^ 60), ("e", 10 ^ 18)]
  (tbl.find? fun (k, _) => str k == extra).map (·.2)

/-- decimal digits → number -/
def digitsVal (ds : Bytes) : Nat := ds.foldl (fun a c => a * 10 + digitVal c) 0

/-- `strconv.ParseFloat(num, 64)` for `num ∈ [0-9.]*`: at most one `.`, at least one digit;
    correctly rounded; overflow is an error. -/
def parseFloatDigitsDots (num : Bytes) : Option Float.F :=
  let ip := num.takeWhile isDigit
  let rest := num.dropWhile isDigit
  let fp? : Option Bytes := match rest with
    | [] => some []
    | _ :: fr => if fr.all isDigit then some fr else none     -- the first non-digit is '.'
  match fp? with
  | none => none
  | some fp =>
    if ip.isEmpty && fp.isEmpty then none
    else Float.roundQ (digitsVal (ip ++ fp)) (10 ^ fp.length)

/-- `humanize.ParseBytes` on ASCII text -/
def parseBytes (s : Bytes) : Option Nat :=
  let isNumCh := fun (c : UInt8) => isDigit c || c == 46 || c == 44
  let num := (s.takeWhile isNumCh).filter (· != 44)          -- commas removed
  match parseFloatDigitsDots num with
  | none => none
  | some f =>
    let extra := (trimGoSpace (s.dropWhile isNumCh)).map asciiLower
    match bytesSizeTable extra with
    | none => none
    | some m =>
      match Float.ofNat m with
      | none => none
      | some fm =>
        match Float.mul f fm with
        | none => none                                         -- +Inf >= MaxUint64: "too large"
        | some p => if Float.geNat p (2 ^ 64) then none else some (Float.trunc p)

/-- `parseBytesSigned` -/
def parseBytesSigned (text : Bytes) : Option Int :=
  let t := trimGoSpace text
  let (neg, t) : Bool × Bytes := match t with
    | c :: rest => if c == 45 then (true, rest) else (false, t)
    | [] => (false, [])
  match parseBytes t with
  | none => none
  | some v =>
    if neg then
      if v = 2 ^ 63 then some (-(2 ^ 63 : Int))
      else if v > 2 ^ 63 - 1 then none
      else some (-(v : Int))
    else if v > 2 ^ 63 - 1 then none else some (v : Int)

def liftU (ascii : Bool) (r : Option Nat) : Res Nat :=
  if !ascii then .unsupported else Res.ofOption r
def liftS (ascii : Bool) (r : Option Int) : Res Int :=
  if !ascii then .unsupported else Res.ofOption r

/-- `(*SizeV1).UnmarshalText` -/
def unmarshalV1U (text : Bytes) : Res Nat :=
  match matchSizeV1 text with
  | some (ds, suf) => Res.ofOption (fastU ds suf)
  | none => liftU (isAscii text) (parseBytes (rewriteBareIECSuffix text))

/-- `(*SSizeV1).UnmarshalText` -/
def unmarshalV1S (text : Bytes) : Res Int :=
  match matchSSizeV1 text with
  | some (ds, suf) => Res.ofOption (fastS ds suf)
  | none => liftS (isAscii text) (parseBytesSigned (rewriteBareIECSuffix text))

/-- **after fixes/C34-sizev2-exact-integers.patch**: `(*SizeV2).UnmarshalText` — a plain decimal
    integer goes through `strconv.ParseUint`, everything else through humanize. -/
def unmarshalV2U (text : Bytes) : Res Nat :=
  if !text.isEmpty && text.all isDigit then
    Res.ofOption (parseUint10 text)
  else liftU (isAscii text) (parseBytes text)

/-- **after the fix**: `(*SSizeV2).UnmarshalText` — `-?[0-9]+` goes through `strconv.ParseInt`. -/
def unmarshalV2S (text : Bytes) : Res Int :=
  let body := match text with
    | c :: rest => if c == 45 then rest else text
    | [] => []
  if !body.isEmpty && body.all isDigit then
    Res.ofOption (parseInt10 text)
  else liftS (isAscii text) (parseBytesSigned text)

/-- the code before the fix (kept to state what the fix changed): pure humanize -/
def unmarshalV2U_orig (text : Bytes) : Res Nat := liftU (isAscii text) (parseBytes text)
def unmarshalV2S_orig (text : Bytes) : Res Int := liftS (isAscii text) (parseBytesSigned text)

/-! ### through BurntSushi/toml -/

/-- `Size`/`SSize` (= V2) have no `MarshalText`: the encoder writes the integer in decimal
    (`strconv.FormatUint` / `FormatInt`).  The decoder parses a TOML integer as int64 (out of
    range = parse error) and hands `fmt.Sprintf("%d", v)` to `UnmarshalText`. -/
def tomlRoundTripV2U (x : Nat) : Res Nat :=
  if x > 2 ^ 63 - 1 then .err else unmarshalV2U (fmtInt x)

def tomlRoundTripV2S (x : Int) : Res Int := unmarshalV2S (fmtInt x)

/-- V1 types implement `MarshalText`: written as a TOML string, read back as that string -/
def tomlRoundTripV1U (x : Nat) : Res Nat := unmarshalV1U (marshalV1U x)
def tomlRoundTripV1S (x : Int) : Res Int := unmarshalV1S (marshalV1S x)

/-! ### `time.Duration` -/

/-- `fmtFrac(buf, v, prec)`: the fraction text (with its leading `.`, trailing zeros dropped) and `v / 10^prec` -/
def fmtFrac (v : Nat) (prec : Nat) : Bytes × Nat :=
  let rec go : Nat → Nat → Bool → Bytes → Bytes × Nat × Bool
    | 0, v, pr, acc => (acc, v, pr)
    | k + 1, v, pr, acc =>
      let digit := v % 10
      let pr := pr || digit != 0
      go k (v / 10) pr (if pr then digitChar digit :: acc else acc)
  let (acc, v', pr) := go prec v false []
  (if pr then 46 :: acc else acc, v')

/-- the unsigned part of `Duration.format`: `u = |d|` as a `uint64` (`|MinInt64| = 2^63` is fine) -/
def durBody (u : Nat) : Bytes :=
  if u < 10 ^ 9 then
    if u = 0 then str "0s"
    else if u < 10 ^ 3 then fmtNat u ++ str "ns"
    else if u < 10 ^ 6 then
      fmtNat (fmtFrac u 3).2 ++ ((fmtFrac u 3).1 ++ ([0xC2, 0xB5, 115] ++ []))     -- "µs"
    else
      fmtNat (fmtFrac u 6).2 ++ ((fmtFrac u 6).1 ++ (str "ms" ++ []))
  else
    let secs := (fmtFrac u 9).2
    let s := fmtNat (secs % 60) ++ ((fmtFrac u 9).1 ++ (str "s" ++ []))
    let mins := secs / 60
    if mins > 0 then
      let m := fmtNat (mins % 60) ++ (str "m" ++ s)
      let hrs := mins / 60
      if hrs > 0 then fmtNat hrs ++ (str "h" ++ m) else m
    else s

/-- `Duration.String` for the `int64` nanosecond count `d` -/
def durString (d : Int) : Bytes :=
  if d < 0 then 45 :: durBody d.natAbs else durBody d.natAbs

/-- `leadingInt`: `none` = overflow error -/
def leadingInt (s : Bytes) : Option (Nat × Bytes) :=
  let rec go : Bytes → Nat → Option (Nat × Bytes)
    | [], x => some (x, [])
    | c :: cs, x =>
      if !isDigit c then some (x, c :: cs)
      else if x > 2 ^ 63 / 10 then none
      else
        let x' := x * 10 + digitVal c
        if x' > 2 ^ 63 then none else go cs x'
  go s 0

/-- `leadingFraction`: value, number of accumulated digits (`scale = 10^k`), rest -/
def leadingFraction (s : Bytes) : Nat × Nat × Bytes :=
  let rec go : Bytes → Nat → Nat → Bool → Nat × Nat × Bytes
    | [], x, k, _ => (x, k, [])
    | c :: cs, x, k, ovf =>
      if !isDigit c then (x, k, c :: cs)
      else if ovf then go cs x k true
      else if x > (2 ^ 63 - 1) / 10 then go cs x k true
      else
        let y := x * 10 + digitVal c
        if y > 2 ^ 63 then go cs x k true else go cs y (k + 1) false
  go s 0 0 false

/-- `unitMap` -/
def unitMap (u : Bytes) : Option Nat :=
  if u == str "ns" then some 1
  else if u == str "us" then some (10 ^ 3)
  else if u == [0xC2, 0xB5, 115] then some (10 ^ 3)       -- "µs" U+00B5
  else if u == [0xCE, 0xBC, 115] then some (10 ^ 3)       -- "μs" U+03BC
  else if u == str "ms" then some (10 ^ 6)
  else if u == str "s" then some (10 ^ 9)
  else if u == str "m" then some (60 * 10 ^ 9)
  else if u == str "h" then some (3600 * 10 ^ 9)
  else none

def isNumStart (c : UInt8) : Bool := c == 46 || isDigit c

/-- `uint64(float64(f) * (float64(unit) / scale))` -/
def fracNanos (f unit k : Nat) : Option Nat := do
  let ff ← Float.ofNat f
  let fu ← Float.ofNat unit
  let fs ← Float.ofNat (10 ^ k)
  let q ← Float.div fu fs
  let p ← Float.mul ff q
  pure (Float.trunc p)

/-- the `for s != ""` loop of `ParseDuration`; `fuel` bounds the iterations (each consumes ≥ 1 byte;
    `parseDuration` supplies `len + 4`) -/
def parseDurLoop : Nat → Bytes → Nat → Option Nat
  | 0, _, _ => none
  | fuel + 1, s, d =>
    match s with
    | [] => some d
    | c0 :: _ =>
      if !isNumStart c0 then none else
      match leadingInt s with
      | none => none
      | some (v, s1) =>
        let pre := s1.length != s.length
        let (f, k, s2, post) : Nat × Nat × Bytes × Bool := match s1 with
          | 46 :: rest =>
            let (f, k, s2) := leadingFraction rest
            (f, k, s2, s2.length != rest.length)
          | _ => (0, 0, s1, false)
        if !pre && !post then none else
        let u := s2.takeWhile fun c => !isNumStart c
        let s3 := s2.dropWhile fun c => !isNumStart c
        if u.isEmpty then none else
        match unitMap u with
        | none => none
        | some unit =>
          if v > 2 ^ 63 / unit then none else
          let v := v * unit
          let v? : Option Nat :=
            if f > 0 then
              match fracNanos f unit k with
              | none => none
              | some add => if wrapU (v + add) > 2 ^ 63 then none else some (wrapU (v + add))
            else some v
          match v? with
          | none => none
          | some v =>
            let d := wrapU (d + v)
            if d > 2 ^ 63 then none else parseDurLoop fuel s3 d

/-- `time.ParseDuration` -/
def parseDuration (s0 : Bytes) : Option Int :=
  let (neg, s) : Bool × Bytes := match s0 with
    | c :: rest => if c == 45 || c == 43 then (c == 45, rest) else (false, s0)
    | [] => (false, [])
  if s == [48] then some 0
  else if s.isEmpty then none
  else match parseDurLoop (s.length + 4) s 0 with
    | none => none
    | some d =>
      if neg then some (-(d : Int))
      else if d > 2 ^ 63 - 1 then none else some (d : Int)

/-- `(*Duration).UnmarshalText` applied to a zero `Duration`: empty text leaves it unchanged -/
def durUnmarshal (text : Bytes) : Option Int :=
  if text.isEmpty then some 0 else parseDuration text

end Influx.Model.Toml
