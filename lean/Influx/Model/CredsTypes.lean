/-
  Model.CredsTypes — operations and observations of the credential check (C44):
  passwords, API tokens, sessions and requests through the AuthenticationHandler.
  Shared by the model (`Model.Creds`), the statement (`Spec.C44`) and the driver.
  All strings are ASCII.
-/
namespace Influx.Creds

/-- result of a password operation: `ok`, or the sentinels the returned error wraps -/
structure PwRes where
  ok : Bool := false
  baduser : Bool := false     -- EIncorrectUser
  badpw : Bool := false       -- EIncorrectPassword
  change : Bool := false      -- EPasswordChangeRequired
  len : Bool := false         -- EPasswordLength
  chars : Bool := false       -- EPasswordChars
deriving DecidableEq, Repr

inductive SvcErr | nf | cf | inv | int
  | nohandle      -- harness: no session object is held for that key
  | unsupported   -- harness: `renew` is only driven with the production session store (configuration A)
deriving DecidableEq, Repr

/-- hash variants of pkg/crypt/algorithm/influxdb2 -/
inductive Variant | sha256 | sha512
deriving DecidableEq, Repr

/-- structural damage done to an encoded digest `$<identifier>$<base64 key>` before decoding it -/
inductive Mangle
  | none          -- as produced by the hasher
  | noLead        -- leading `$` removed
  | lead          -- a character put before the leading `$`
  | swap          -- identifier replaced by the other variant's
  | unknownId     -- identifier replaced by `influxdb2-md5`
  | emptyKey      -- key section emptied
  | extra         -- `$zz` appended (a fourth section)
  | cut           -- cut after the identifier (two sections only)
deriving DecidableEq, Repr

inductive PhcErr | fmt | ident | key     -- ErrEncodedHashInvalidFormat / InvalidIdentifier / KeyEncoding
deriving DecidableEq, Repr

inductive PhcRes
  | matched (b : Bool)
  | err (e : PhcErr)
deriving DecidableEq, Repr

inductive Op
  | cfg (strong hashed cfgB : Bool)
  | strong (b : Bool)
  | cu (name : String)
  | us (uid : Nat) (active : Bool)
  | du (uid : Nat)
  | sp (uid : Nat) (pw : String)
  | cp (uid : Nat) (pw : String)
  | cas (uid : Nat) (old new : String)
  | ct (uid : Nat) (tok : String) (active : Bool)
  | ut (id : Nat) (active : Bool)
  | dt (id : Nat)
  | cs (name : String) (long : Bool)
  | xs (key : String)
  /-- RenewSession with the (possibly stale) session object the harness kept from CreateSession of `key`;
      `far`: new expiry = now + 2 h (extends a 1 h session), else now + 5 min (the middleware's value; does not) -/
  | renew (key : String) (far : Bool)
  | req (hdr cookie : Option String)
  /-- hash `pw` with variant `v`, damage the encoded digest, decode it with a decoder that knows
      `decoders`, match `q` against it (authorization.AuthorizationHasher Hash / Match) -/
  | phc (decoders : List Variant) (v : Variant) (m : Mangle) (pw q : String)
deriving DecidableEq, Repr

inductive Ans
  | ok
  | okId (id : Nat)
  | okKey (key : String) (uid : Nat)
  | err (e : SvcErr)
  | pw (r : PwRes)
  | phc (r : PhcRes)
  | panic                                                      -- runtime error: integer divide by zero
  | http (status : Nat) (reached : Bool) (pset : Option Bool) (uid : Nat)
      -- reached: the wrapped handler ran; pset: Authorizer.PermissionSet() succeeded there
deriving DecidableEq, Repr

end Influx.Creds
