/-
  Model.CredsTypes — operations and observations of the credential check (C44):
  passwords, API tokens, sessions and requests through the AuthenticationHandler.
  Shared by the model (`Model.Creds`), the statement (`Spec.C44`) and the driver.
  All strings are ASCII.
-/
namespace Influx.Creds

/-- result of a password operation: `ok`, or the sentinels the returned error wraps -/
structure PwRes where
  ok : Bool := false
  baduser : Bool := false     -- EIncorrectUser
  badpw : Bool := false       -- EIncorrectPassword
  change : Bool := false      -- EPasswordChangeRequired
  len : Bool := false         -- EPasswordLength
  chars : Bool := false       -- EPasswordChars
deriving DecidableEq, Repr

inductive SvcErr | nf | cf | inv | int
deriving DecidableEq, Repr

inductive Op
  | cfg (strong hashed cfgB : Bool)
  | strong (b : Bool)
  | cu (name : String)
  | us (uid : Nat) (active : Bool)
  | du (uid : Nat)
  | sp (uid : Nat) (pw : String)
  | cp (uid : Nat) (pw : String)
  | cas (uid : Nat) (old new : String)
  | ct (uid : Nat) (tok : String) (active : Bool)
  | ut (id : Nat) (active : Bool)
  | dt (id : Nat)
  | cs (name : String) (long : Bool)
  | xs (key : String)
  | req (hdr cookie : Option String)
deriving DecidableEq, Repr

inductive Ans
  | ok
  | okId (id : Nat)
  | okKey (key : String) (uid : Nat)
  | err (e : SvcErr)
  | pw (r : PwRes)
  | panic                                                      -- runtime error: integer divide by zero
  | http (status : Nat) (reached : Bool) (pset : Option Bool) (uid : Nat)
      -- reached: the wrapped handler ran; pset: Authorizer.PermissionSet() succeeded there
deriving DecidableEq, Repr

end Influx.Creds
