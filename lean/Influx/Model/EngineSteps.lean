/-
  Model.EngineSteps — the tsm1 engine as a step-level state machine for C39:
  every engine operation is split at its lock boundaries into atomic steps, and
  an execution is any interleaving of such steps.

  Written from the code:
    Engine.WritePoints           → Cache.WriteMulti under Cache.mu                 `wr`
    Engine.doWriteSnapshot       → Cache.Snapshot under Engine.mu + Cache.mu         `snapBegin`
    Engine.writeSnapshotAndCommit→ FileStore.Replace(nil,new) under FileStore lock   `snapReplace`
                                   then Cache.ClearSnapshot under Cache.mu           `snapClear`
    compactionStrategy.compactGroup → FileStore.Replace(group,new)                   `compact n`
        (the compaction's inputs cannot change while it runs: Engine.deleteSeriesRange
         stops and waits for level compactions first — modelled as an atomic commit)
    Engine.deleteSeriesRange     → per TSM file: BatchDelete … Commit                `delFile i`
                                   then Cache.DeleteRange (hot store only)           `delCache`
    arrayCursorIterator.build*Cursor → `Cache.Values(key)` (hot + snapshot store)    read phase 1
                                   then `FileStore.KeyCursor` (files, tombstones)    read phase 2
  Core Lean only.
-/
namespace Influx.Conc

abbrev Key := Nat
abbrev TS := Int
abbrev Val := Int

/-- a value store: entries newest first; the first match wins -/
abbrev Store := List (Key × TS × Val)

def Store.get (s : Store) (k : Key) (t : TS) : Option Val :=
  (s.find? (fun e => e.1 == k && e.2.1 == t)).map (·.2.2)

structure Tomb where
  key : Key
  lo : TS
  hi : TS
deriving Repr, DecidableEq

def Tomb.covers (tb : Tomb) (k : Key) (t : TS) : Bool :=
  tb.key == k && decide (tb.lo ≤ t) && decide (t ≤ tb.hi)

structure CFile where
  pts : Store
  tombs : List Tomb
deriving Repr, DecidableEq

def CFile.get (f : CFile) (k : Key) (t : TS) : Option Val :=
  if f.tombs.any (fun tb => tb.covers k t) then none else f.pts.get k t

/-- files oldest first; the newest file that has the point wins -/
def filesGet : List CFile → Key → TS → Option Val
  | [], _, _ => none
  | f :: rest, k, t => (filesGet rest k t).or (f.get k t)

/-- where an in-flight cache snapshot stands -/
inductive Phase
  | idle       -- no snapshot in flight
  | begun      -- Cache.Snapshot done: hot store moved to the snapshot store
  | replaced   -- the new TSM file is in the FileStore, the snapshot store not yet cleared
deriving Repr, DecidableEq

structure St where
  cache : Store
  snap : Store
  phase : Phase
  files : List CFile
deriving Repr, DecidableEq

def St.init : St := { cache := [], snap := [], phase := .idle, files := [] }

/-- read phase 1: `Cache.Values(key)` = hot store over snapshot store -/
def St.cacheView (s : St) (k : Key) (t : TS) : Option Val := (s.cache.get k t).or (s.snap.get k t)

/-- read phase 2: the KeyCursor over the current files -/
def St.filesView (s : St) (k : Key) (t : TS) : Option Val := filesGet s.files k t

/-- the abstract content of the shard -/
def St.abs (s : St) (k : Key) (t : TS) : Option Val := (s.cacheView k t).or (s.filesView k t)

/-! ### compaction -/

def filesPoints (fs : List CFile) : List (Key × TS) := fs.flatMap (fun f => f.pts.map (fun e => (e.1, e.2.1)))

/-- the merged file: every live point of the group, newest value, no tombstones -/
def mergeFiles (fs : List CFile) : CFile :=
  { pts := (filesPoints fs).filterMap (fun p => (filesGet fs p.1 p.2).map (fun v => (p.1, p.2, v)))
    tombs := [] }

/-! ### atomic steps -/

inductive Step
  | wr (k : Key) (t : TS) (v : Val)
  | snapBegin
  | snapReplace
  | snapClear
  | compact (n : Nat)                       -- commit of a compaction of the n oldest files
  | delFile (i : Nat) (k : Key) (lo hi : TS) -- tombstone [lo,hi] of key k in file i
  | delCache (k : Key) (lo hi : TS)          -- Cache.DeleteRange: hot store only
deriving Repr, DecidableEq

def inRange (k : Key) (lo hi : TS) (e : Key × TS × Val) : Bool :=
  e.1 == k && decide (lo ≤ e.2.1) && decide (e.2.1 ≤ hi)

def addTomb (tb : Tomb) : Nat → List CFile → List CFile
  | _, [] => []
  | 0, f :: rest => { f with tombs := tb :: f.tombs } :: rest
  | i + 1, f :: rest => f :: addTomb tb i rest

def step (s : St) : Step → St
  | .wr k t v => { s with cache := (k, t, v) :: s.cache }
  | .snapBegin =>
    match s.phase with
    | .idle => { s with snap := s.cache, cache := [], phase := .begun }
    | _ => s                                   -- ErrSnapshotInProgress
  | .snapReplace =>
    match s.phase with
    | .begun =>
      if s.snap.isEmpty then { s with phase := .idle }          -- empty snapshot: ClearSnapshot, no file
      else { s with files := s.files ++ [{ pts := s.snap, tombs := [] }], phase := .replaced }
    | _ => s
  | .snapClear =>
    match s.phase with
    | .replaced => { s with snap := [], phase := .idle }
    | _ => s
  | .compact n =>
    if n = 0 then s else
    let m := mergeFiles (s.files.take n)
    { s with files := (if m.pts.isEmpty then [] else [m]) ++ s.files.drop n }
  | .delFile i k lo hi => { s with files := addTomb { key := k, lo := lo, hi := hi } i s.files }
  | .delCache k lo hi => { s with cache := s.cache.filter (fun e => !inRange k lo hi e) }

def run (s : St) : List Step → St
  | [] => s
  | st :: rest => run (step s st) rest

/-- does the step delete (part of) point (k,t)? -/
def Step.deletes (k : Key) (t : TS) : Step → Bool
  | .delFile _ k' lo hi => k' == k && decide (lo ≤ t) && decide (t ≤ hi)
  | .delCache k' lo hi => k' == k && decide (lo ≤ t) && decide (t ≤ hi)
  | _ => false

def Step.isDelete : Step → Bool
  | .delFile .. => true
  | .delCache .. => true
  | _ => false

/-- a read of (k,t): phase 1 in state `s1`, phase 2 in the later state `s2` -/
def readPoint (s1 s2 : St) (k : Key) (t : TS) : Option Val :=
  (s1.cacheView k t).or (s2.filesView k t)

/-- the same read with its two phases in the other order (files first) — NOT what the code does -/
def readPointSwapped (s1 s2 : St) (k : Key) (t : TS) : Option Val :=
  (s2.cacheView k t).or (s1.filesView k t)

/-! ### driver-level machine: operations of the schedule harness -/

/-- candidate timestamps of a key, sorted, no duplicates -/
def insertTS (a : TS) : List TS → List TS
  | [] => [a]
  | b :: l => if a < b then a :: b :: l else if a = b then b :: l else b :: insertTS a l

def sortDedup (l : List TS) : List TS := l.foldr insertTS []

def storeTimes (s : Store) (k : Key) : List TS := (s.filter (fun e => e.1 == k)).map (·.2.1)

def St.times (s : St) (k : Key) : List TS :=
  sortDedup (storeTimes s.cache k ++ storeTimes s.snap k ++ s.files.flatMap (fun f => storeTimes f.pts k))

/-- all points of key `k` an atomic read returns -/
def St.readKey (s : St) (k : Key) : List (TS × Val) :=
  (s.times k).filterMap (fun t => (s.abs k t).map (fun v => (t, v)))

/-- phase 1 of a two-phase read: the cache values of the key -/
def St.readCache (s : St) (k : Key) : List (TS × Val) :=
  (sortDedup (storeTimes s.cache k ++ storeTimes s.snap k)).filterMap
    (fun t => (s.cacheView k t).map (fun v => (t, v)))

/-- phase 2: merge the captured cache values (they win) with the files now -/
def St.readFinish (s : St) (k : Key) (cv : List (TS × Val)) : List (TS × Val) :=
  (sortDedup (cv.map (·.1) ++ s.files.flatMap (fun f => storeTimes f.pts k))).filterMap
    (fun t => ((cv.lookup t).or (s.filesView k t)).map (fun v => (t, v)))

structure Sys where
  st : St
  /-- a compaction of the first n files is in flight (written, not committed) -/
  compacting : Option Nat
  /-- a delete has tombstoned the files, its cache step is pending -/
  deleting : Option (Key × TS × TS)
  /-- two-phase reads in flight: reader id, key, captured cache values -/
  readers : List (Nat × Key × List (TS × Val))
deriving Repr

def Sys.init : Sys := { st := St.init, compacting := none, deleting := none, readers := [] }

inductive Op
  | write (k : Key) (t : TS) (v : Val)
  | snapBegin | snapReplace | snapClear
  | compactBegin | compactCommit
  | delete (k : Key) (lo hi : TS)
  | delBegin (k : Key) (lo hi : TS) | delEnd
  | read (k : Key)
  | readBegin (r : Nat) (k : Key) | readEnd (r : Nat)
deriving Repr

inductive Ans
  | ok | busy | badOp
  | done        -- del-begin: deleteSeriesRange returned before its first step (nothing overlaps)
  | pts (l : List (TS × Val))
deriving Repr, DecidableEq

def nKeys : Nat := 4

/-- file-level time range test of Engine.deleteSeriesRange -/
def CFile.overlapsTime (f : CFile) (lo hi : TS) : Bool :=
  f.pts.any (fun e => decide (e.2.1 ≤ hi)) && f.pts.any (fun e => decide (e.2.1 ≥ lo))

/-- deleteSeriesRange returns at once when no file's time range overlaps and the hot cache is empty -/
def St.deleteIsNoop (s : St) (lo hi : TS) : Bool :=
  !(s.files.any (fun f => f.overlapsTime lo hi)) && s.cache.isEmpty

def delFilesAll (s : St) (k : Key) (lo hi : TS) : St :=
  { s with files := s.files.map (fun f => { f with tombs := { key := k, lo := lo, hi := hi } :: f.tombs }) }

def sysStep (y : Sys) : Op → Sys × Ans
  | .write k t v =>
    if k ≥ nKeys then (y, .badOp) else ({ y with st := step y.st (.wr k t v) }, .ok)
  | .snapBegin =>
    -- the harness never starts a snapshot while one is in flight or a delete is paused
    if y.st.phase != .idle || y.deleting.isSome then (y, .busy)
    else ({ y with st := step y.st .snapBegin }, .ok)
  | .snapReplace =>
    if y.st.phase != .begun then (y, .busy) else ({ y with st := step y.st .snapReplace }, .ok)
  | .snapClear =>
    if y.st.phase != .replaced then (y, .busy) else ({ y with st := step y.st .snapClear }, .ok)
  | .compactBegin =>
    if y.compacting.isSome || y.deleting.isSome || y.st.files.isEmpty then (y, .busy)
    else ({ y with compacting := some y.st.files.length }, .ok)
  | .compactCommit =>
    match y.compacting with
    | none => (y, .busy)
    | some n => ({ y with st := step y.st (.compact n), compacting := none }, .ok)
  | .delete k lo hi =>
    if k ≥ nKeys then (y, .badOp) else
    -- deletes never overlap a snapshot (C03's window), a compaction or another delete
    if y.st.phase != .idle || y.compacting.isSome || y.deleting.isSome then (y, .busy)
    else ({ y with st := step (delFilesAll y.st k lo hi) (.delCache k lo hi) }, .ok)
  | .delBegin k lo hi =>
    if k ≥ nKeys then (y, .badOp) else
    if y.st.phase != .idle || y.compacting.isSome || y.deleting.isSome then (y, .busy)
    else if y.st.deleteIsNoop lo hi then (y, .done)
    else ({ y with st := delFilesAll y.st k lo hi, deleting := some (k, lo, hi) }, .ok)
  | .delEnd =>
    match y.deleting with
    | none => (y, .busy)
    | some (k, lo, hi) => ({ y with st := step y.st (.delCache k lo hi), deleting := none }, .ok)
  | .read k => if k ≥ nKeys then (y, .badOp) else (y, .pts (y.st.readKey k))
  | .readBegin r k =>
    if k ≥ nKeys || y.readers.any (fun e => e.1 == r) then (y, .badOp)
    else ({ y with readers := (r, k, y.st.readCache k) :: y.readers }, .ok)
  | .readEnd r =>
    match y.readers.find? (fun e => e.1 == r) with
    | none => (y, .badOp)
    | some (_, k, cv) =>
      ({ y with readers := y.readers.filter (fun e => e.1 != r) }, .pts (y.st.readFinish k cv))

/-- trace of the schedule machine on a list of operations -/
def sysRun : Sys → List Op → List (Op × Ans)
  | _, [] => []
  | y, op :: rest => let (y', a) := sysStep y op; (op, a) :: sysRun y' rest

/-- the operations that split a read into its two phases -/
def Op.twoPhase : Op → Bool
  | .readBegin .. => true
  | .readEnd _ => true
  | _ => false

end Influx.Conc
