/-
  Influx.Model.KeyCursor — executable model of tsm1.KeyCursor (C06), written from
    tsdb/engine/tsm1/file_store.go        FileStore.locations, newKeyCursor, KeyCursor.seek,
                                          seekAscending/Descending, Next, nextAscending/Descending,
                                          location.markRead
    tsdb/engine/tsm1/file_store.gen.go    KeyCursor.Read{Float,Integer,Unsigned,String,Boolean}Block
    tsdb/engine/tsm1/file_store_array.gen.go   …ArrayBlock   (same statements on tsdb.*Array)
    tsdb/engine/tsm1/reader.go            indirectIndex.DeleteRange (per key), TombstoneRange
  Leaf predicates (`location.read`, `IndexEntry.Contains/OverlapsTimeRange`, `TimeRange.Overlaps`)
  are regenerated from the Go source on every run: `Influx.Generated.KeyCursor`.

  One model for the ten Read*Block functions: they are instances of one template and differ only
  in the value type; the payload type `V` is a parameter here.

  Go `*location` pointers shared between `seeks` and `current` are indices `Fin n` into the
  (immutable) vector of blocks in seeks order plus a vector of mutable read marks
  `(readMin, readMax)`; so `markRead` through `current[i]` is seen through `seeks[j]` as in Go.

  NOT modelled: `sort.Sort(ascLocations/descLocations)` (pdqsort under a comparator that is not
  a strict weak order).  The post-sort order is an INPUT (`order`), observed on the real code by
  the harness; the theorems hold for every order satisfying `OrderOK` (Influx.Props.C06).
  File-level skip in `locations` (`fd.TimeRange()` against `t`) is subsumed by the per-entry
  test (a file's range contains its entries' ranges) and not modelled.
-/
import Influx.Model.KCTypes
import Influx.Model.KCValues
import Influx.Generated.KeyCursor

namespace Influx.KC
open Influx.Generated.KeyCursor

variable {V : Type}

/-! ## Files: index entries of the key and its tombstones -/

/-- What a TSM file reports for the key: `ReadEntries(key)` with each entry's decoded block,
    and `TombstoneRange(key)`. -/
structure FileState (V : Type) where
  entries : List (IndexEntry × Vals V)
  tombs : List TimeRange
deriving Inhabited

/-- order used by indirectIndex.DeleteRange's `sort.Slice(newTs, fn)`: by `Min`, then `Max` -/
def trLE (a b : TimeRange) : Bool :=
  if a.Min = b.Min then decide (a.Max ≤ b.Max) else decide (a.Min < b.Min)

def insertTR (x : TimeRange) : List TimeRange → List TimeRange
  | [] => [x]
  | y :: ys => if trLE x y then x :: y :: ys else y :: insertTR x ys

def sortTR (l : List TimeRange) : List TimeRange := l.foldr insertTR []

/-- the "do all tombstones line up" loop of indirectIndex.DeleteRange: `(minTs, maxTs)` of the
    chain, or the inverted pair `(MaxInt64, MinInt64)` as soon as two neighbours leave a gap -/
def chainBounds : TimeRange → List TimeRange → Int → Int → Int × Int
  | _, [], lo, hi => (lo, hi)
  | prev, ts :: rest, lo, hi =>
    if prev.Max ≠ ts.Min - 1 && !TimeRangeOverlaps prev ts.Min ts.Max then (maxI64, minI64)
    else chainBounds ts rest (if ts.Min < lo then ts.Min else lo) (if ts.Max > hi then ts.Max else hi)

/-- indirectIndex.DeleteRange restricted to one key of the file (reader.go).  A key that is
    fully covered is removed from the index (`d.Delete(fullKeys)`): no entries any more. -/
def applyDelete (st : FileState V) (d : TimeRange) : FileState V :=
  match st.entries.head?, st.entries.getLast? with
  | some first, some last =>
    -- "If we're deleting the max time range, just use tombstoning to remove the key"
    if d.Min = minI64 ∧ d.Max = maxI64 then { st with entries := [] }
    else
      let kmin := first.1.MinTime
      let kmax := last.1.MaxTime
      -- "Is the time range passed outside of the time range we've have stored for this key?"
      if d.Min > kmax ∨ d.Max < kmin then st
      -- "Does the range passed in cover every value for the key?"
      else if d.Min ≤ kmin ∧ d.Max ≥ kmax then { st with entries := [] }
      else
        let newTs := sortTR (st.tombs ++ [d])
        match newTs with
        | [] => st
        | t0 :: rest =>
          let (lo, hi) := chainBounds t0 rest t0.Min t0.Max
          if lo ≤ kmin ∧ hi ≥ kmax then { entries := [], tombs := newTs }
          else { st with tombs := newTs }
  | _, _ => st  -- key not in the index (never written, or deleted): nothing recorded

/-- tsmWriter.Write: one index entry per block, `[first ts, last ts]`; `none` for an empty
    block (the writer ignores those; the generator never emits one) -/
def mkEntries : List (Vals V) → Option (List (IndexEntry × Vals V))
  | [] => some []
  | b :: bs =>
    match minTime? b, maxTime? b, mkEntries bs with
    | some lo, some hi, some es => some ((({ MinTime := lo, MaxTime := hi } : IndexEntry), b) :: es)
    | _, _, _ => none

/-- a freshly written file -/
def mkFile (blocks : List (Vals V)) : Option (FileState V) :=
  (mkEntries blocks).map fun es => { entries := es, tombs := [] }

/-! ## locations -/

/-- the immutable part of a `location`: which file (index in `FileStore.files`, i.e. path
    order = age order), which entry of the key in that file, the entry, its decoded block
    (`r.Read…BlockAt(&entry)`) and the file's tombstones for the key (`r.TombstoneRange(key)`) -/
structure Block (V : Type) where
  file : Nat
  blk : Nat
  entry : IndexEntry
  vals : Vals V
  tombs : List TimeRange
deriving Inhabited

/-- int64 `t - 1` / `t + 1` (wrapping) -/
def wrapDec (t : Int) : Int := if t = minI64 then maxI64 else t - 1
def wrapInc (t : Int) : Int := if t = maxI64 then minI64 else t + 1

/-- initial `(readMin, readMax)` of a location (FileStore.locations) -/
def initMark (t : Int) (asc : Bool) : Int × Int :=
  if asc then (minI64, wrapDec t) else (wrapInc t, maxI64)

/-- the per-entry filter of FileStore.locations -/
def keepEntry (tombs : List TimeRange) (t : Int) (asc : Bool) (e : IndexEntry) : Bool :=
  -- "Skip any blocks only contain values that are tombstoned."
  !(tombs.any fun tr => decide (tr.Min ≤ e.MinTime) && decide (tr.Max ≥ e.MaxTime)) &&
  -- out of range for the direction
  !(if asc then decide (e.MaxTime < t) else decide (e.MinTime > t))

def fileLocations (t : Int) (asc : Bool) (fi : Nat) (f : FileState V) : List (Block V) :=
  f.entries.zipIdx.filterMap fun (ev, bi) =>
    if keepEntry f.tombs t asc ev.1 then
      some { file := fi, blk := bi, entry := ev.1, vals := ev.2, tombs := f.tombs }
    else none

/-- FileStore.locations: file-major, entries in index order (the pre-sort order) -/
def locations (files : List (FileState V)) (t : Int) (asc : Bool) : List (Block V) :=
  files.zipIdx.flatMap fun (f, fi) => fileLocations t asc fi f

def lookupAll (locs : List (Block V)) : List (Nat × Nat) → Option (List (Block V))
  | [] => some []
  | (fi, bi) :: rest =>
    match locs.find? (fun b => b.file == fi && b.blk == bi), lookupAll locs rest with
    | some b, some bs => some (b :: bs)
    | _, _ => none

/-- `order` (a list of (file, entry index)) applied to the pre-sort list: the post-sort `seeks`.
    `none` unless `order` names every location exactly once. -/
def applyOrder (locs : List (Block V)) (order : List (Nat × Nat)) : Option (List (Block V)) :=
  if order.length ≠ locs.length then none
  else if !order.Nodup then none
  else if !(locs.all fun b => order.contains (b.file, b.blk)) then none
  else lookupAll locs order

/-! ## the cursor -/

/-- location.markRead -/
def markRead (r : Int × Int) (lo hi : Int) : Int × Int :=
  (if lo < r.1 then lo else r.1, if hi > r.2 then hi else r.2)

abbrev Marks (n : Nat) := Vector (Int × Int) n

def locOf {n} (B : Vector (Block V) n) (rd : Marks n) (i : Fin n) : Location :=
  { entry := B[i].entry, readMin := rd[i].1, readMax := rd[i].2 }

/-- `l.read()` -/
def isRead {n} (B : Vector (Block V) n) (rd : Marks n) (i : Fin n) : Bool := read (locOf B rd i)

def markAt {n} (rd : Marks n) (i : Fin n) (lo hi : Int) : Marks n := rd.set i (markRead rd[i] lo hi)

/-- `excludeTombstones…(t, values)` -/
def excludeTombs (ts : List TimeRange) (a : Vals V) : Vals V :=
  ts.foldl (fun acc t => exclude acc t.Min t.Max) a

/-- the first block: "Remove values we already read", then "Remove any tombstones" -/
def firstVals {n} (B : Vector (Block V) n) (rd : Marks n) (i : Fin n) : Vals V :=
  excludeTombs B[i].tombs (exclude B[i].vals rd[i].1 rd[i].2)

/-- the other blocks: tombstones first, then the values already read -/
def curVals {n} (B : Vector (Block V) n) (rd : Marks n) (i : Fin n) : Vals V :=
  exclude (excludeTombs B[i].tombs B[i].vals) rd[i].1 rd[i].2

/-- ascending, first loop: "expand the window to include the min time range" -/
def growMin {n} (B : Vector (Block V) n) (rd : Marks n) (rest : List (Fin n)) (minT : Int) : Int :=
  rest.foldl (fun m i => if B[i].entry.MinTime < m && !isRead B rd i then B[i].entry.MinTime else m) minT

/-- descending, first loop -/
def growMax {n} (B : Vector (Block V) n) (rd : Marks n) (rest : List (Fin n)) (maxT : Int) : Int :=
  rest.foldl (fun m i => if B[i].entry.MaxTime > m && !isRead B rd i then B[i].entry.MaxTime else m) maxT

/-- second loop: "Find first block that overlaps our window" -/
def firstOverlap {n} (B : Vector (Block V) n) (rd : Marks n) (rest : List (Fin n)) (minT maxT : Int) :
    Option (Fin n) :=
  rest.find? fun i => OverlapsTimeRange B[i].entry minT maxT && !isRead B rd i

/-- third loop: "Search the remaining blocks that overlap our window and append their values so
    we can merge them."  Marks are updated block by block, as in Go. -/
def mergeLoop {n} (asc : Bool) (B : Vector (Block V) n) (minT maxT : Int) :
    List (Fin n) → Marks n → Vals V → Marks n × Vals V
  | [], rd, values => (rd, values)
  | i :: is, rd, values =>
    if !OverlapsTimeRange B[i].entry minT maxT || isRead B rd i then
      mergeLoop asc B minT maxT is (markAt rd i minT maxT) values
    else
      let v := curVals B rd i
      let values' :=
        if v.isEmpty then values
        else
          let v := include_ v minT maxT
          if asc then merge values v   -- values = values.Merge(v)
          else merge v values          -- values = v.Merge(values)
      mergeLoop asc B minT maxT is (markAt rd i minT maxT) values'

/-- "Use the current block time range as our overlapping window":
    `minT, maxT := first.readMin, first.readMax; if values.Len() > 0 { minT, maxT = values.MinTime(), values.MaxTime() }` -/
def windowInit {n} (rd : Marks n) (f : Fin n) (values : Vals V) : Int × Int :=
  match minTime? values, maxTime? values with
  | some lo, some hi => (lo, hi)
  | _, _ => (rd[f].1, rd[f].2)

/-- Read…Block when `current` holds more than one location: `first = f`, the others `rest`,
    `values` = what is left of the first block.  Returns the new marks and the block. -/
def readMulti {n} (asc : Bool) (B : Vector (Block V) n) (rd : Marks n) (f : Fin n) (rest : List (Fin n))
    (values : Vals V) : Marks n × Vals V :=
  let (minT, maxT) := windowInit rd f values
  if asc then
    let minT := growMin B rd rest minT
    let (maxT, values) := match firstOverlap B rd rest minT maxT with
      | some i =>
        let maxT := if B[i].entry.MaxTime > maxT then B[i].entry.MaxTime else maxT
        (maxT, include_ values minT maxT)
      | none => (maxT, values)
    let (rd, values) := mergeLoop true B minT maxT rest rd values
    (markAt rd f minT maxT, values)       -- `first.markRead(minT, maxT)`
  else
    let maxT := growMax B rd rest maxT
    let (minT, values) := match firstOverlap B rd rest minT maxT with
      | some i =>
        let minT := if B[i].entry.MinTime < minT then B[i].entry.MinTime else minT
        (minT, include_ values minT maxT)
      | none => (minT, values)
    let (rd, values) := mergeLoop false B minT maxT rest rd values
    (markAt rd f minT maxT, values)

/-- KeyCursor.Read…Block on `current = cur`; returns the new marks, the new `current`
    (after the `c.current = c.current[1:]; goto LOOP` steps) and the block. -/
def readLoop {n} (asc : Bool) (B : Vector (Block V) n) :
    List (Fin n) → Marks n → Marks n × List (Fin n) × Vals V
  | [], rd => (rd, [], [])               -- "No matching blocks to decode"
  | f :: rest, rd =>
    let values := firstVals B rd f
    if values.isEmpty then readLoop asc B rest rd
    else
      match rest with
      | [] =>
        -- "Only one block with this key and time range so return it"
        match minTime? values, maxTime? values with
        | some lo, some hi => (markAt rd f lo hi, [f], values)
        | _, _ => (rd, [f], values)
      | r :: rs =>
        let (rd', values) := readMulti asc B rd f (r :: rs) values
        (rd', f :: r :: rs, values)

/-- KeyCursor (the fields the block reads use) -/
structure Cursor (V : Type) (n : Nat) where
  blocks : Vector (Block V) n     -- `seeks`, immutable part
  rd : Marks n                    -- `seeks[i].readMin/readMax`
  current : List (Fin n)
  pos : Int
  ascending : Bool

def Cursor.readBlock {n} (c : Cursor V n) : Cursor V n × Vals V :=
  let (rd, cur, v) := readLoop c.ascending c.blocks c.current c.rd
  ({ c with rd := rd, current := cur }, v)

/-- index `p` of `seeks`; `none` where Go would panic (index out of range) -/
def fin? (n : Nat) (p : Int) : Option (Fin n) :=
  if h : 0 ≤ p ∧ p < n then some ⟨p.toNat, by omega⟩ else none

/-- the `for { c.pos++ … }` loop of nextAscending: new `pos` and the block found, if any.
    Outer `none`: fuel exhausted or index out of range (neither happens, see Props). -/
def scanAsc {n} (B : Vector (Block V) n) (rd : Marks n) : Nat → Int → Option (Int × Option (Fin n))
  | 0, _ => none
  | k + 1, p =>
    let p := p + 1
    if p ≥ n then some (p, none)
    else match fin? n p with
      | none => none
      | some i => if !isRead B rd i then some (p, some i) else scanAsc B rd k p

def scanDesc {n} (B : Vector (Block V) n) (rd : Marks n) : Nat → Int → Option (Int × Option (Fin n))
  | 0, _ => none
  | k + 1, p =>
    let p := p - 1
    if p < 0 then some (p, none)
    else match fin? n p with
      | none => none
      | some i => if !isRead B rd i then some (p, some i) else scanDesc B rd k p

/-- KeyCursor.Next -/
def Cursor.next {n} (c : Cursor V n) : Option (Cursor V n) :=
  match c.current with
  | [] => some c
  | f :: _ =>
    -- "Do we still have unread values in the current block"
    if !isRead c.blocks c.rd f then some c
    else if c.ascending then
      -- nextAscending
      match scanAsc c.blocks c.rd (n + 1) c.pos with
      | none => none
      | some (p, none) => some { c with pos := p, current := [] }
      | some (p, some i) =>
        -- "If we have ovelapping blocks, append all their values so we can dedup"
        let more := (List.finRange n).filter fun j => decide (i.val < j.val) && !isRead c.blocks c.rd j
        some { c with pos := p, current := i :: more }
    else
      -- nextDescending: `for i := c.pos; i >= 0; i--` starts AT pos: seeks[pos] is appended twice
      match scanDesc c.blocks c.rd (n + 1) c.pos with
      | none => none
      | some (p, none) => some { c with pos := p, current := [] }
      | some (p, some i) =>
        let more := ((List.finRange n).filter fun j => decide (j.val ≤ i.val) && !isRead c.blocks c.rd j).reverse
        some { c with pos := p, current := i :: more }

/-- newKeyCursor after the sort: marks from `locations`, then `seek(t)` -/
def Cursor.init {n} (B : Vector (Block V) n) (t : Int) (asc : Bool) : Cursor V n :=
  let rd : Marks n := Vector.replicate n (initMark t asc)
  if asc then
    -- seekAscending
    let cur := (List.finRange n).filter fun i => decide (t < B[i].entry.MinTime) || Contains B[i].entry t
    { blocks := B, rd := rd, current := cur, ascending := true,
      pos := match cur with | [] => 0 | i :: _ => i.val }
  else
    -- seekDescending
    let cur := (List.finRange n).reverse.filter fun i => decide (t > B[i].entry.MaxTime) || Contains B[i].entry t
    { blocks := B, rd := rd, current := cur, ascending := false,
      pos := match cur with | [] => 0 | i :: _ => i.val }

/-- the engine's cursors (iterator.gen.go, array_cursor.gen.go): `Read…Block`; while the block
    is non-empty { `Next`; `Read…Block` }.  `none`: out of fuel / Go panic. -/
def Cursor.drain {n} : Nat → Cursor V n → Option (List (Vals V))
  | 0, _ => none
  | k + 1, c =>
    let (c1, v) := c.readBlock
    if v.isEmpty then some []
    else match c1.next with
      | none => none
      | some c2 => (Cursor.drain k c2).map (v :: ·)

def totalPoints (seeks : List (Block V)) : Nat := (seeks.map (·.vals.length)).sum

/-- the whole read for a given post-sort order of `seeks` -/
def runSeeks (seeks : List (Block V)) (t : Int) (asc : Bool) : Option (List (Vals V)) :=
  let B : Vector (Block V) seeks.length := ⟨seeks.toArray, by simp⟩
  (Cursor.init B t asc).drain (totalPoints seeks + 1)

inductive Err where
  | badOrder    -- `order` is not a permutation of the locations
  | stuck       -- fuel exhausted or index panic (shown impossible in Props.C06)
deriving Repr, DecidableEq

def keyCursorRead (files : List (FileState V)) (t : Int) (asc : Bool) (order : List (Nat × Nat)) :
    Except Err (List (Vals V)) :=
  match applyOrder (locations files t asc) order with
  | none => .error .badOrder
  | some seeks =>
    match runSeeks seeks t asc with
    | none => .error .stuck
    | some bs => .ok bs

end Influx.KC
