/-
  Model.Cache — the sequential semantics of `tsm1.Cache`, written from the code
  as it is (/repo/tsdb/engine/tsm1/cache.go, ring.go, encoding.gen.go
  `Values.Deduplicate/Exclude/Size`).  Core Lean only.

  literal:   entry.add / newEntryValues (type check only against a non-zero vtype:
             a batch added to an entry created from an empty value list is NOT
             checked against itself), partition.write, WriteMulti (limit test on
             Size()+added, optimistic size, per-key rollback, +len(key) for new keys),
             Snapshot (in-progress error, retry of a non-empty failed snapshot, swap,
             size bookkeeping), ClearSnapshot, DeleteRange (size arithmetic with the
             size measured BEFORE the filter's deduplication), Values
             (deduplicates the hot and the snapshot entry in place — without touching
             `size`), Deduplicate, Size, Count; uint64 arithmetic wraps.
  generated: the valueType constants and the per-type `Value.Size()`
             (`Influx.Generated.CacheConsts`).
  abstracted: the ring is a map (16 partitions and xxhash only distribute keys);
             `sort.Stable` is any stable sort (its result is unique);
             `Values.Exclude` on a strictly ascending list is the filter
             `t < min ∨ max < t` (its index arithmetic is C37's subject);
             a value's payload is an opaque canonical text (the cache never
             inspects it), its type and string length are kept.
-/
import Influx.Generated.CacheConsts

namespace Influx.Cache
open Influx.Generated.CacheConsts

abbrev Key := List Nat   -- bytes

structure Value where
  t : Int
  /-- `valueType(v)` -/
  ty : Nat
  /-- canonical text of the payload -/
  payload : String
  /-- `len(v.value)` for a string value -/
  slen : Nat
deriving DecidableEq, Repr

/-- `Value.Size()` -/
def Value.size (v : Value) : Nat :=
  if v.ty = valueTypeFloat64 then floatValueSize ()
  else if v.ty = valueTypeInteger then integerValueSize ()
  else if v.ty = valueTypeUnsigned then unsignedValueSize ()
  else if v.ty = valueTypeBoolean then booleanValueSize ()
  else if v.ty = valueTypeString then stringValueSize v.slen
  else 0

/-- `Values.Size()` -/
def valuesSize (a : List Value) : Nat := (a.map Value.size).sum

/-! ### uint64 -/
def W : Nat := 18446744073709551616
def add64 (a b : Nat) : Nat := (a + b) % W
/-- `atomic.AddUint64(&x, ^(delta-1))` -/
def sub64 (a b : Nat) : Nat := (a + (W - b % W)) % W

/-! ### Values.Deduplicate / Exclude -/

/-- strictly ascending timestamps (`needSort` is its negation) -/
def ordered : List Value → Bool
  | [] => true
  | [_] => true
  | a :: b :: rest => decide (a.t < b.t) && ordered (b :: rest)

/-- insert after every element with a timestamp ≤ `v.t` (stable) -/
def insertByTime (v : Value) : List Value → List Value
  | [] => [v]
  | x :: xs => if v.t < x.t then v :: x :: xs else x :: insertByTime v xs

/-- `sort.Stable(a)` by `UnixNano()` -/
def sortStable (a : List Value) : List Value := a.foldl (fun acc v => insertByTime v acc) []

/-- the `for j` loop: of every run of equal timestamps the last value is kept -/
def collapse : List Value → List Value
  | [] => []
  | [a] => [a]
  | a :: b :: rest => if a.t = b.t then collapse (b :: rest) else a :: collapse (b :: rest)

/-- `Values.Deduplicate` -/
def dedup (a : List Value) : List Value :=
  if a.length ≤ 1 then a else if ordered a then a else collapse (sortStable a)

/-- `Values.Exclude(min, max)` on a deduplicated list -/
def exclude (a : List Value) (min max : Int) : List Value :=
  a.filter fun v => !(decide (min ≤ v.t) && decide (v.t ≤ max))

/-! ### entry -/

structure Entry where
  values : List Value
  vtype : Nat
deriving DecidableEq, Repr

inductive Err where
  | typeConflict
deriving DecidableEq, Repr

/-- `newEntryValues` -/
def newEntryValues (values : List Value) : Except Err Entry :=
  match values with
  | [] => .ok ⟨[], 0⟩
  | v :: _ => if values.all (fun x => x.ty = v.ty) then .ok ⟨values, v.ty⟩ else .error .typeConflict

/-- `entry.add` -/
def Entry.add (e : Entry) (values : List Value) : Except Err Entry :=
  match values with
  | [] => .ok e
  | v :: _ =>
    if e.vtype ≠ 0 && values.any (fun x => x.ty ≠ e.vtype) then .error .typeConflict
    else if e.values.isEmpty then .ok ⟨values, v.ty⟩
    else .ok ⟨e.values ++ values, e.vtype⟩

/-- `entry.deduplicate` -/
def Entry.deduplicate (e : Entry) : Entry := if e.values.length ≤ 1 then e else { e with values := dedup e.values }

/-- `entry.filter` -/
def Entry.filter (e : Entry) (min max : Int) : Entry :=
  let vs := if e.values.length > 1 then dedup e.values else e.values
  { e with values := exclude vs min max }

/-! ### the store (ring of partitions = one map) -/

abbrev Store := List (Key × Entry)

def Store.entry (s : Store) (k : Key) : Option Entry := s.lookup k

def Store.set (s : Store) (k : Key) (e : Entry) : Store :=
  match s with
  | [] => [(k, e)]
  | (k', e') :: rest => if k' = k then (k, e) :: rest else (k', e') :: Store.set rest k e

def Store.remove (s : Store) (k : Key) : Store := s.filter (fun x => x.1 ≠ k)

/-- `ring.count`: keys whose entry holds at least one value -/
def Store.count (s : Store) : Nat := (s.filter fun x => !x.2.values.isEmpty).length

/-- `partition.write`: `(newKey, err)` and the store -/
def Store.write (s : Store) (k : Key) (values : List Value) : Store × Bool × Option Err :=
  match s.entry k with
  | some e =>
    match e.add values with
    | .ok e' => (s.set k e', false, none)
    | .error err => (s, false, some err)
  | none =>
    match newEntryValues values with
    | .ok e => (s.set k e, true, none)
    | .error err => (s, false, some err)

/-! ### Cache -/

structure Snap where
  store : Store
  size : Nat
deriving Repr

structure Cache where
  size : Nat := 0
  snapshotSize : Nat := 0
  maxSize : Nat := 0
  store : Store := []
  snapshot : Option Snap := none
  snapshotting : Bool := false
deriving Repr

/-- `Cache.Size` -/
def Cache.Size (c : Cache) : Nat := add64 c.size c.snapshotSize

inductive WriteErr where
  | limit (n : Nat)
  | typeConflict
deriving DecidableEq, Repr

/-- the `for k, v := range values` loop of `WriteMulti` (any order of distinct keys
    gives the same result; the model takes the order of the batch) -/
def writeLoop : List (Key × List Value) → Store → Nat → Bool → Store × Nat × Bool
  | [], st, size, werr => (st, size, werr)
  | (k, v) :: rest, st, size, werr =>
    let (st', newKey, err) := st.write k v
    let (size, werr) := match err with
      | some _ => (sub64 size (valuesSize v), true)
      | none => (size, werr)
    let size := if newKey then add64 size k.length else size
    writeLoop rest st' size werr

/-- `Cache.WriteMulti` -/
def Cache.writeMulti (c : Cache) (batch : List (Key × List Value)) : Cache × Option WriteErr :=
  let added := batch.foldl (fun a kv => add64 a (valuesSize kv.2)) 0
  let n := add64 c.Size added
  if c.maxSize > 0 && n > c.maxSize then (c, some (.limit n))
  else
    let (st, size, werr) := writeLoop batch c.store (add64 c.size added) false
    ({ c with store := st, size := size }, if werr then some .typeConflict else none)

/-- `Cache.Snapshot`: `none` = ErrSnapshotInProgress; otherwise the snapshot's `Size()` and `Count()` -/
def Cache.snapshotOp (c : Cache) : Cache × Option (Nat × Nat) :=
  if c.snapshotting then (c, none)
  else
    let snap := c.snapshot.getD ⟨[], 0⟩
    if snap.size > 0 then
      ({ c with snapshotting := true, snapshot := some snap }, some (snap.size, snap.store.count))
    else
      let ssize := c.Size
      ({ c with snapshotting := true, snapshot := some ⟨c.store, ssize⟩, snapshotSize := ssize,
                store := [], size := 0 }, some (ssize, c.store.count))

/-- `Cache.ClearSnapshot(success)`; `none` = nil dereference (no snapshot was ever taken) -/
def Cache.clearSnapshot (c : Cache) (success : Bool) : Option Cache :=
  match c.snapshot with
  | none => none
  | some snap =>
    if success then some { c with snapshotting := false, snapshot := some ⟨[], 0⟩, snapshotSize := 0 }
    else some { c with snapshotting := false, snapshot := some snap }

def minInt64 : Int := -9223372036854775808
def maxInt64 : Int := 9223372036854775807

/-- the `for _, k := range keys` loop of `DeleteRange` -/
def deleteLoop (min max : Int) : List Key → Store → Nat → Store × Nat
  | [], st, size => (st, size)
  | k :: rest, st, size =>
    match st.entry k with
    | none => deleteLoop min max rest st size
    | some e =>
      let origSize := valuesSize e.values
      if min = minInt64 && max = maxInt64 then
        deleteLoop min max rest (st.remove k) (sub64 size (origSize + k.length))
      else
        let e' := e.filter min max
        if e'.values.isEmpty then
          deleteLoop min max rest (st.remove k) (sub64 size (origSize + k.length))
        else
          deleteLoop min max rest (st.set k e') (sub64 size (origSize - valuesSize e'.values))

/-- `Cache.DeleteRange` -/
def Cache.deleteRange (c : Cache) (keys : List Key) (min max : Int) : Cache :=
  let (st, size) := deleteLoop min max keys c.store c.size
  { c with store := st, size := size }

/-- `Cache.Values(key)`: deduplicates both entries in place, returns the merged copy -/
def Cache.values (c : Cache) (k : Key) : Cache × List Value :=
  let e := c.store.entry k
  let se := match c.snapshot with
    | some s => s.store.entry k
    | none => none
  match e, se with
  | none, none => (c, [])
  | _, _ =>
    let e' := e.map Entry.deduplicate
    let se' := se.map Entry.deduplicate
    let store := match e' with
      | some x => c.store.set k x
      | none => c.store
    let snapshot := match c.snapshot, se' with
      | some s, some x => some { s with store := s.store.set k x }
      | s, _ => s
    let vs := (match se' with | some x => x.values | none => []) ++ (match e' with | some x => x.values | none => [])
    ({ c with store := store, snapshot := snapshot }, dedup vs)

/-- `Cache.Deduplicate` (on the cache's own store) -/
def Cache.deduplicate (c : Cache) : Cache :=
  { c with store := c.store.map fun (k, e) => (k, e.deduplicate) }

/-- `Cache.Count` -/
def Cache.count (c : Cache) : Nat := c.store.count

/-! ### operations and observations -/

inductive Op where
  | new (maxSize : Nat)
  | write (batch : List (Key × List Value))
  | snapshot
  | clear (success : Bool)
  | delrange (keys : List Key) (min max : Int)
  | values (k : Key)
  | size
  | count
  | dedup
deriving Repr

inductive Obs where
  | ok
  | errLimit (n : Nat)
  | errConflict
  | errInProgress
  | snap (size : Nat) (count : Nat)
  | vals (vs : List Value)
  | num (n : Nat)
  /-- the operation's precondition does not hold (ClearSnapshot before any Snapshot
      dereferences nil while holding the lock): refused by the harness, not executed -/
  | refused
deriving Repr, DecidableEq

def step (c : Cache) : Op → Cache × Obs
  | .new m => ({ maxSize := m }, .ok)
  | .write batch =>
    match c.writeMulti batch with
    | (c', none) => (c', .ok)
    | (c', some (.limit n)) => (c', .errLimit n)
    | (c', some .typeConflict) => (c', .errConflict)
  | .snapshot =>
    match c.snapshotOp with
    | (c', none) => (c', .errInProgress)
    | (c', some (sz, cnt)) => (c', .snap sz cnt)
  | .clear success =>
    match c.clearSnapshot success with
    | none => (c, .refused)
    | some c' => (c', .ok)
  | .delrange keys min max => (c.deleteRange keys min max, .ok)
  | .values k => let (c', vs) := c.values k; (c', .vals vs)
  | .size => (c, .num c.Size)
  | .count => (c, .num c.count)
  | .dedup => (c.deduplicate, .ok)

def runFrom (c : Cache) : List Op → List (Op × Obs)
  | [] => []
  | op :: rest => let (c', o) := step c op; (op, o) :: runFrom c' rest

def run (ops : List Op) : List (Op × Obs) := runFrom {} ops

end Influx.Cache
