/-
  Model.CompactSort — Go's `sort.Stable` (go1.26 src/sort/zsortinterface.go:
  `stable`, `insertionSort`, `symMerge`, `rotate`) ported to lists, for an
  arbitrary `less : α → α → Bool` (no assumption that it is a strict weak
  order: `blocks.Less` of compact.go is not one).

  * `insertionSort`  — the loop `for i := a+1; i < b; i++ { for j := i; j > a && less(j, j-1); j-- { swap } }`
                       the sorted prefix is kept reversed, the new element bubbles left.
  * `symMerge`       — index arithmetic kept literally, relative to `a = 0`
                       (the code is translation invariant: `mid`, `n`, `start`, `p-c` all shift with `a`);
                       `rotate(start, m, end)` is the block exchange `x u v y ↦ x v u y`.
  * `stable`         — blocks of 20, then doubling merge passes.
-/
namespace Influx.Model.Compact.Sort

variable {α : Type}

/-- bubble `x` left through the reversed sorted prefix while `less x prev`. -/
def insertRev (less : α → α → Bool) (x : α) : List α → List α
  | [] => [x]
  | p :: ps => if less x p then p :: insertRev less x ps else x :: p :: ps

/-- `insertionSort(data, a, b)` on the segment; accumulator is the reversed sorted prefix. -/
def insertionSortAux (less : α → α → Bool) : List α → List α → List α
  | acc, [] => acc.reverse
  | acc, x :: xs => insertionSortAux less (insertRev less x acc) xs

def insertionSort (less : α → α → Bool) (l : List α) : List α :=
  insertionSortAux less [] l

/-- lowest `i ∈ [i, j]` by the loop `for i < j { h := (i+j)/2; if p h then i = h+1 else j = h }`. -/
def bsearch (p : Nat → Bool) : Nat → Nat → Nat → Nat
  | 0, i, _ => i
  | fuel + 1, i, j =>
    if i < j then
      let h := (i + j) / 2
      if p h then bsearch p fuel (h + 1) j else bsearch p fuel i h
    else i

/-- `symMerge(data, a, m, b)` on the segment `seg = data[a:b]`, with `m` relative to `a`.
    `fuel` bounds the recursion depth (the segment at least halves: `seg.size` suffices). -/
def symMerge [Inhabited α] (less : α → α → Bool) : Nat → Array α → Nat → Array α
  | 0, seg, _ => seg
  | fuel + 1, seg, m =>
    let b := seg.size
    if m = 0 ∨ m ≥ b then seg
    else if m = 1 then
      -- insert data[a] into data[m:b]: lowest i with ¬ less(data[i], data[a])
      let i := bsearch (fun h => less seg[h]! seg[0]!) b m b
      -- data[a] moves to position i-1
      (seg.extract 1 i).push seg[0]! ++ seg.extract i b
    else if b - m = 1 then
      -- insert data[m] into data[a:m]: lowest i with less(data[m], data[i])
      let i := bsearch (fun h => !less seg[m]! seg[h]!) b 0 m
      (seg.extract 0 i).push seg[m]! ++ seg.extract i m
    else
      let mid := b / 2
      let n := mid + m
      let start0 := if m > mid then n - b else 0
      let r0 := if m > mid then mid else m
      let p := n - 1
      let start := bsearch (fun c => !less seg[p - c]! seg[c]!) b start0 r0
      let e := n - start
      -- rotate(start, m, end): x u v y ↦ x v u y
      let seg' := if start < m ∧ m < e then
          seg.extract 0 start ++ seg.extract m e ++ seg.extract start m ++ seg.extract e b
        else seg
      let left := seg'.extract 0 mid
      let right := seg'.extract mid b
      let left' := if 0 < start ∧ start < mid then symMerge less fuel left start else left
      let right' := if mid < e ∧ e < b then symMerge less fuel right (e - mid) else right
      left' ++ right'

/-- insertion-sort consecutive blocks of `bs` elements (the last one may be shorter). -/
def insertionBlocks (less : α → α → Bool) (bs : Nat) : Nat → List α → List α
  | 0, l => l
  | fuel + 1, l =>
    if l.isEmpty then [] else
    insertionSort less (l.take bs) ++ insertionBlocks less bs fuel (l.drop bs)

/-- one pass of `for b <= n { symMerge(a, a+blockSize, b) … }; if a+blockSize < n { symMerge(a, a+blockSize, n) }`. -/
def mergePass [Inhabited α] (less : α → α → Bool) (bs : Nat) : Nat → List α → List α
  | 0, l => l
  | fuel + 1, l =>
    if 2 * bs ≤ l.length then
      (symMerge less (2 * bs + 1) (l.take (2 * bs)).toArray bs).toList ++ mergePass less bs fuel (l.drop (2 * bs))
    else if bs < l.length then
      (symMerge less (l.length + 1) l.toArray bs).toList
    else l

def mergeLoop [Inhabited α] (less : α → α → Bool) : Nat → Nat → List α → List α
  | 0, _, l => l
  | fuel + 1, bs, l =>
    if bs < l.length then mergeLoop less fuel (2 * bs) (mergePass less bs (l.length + 1) l) else l

/-- `sort.Stable`. -/
def stable [Inhabited α] (less : α → α → Bool) (l : List α) : List α :=
  mergeLoop less (l.length + 1) 20 (insertionBlocks less 20 (l.length + 1) l)

end Influx.Model.Compact.Sort
