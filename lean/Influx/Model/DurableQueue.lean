/-
  Influx.Model.DurableQueue — executable model of `pkg/durablequeue` (queue.go,
  scanner.go), written from the code as it is.

  A segment file is a byte string: records `len:8 (big endian) ++ body`,
  followed by an 8-byte footer holding the position of the head record.
  Every mutating operation of the code ends with `file.Sync()`, so the model
  keeps one byte string per segment (= the durable content); the only
  in-memory state that can differ from the file is `pos` (`segment.pos`) and
  `maxSize`.  `segment.size` always equals the file length (checked by the
  correspondence run through the `stat` op), so it is derived.

  The file cursor of the Go code (`Seek` + sequential `Read`) is modelled by
  explicit offsets: "read at offset o" reads from `file.drop o`.

  Bytes are `Nat`s (the driver only ever feeds values < 256; no theorem needs
  the bound).  Where Go converts `uint64 → int64` the model uses `toI64`
  (two's complement), so records with a length field ≥ 2^63 behave as in Go.

  Core-only (no Mathlib): compiled into the driver.
-/
namespace Influx.DQ

abbrev Bytes := List Nat

/-- `binary.BigEndian.PutUint64` -/
def be64 (n : Nat) : Bytes :=
  [n / 2^56 % 256, n / 2^48 % 256, n / 2^40 % 256, n / 2^32 % 256,
   n / 2^24 % 256, n / 2^16 % 256, n / 2^8 % 256, n % 256]

/-- `binary.BigEndian.Uint64` of (the first 8 bytes of) a byte string. -/
def rd64 (bs : Bytes) : Nat := (bs.take 8).foldl (fun a b => a * 256 + b) 0

/-- `uint64 → int64` -/
def toI64 (n : Nat) : Int := if n < 2^63 then (n : Int) else (n : Int) - 2^64

/-- int64 addition result brought back into range (Go wraps silently). -/
def wrap64 (i : Int) : Int :=
  if i ≥ 2^63 then i - 2^64 else if i < -(2^63 : Int) then i + 2^64 else i

/-- error kinds the code distinguishes: `io.EOF` and everything else -/
inductive RErr | eof | other
deriving DecidableEq, Repr

/-- `segment.readUint64` at the given remaining file content:
    `file.Read` of 8 bytes — nothing left ⇒ `io.EOF`, fewer than 8 ⇒ "bad read". -/
def read8 (rest : Bytes) : Except RErr Nat :=
  match rest with
  | [] => .error .eof
  | _ => if rest.length < 8 then .error .other else .ok (rd64 rest)

/-- `segment.readBytes(make([]byte, n))`: a zero-length read succeeds. -/
def readN (rest : Bytes) (n : Nat) : Except RErr Bytes :=
  if n = 0 then .ok []
  else match rest with
    | [] => .error .eof
    | _ => if rest.length < n then .error .other else .ok (rest.take n)

/-- One segment: file content, in-memory head position, in-memory max size. -/
structure Seg where
  file : Bytes
  pos : Nat
  maxSize : Nat
deriving DecidableEq, Repr

def Seg.size (s : Seg) : Nat := s.file.length

/-- `segment.empty` -/
def Seg.empty (s : Seg) : Bool := s.pos == s.size - 8
/-- `segment.full` -/
def Seg.full (s : Seg) : Bool := s.size ≥ s.maxSize

/-! ### repair -/

/-- The walk of `segment.repair` from offset `off` (`rest = file.drop off`).
    Returns the offset at which the walk stops (the file is then cut there and
    a zero footer written, whether or not `truncate` was set: both branches
    produce `file.take off ++ be64 0`).  `none`: the walk seeks backwards
    (record size ≥ 2^63 whose two's complement stays inside the file) — the Go
    loop may then not terminate; not modelled. -/
def walk (size : Nat) : Nat → Bytes → Nat → Option Nat
  | 0, _, _ => none
  | fuel + 1, rest, off =>
    if off = size - 8 then some off
    else match read8 rest with
      | .error _ => some off
      | .ok rs =>
        if rs ≥ 2^63 then (if 2^64 - rs > off + 8 then some off else none)
        else if off + 8 + rs > size - 8 then some off
        else walk size fuel (rest.drop (8 + rs)) (off + 8 + rs)

/-- `segment.repair`: new file content (the new position is always 0). -/
def repairFile (file : Bytes) : Option Bytes :=
  (walk file.length (file.length + 1) file 0).map fun off => file.take off ++ be64 0

/-! ### open -/

/-- Second half of `segment.open`: the head position `pos` has been read from
    the footer (or reset by `repair`); check the current block.  `reopen` is the
    recursive call `return l.open()`. -/
def openAt (verify : Bytes → Bool) (mx : Nat) (reopen : Bytes → Option Seg)
    (file : Bytes) (pos : Nat) : Option Seg :=
  let size := file.length
  if pos ≥ size - 8 then some ⟨file, pos, mx⟩
  else
    let cs := rd64 (file.drop pos)
    if cs ≥ 2^63 ∨ cs > size - 8 - pos then (repairFile file).bind reopen
    else
      let block := (file.drop (pos + 8)).take cs
      if verify block then some ⟨file, pos, mx⟩
      else reopen (file.take pos ++ be64 0)

/-- `segment.open` on an existing file (size ≥ 8).  `verify = verifyBlockFn`
    (`true` = nil error).  Fuel bounds the `return l.open()` recursion. -/
def openAux (verify : Bytes → Bool) (mx : Nat) : Nat → Bytes → Option Seg
  | 0, _ => none
  | fuel + 1, file =>
    let size := file.length
    if size < 8 then none else
    let pos0 := rd64 (file.drop (size - 8))
    if pos0 > size - 8 then
      (repairFile file).bind fun f => openAt verify mx (openAux verify mx fuel) f 0
    else openAt verify mx (openAux verify mx fuel) file pos0

/-- `newSegment(path, maxSize, verifyBlockFn)`: an empty (new) file gets a zero
    footer; a file of 1..7 bytes cannot be opened (`Seek(-8, SeekEnd)` fails);
    `maxSize` is raised to the file size. -/
def newSeg (verify : Bytes → Bool) (mx : Nat) (file : Bytes) : Option Seg :=
  if file.length = 0 then some ⟨be64 0, 0, mx⟩
  else openAux verify (max mx file.length) 4 file

/-! ### append / current / advance -/

inductive AErr | segFull
deriving DecidableEq, Repr

/-- `segment.append`: ONE write of `len ++ body ++ footer` at `size-8`, then fsync. -/
def Seg.append (s : Seg) (b : Bytes) : Except AErr Seg :=
  if s.size > s.maxSize then .error .segFull
  else .ok { file := s.file.take (s.size - 8) ++ (be64 b.length ++ b ++ be64 s.pos),
             pos := s.pos, maxSize := max s.maxSize b.length }

/-- `segment.current` -/
def Seg.current (s : Seg) : Except RErr Bytes :=
  if s.pos = s.size - 8 then .error .eof
  else match read8 (s.file.drop s.pos) with
    | .error e => .error e
    | .ok sz =>
      if sz > s.maxSize then .error .other
      else readN (s.file.drop (s.pos + 8)) sz

/-- `segment.advanceTo`: footer rewrite + fsync.  Result error `none` = nil. -/
def Seg.advanceTo (s : Seg) (p : Int) : Seg × Option RErr :=
  if p < (s.pos : Int) then (s, some .other)
  else
    let p := p.toNat
    let s1 := { s with pos := p }
    if p > s.size - 8 then (s1, some .eof)
    else
      let s2 := { s1 with file := s.file.take (s.size - 8) ++ be64 p }
      if p = s.size - 8 then (s2, some .eof) else (s2, none)

/-- `segment.advance`.  FIXED code (fixes/C26-advance-empty.patch): at the end
    of the segment it returns `io.EOF` without touching `pos`; the original read
    the footer as a record length and moved the in-memory `pos` past the end. -/
def Seg.advance (s : Seg) : Seg × Option RErr :=
  if s.pos = s.size - 8 then (s, some .eof)
  else match read8 (s.file.drop s.pos) with
    | .error e => (s, some e)
    | .ok sz => s.advanceTo (wrap64 ((s.pos : Int) + toI64 sz + 8))

/-! ### scanner (scanner.go) -/

structure Scan where
  pos : Int
  err : Option RErr := none
  eof : Bool := false
deriving DecidableEq, Repr

/-- `segmentScanner.Next`; the fuel bounds the `continue` on zero-length records. -/
def scanNext (s : Seg) : Nat → Scan → Scan × Option Bytes
  | 0, sc => (sc, none)
  | fuel + 1, sc =>
    if sc.eof ∨ sc.err.isSome then (sc, none)
    else if sc.pos < 0 then ({ sc with err := some .other }, none)
    else
      let p := sc.pos.toNat
      if p = s.size - 8 then ({ sc with eof := true }, none)
      else match read8 (s.file.drop p) with
        | .error .eof => (sc, none)
        | .error .other => ({ sc with err := some .other }, none)
        | .ok sz =>
          let sc' := { sc with pos := wrap64 (sc.pos + 8 + toI64 sz) }
          if sz = 0 then scanNext s fuel sc'
          else if sz > s.maxSize then ({ sc' with err := some .other }, none)
          else match readN (s.file.drop (p + 8)) sz with
            | .error e => ({ sc' with err := some e }, none)
            | .ok b => (sc', some b)

/-- up to `n` calls of `Next`, collecting `Bytes()` -/
def scanMany (s : Seg) : Nat → Scan → Scan × List Bytes
  | 0, sc => (sc, [])
  | n + 1, sc =>
    match scanNext s (s.size + 1) sc with
    | (sc', none) => (sc', [])
    | (sc', some b) => let (sc'', bs) := scanMany s n sc'; (sc'', b :: bs)

/-- `segmentScanner.Advance` -/
def Seg.scanAdvance (s : Seg) (sc : Scan) : Seg × Option RErr :=
  match sc.err with
  | some e => (s, some e)
  | none => s.advanceTo sc.pos

/-! ### queue -/

structure Q where
  segs : List Seg          -- head first, tail last
  maxSize : Nat
  maxSeg : Nat
  total : Int              -- queueTotalSize (SharedCount)
deriving DecidableEq, Repr

/-- `Queue.addSegment`: a new empty segment file (zero footer) becomes the tail. -/
def Q.addSegment (q : Q) : Q := { q with segs := q.segs ++ [⟨be64 0, 0, q.maxSeg⟩] }

/-- `Queue.trimHead` -/
def Q.trimHead (q : Q) (force : Bool) : Q :=
  let q1 := match q.segs with
    | [h] => if h.full ∨ force then q.addSegment else q
    | _ => if force then q.addSegment else q
  match q1.segs with
  | h :: h2 :: t => { q1 with segs := h2 :: t, total := q1.total - h.size }
  | _ => q1

/-- `NewQueue` + `Queue.Open` on the segment files found in the directory
    (in id order).  `none`: an error is returned. -/
def qOpen (verify : Bytes → Bool) (maxSize maxSeg : Nat) (files : List Bytes) : Option Q :=
  if maxSize < 2 * maxSeg then none else
  match files.mapM (newSeg verify maxSeg) with
  | none => none
  | some segs =>
    let segs := segs.filter (fun s => !s.empty)
    let q : Q := { segs := segs, maxSize := maxSize, maxSeg := maxSeg, total := 0 }
    let q := if segs.isEmpty then q.addSegment else q
    match q.segs with
    | [] => none
    | h :: _ =>
      match h.current with
      | .error .eof => some (q.trimHead false)
      | _ => some { q with total := (q.segs.map Seg.size).sum }

/-- the files on disk -/
def Q.files (q : Q) : List Bytes := q.segs.map Seg.file

inductive AppendRes | ok | full | err
deriving DecidableEq, Repr

def setLast (xs : List Seg) (t : Seg) : List Seg := xs.dropLast ++ [t]

/-- `Queue.Append` -/
def Q.append (q : Q) (b : Bytes) : Q × AppendRes :=
  if q.total + b.length > q.maxSize then (q, .full)
  else match q.segs.getLast? with
    | none => (q, .err)
    | some t =>
      match t.append b with
      | .ok t' => ({ q with segs := setLast q.segs t', total := q.total + (b.length + 8) }, .ok)
      | .error .segFull =>
        let q1 := q.addSegment
        match (⟨be64 0, 0, q.maxSeg⟩ : Seg).append b with
        | .ok t' => ({ q1 with segs := setLast q1.segs t', total := q1.total + (b.length + 8) }, .ok)
        | .error .segFull => (q1, .err)

/-- `Queue.Current` -/
def Q.current (q : Q) : Except RErr Bytes :=
  match q.segs with
  | [] => .error .other
  | h :: _ => h.current

/-- `Queue.Advance` (always returns nil) -/
def Q.advance (q : Q) : Q :=
  match q.segs with
  | [] => q
  | h :: t =>
    let (h', e) := h.advance
    let q' := { q with segs := h' :: t }
    if e = some .eof then q'.trimHead false else q'

inductive ScanRes
  | eof                       -- NewScanner returned io.EOF
  | got (ys : List Bytes) (advOk : Bool)
deriving DecidableEq, Repr

/-- `Queue.NewScanner`, up to `n` × `Next`/`Bytes`, then `queueScanner.Advance`. -/
def Q.scan (q : Q) (n : Nat) : Q × ScanRes :=
  match q.segs with
  | [] => (q, .eof)
  | h :: t =>
    if h.pos = h.size - 8 then (q, .eof)
    else
      let (sc, ys) := scanMany h n { pos := h.pos }
      let (h1, e) := h.scanAdvance sc
      match e with
      | none => ({ q with segs := h1 :: t }, .got ys true)
      | some .eof =>
        -- retried under the queue lock
        let (h2, e2) := h1.scanAdvance sc
        let q2 := { q with segs := h2 :: t }
        (match e2 with
         | none => (q2, .got ys true)
         | some .eof => (q2.trimHead false, .got ys true)
         | some .other => (q2.trimHead true, .got ys false))
      | some .other => (({ q with segs := h1 :: t } : Q).trimHead true, .got ys false)

/-! ### crash model

  A crash during the single positional write of `append`/`advanceTo` leaves a
  byte-prefix of that write on disk.  The write starts at `pre.length - 8`
  (over the old footer); `post` is the file after the complete write.  After
  `k` bytes: the first `pre.length - 8 + k` bytes are those of `post`, whatever
  of the old file lies beyond is unchanged (`k < 8`: in-place overwrite of part
  of the footer; `k ≥ 8`: the extension is as long as what was written). -/
def tornWrite (pre post : Bytes) (k : Nat) : Bytes :=
  post.take (pre.length - 8 + k) ++ pre.drop (pre.length - 8 + k)

/-- what the harness reports about the torn file -/
structure TornObs where
  size : Nat
  footer : Nat
  same : Nat         -- 0: differs from both, 1: equals the file before the write, 2: equals the complete write
deriving DecidableEq, Repr

def tornObs (pre post torn : Bytes) : TornObs :=
  { size := torn.length, footer := rd64 (torn.drop (torn.length - 8)),
    same := if torn = pre then 1 else if torn = post then 2 else 0 }

/-- "the torn file ends in 8 bytes that `open` accepts as a head position
    although the write was neither absent nor complete" (F10) -/
def TornObs.footerLike (o : TornObs) : Bool := o.same == 0 && decide (o.footer ≤ o.size - 8)

def setHead (xs : List Bytes) (f : Bytes) : List Bytes :=
  match xs with
  | [] => [f]
  | _ :: t => f :: t

def setLastB (xs : List Bytes) (f : Bytes) : List Bytes := xs.dropLast ++ [f]

/-- Crash during `Queue.Append b` after `k` bytes of the segment write, then
    reopen.  Returns the files left on disk and the observation of the torn file
    (`none` if the append does not write: queue full / segment error). -/
def Q.crashAppendFiles (q : Q) (b : Bytes) (k : Nat) : List Bytes × Option TornObs :=
  if q.total + b.length > q.maxSize then (q.files, none)
  else match q.segs.getLast? with
    | none => (q.files, none)
    | some t =>
      match t.append b with
      | .ok t' =>
        let torn := tornWrite t.file t'.file k
        (setLastB q.files torn, some (tornObs t.file t'.file torn))
      | .error .segFull =>
        let fresh : Seg := ⟨be64 0, 0, q.maxSeg⟩
        match fresh.append b with
        | .ok t' =>
          let torn := tornWrite fresh.file t'.file k
          (q.files ++ [torn], some (tornObs fresh.file t'.file torn))
        | .error .segFull => (q.files ++ [fresh.file], none)

/-- Crash during `Queue.Advance` after `k` bytes of the footer write.  The
    complete write is obtained as the harness obtains it: the head segment file
    is opened on its own (`newSegment`) and `segment.advance` is run on it (in
    every well-formed state this is the write the live queue would do, since the
    footer on disk equals the in-memory `pos`). -/
def Q.crashAdvFiles (verify : Bytes → Bool) (q : Q) (k : Nat) : List Bytes × Option TornObs :=
  match q.segs with
  | [] => (q.files, none)
  | h :: _ =>
    match newSeg verify q.maxSeg h.file with
    | none => (q.files, none)
    | some hs =>
      let post := hs.advance.1.file
      let torn := tornWrite h.file post k
      (setHead q.files torn, some (tornObs h.file post torn))

/-- Crash during the creation of the new segment file that `Queue.Append b` needs
    (`addSegment`: create, write the 8-byte zero footer, fsync), after `k` bytes of
    the footer.  `same`: 1 = the file is still empty, 2 = the footer is complete. -/
def Q.crashSegFiles (q : Q) (b : Bytes) (k : Nat) : List Bytes × Option TornObs :=
  if q.total + b.length > q.maxSize then (q.files, none)
  else match q.segs.getLast? with
    | none => (q.files, none)
    | some t =>
      match t.append b with
      | .ok _ => (q.files, none)
      | .error .segFull =>
        let torn := (be64 0).take k
        (q.files ++ [torn],
         some { size := torn.length, footer := 0, same := if k = 0 then 1 else if k ≥ 8 then 2 else 0 })

end Influx.DQ
