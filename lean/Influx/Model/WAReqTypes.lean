/-
  Influx.Model.WAReqTypes — hand-written types for the translated request predicates of
  storage/reads/aggregate_resultset.go (`Influx.Generated.WAReq`).

  `datatypes.ReadWindowAggregateRequest`, the fields the predicates read.  Pointer-typed
  message fields: `Window` is an `Option` (tested against nil by the Go code); the accessors
  below stand for `req.Window.Every.Nsecs` / `.Months` and `req.Aggregate[0].Type`, which the
  Go code only evaluates under the guards `req.Window != nil` resp. `len(req.Aggregate) == 1`
  (their value outside the guard is irrelevant; a nil `Every` inside a non-nil `Window` is not
  modelled).
-/
namespace Influx.WAReq

structure DurMsg where
  Nsecs : Int
  Months : Int
  Negative : Bool
deriving Repr, DecidableEq

structure WinMsg where
  Every : DurMsg
  Offset : Option DurMsg
deriving Repr, DecidableEq

structure Req where
  /-- `Aggregate[i].Type` as the protobuf enum number -/
  Aggregate : List Int
  WindowEvery : Int
  Offset : Int
  Window : Option WinMsg
deriving Repr, DecidableEq

/-- `req.Aggregate[0].Type` (read only when `len(req.Aggregate) == 1`) -/
def Req.agg0 (r : Req) : Int := match r.Aggregate with | a :: _ => a | [] => 0
/-- `req.Window.Every.Nsecs` (read only when `req.Window != nil`) -/
def Req.everyNsecs (r : Req) : Int := match r.Window with | some w => w.Every.Nsecs | none => 0
/-- `req.Window.Every.Months` (read only when `req.Window != nil`) -/
def Req.everyMonths (r : Req) : Int := match r.Window with | some w => w.Every.Months | none => 0

end Influx.WAReq
