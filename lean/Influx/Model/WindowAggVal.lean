/-
  Influx.Model.WindowAggVal — the concrete value domain of the C20/C41 drivers:
  one sum type for the five field types and the three arithmetic instantiations
  (`Ops`) of the cursor template (float64, int64, uint64).  Floats are carried as
  their IEEE-754 bit patterns; arithmetic goes through Lean's `Float` (the C
  `double` operations — the same hardware operations Go uses).  NaNs are
  canonicalised to 0x7ff8000000000000 (`Float.toBits` does; the harness does the
  same on the Go side).

  Nothing here is used by the theorems: they hold for every `Ops`.
-/
import Influx.Model.WindowAgg

namespace Influx.WindowAgg

inductive Val where
  | f (bits : UInt64)
  | i (v : Int)
  | u (v : Nat)
  | s (x : String)
  | b (x : Bool)
deriving DecidableEq, Repr, Inhabited

def canonNaN (x : Float) : UInt64 := if x.isNaN then 0x7ff8000000000000 else x.toBits

def wrapI64 (x : Int) : Int := (x + 9223372036854775808) % 18446744073709551616 - 9223372036854775808
def wrapU64 (x : Nat) : Nat := x % 18446744073709551616

/-- float64 instantiation -/
def opsF : Ops Val where
  zero := .f 0
  add a b := match a, b with
    | .f x, .f y => .f (canonNaN (Float.ofBits x + Float.ofBits y))
    | a, _ => a
  lt a b := match a, b with
    | .f x, .f y => decide (Float.ofBits x < Float.ofBits y)
    | _, _ => false
  ofCount n := .i n
  mean s n := match s with
    | .f x => .f (canonNaN (Float.ofBits x / (Int64.ofInt n).toFloat))
    | v => v

/-- int64 instantiation (`sum` wraps; `mean = float64(sum) / float64(count)`) -/
def opsI : Ops Val where
  zero := .i 0
  add a b := match a, b with
    | .i x, .i y => .i (wrapI64 (x + y))
    | a, _ => a
  lt a b := match a, b with
    | .i x, .i y => decide (x < y)
    | _, _ => false
  ofCount n := .i n
  mean s n := match s with
    | .i x => .f (canonNaN ((Int64.ofInt x).toFloat / (Int64.ofInt n).toFloat))
    | v => v

/-- uint64 instantiation -/
def opsU : Ops Val where
  zero := .u 0
  add a b := match a, b with
    | .u x, .u y => .u (wrapU64 (x + y))
    | a, _ => a
  lt a b := match a, b with
    | .u x, .u y => decide (x < y)
    | _, _ => false
  ofCount n := .i n
  mean s n := match s with
    | .u x => .f (canonNaN ((UInt64.ofNat x).toFloat / (Int64.ofInt n).toFloat))
    | v => v

/-- string / boolean instantiations: only count, first, last exist -/
def opsO : Ops Val where
  zero := .i 0
  add a _ := a
  lt _ _ := false
  ofCount n := .i n
  mean s _ := s

inductive Typ where | f | i | u | s | b
deriving DecidableEq, Repr

def Typ.ops : Typ → Ops Val
  | .f => opsF | .i => opsI | .u => opsU | _ => opsO

/-- which (aggregate, type) pairs `newWindowAggregateArrayCursor` supports:
    `ok`, `unsupported` (error value: sum/mean of string/boolean), `panics` (min/max of string/boolean). -/
inductive Support where | ok | unsupported | panics
deriving DecidableEq, Repr

def support (agg : Agg) (t : Typ) : Support :=
  match t with
  | .s | .b =>
    match agg with
    | .sum | .mean => .unsupported
    | .min | .max => .panics
    | _ => .ok
  | _ => .ok

end Influx.WindowAgg
