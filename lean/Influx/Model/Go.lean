/-
  Influx.Model.Go — the few pieces of Go's expression semantics the translator
  needs when a function dereferences pointers: a value of type `Option α` is
  "either a nil-dereference panic (`none`) or a value".  `&&` and `||`
  short-circuit exactly as in Go; binary operators evaluate left then right.
-/
namespace Go

/-- `*p` for a pointer-typed pure expression `p : Option α`. -/
@[inline] def deref (p : Option α) : Option α := p

def and (a b : Option Bool) : Option Bool :=
  match a with
  | none => none
  | some false => some false
  | some true => b

def or (a b : Option Bool) : Option Bool :=
  match a with
  | none => none
  | some true => some true
  | some false => b

def not (a : Option Bool) : Option Bool := a.map (!·)

def bin (f : α → β → γ) (a : Option α) (b : Option β) : Option γ :=
  match a with
  | none => none
  | some x => match b with
    | none => none
    | some y => some (f x y)

def eq [BEq α] (a b : Option α) : Option Bool := bin (· == ·) a b
def ne [BEq α] (a b : Option α) : Option Bool := bin (· != ·) a b
def lt [LT α] [DecidableLT α] (a b : Option α) : Option Bool := bin (fun x y => decide (x < y)) a b
def le [LE α] [DecidableLE α] (a b : Option α) : Option Bool := bin (fun x y => decide (x ≤ y)) a b

def ite (c : Option Bool) (t e : Option β) : Option β :=
  match c with
  | none => none
  | some true => t
  | some false => e

def bind (a : Option α) (f : α → Option β) : Option β :=
  match a with
  | none => none
  | some x => f x

/-- evaluate `a` for its panic only, then continue -/
def seq (a : Option α) (k : Option β) : Option β :=
  match a with
  | none => none
  | some _ => k

@[simp] theorem deref_eq (p : Option α) : deref p = p := rfl
@[simp] theorem and_some_true (b) : and (some true) b = b := rfl
@[simp] theorem and_some_false (b) : and (some false) b = some false := rfl
@[simp] theorem and_none (b) : and none b = none := rfl
@[simp] theorem or_some_true (b) : or (some true) b = some true := rfl
@[simp] theorem or_some_false (b) : or (some false) b = b := rfl
@[simp] theorem or_none (b) : or none b = none := rfl
@[simp] theorem not_some (b : Bool) : not (some b) = some (!b) := rfl
@[simp] theorem not_none : not none = none := rfl
@[simp] theorem bin_some (f : α → β → γ) (x y) : bin f (some x) (some y) = some (f x y) := rfl
@[simp] theorem bin_none_l (f : α → β → γ) (b) : bin f none b = none := rfl
@[simp] theorem bin_none_r (f : α → β → γ) (x) : bin f (some x) none = none := rfl
@[simp] theorem ite_true (t e : Option β) : ite (some true) t e = t := rfl
@[simp] theorem ite_false (t e : Option β) : ite (some false) t e = e := rfl
@[simp] theorem ite_none (t e : Option β) : ite none t e = none := rfl
@[simp] theorem and_some_some (a b : Bool) : and (some a) (some b) = some (a && b) := by
  cases a <;> rfl
@[simp] theorem or_some_some (a b : Bool) : or (some a) (some b) = some (a || b) := by
  cases a <;> rfl
theorem ite_some (c : Bool) (t e : Option β) : ite (some c) t e = if c then t else e := by
  cases c <;> rfl
@[simp] theorem bind_some (x : α) (f : α → Option β) : bind (some x) f = f x := rfl
@[simp] theorem bind_none (f : α → Option β) : bind none f = none := rfl
@[simp] theorem seq_some (x : α) (k : Option β) : seq (some x) k = k := rfl
@[simp] theorem seq_none (k : Option β) : seq (none : Option α) k = none := rfl

end Go
