/-
  Model.TsmIndex — `indirectIndex` of `tsdb/engine/tsm1/reader.go`: the lookups
  (`searchOffset/Seek`, `search`, `ContainsKey`, `Entries`, `Entry`, `Key`,
  `KeyAt`, `Contains`, `ContainsValue`, `Type`, `TimeRange`, `KeyRange`,
  `Overlaps*`, `TombstoneRange`) and the two mutators `Delete` / `DeleteRange`.

  The Go index keeps the raw bytes and a table of offsets, re-parsing a key at
  every probe; the model keeps the parsed keys (`all`, what `UnmarshalBinary`
  walked) and the sub-list still referenced by `offsets` (`live`).
  `bytesutil.SearchBytesFixed` is ported as it is: its upper bound starts at the
  LAST element, so it never answers "past the end"; `searchOffset` compares the key
  found with the target (repaired code).
-/
import Influx.Model.TsmFile

namespace Influx.Tsm
open Influx.Generated.TsmLayout

structure Index where
  /-- the parsed index section (never changes) -/
  all : List KeyEntry
  /-- the keys still in `offsets` -/
  live : List KeyEntry
  minKey : Key
  maxKey : Key
  minTime : Int
  maxTime : Int
  /-- `indirectIndex.tombstones` -/
  tombs : List (Key × List TimeRange)
deriving Repr, Inhabited

/-- `UnmarshalBinary`: min over the first entries' MinTime starting from MaxInt64,
    max over the last entries' MaxTime starting from MinInt64
    (fixes/C08-timerange-max-time.patch: it started from 0). -/
def scanMinStep (m : Int) (ke : KeyEntry) : Int :=
  match ke.entries.head? with
  | some e => if e.MinTime < m then e.MinTime else m
  | none => m

def scanMaxStep (m : Int) (ke : KeyEntry) : Int :=
  match ke.entries.getLast? with
  | some e => if e.MaxTime > m then e.MaxTime else m
  | none => m

def scanMinTime (kes : List KeyEntry) : Int := kes.foldl scanMinStep maxInt64

def scanMaxTime (kes : List KeyEntry) : Int := kes.foldl scanMaxStep minInt64

def mkIndex (kes : List KeyEntry) : Index :=
  { all := kes, live := kes,
    minKey := (kes.head?.map (·.key)).getD [],
    maxKey := (kes.getLast?.map (·.key)).getD [],
    minTime := scanMinTime kes, maxTime := scanMaxTime kes, tombs := [] }

/-- `bytesutil.SearchBytesFixed` over element positions: `i, j := 0, n-1`;
    `fn h` is "key at h ≥ target". -/
def searchLoop (live : List KeyEntry) (target : Key) : Nat → Nat → Nat → Nat
  | 0, i, _ => i
  | fuel + 1, i, j =>
    if i < j then
      let h := (i + j) / 2
      match live[h]? with
      | none => i
      | some ke =>
        if kle target ke.key then searchLoop live target fuel i h
        else searchLoop live target fuel (h + 1) j
    else i

/-- `indirectIndex.searchOffset` (= `Seek`): the position found by the search if the
    key there is not less than `key`, else the key count (fixes/C08-seek-past-end.patch:
    before it the position was returned unconditionally). -/
def searchOffset (ix : Index) (key : Key) : Nat :=
  let i := searchLoop ix.live key ix.live.length 0 (ix.live.length - 1)
  match ix.live[i]? with
  | some ke => if kle key ke.key then i else ix.live.length
  | none => ix.live.length

/-- `indirectIndex.ContainsKey`: inside the original key range -/
def containsKey (ix : Index) (key : Key) : Bool :=
  kle ix.minKey key && kle key ix.maxKey

/-- `indirectIndex.search` followed by the equality test of `ReadEntries` -/
def search (ix : Index) (key : Key) : Option KeyEntry :=
  if !containsKey ix key then none
  else match ix.live[searchOffset ix key]? with
    | some ke => if ke.key = key then some ke else none
    | none => none

/-- `Entries(key)` -/
def entriesOf (ix : Index) (key : Key) : List IndexEntry :=
  match search ix key with
  | some ke => ke.entries
  | none => []

/-- `Entry(key, t)`: first entry containing `t` -/
def entryOf (ix : Index) (key : Key) (t : Int) : Option IndexEntry :=
  (entriesOf ix key).find? (entryContains · t)

def contains (ix : Index) (key : Key) : Bool := !(entriesOf ix key).isEmpty

def tombRange (ix : Index) (key : Key) : List TimeRange :=
  match ix.tombs.find? (·.1 = key) with
  | some p => p.2
  | none => []

/-- `ContainsValue(key, t)` -/
def containsValue (ix : Index) (key : Key) (t : Int) : Bool :=
  match entryOf ix key t with
  | none => false
  | some _ => !(tombRange ix key).any fun r => decide (r.Min ≤ t) && decide (r.Max ≥ t)

def typeOf (ix : Index) (key : Key) : Option Nat := (search ix key).map (·.typ)

/-- `Key(idx)` / `KeyAt(idx)` -/
def keyAt (ix : Index) (i : Int) : Option KeyEntry :=
  if i < 0 then none else ix.live[i.toNat]?

def overlapsTimeRange (ix : Index) (lo hi : Int) : Bool :=
  decide (ix.minTime ≤ hi) && decide (ix.maxTime ≥ lo)

def overlapsKeyRange (ix : Index) (lo hi : Key) : Bool :=
  kle ix.minKey hi && kle lo ix.maxKey

/-! ## Delete -/

def insertKey (k : Key) : List Key → List Key
  | [] => [k]
  | x :: xs => if klt k x then k :: x :: xs else x :: insertKey k xs

/-- `bytesutil.Sort` when `!bytesutil.IsSorted` (equal keys are indistinguishable) -/
def sortKeys (ks : List Key) : List Key := ks.foldl (fun acc k => insertKey k acc) []

/-- the merge walk of `Delete`: `offsets` from `start` on against the sorted keys -/
def delWalk : List KeyEntry → List Key → List KeyEntry
  | [], _ => []
  | ke :: rest, keys =>
    match keys.dropWhile (klt · ke.key) with
    | [] => ke :: rest
    | k :: ks => if k = ke.key then delWalk rest ks else ke :: delWalk rest (k :: ks)

/-- `indirectIndex.Delete(keys)` -/
def delete (ix : Index) (keys : List Key) : Index :=
  match sortKeys keys with
  | [] => ix
  | k0 :: ks =>
    let start := searchOffset ix k0
    { ix with live := ix.live.take start ++ delWalk (ix.live.drop start) (k0 :: ks) }

/-! ## DeleteRange -/

def trLe (a b : TimeRange) : Bool :=
  if a.Min = b.Min then decide (a.Max ≤ b.Max) else decide (a.Min < b.Min)

def insertTR (r : TimeRange) : List TimeRange → List TimeRange
  | [] => [r]
  | x :: xs => if trLe r x then r :: x :: xs else x :: insertTR r xs

/-- `sort.Slice(newTs, by Min then Max)` (ties are identical ranges) -/
def sortTR (rs : List TimeRange) : List TimeRange := rs.foldl (fun acc r => insertTR r acc) []

/-- `ts.Min-1` in int64 arithmetic -/
def pred64 (x : Int) : Int := if x = minInt64 then maxInt64 else x - 1

/-- the window scan of `DeleteRange` over the sorted tombstones of one key:
    `(MaxInt64, MinInt64)` when two neighbours are neither adjacent nor overlapping -/
def windowGo (prev : TimeRange) (minTs maxTs : Int) : List TimeRange → Int × Int
  | [] => (minTs, maxTs)
  | ts :: rest =>
    if prev.Max ≠ pred64 ts.Min && !rangeOverlaps prev ts.Min ts.Max then (maxInt64, minInt64)
    else windowGo ts (if ts.Min < minTs then ts.Min else minTs) (if ts.Max > maxTs then ts.Max else maxTs) rest

def window : List TimeRange → Int × Int
  | [] => (maxInt64, minInt64)
  | t0 :: rest => windowGo t0 t0.Min t0.Max rest

def mapSet (m : List (Key × List TimeRange)) (k : Key) (v : List TimeRange) : List (Key × List TimeRange) :=
  match m with
  | [] => [(k, v)]
  | (k', v') :: rest => if k' = k then (k, v) :: rest else (k', v') :: mapSet rest k v

structure DRAcc where
  /-- `fullKeys`, newest first -/
  full : List Key := []
  /-- the call-local `tombstones` map, in insertion order -/
  tombs : List (Key × List TimeRange) := []

/-- the body of the `DeleteRange` loop for an index key that is the head of the cursor:
    the updated accumulator and whether the cursor advances (`keys = keys[1:]`) -/
def drBody (ix : Index) (lo hi : Int) (ke : KeyEntry) (acc : DRAcc) : DRAcc × Bool :=
  match ke.entries.head?, ke.entries.getLast? with
  | some e0, some eN =>
    let mn := e0.MinTime
    let mx := eN.MaxTime
    -- the range is outside the key's time span
    if lo > mx || hi < mn then (acc, false)
    -- the range covers every value of the key
    else if lo ≤ mn && hi ≥ mx then ({ acc with full := ke.key :: acc.full }, true)
    else
      let local_ := match acc.tombs.find? (·.1 = ke.key) with
        | some p => p.2
        | none => []
      let newTs := sortTR (tombRange ix ke.key ++ (local_ ++ [⟨lo, hi⟩]))
      let acc := { acc with tombs := mapSet acc.tombs ke.key newTs }
      let w := window newTs
      if w.1 ≤ mn && w.2 ≥ mx then ({ acc with full := ke.key :: acc.full }, true) else (acc, false)
  | _, _ => (acc, false)      -- `len(entries) == 0`

/-- the loop of `DeleteRange` over the live keys with the cursor `keys` -/
def drLoop (ix : Index) (lo hi : Int) : List KeyEntry → List Key → DRAcc → DRAcc
  | [], _, acc => acc
  | ke :: rest, keys, acc =>
    match keys.dropWhile (klt · ke.key) with
    | [] => acc
    | k :: ks =>
      if k ≠ ke.key then drLoop ix lo hi rest (k :: ks) acc
      else
        let r := drBody ix lo hi ke acc
        drLoop ix lo hi rest (if r.2 then ks else k :: ks) r.1

/-- `indirectIndex.DeleteRange(keys, minTime, maxTime)` -/
def deleteRange (ix : Index) (keys : List Key) (lo hi : Int) : Index :=
  if keys.isEmpty then ix
  else
    let keys := sortKeys keys
    if lo = minInt64 && hi = maxInt64 then delete ix keys
    else if lo > ix.maxTime || hi < ix.minTime then ix
    else
      let acc := drLoop ix lo hi ix.live keys {}
      let ix := if acc.full.isEmpty then ix else delete ix acc.full.reverse
      { ix with tombs := acc.tombs.foldl (fun m p => mapSet m p.1 p.2) ix.tombs }

end Influx.Tsm
