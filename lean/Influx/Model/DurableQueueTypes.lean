/-
  Influx.Model.DurableQueueTypes — the operations of a C26 case and the
  answers observed for them (shared by the model's `step`, the statement
  checker `Spec.C26.holdsOn` and the driver).  Core-only.
-/
namespace Influx.DQ

/-- One operation of a case.  The first operation of every case is `openQ`. -/
inductive Op
  /-- `NewQueue(dir, maxSize, maxSegmentSize, …)` + `Open` in an empty directory -/
  | openQ (maxSize maxSeg : Nat)
  /-- `Queue.Append(b)` -/
  | append (b : List Nat)
  /-- `Queue.Current()` -/
  | cur
  /-- `Queue.Advance()` -/
  | adv
  /-- `Queue.NewScanner()`, up to `n` × `Next`/`Bytes`, then `Scanner.Advance()` -/
  | scan (n : Nat)
  /-- `Close`, then `NewQueue` + `Open` on the same directory -/
  | reopen
  /-- crash after `k` bytes of the segment write of `Append(b)`, then reopen -/
  | crashAppend (b : List Nat) (k : Nat)
  /-- crash after `k` bytes of the footer write of `Advance()`, then reopen -/
  | crashAdv (k : Nat)
  /-- `Append(b)` has to start a new segment file: crash after `k` bytes of that
      file's initial footer write (`addSegment`), before the entry is written; then
      reopen.  A plain reopen if the append would not start a new segment. -/
  | crashSeg (b : List Nat) (k : Nat)
  /-- `TotalSegments`, `DiskUsage`, `TotalBytes`, head position (tie only) -/
  | stat
deriving DecidableEq, Repr

/-- What the harness observed (and what the model predicts). -/
inductive Ans
  | ok
  | err
  | full                                   -- `ErrQueueFull`
  | eof                                    -- `io.EOF`
  | val (b : List Nat)                     -- `Current` returned `b`
  | scanned (ys : List (List Nat)) (advOk : Bool)
  /-- a crash op: did the reopen succeed; size / footer value / identity of the
      torn file (`same`: 1 = file before the write, 2 = complete write, 0 = neither;
      3 = the operation does not write) -/
  | crashed (openOk : Bool) (size footer same : Nat)
  | stat (segs : Nat) (disk : Nat) (bytes : Int) (pos : Nat)
  | notOpen
deriving DecidableEq, Repr

end Influx.DQ
