/-
  Model.Coord — the task coordinator, the coordinating task-service middleware
  and the start-up notification, written from the code as it is:

    task/backend/coordinator/coordinator.go   NewSchedulableTask, Coordinator.TaskCreated /
                                              TaskUpdated / TaskDeleted / RunCancelled / RunForced
    task/backend/middleware/middleware.go     CoordinatingTaskService.CreateTask / UpdateTask /
                                              DeleteTask / CancelRun / RetryRun / ForceRun
    task/backend/coordinator.go               NotifyCoordinatorOfExisting, TaskNotifyCoordinatorOfExisting
    task/taskmodel/task.go                    Task.EffectiveCron

  The scheduler is abstracted to what it holds: a list of entries
  (id, effective cron, offset) ascending by id (`Scheduler.Schedule` = upsert,
  `Scheduler.Release` = erase).  The underlying task service is the in-memory
  store the harness uses (a re-statement of kv/task.go's create / update /
  delete / find without Flux parsing): ids are handed out increasing, a
  schedule is accepted iff `options.Validate` accepts it (a bit supplied with
  the operation — cron parsing is not modelled) and it names a cron or an every.

  Core Lean only.
-/
namespace Influx.Model.Coord

inductive Status | active | inactive
deriving DecidableEq, Repr, Inhabited

/-- The schedule-relevant fields of `taskmodel.Task`. -/
structure Sched where
  cron : String
  every : String
  offset : Int
deriving DecidableEq, Repr, Inhabited

/-- `Task.EffectiveCron` (task/taskmodel/task.go). -/
def Sched.eff (s : Sched) : String :=
  if s.cron ≠ "" then s.cron
  else if s.every ≠ "" then "@every " ++ s.every
  else ""

structure Task where
  id : Nat
  status : Status
  sched : Sched
deriving DecidableEq, Repr, Inhabited

/-- What the scheduler holds for one id (from the `SchedulableTask` it was given). -/
structure Entry where
  id : Nat
  eff : String
  offset : Int
deriving DecidableEq, Repr, Inhabited

/-- Calls made on the scheduler / executor, in order. -/
inductive Call
  | schedule (id : Nat)
  | release (id : Nat)
  | cancel (run : Nat)
  | manual (task run : Nat)
  | schedManual (task run : Nat)
deriving DecidableEq, Repr

/-- A schedule as it arrives in a create/update request (the task's Flux options). -/
structure SchedIn where
  isCron : Bool
  spec : String
  offset : Int
  /-- `options.Options.Validate` accepts it (cron parses / every ≥ 1s, whole seconds) -/
  valid : Bool
deriving DecidableEq, Repr

inductive Err | notfound | invalid | sched
deriving DecidableEq, Repr

inductive RestartKind
  | launcher   -- TaskNotifyCoordinatorOfExisting(ts = the coordinating service)  (cmd/influxd/launcher)
  | plain      -- NotifyCoordinatorOfExisting(ts = the bare task service)
  | viaMw      -- NotifyCoordinatorOfExisting(ts = the coordinating service)
deriving DecidableEq, Repr

inductive Op
  | create (st : Option Status) (si : SchedIn)
  | update (id : Nat) (st : Option Status) (si : Option SchedIn)
  /-- an OPTIONS-ONLY patch (`TaskUpdate.Options`: every / cron / offset; no Flux, no Status) -/
  | optUpdate (id : Nat) (every cron : Option String) (offset : Option Int) (valid : Bool)
  | delete (id : Nat)
  | restart (k : RestartKind) (pageSize : Nat)
  | cancel (id run : Nat)
  | force (id scheduledFor : Nat)
  | retry (id run : Nat)
deriving DecidableEq, Repr

inductive Res
  | created (id : Nat)
  | ok
  | err (e : Err)
deriving DecidableEq, Repr

structure State where
  tasks : List Task     -- the store, ascending id
  next : Nat            -- next id handed out
  held : List Entry     -- the scheduler, ascending id
deriving Repr

def init : State := { tasks := [], next := 1, held := [] }

/-- One observation: the result, the calls the operation made, the store and
    the scheduler afterwards. -/
structure Obs where
  res : Res
  calls : List Call
  tasks : List Task
  held : List Entry
deriving DecidableEq, Repr

/-! ### the scheduler, abstractly -/

/-- `Scheduler.Schedule`: insert or replace the entry of that id. -/
def upsert (e : Entry) : List Entry → List Entry
  | [] => [e]
  | x :: xs =>
    if e.id < x.id then e :: x :: xs
    else if e.id = x.id then e :: xs
    else x :: upsert e xs

/-- `Scheduler.Release`. -/
def erase (id : Nat) (l : List Entry) : List Entry := l.filter (fun e => e.id ≠ id)

/-! ### the store -/

def findTask (id : Nat) (ts : List Task) : Option Task := ts.find? (fun t => t.id == id)

/-- the service's stand-in for `options.FromScriptAST` + `Validate` -/
def SchedIn.accept (si : SchedIn) : Bool := si.valid && si.spec != ""

def SchedIn.toSched (si : SchedIn) : Sched :=
  if si.isCron then { cron := si.spec, every := "", offset := si.offset }
  else { cron := "", every := si.spec, offset := si.offset }

def replaceTask (t : Task) (ts : List Task) : List Task :=
  ts.map (fun x => if x.id = t.id then t else x)

def removeTask (id : Nat) (ts : List Task) : List Task := ts.filter (fun t => t.id ≠ id)

/-- kv.Service.createTask: status defaults to active. -/
def svcCreate (s : State) (st : Option Status) (si : SchedIn) : Except Err (State × Task) :=
  if si.accept then
    let t : Task := { id := s.next, status := st.getD .active, sched := si.toSched }
    .ok ({ s with tasks := s.tasks ++ [t], next := s.next + 1 }, t)
  else .error .invalid

/-- kv.Service.updateTask restricted to status and options. -/
def svcUpdate (s : State) (id : Nat) (st : Option Status) (si : Option SchedIn) :
    Except Err (State × Task) :=
  match findTask id s.tasks with
  | none => .error .notfound
  | some old =>
    match si with
    | some i =>
      if i.accept then
        let t : Task := { id := old.id, status := st.getD old.status, sched := i.toSched }
        .ok ({ s with tasks := replaceTask t s.tasks }, t)
      else .error .invalid
    | none =>
      let t : Task := { old with status := st.getD old.status }
      .ok ({ s with tasks := replaceTask t s.tasks }, t)

/-- What an options patch means for the stored schedule (`TaskUpdate.updateFlux` + kv `updateTask`):
    `every` replaces a cron and vice versa, an offset patch sets (0 = removes, see below) the offset, absent
    parts keep their value.  (The Flux-AST editing itself is not modelled.) -/
def patchSched (old : Sched) (every cron : Option String) (offset : Option Int) : Sched :=
  { cron := match cron, every with
      | some c, _ => c
      | none, some _ => ""
      | none, none => old.cron,
    every := match every, cron with
      | some e, _ => e
      | none, some _ => ""
      | none, none => old.every,
    -- `Options.IsZero` counts a zero offset as "not set": an offset-0 patch with nothing else is
    -- ignored by kv.updateTask; together with every/cron it removes the offset
    offset := match offset with
      | none => old.offset
      | some o => if o = 0 ∧ every.isNone ∧ cron.isNone then old.offset else o }

/-- the store accepts an options patch iff it does not name both every and cron ("cannot specify both"),
    names no empty string, and the patched options validate (bit supplied with the operation) -/
def patchOK (every cron : Option String) (valid : Bool) : Bool :=
  valid && !(every.isSome && cron.isSome) && every != some "" && cron != some ""

/-- kv.Service.updateTask for an options-only patch -/
def svcOptUpdate (s : State) (id : Nat) (every cron : Option String) (offset : Option Int) (valid : Bool) :
    Except Err (State × Task) :=
  match findTask id s.tasks with
  | none => .error .notfound
  | some old =>
    if patchOK every cron valid then
      let t : Task := { old with sched := patchSched old.sched every cron offset }
      .ok ({ s with tasks := replaceTask t s.tasks }, t)
    else .error .invalid

def svcDelete (s : State) (id : Nat) : Except Err State :=
  match findTask id s.tasks with
  | none => .error .notfound
  | some _ => .ok { s with tasks := removeTask id s.tasks }

/-! ### coordinator.go -/

/-- `NewSchedulableTask`: fails with "invalid cron or every" when both are empty.
    (`scheduler.NewSchedule`'s cron parse is assumed to succeed on every schedule
    the service accepted.) -/
def newSchedulable (t : Task) : Option Entry :=
  if t.sched.cron = "" ∧ t.sched.every = "" then none
  else some { id := t.id, eff := t.sched.eff, offset := t.sched.offset }

/-- `Coordinator.TaskCreated` as repaired by fixes/C25-taskcreated-inactive.patch:
    a task created inactive is not handed to the scheduler. -/
def taskCreated (h : List Entry) (t : Task) : List Entry × List Call × Bool :=
  match newSchedulable t with
  | none => (h, [], false)
  | some e =>
    if t.status = .inactive then (h, [], true)
    else (upsert e h, [.schedule t.id], true)

/-- `Coordinator.TaskCreated` as it was before the repair (kept for the witness
    theorem `C25_unrepaired_fails`). -/
def taskCreatedOrig (h : List Entry) (t : Task) : List Entry × List Call × Bool :=
  match newSchedulable t with
  | none => (h, [], false)
  | some e => (upsert e h, [.schedule t.id], true)

/-- `Coordinator.TaskUpdated`. -/
def taskUpdated (h : List Entry) (frm to : Task) : List Entry × List Call × Bool :=
  match newSchedulable to with
  | none => (h, [], false)
  | some e =>
    if to.status = frm.status ∧ to.status = .inactive then (h, [], true)
    else if to.status ≠ frm.status ∧ to.status = .inactive then
      (erase to.id h, [.release to.id], true)      -- ErrTaskNotClaimed is ignored
    else (upsert e h, [.schedule to.id], true)

/-- `Coordinator.TaskDeleted`. -/
def taskDeleted (h : List Entry) (id : Nat) : List Entry × List Call :=
  (erase id h, [.release id])

/-! ### middleware.go -/

def mwCreate (created : List Entry → Task → List Entry × List Call × Bool)
    (s : State) (st : Option Status) (si : SchedIn) : State × Res × List Call :=
  match svcCreate s st si with
  | .error e => (s, .err e, [])
  | .ok (s1, t) =>
    match created s1.held t with
    | (h, calls, true) => ({ s1 with held := h }, .created t.id, calls)
    | (h, calls, false) =>
      -- cleanup: the task is deleted again
      ({ s1 with held := h, tasks := removeTask t.id s1.tasks }, .err .sched, calls)

def mwUpdate (s : State) (id : Nat) (st : Option Status) (si : Option SchedIn) :
    State × Res × List Call :=
  match findTask id s.tasks with
  | none => (s, .err .notfound, [])
  | some frm =>
    match svcUpdate s id st si with
    | .error e => (s, .err e, [])
    | .ok (s1, to) =>
      match taskUpdated s1.held frm to with
      | (h, calls, true) => ({ s1 with held := h }, .ok, calls)
      | (h, calls, false) => ({ s1 with held := h }, .err .sched, calls)

/-- `CoordinatingTaskService.UpdateTask` with an options-only `TaskUpdate` -/
def mwOptUpdate (s : State) (id : Nat) (every cron : Option String) (offset : Option Int) (valid : Bool) :
    State × Res × List Call :=
  match findTask id s.tasks with
  | none => (s, .err .notfound, [])
  | some frm =>
    match svcOptUpdate s id every cron offset valid with
    | .error e => (s, .err e, [])
    | .ok (s1, to) =>
      match taskUpdated s1.held frm to with
      | (h, calls, true) => ({ s1 with held := h }, .ok, calls)
      | (h, calls, false) => ({ s1 with held := h }, .err .sched, calls)

def mwDelete (s : State) (id : Nat) : State × Res × List Call :=
  let (h, calls) := taskDeleted s.held id
  let s1 := { s with held := h }
  match svcDelete s1 id with
  | .error e => (s1, .err e, calls)
  | .ok s2 => (s2, .ok, calls)

/-! ### task/backend/coordinator.go — start-up -/

/-- One task of the start-up loop (only active ones are considered). -/
def notifyOne (created : List Entry → Task → List Entry × List Call × Bool)
    (k : RestartKind) (acc : List Entry × List Call) (t : Task) : List Entry × List Call :=
  if t.status ≠ .active then acc
  else
    let (h, calls) := acc
    match k with
    | .plain =>
      -- ts.UpdateTask on the bare store (times only), then coord.TaskCreated
      let (h1, c1, _) := created h t
      (h1, calls ++ c1)
    | _ =>
      -- ts.UpdateTask through the middleware → TaskUpdated(t, t); on error: log, continue
      match taskUpdated h t t with
      | (h1, c1, false) => (h1, calls ++ c1)
      | (h1, c1, true) =>
        let (h2, c2, _) := created h1 t
        (h2, calls ++ c1 ++ c2)

def restart (created : List Entry → Task → List Entry × List Call × Bool)
    (s : State) (k : RestartKind) : State × Res × List Call :=
  let (h, calls) := s.tasks.foldl (notifyOne created k) ([], [])
  ({ s with held := h }, .ok, calls)

/-! ### run operations (executor only) -/

def runOp (s : State) (id : Nat) (c : Call) : State × Res × List Call :=
  match findTask id s.tasks with
  | none => (s, .err .notfound, [])
  | some _ => (s, .ok, [c])

/-! ### the step function -/

def stepWith (created : List Entry → Task → List Entry × List Call × Bool)
    (s : State) : Op → State × Res × List Call
  | .create st si => mwCreate created s st si
  | .update id st si => mwUpdate s id st si
  | .optUpdate id ev cr off v => mwOptUpdate s id ev cr off v
  | .delete id => mwDelete s id
  | .restart k _ => restart created s k
  | .cancel id run => runOp s id (.cancel run)
  | .force id sf =>
    runOp s id (if sf = 0 then .manual id (2000 + sf) else .schedManual id (2000 + sf))
  | .retry id run => runOp s id (.schedManual id (run + 1000))

def obsOf (r : State × Res × List Call) : State × Obs :=
  (r.1, { res := r.2.1, calls := r.2.2, tasks := r.1.tasks, held := r.1.held })

/-- The model of the (repaired) code. -/
def step (s : State) (op : Op) : State × Obs := obsOf (stepWith taskCreated s op)

/-- The model of the code before the repair. -/
def stepOrig (s : State) (op : Op) : State × Obs := obsOf (stepWith taskCreatedOrig s op)

def runFrom (stp : State → Op → State × Obs) (s : State) : List Op → List (Op × Obs)
  | [] => []
  | op :: rest => let r := stp s op; (op, r.2) :: runFrom stp r.1 rest

def finalFrom (stp : State → Op → State × Obs) (s : State) : List Op → State
  | [] => s
  | op :: rest => finalFrom stp (stp s op).1 rest

/-- the trace of the model on a history -/
def trace (ops : List Op) : List (Op × Obs) := runFrom step init ops

end Influx.Model.Coord
