/-
  Model.FieldLog — persistence of the per-shard field schema, written from the
  code as it is (tsdb/shard.go, tsdb/engine/tsm1/engine.go):

    MeasurementFieldSet.load / loadParseFieldIndexPB / ApplyChanges   (open)
    measurementFieldSetChangeMgr.appendToChangesFile / marshalFieldChanges
    measurementFieldSetChangeMgr.loadAllFieldChanges / loadFieldChangeSet / readSizePlusBuffer
    MeasurementFieldSet.WriteToFile / renameFileNoLock / Close
    Engine.Open (a load error is only logged), Engine.LoadMetadataIndex (rebuild
      from the stored keys when the field set is empty), Engine.Close
    Engine.DeleteMeasurement → deleteSeriesRange → cleanupMeasurement → Save(deletions)
    Shard.WritePoints → saveFieldsAndMeasurements → Save(additions)

  Files: `fields.idx` = snapshot of the whole field set (written to
  `fields.idx.tmp` with O_SYNC, renamed, directory synced; removed when the set is
  empty); `fields.idxl` = change log, one record `[size:8 LE][protobuf
  FieldChangeSet]` per Save, appended with O_SYNC, removed after every snapshot.

  Includes fixes/C10-log-measurement-deletions.patch (a DeleteMeasurement change
  is written to the log; before the fix `marshalFieldChanges` dropped every change
  without a Field, i.e. every deletion) and
  fixes/C10-replay-over-newer-snapshot.patch (a type conflict met while replaying
  the log is resolved in favour of the log entry; before the fix the replay
  stopped there, the error was only logged and the shard ran with the half
  replayed field set — DESIGN §6 F16).
-/
import Influx.Model.FieldSchema

namespace Influx.Fields

/-- one `FieldChange` -/
inductive Change
  | add (m f : String) (t : FType)
  | del (m : String)
  deriving DecidableEq, Repr

/-- one `Save` = one record of `fields.idxl` -/
abbrev ChangeSet := List Change

/-! ### byte sizes of the log records (`marshalFieldChanges`, proto3 wire format) -/

def varintLen (n : Nat) : Nat :=
  if n < 128 then 1 else if n < 16384 then 2 else if n < 2097152 then 3 else 4

/-- a length-delimited field with a one-byte tag -/
def lenDelim (n : Nat) : Nat := 1 + varintLen n + n

/-- `internal.Field{Name, Type}`: name bytes (omitted when empty), type varint (never 0 here) -/
def fieldMsgLen (f : String) : Nat :=
  (if f.utf8ByteSize = 0 then 0 else lenDelim f.utf8ByteSize) + 2

/-- `internal.MeasurementFieldChange` -/
def changeLen : Change → Nat
  | .add m f _ => (if m.utf8ByteSize = 0 then 0 else lenDelim m.utf8ByteSize) + lenDelim (fieldMsgLen f)
  | .del m => (if m.utf8ByteSize = 0 then 0 else lenDelim m.utf8ByteSize) + 2

/-- bytes of one record: 8-byte little-endian size + the `FieldChangeSet` -/
def recordLen (cs : ChangeSet) : Nat := 8 + (cs.map (fun c => lenDelim (changeLen c))).sum

def logLen (recs : List ChangeSet) : Nat := (recs.map recordLen).sum

/-- `loadAllFieldChanges` on a file holding the first `n` bytes of the records:
    complete records are returned; a short trailing record (size header or body
    cut) ends the scan without error. -/
def cutLog : List ChangeSet → Nat → List ChangeSet
  | [], _ => []
  | r :: rs, n => if recordLen r ≤ n then r :: cutLog rs (n - recordLen r) else []

/-! ### replay (`ApplyChanges`) -/

/-- `fs.Delete(m)` -/
def dropMeas (s : Schema) (m : String) : Schema := s.filter (fun e => e.1.1 != m)

/-- `mf.fields.Store(name, field)`: insert or overwrite -/
def setField (s : Schema) (k : FKey) (t : FType) : Schema := (k, t) :: s.filter (fun e => e.1 != k)

/-- one change of the log applied to the in-memory set: a deletion removes the
    measurement, an addition is `CreateFieldIfNotExists` and, on a type conflict,
    `Store` of the logged type -/
def applyChange (s : Schema) : Change → Schema
  | .del m => dropMeas s m
  | .add m f t =>
    match createField s (m, f) t with
    | some r => r.1
    | none => setField s (m, f) t

/-- `ApplyChanges`: all changes of all records, in order -/
def replay (s : Schema) (cs : List Change) : Schema := cs.foldl applyChange s

/-! ### shard state with its files -/

structure PState where
  /-- in-memory `MeasurementFieldSet` -/
  mem : Schema := []
  /-- engine content (cache + WAL + TSM) -/
  data : Store := []
  /-- measurements that have at least one series in the index -/
  series : List String := []
  /-- `fields.idx` (`none` = no file) -/
  idx : Option Schema := none
  /-- `fields.idxl` (`none` = no file): complete records, oldest first -/
  log : Option (List ChangeSet) := none
  /-- some TSM file exists (written by a cache snapshot or by the flush of a clean
      close; with compactions off it stays, even when every value in it is deleted) -/
  files : Bool := false
  deriving Repr

/-- `appendToChangesFile` for one Save -/
def appendLog (st : PState) (cs : ChangeSet) : PState :=
  { st with log := some (st.log.getD [] ++ [cs]) }

/-- `WriteToFile`: snapshot of `mem` (file removed when empty), change log removed -/
def writeToFile (st : PState) : PState :=
  { st with idx := if st.mem.isEmpty then none else some st.mem, log := none }

/-- the field set a rebuild (`LoadMetadataIndex` with an empty set) derives from
    the stored keys; `none` = two stored keys disagree on a field's type -/
def schemaFromData : Store → Option Schema
  | [] => some []
  | e :: es =>
    match schemaFromData es with
    | none => none
    | some s => (createField s (e.1.1, e.1.2.2.1) e.2.1).map (·.1)

/-- `NewMeasurementFieldSet.load` (called by `Engine.Open`); `n` = number of bytes
    of `fields.idxl` that are in the file (a crash in the middle of an append
    leaves a prefix) -/
def loadFields (st : PState) (n : Nat) : PState :=
  let s0 := st.idx.getD []
  match st.log with
  | none => { st with mem := s0 }
  | some recs =>
    if (cutLog recs n).isEmpty then { st with mem := s0, log := none }      -- RemoveAll(changes file)
    else writeToFile { st with mem := replay s0 (cutLog recs n).flatten }

/-- `Engine.LoadMetadataIndex`: an empty field set is rebuilt from the stored keys
    and saved; `none` = the shard does not open -/
def loadMetadataIndex (st : PState) : Option PState :=
  if st.mem.isEmpty then
    match schemaFromData st.data with
    | some s => some (writeToFile { st with mem := s })
    | none => none
  else some st

/-- `Engine.Open` + `LoadMetadataIndex` as far as the field set is concerned -/
def openFields (st : PState) (n : Nat) : Option PState := loadMetadataIndex (loadFields st n)

/-- `Engine.WriteSnapshot` / the flush of `Engine.Close`: a non-empty cache is
    written to a new TSM file (if the cache is empty all values are in files already) -/
def flushed (st : PState) : PState := { st with files := st.files || !st.data.isEmpty }

/-- clean `Shard.Close`: the cache is flushed, then `MeasurementFieldSet.Close`
    snapshots iff the change log exists -/
def closeFields (st : PState) : PState :=
  match st.log with
  | some _ => writeToFile (flushed st)
  | none => flushed st

/-- crash points inside `WriteToFile` (hooks `verifPoint` in tsdb/shard.go) -/
inductive CrashPoint | tmpWritten | renamed | idxRemoved
  deriving DecidableEq, Repr

/-- the files as a crash at point `p` of the `WriteToFile` of a clean close leaves
    them; `none` = that point is not reached by this close -/
def crashInClose (st : PState) (p : CrashPoint) : Option PState :=
  match st.log with
  | none => none
  | some _ =>
    match p with
    | .tmpWritten => if st.mem.isEmpty then none else some (flushed st)        -- old idx, full log (+ tmp file, removed on open)
    | .renamed => if st.mem.isEmpty then none else some { flushed st with idx := some st.mem }   -- new idx, full log
    | .idxRemoved => if st.mem.isEmpty then some { flushed st with idx := none } else none

/-- the files as a crash at point `p` of a `WriteToFile` during `Engine.Open`
    leaves them (the first time the point is reached): the `WriteToFile` of `load`
    runs iff the log holds a record; otherwise, when the loaded set is empty,
    `LoadMetadataIndex` runs one (the log file is already removed then).
    `none` = that point is not reached by this open -/
def crashInOpen (st : PState) (p : CrashPoint) : Option PState :=
  let recs := st.log.getD []
  let m := replay (st.idx.getD []) recs.flatten
  if recs.isEmpty then
    -- no changes: only LoadMetadataIndex may snapshot, and only an empty set
    match p with
    | .idxRemoved => if m.isEmpty then some { st with idx := none, log := none } else none
    | _ => none
  else
    match p with
    | .tmpWritten => if m.isEmpty then none else some st
    | .renamed => if m.isEmpty then none else some { st with idx := some m }
    | .idxRemoved => if m.isEmpty then some { st with idx := none } else none

/-- the measurements whose series `validateSeriesAndFields` creates in the index -/
def touchSeries (series : List String) (batch : List Point) : List String :=
  let touched := (batch.filter (fun p => !hasTimeTag p)).map (·.meas)
  series ++ (touched.filter (fun m => !series.contains m)).eraseDups

/-- the record `saveFieldsAndMeasurements` appends for the created fields -/
def createdRecord (created : List (FKey × FType)) : ChangeSet :=
  created.map fun c => .add c.1.1 c.1.2 c.2

/-- `Shard.WritePoints` with persistence of the created fields -/
def pWrite (st : PState) (batch : List Point) : PState × WriteRes :=
  let v := validateTwoPhase st.mem batch
  let st1 : PState := { st with mem := v.sch, series := touchSeries st.series batch }
  -- saveFieldsAndMeasurements
  let st2 := if v.created.isEmpty then st1 else appendLog st1 (createdRecord v.created)
  let res := writePoints { sch := st.mem, data := st.data } batch
  ({ st2 with data := res.1.data }, res.2)

/-- the files when `Shard.WritePoints` crashes inside the append of its record
    (the series exist in the index, the engine write has not happened); `none` =
    this write appends nothing -/
def pWriteCrash (st : PState) (batch : List Point) : Option (PState × ChangeSet) :=
  let v := validateTwoPhase st.mem batch
  if v.created.isEmpty then none
  else some (appendLog { st with series := touchSeries st.series batch } (createdRecord v.created),
             createdRecord v.created)

/-- `Engine.deleteSeriesRange` returns at once — index, field set and files
    untouched — when no TSM file overlaps the (full) time range and the cache holds
    no key: i.e. when no value is stored and no TSM file exists (a file whose every
    value was deleted still counts). -/
def dropApplies (st : PState) (m : String) : Bool :=
  st.series.contains m && (!st.data.isEmpty || st.files)

/-- `Shard.DeleteMeasurement`: all data and series of `m` go; when the measurement
    existed in the index its field set is removed and the deletion is logged -/
def pDrop (st : PState) (m : String) : PState :=
  if dropApplies st m then
    let data' := st.data.filter (fun e => e.1.1 != m)
    appendLog { st with mem := dropMeas st.mem m, data := data', series := st.series.filter (· != m) } [.del m]
  else st

/-- the stored value has another type than the schema records for its field -/
def mistyped (mem : Schema) (e : EKey × Val) : Bool :=
  match mem.lookup (e.1.1, e.1.2.2.1) with
  | some t => t != e.2.1
  | none => false

/-- what a cursor read returns: the stored values of fields the schema knows, in
    the schema's type; `none` = some stored value has another type than the
    schema says (the real cursor panics) -/
def visible (mem : Schema) (d : Store) : Option Store :=
  if d.any (mistyped mem) then none
  else some (d.filter (fun e => (mem.lookup (e.1.1, e.1.2.2.1)).isSome))

/-! ### operations of a C10 case -/

def CrashPoint.name : CrashPoint → String
  | .tmpWritten => "fields.tmpWritten" | .renamed => "fields.renamed" | .idxRemoved => "fields.idxRemoved"

inductive Op10
  | write (batch : List Point)
  | drop (m : String)
  | reopen
  | crash
  /-- the write crashes in the middle of the append of its record to fields.idxl:
      `j ≥ 0`: the first `j` bytes reached the file; `j < 0`: all but the last `-j` bytes -/
  | writeTorn (j : Int) (batch : List Point)
  | dropTorn (j : Int) (m : String)
  | crashInClose (p : CrashPoint)
  /-- `Engine.WriteSnapshot`: the cache goes to a new TSM file -/
  | snap
  /-- process kill, then a crash inside the snapshot rewrite of the recovery itself -/
  | crashInOpen (p : CrashPoint)
  /-- two concurrent writers; the model runs them in this order (every step of
      `CreateFieldIfNotExists` is one atomic `LoadOrStore`, the real schedule may be the other one) -/
  | race (a b : List Point)
  | look
  deriving Repr

def seen (st : PState) : Seen := { sch := st.mem, store := visible st.mem st.data }

/-- open after a restart; a shard that does not open is observed as empty -/
def reopened (mk : Bool → Seen → Step10) (st : PState) (n : Nat) : PState × Step10 :=
  match openFields st n with
  | some st' => (st', mk true (seen st'))
  | none => (st, mk false { sch := [], store := none })

/-- bytes of the log in the file when the append of `last` is cut at `j` -/
def tornBytes (recs : List ChangeSet) (last : ChangeSet) (j : Int) : Nat :=
  logLen recs + (if j < 0 then recordLen last - j.natAbs else min j.toNat (recordLen last))

def fullLog (st : PState) : Nat := logLen (st.log.getD [])

def step10 (st : PState) : Op10 → PState × Step10
  | .write b =>
    let r := pWrite st b
    (r.1, .write b r.2 (seen r.1))
  | .drop m => let st' := pDrop st m; (st', .drop m true (seen st'))
  | .reopen => reopened (.restart .clean) (closeFields st) (fullLog (closeFields st))
  | .crash => reopened (.restart .kill) st (fullLog st)
  | .writeTorn j b =>
    match pWriteCrash st b with
    | none => let r := pWrite st b; (r.1, .write b r.2 (seen r.1))
    | some (st', last) => reopened (.tornWrite b) st' (tornBytes (st.log.getD []) last j)
  | .dropTorn j m =>
    if dropApplies st m then
      reopened (.tornDrop m) (pDrop st m) (tornBytes (st.log.getD []) [.del m] j)
    else (st, .drop m true (seen st))
  | .crashInClose p =>
    match crashInClose st p with
    | some st' => reopened (.restart (.inSnapshot p.name)) st' (fullLog st')
    | none => reopened (.restart .clean) (closeFields st) (fullLog (closeFields st))
  | .crashInOpen p =>
    match crashInOpen st p with
    | some st' => reopened (.restart (.inSnapshot ("open:" ++ p.name))) st' (fullLog st')
    | none => reopened (.restart .kill) st (fullLog st)
  | .race a b =>
    let r1 := pWrite st a
    let r2 := pWrite r1.1 b
    (r2.1, .race a b r1.2 r2.2 (seen r2.1))
  | .snap => (flushed st, .look (seen (flushed st)))
  | .look => (st, .look (seen st))

def trace10 : PState → List Op10 → List Step10
  | _, [] => []
  | st, o :: os => (step10 st o).2 :: trace10 (step10 st o).1 os

end Influx.Fields
