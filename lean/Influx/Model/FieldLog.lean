/-
  Model.FieldLog — persistence of the per-shard field schema, written from the
  code as it is (tsdb/shard.go, tsdb/engine/tsm1/engine.go):

    MeasurementFieldSet.load / loadParseFieldIndexPB / ApplyChanges   (open)
    measurementFieldSetChangeMgr.appendToChangesFile / marshalFieldChanges
    measurementFieldSetChangeMgr.loadAllFieldChanges / loadFieldChangeSet / readSizePlusBuffer
    MeasurementFieldSet.WriteToFile / renameFileNoLock / Close
    Engine.Open (a load error is only logged), Engine.LoadMetadataIndex (rebuild
      from the stored keys when the field set is empty), Engine.Close
    Engine.DeleteMeasurement → deleteSeriesRange → cleanupMeasurement → Save(deletions)
    Shard.WritePoints → saveFieldsAndMeasurements → Save(additions)

  Files: `fields.idx` = snapshot of the whole field set (written to
  `fields.idx.tmp` with O_SYNC, renamed, directory synced; removed when the set is
  empty); `fields.idxl` = change log, one record `[size:8 LE][protobuf
  FieldChangeSet]` per Save, appended with O_SYNC, removed after every snapshot.

  Includes fixes/C10-log-measurement-deletions.patch (a DeleteMeasurement change
  is written to the log; before the fix `marshalFieldChanges` dropped every change
  without a Field, i.e. every deletion).
-/
import Influx.Model.FieldSchema

namespace Influx.Fields

/-- one `FieldChange` -/
inductive Change
  | add (m f : String) (t : FType)
  | del (m : String)
  deriving DecidableEq, Repr

/-- one `Save` = one record of `fields.idxl` -/
abbrev ChangeSet := List Change

/-! ### byte sizes of the log records (`marshalFieldChanges`, proto3 wire format) -/

def varintLen (n : Nat) : Nat :=
  if n < 128 then 1 else if n < 16384 then 2 else if n < 2097152 then 3 else 4

/-- a length-delimited field with a one-byte tag -/
def lenDelim (n : Nat) : Nat := 1 + varintLen n + n

/-- `internal.Field{Name, Type}`: name bytes (omitted when empty), type varint (never 0 here) -/
def fieldMsgLen (f : String) : Nat :=
  (if f.utf8ByteSize = 0 then 0 else lenDelim f.utf8ByteSize) + 2

/-- `internal.MeasurementFieldChange` -/
def changeLen : Change → Nat
  | .add m f _ => (if m.utf8ByteSize = 0 then 0 else lenDelim m.utf8ByteSize) + lenDelim (fieldMsgLen f)
  | .del m => (if m.utf8ByteSize = 0 then 0 else lenDelim m.utf8ByteSize) + 2

/-- bytes of one record: 8-byte little-endian size + the `FieldChangeSet` -/
def recordLen (cs : ChangeSet) : Nat := 8 + (cs.map (fun c => lenDelim (changeLen c))).sum

def logLen (recs : List ChangeSet) : Nat := (recs.map recordLen).sum

/-- `loadAllFieldChanges` on a file holding the first `n` bytes of the records:
    complete records are returned; a short trailing record (size header or body
    cut) ends the scan without error. -/
def cutLog : List ChangeSet → Nat → List ChangeSet
  | [], _ => []
  | r :: rs, n => if recordLen r ≤ n then r :: cutLog rs (n - recordLen r) else []

/-! ### replay (`ApplyChanges`) -/

/-- `fs.Delete(m)` -/
def dropMeas (s : Schema) (m : String) : Schema := s.filter (fun e => e.1.1 != m)

/-- one change of the log applied to the in-memory set; `none` = type conflict -/
def applyChange (s : Schema) : Change → Option Schema
  | .del m => some (dropMeas s m)
  | .add m f t => (createField s (m, f) t).map (·.1)

/-- `ApplyChanges`: changes in order; stops at the first type conflict and
    returns what was applied so far (`false`) -/
def replay : Schema → List Change → Schema × Bool
  | s, [] => (s, true)
  | s, c :: cs =>
    match applyChange s c with
    | some s' => replay s' cs
    | none => (s, false)

/-! ### shard state with its files -/

structure PState where
  /-- in-memory `MeasurementFieldSet` -/
  mem : Schema := []
  /-- engine content (cache + WAL + TSM) -/
  data : Store := []
  /-- measurements that have at least one series in the index -/
  series : List String := []
  /-- `fields.idx` (`none` = no file) -/
  idx : Option Schema := none
  /-- `fields.idxl` (`none` = no file): complete records, oldest first -/
  log : Option (List ChangeSet) := none
  /-- bytes of a torn record after the complete ones (a crash during an append) -/
  torn : Nat := 0
  /-- `changeFileSize` is 0 although the file is not empty (after a failed load):
      the next append truncates the file first -/
  stale : Bool := false
  /-- the last operation appended the last record of `log` -/
  lastAppended : Bool := false
  deriving Repr

/-- `appendToChangesFile` for one Save -/
def appendLog (st : PState) (cs : ChangeSet) : PState :=
  let old := if st.stale then [] else st.log.getD []
  { st with log := some (old ++ [cs]), torn := 0, stale := false, lastAppended := true }

/-- `WriteToFile`: snapshot of `mem` (file removed when empty), change log removed -/
def writeToFile (st : PState) : PState :=
  { st with idx := if st.mem.isEmpty then none else some st.mem, log := none, torn := 0, stale := false }

/-- the field set a rebuild (`LoadMetadataIndex` with an empty set) derives from
    the stored keys; `none` = two stored keys disagree on a field's type -/
def schemaFromData : Store → Option Schema
  | [] => some []
  | e :: es =>
    match schemaFromData es with
    | none => none
    | some s => (createField s (e.1.1, e.1.2.2.1) e.2.1).map (·.1)

/-- `Engine.Open` + `LoadMetadataIndex` as far as the field set is concerned.
    `none` = the shard does not open. -/
def openFields (st : PState) : Option PState :=
  let s0 := st.idx.getD []
  -- NewMeasurementFieldSet.load
  let st1 : PState :=
    match st.log with
    | none => { st with mem := s0, torn := 0, stale := false }
    | some recs =>
      if recs.isEmpty then { st with mem := s0, log := none, torn := 0, stale := false }   -- RemoveAll(changes file)
      else
        match replay s0 recs.flatten with
        | (s, true) => writeToFile { st with mem := s }
        | (s, false) => { st with mem := s, stale := true }    -- error logged, files left as they are
  -- LoadMetadataIndex
  if st1.mem.isEmpty then
    match schemaFromData st1.data with
    | some s => some { writeToFile { st1 with mem := s } with lastAppended := false }
    | none => none
  else some { st1 with lastAppended := false }

/-- clean `Shard.Close`: `MeasurementFieldSet.Close` snapshots iff the change log exists -/
def closeFields (st : PState) : PState :=
  match st.log with
  | some _ => writeToFile st
  | none => st

/-- crash points inside `WriteToFile` (hooks `verifPoint` in tsdb/shard.go) -/
inductive CrashPoint | tmpWritten | renamed | idxRemoved
  deriving DecidableEq, Repr

/-- the files as a crash at point `p` of the `WriteToFile` of a clean close leaves
    them; `none` = that point is not reached by this close -/
def crashInClose (st : PState) (p : CrashPoint) : Option PState :=
  match st.log with
  | none => none
  | some _ =>
    match p with
    | .tmpWritten => if st.mem.isEmpty then none else some st                 -- old idx, full log (+ tmp file, removed on open)
    | .renamed => if st.mem.isEmpty then none else some { st with idx := some st.mem }   -- new idx, full log
    | .idxRemoved => if st.mem.isEmpty then some { st with idx := none } else none

/-- `Shard.WritePoints` with persistence of the created fields -/
def pWrite (st : PState) (batch : List Point) : PState × WriteRes :=
  let v := validateTwoPhase st.mem batch
  let touched := (batch.filter (fun p => !hasTimeTag p)).map (·.meas)
  let series' := st.series ++ touched.filter (fun m => !st.series.contains m)
  let st1 : PState := { st with mem := v.sch, lastAppended := false, series := series' }
  -- saveFieldsAndMeasurements
  let st2 := if v.created.isEmpty then st1 else appendLog st1 (v.created.map fun c => .add c.1.1 c.1.2 c.2)
  let res := (writePoints { sch := st.mem, data := st.data } batch)
  ({ st2 with data := res.1.data }, res.2)

/-- `Shard.DeleteMeasurement`: all data and series of `m` go; when the measurement
    existed in the index its field set is removed and the deletion is logged -/
def pDrop (st : PState) (m : String) : PState :=
  if st.series.contains m then
    let data' := st.data.filter (fun e => e.1.1 != m)
    appendLog { st with mem := dropMeas st.mem m, data := data', series := st.series.filter (· != m) } [.del m]
  else { st with lastAppended := false }

/-- what a cursor read returns: the stored values of fields the schema knows, in
    the schema's type; `none` = some stored value has another type than the
    schema says (the real cursor panics) -/
def visible (mem : Schema) (d : Store) : Option Store :=
  if d.any (fun e => match mem.lookup (e.1.1, e.1.2.2.1) with
                     | some t => t != e.2.1
                     | none => false) then none
  else some (d.filter (fun e => (mem.lookup (e.1.1, e.1.2.2.1)).isSome))

/-! ### operations of a C10 case -/

def CrashPoint.name : CrashPoint → String
  | .tmpWritten => "fields.tmpWritten" | .renamed => "fields.renamed" | .idxRemoved => "fields.idxRemoved"

inductive Op10
  | write (batch : List Point)
  | drop (m : String)
  | reopen
  | crash
  /-- crash during the last append: `j` bytes of the record reached the file -/
  | crashTorn (j : Nat)
  /-- the same, counted from the end: all but the last `k` bytes -/
  | crashTornEnd (k : Nat)
  | crashInClose (p : CrashPoint)
  | look
  deriving Repr

def seen (st : PState) : Seen := { sch := st.mem, store := visible st.mem st.data }

/-- the files after a crash in the middle of the last append -/
def tearLast (st : PState) (j : Nat) : PState :=
  if st.lastAppended then
    match st.log with
    | some recs =>
      match recs.getLast? with
      | some last => if j < recordLen last then { st with log := some recs.dropLast, torn := j } else st
      | none => st
    | none => st
  else st

/-- open after a restart; a shard that does not open is observed as empty -/
def reopened (kind : Restart) (st : PState) : PState × Step10 :=
  match openFields st with
  | some st' => (st', .restart kind true (seen st'))
  | none => (st, .restart kind false { sch := [], store := none })

def step10 (st : PState) : Op10 → PState × Step10
  | .write b =>
    let r := pWrite st b
    (r.1, .write b r.2 (seen r.1))
  | .drop m => let st' := pDrop st m; (st', .drop m true (seen st'))
  | .reopen => reopened .clean (closeFields st)
  | .crash => reopened .kill st
  | .crashTorn j => reopened (if (tearLast st j).torn = st.torn ∧ (tearLast st j).log = st.log then .kill else .torn) (tearLast st j)
  | .crashTornEnd k =>
    let j := match st.log.bind List.getLast? with
      | some last => recordLen last - k
      | none => 0
    reopened (if (tearLast st j).torn = st.torn ∧ (tearLast st j).log = st.log then .kill else .torn) (tearLast st j)
  | .crashInClose p =>
    match crashInClose st p with
    | some st' => reopened (.inSnapshot p.name) st'
    | none => reopened .clean (closeFields st)
  | .look => ({ st with lastAppended := st.lastAppended }, .look (seen st))

def trace10 : PState → List Op10 → List Step10
  | _, [] => []
  | st, o :: os => (step10 st o).2 :: trace10 (step10 st o).1 os

end Influx.Fields
