import Influx.Model.ReducersTypes
/-
  Model.Reducers — the InfluxQL transformation / aggregate reducers of
  `/repo/influxql/query/functions.go`, `functions.gen.go` and the slice reduce
  functions of `call_iterator.go`, written *as the code writes them*: one state
  record per reducer with `agg` (= `AggregateInteger` / `AggregateFloat`) and
  `emit` (= `Emit`), driven the way `integerStreamIntegerIterator.reduce`
  (iterator.gen.go) drives a stream reducer — Aggregate one point, then Emit —
  and the way `integerReduceIntegerIterator.reduce` drives a window reducer —
  Aggregate every point of the window, then Emit once.

  The value type `V` (Go `int64` or `float64`) and the float result type `F` are
  parameters: `VOps V F` / `FOps F` carry `+ − × ÷ <` … as plain functions with
  NO laws.  Theorems proved for an arbitrary `VOps`/`FOps` are therefore about the
  *structure* (which points, which order, which timestamps, which operands in
  which order); the integer instance `intOps` is exact (`Int`, no overflow:
  the int64 range is a side condition of the harness generator).

  Core Lean only.
-/
namespace Influx.Reducers

/-! ## Stream reducers (`newXStreamYIterator`): Aggregate one point, Emit -/

/-- `integerStreamIntegerIterator.reduce` for one series: every input point is
    aggregated, then `Emit` is called and whatever it returns is output. -/
def runStream {σ P O : Type} (agg : σ → P → σ) (emit : σ → σ × List O) : σ → List P → List O
  | _, [] => []
  | s, p :: ps =>
    let s1 := agg s p
    let r := emit s1
    r.2 ++ runStream agg emit r.1 ps

/-! ### derivative / non_negative_derivative — `IntegerDerivativeReducer`, `FloatDerivativeReducer` -/

/-- `prev`/`curr` with their `Nil` flag as `Option` -/
structure PCSt (V : Type) where
  prev : Option (Pt V) := none
  curr : Option (Pt V) := none

/-- `AggregateInteger` of the derivative and difference reducers: a point at the
    time of `curr` is discarded. -/
def pcAgg {V : Type} (s : PCSt V) (p : Pt V) : PCSt V :=
  match s.curr with
  | some c => if c.t = p.t then s else { prev := s.curr, curr := some p }
  | none => { prev := s.curr, curr := some p }

/-- the value `Emit` computes for a pair of points -/
def derivValue {V F : Type} (vo : VOps V F) (fo : FOps F) (unit : Int) (asc : Bool) (a b : Pt V) : F :=
  let diff := vo.toF (vo.sub b.v a.v)
  let elapsed := if asc then b.t - a.t else -(b.t - a.t)
  fo.div diff (fo.div (fo.ofInt elapsed) (fo.ofInt unit))

def derivDropped {V F : Type} (vo : VOps V F) (fo : FOps F) (nonNeg : Bool) (a b : Pt V) : Bool :=
  nonNeg && fo.lt (vo.toF (vo.sub b.v a.v)) (fo.ofInt 0)

def derivEmit {V F : Type} (vo : VOps V F) (fo : FOps F) (unit : Int) (nonNeg asc : Bool)
    (s : PCSt V) : PCSt V × List (Pt F) :=
  match s.prev, s.curr with
  | some a, some b =>
    let s' := { s with prev := none }
    if derivDropped vo fo nonNeg a b then (s', [])
    else (s', [⟨b.t, derivValue vo fo unit asc a b⟩])
  | _, _ => (s, [])

def derivative {V F : Type} (vo : VOps V F) (fo : FOps F) (unit : Int) (nonNeg asc : Bool)
    (xs : List (Pt V)) : List (Pt F) :=
  runStream pcAgg (derivEmit vo fo unit nonNeg asc) {} xs

/-! ### difference / non_negative_difference — `IntegerDifferenceReducer`, `FloatDifferenceReducer` -/

def diffEmit {V F : Type} (vo : VOps V F) (nonNeg : Bool) (s : PCSt V) : PCSt V × List (Pt V) :=
  match s.prev, s.curr with
  | some a, some b =>
    let value := vo.sub b.v a.v
    -- a dropped negative difference leaves `prev` unread
    if nonNeg && vo.lt value vo.zero then (s, [])
    else ({ s with prev := none }, [⟨b.t, value⟩])
  | _, _ => (s, [])

def difference {V F : Type} (vo : VOps V F) (nonNeg : Bool) (xs : List (Pt V)) : List (Pt V) :=
  runStream pcAgg (diffEmit vo nonNeg) {} xs

/-! ### elapsed — `IntegerElapsedReducer` (functions.gen.go): no same-time check -/

structure ElSt where
  prev : Option Int := none
  curr : Option Int := none

def elAgg {V : Type} (s : ElSt) (p : Pt V) : ElSt := { prev := s.curr, curr := some p.t }

def elEmit (unit : Int) (s : ElSt) : ElSt × List (Pt Int) :=
  match s.prev, s.curr with
  | some a, some b => (s, [⟨b, (b - a).tdiv unit⟩])   -- Go `/` on int64 truncates
  | _, _ => (s, [])

def elapsed {V : Type} (unit : Int) (xs : List (Pt V)) : List (Pt Int) :=
  runStream elAgg (elEmit unit) {} xs

/-! ### cumulative_sum — `IntegerCumulativeSumReducer` -/

structure CsSt (V : Type) where
  sum : V
  time : Int := 0
  nil : Bool := true

def csAgg {V F : Type} (vo : VOps V F) (s : CsSt V) (p : Pt V) : CsSt V :=
  { sum := vo.add s.sum p.v, time := p.t, nil := false }

def csEmit {V : Type} (s : CsSt V) : CsSt V × List (Pt V) :=
  if s.nil then (s, []) else (s, [⟨s.time, s.sum⟩])

def cumulativeSum {V F : Type} (vo : VOps V F) (xs : List (Pt V)) : List (Pt V) :=
  runStream (csAgg vo) csEmit { sum := vo.zero } xs

/-! ### moving_average(n) — `IntegerMovingAverageReducer`: ring buffer `buf` of capacity `n`,
    write position `pos`, running `sum`. -/

structure MaSt (V : Type) where
  pos : Nat := 0
  sum : V
  time : Int := 0
  buf : List V := []

/-- `none` = index out of range (only possible for `n = 0`) -/
def maAgg {V F : Type} (vo : VOps V F) (n : Nat) (s : MaSt V) (p : Pt V) : Option (MaSt V) :=
  let step (sum : V) (buf : List V) : MaSt V :=
    let pos := s.pos + 1
    { pos := if pos ≥ n then 0 else pos, sum := vo.add sum p.v, time := p.t, buf := buf }
  if s.buf.length ≠ n then some (step s.sum (s.buf ++ [p.v]))
  else match s.buf[s.pos]? with
    | some old => some (step (vo.sub s.sum old) (s.buf.set s.pos p.v))
    | none => none

def maEmit {V F : Type} (vo : VOps V F) (fo : FOps F) (n : Nat) (s : MaSt V) : List (Pt F) :=
  if s.buf.length ≠ n then [] else [⟨s.time, fo.div (vo.toF s.sum) (fo.ofInt s.buf.length)⟩]

def maRun {V F : Type} (vo : VOps V F) (fo : FOps F) (n : Nat) : MaSt V → List (Pt V) → Option (List (Pt F))
  | _, [] => some []
  | s, p :: ps =>
    match maAgg vo n s p with
    | none => none
    | some s1 => (maRun vo fo n s1 ps).map (maEmit vo fo n s1 ++ ·)

def movingAverage {V F : Type} (vo : VOps V F) (fo : FOps F) (n : Nat) (xs : List (Pt V)) : Option (List (Pt F)) :=
  maRun vo fo n { sum := vo.zero } xs

/-! ## Window reducers (`newXReduceYIterator`): Aggregate all, Emit once.
    `IntegerSliceFuncReducer` collects the points in arrival order and applies the
    slice function in `Emit`. -/

/-- Go's `insertionSort` (sort/zsortinterface.go), which is what `sort.Sort` runs for
    `n ≤ 12`: element `i` moves left while `Less(j, j-1)`.  `acc` is the sorted prefix
    REVERSED (last element first). -/
def insertBack {α : Type} (lt : α → α → Bool) (x : α) : List α → List α
  | [] => [x]
  | y :: ys => if lt x y then y :: insertBack lt x ys else x :: y :: ys

def insertionSortAux {α : Type} (lt : α → α → Bool) : List α → List α → List α
  | acc, [] => acc.reverse
  | acc, x :: xs => insertionSortAux lt (insertBack lt x acc) xs

def insertionSort {α : Type} (lt : α → α → Bool) (xs : List α) : List α :=
  insertionSortAux lt [] xs

/-- `sort.Sort(integerPointsByValue(a))` -/
def sortByValue {V F : Type} (vo : VOps V F) (xs : List (Pt V)) : List (Pt V) :=
  insertionSort (fun a b => vo.lt a.v b.v) xs

/-- `int(math.Floor(float64(length)*percentile/100.0+0.5)) - 1` for the rational
    percentile `pn/pd` (`pd > 0`), computed exactly. -/
def percentileIndex (len : Nat) (pn : Int) (pd : Nat) : Int :=
  Int.fdiv (2 * (len : Int) * pn + 100 * pd) (200 * pd) - 1

/-- `NewIntegerPercentileReduceSliceFunc` -/
def percentile {V F : Type} (vo : VOps V F) (pn : Int) (pd : Nat) (xs : List (Pt V)) : List (Pt V) :=
  let i := percentileIndex xs.length pn pd
  if i < 0 ∨ i ≥ xs.length then []
  else match (sortByValue vo xs)[i.toNat]? with
    | some p => [p]
    | none => []

/-- `IntegerMedianReduceSlice` / `FloatMedianReduceSlice` -/
def median {V F : Type} (vo : VOps V F) (fo : FOps F) (xs : List (Pt V)) : List (Pt F) :=
  match xs with
  | [p] => [⟨if vo.medianSingleKeepsTime then p.t else zeroTime, vo.toF p.v⟩]
  | _ =>
    let a := sortByValue vo xs
    let n := a.length
    if n % 2 = 0 then
      match a[n / 2 - 1]?, a[n / 2]? with
      | some lo, some hi =>
        [⟨zeroTime, fo.add (vo.toF lo.v) (fo.div (vo.toF (vo.sub hi.v lo.v)) (fo.ofInt 2))⟩]
      | _, _ => []      -- Go: index out of range for the empty slice (never called with it)
    else match a[n / 2]? with
      | some m => [⟨zeroTime, vo.toF m.v⟩]
      | none => []

/-- loop state of `IntegerModeReduceSlice` -/
structure ModeSt (V : Type) where
  mostFreq : Nat := 0
  currFreq : Nat := 0
  currMode : V
  mostMode : V
  mostTime : Int
  currTime : Int

def modeStep {V F : Type} (vo : VOps V F) (s : ModeSt V) (p : Pt V) : ModeSt V :=
  if !vo.eq p.v s.currMode then
    { s with currFreq := 1, currMode := p.v, currTime := p.t }
  else
    let cf := s.currFreq + 1
    let s := { s with currFreq := cf }
    if s.mostFreq > cf || (s.mostFreq == cf && s.currTime > s.mostTime) then s
    else { s with mostFreq := cf, mostMode := p.v, mostTime := p.t }

/-- `IntegerModeReduceSlice` (a one-point slice is returned as is) -/
def mode {V F : Type} (vo : VOps V F) (xs : List (Pt V)) : List (Pt V) :=
  match xs with
  | [p] => [p]
  | _ =>
    match sortByValue vo xs with
    | [] => []          -- Go would panic on a[0]; never called with an empty slice
    | a0 :: rest =>
      let s0 : ModeSt V := { currMode := a0.v, mostMode := a0.v, mostTime := a0.t, currTime := a0.t }
      let s := (a0 :: rest).foldl (modeStep vo) s0
      [⟨zeroTime, s.mostMode⟩]

/-- `IntegerSpreadReducer` / `FloatSpreadReducer` -/
def spread {V F : Type} (vo : VOps V F) (xs : List (Pt V)) : List (Pt V) :=
  let mn := xs.foldl (fun m p => vo.minStep m p.v) vo.spreadInitMin
  let mx := xs.foldl (fun m p => vo.maxStep m p.v) vo.spreadInitMax
  [⟨zeroTime, vo.sub mx mn⟩]

/-- `IntegerStddevReduceSlice` / `FloatStddevReduceSlice` (NaN values skipped) -/
def stddev {V F : Type} (vo : VOps V F) (fo : FOps F) (xs : List (Pt V)) : List (Pt F) :=
  if xs.length < 2 then [⟨zeroTime, fo.nan⟩] else
  let vals := (xs.filter (fun p => !vo.isNaN p.v)).map (fun p => vo.toF p.v)
  let mc := vals.foldl (fun (mc : F × Nat) x =>
      let c := mc.2 + 1
      (fo.add mc.1 (fo.div (fo.sub x mc.1) (fo.ofInt c)), c)) (fo.ofInt 0, 0)
  let mean := mc.1
  let count := mc.2
  let variance := vals.foldl (fun acc x => let d := fo.sub x mean; fo.add acc (fo.mul d d)) (fo.ofInt 0)
  [⟨zeroTime, fo.sqrt (fo.div variance (fo.ofInt ((count : Int) - 1)))⟩]

/-- `IntegerDistinctReducer`: map value → first point seen with it; `Emit` sorts by
    (time, value) (`integerPoints.Less`). -/
def distinctAgg {V F : Type} (vo : VOps V F) (m : List (Pt V)) (p : Pt V) : List (Pt V) :=
  if m.any (fun q => vo.eq q.v p.v) then m else m ++ [p]

def ptLess {V F : Type} (vo : VOps V F) (a b : Pt V) : Bool :=
  if a.t ≠ b.t then a.t < b.t else vo.lt a.v b.v

def distinct {V F : Type} (vo : VOps V F) (xs : List (Pt V)) : List (Pt V) :=
  insertionSort (ptLess vo) (xs.foldl (distinctAgg vo) [])

/-! ### top(n) / bottom(n) — `IntegerTopReducer`: a bounded heap whose root is the
    point that `cmp` orders first.  `container/heap` is modelled as a bag from which
    the minimum (first under `cmp`) can be read and replaced. -/

/-- `NewIntegerTopReducer`'s comparator; `bottom` swaps the value comparison -/
def topCmp {V F : Type} (vo : VOps V F) (isTop : Bool) (a b : Pt V) : Bool :=
  if !vo.eq a.v b.v then (if isTop then vo.lt a.v b.v else vo.lt b.v a.v)
  else a.t > b.t

/-- the root of the heap: index and value of an element no other element is
    `cmp`-before -/
def heapMinIdx {α : Type} (cmp : α → α → Bool) : List α → Option (Nat × α)
  | [] => none
  | x :: xs => match heapMinIdx cmp xs with
    | none => some (0, x)
    | some (i, m) => if cmp m x then some (i + 1, m) else some (0, x)

/-- `AggregateInteger`: while the heap is not full push; afterwards replace the root
    when `cmp(root, p)` (`p.CopyTo(&points[0]); heap.Fix`). -/
def topAgg {V F : Type} (vo : VOps V F) (isTop : Bool) (n : Nat) (h : List (Pt V)) (p : Pt V) : List (Pt V) :=
  if h.length = n then
    match heapMinIdx (topCmp vo isTop) h with
    | some (i, m) => if topCmp vo isTop m p then h.set i p else h
    | none => h      -- n = 0: Go indexes points[0] of an empty heap (compile.go rejects n < 1)
  else p :: h

/-- `Emit`: `sort.Sort(sort.Reverse(h))` — descending under `cmp` -/
def topN {V F : Type} (vo : VOps V F) (isTop : Bool) (n : Nat) (xs : List (Pt V)) : List (Pt V) :=
  insertionSort (fun a b => topCmp vo isTop b a) (xs.foldl (topAgg vo isTop n) [])


/-! ### integral(unit) — `FloatIntegralReducer` / `IntegerIntegralReducer`: trapezium rule,
    linear interpolation at `GROUP BY time` window ends, results handed over through a
    one-slot channel (`pending`), `Close` flushes the last window. -/

def minTime : Int := -9223372036854775806
def maxTime : Int := 9223372036854775806

/-- the fields of `IteratorOptions` the reducer reads (`Location = nil`) -/
structure WinOpt where
  dur : Int
  off : Int
  startTime : Int
  endTime : Int
  asc : Bool
deriving Repr

/-- `IteratorOptions.Window` (iterator.go) without a time zone; `dur ≥ 0` -/
def window (o : WinOpt) (t : Int) : Int × Int :=
  if o.dur = 0 then (o.startTime, o.endTime + 1) else
  let t := t - o.off
  let dt0 := Int.tmod t o.dur
  let dt := if dt0 < 0 then dt0 + o.dur else dt0
  let start := (if minTime + dt ≥ t then minTime else t - dt) + o.off
  let dte := o.dur - dt
  let stop := (if maxTime - dte ≤ t then maxTime else t + dte) + o.off
  (start, stop)

structure IgSt (F : Type) where
  sum : F
  /-- `prev.Time`, `float64(prev.Value)`; `none` = `prev.Nil` -/
  prev : Option (Int × F) := none
  wstart : Int := 0
  wend : Int := 0
  pending : Option (Pt F) := none

/-- `linearFloat` (linear.go) -/
def linearF {F : Type} (fo : FOps F) (windowT prevT nextT : Int) (prevV nextV : F) : F :=
  let m := fo.div (fo.sub nextV prevV) (fo.ofInt (nextT - prevT))
  let x := fo.ofInt (windowT - prevT)
  fo.add (fo.mul m x) prevV

def igSetWindow {F : Type} (o : WinOpt) (s : IgSt F) (t : Int) : IgSt F :=
  let w := window o t
  if o.asc then { s with wstart := w.1, wend := w.2 } else { s with wend := w.1, wstart := w.2 }

/-- `AggregateInteger` (`isInt = true`) / `AggregateFloat` (`isInt = false`) -/
def igAgg {V F : Type} (vo : VOps V F) (fo : FOps F) (isInt : Bool) (unit : Int) (o : WinOpt)
    (s : IgSt F) (p : Pt V) : IgSt F :=
  let pv := vo.toF p.v
  match s.prev with
  | none =>
    let s := { s with prev := some (p.t, pv) }
    if isInt then
      let s := igSetWindow o s p.t
      if s.wstart = minTime then { s with wstart := 0 } else s
    else if o.dur ≠ 0 then igSetWindow o s p.t else s
  | some (qt, qv) =>
    if qt = p.t then { s with prev := some (p.t, pv) } else
    let crossing := (isInt || o.dur ≠ 0) && ((o.asc && p.t ≥ s.wend) || (!o.asc && p.t ≤ s.wend))
    -- (state, prev.Time, float64(prev.Value) as read below, `value` as read below)
    let r : IgSt F × Int × F × F :=
      if crossing then
        let r1 : F × Int × F × F :=
          if qt ≠ s.wend then
            let w := linearF fo s.wend qt p.t qv pv
            let el := fo.div (fo.ofInt (s.wend - qt)) (fo.ofInt unit)
            let sum := fo.add s.sum (fo.mul (fo.mul fo.half (fo.add w qv)) el)
            -- prev.Time = window.end, the previous value becomes the interpolated one
            -- (float: `r.prev.Value = value`; integer, after fixes/C23-integer-integral-window.patch:
            -- `prevValue = interp`), the new point keeps p.Value
            (sum, s.wend, w, pv)
          else (s.sum, qt, qv, pv)
        let s1 := { s with pending := some ⟨s.wstart, r1.1⟩ }
        let s2 := igSetWindow o s1 p.t
        ({ s2 with sum := fo.ofInt 0 }, r1.2.1, r1.2.2.1, r1.2.2.2)
      else (s, qt, qv, pv)
    let s := r.1
    let el := fo.div (fo.ofInt (p.t - r.2.1)) (fo.ofInt unit)
    { s with sum := fo.add s.sum (fo.mul (fo.mul fo.half (fo.add r.2.2.2 r.2.2.1)) el), prev := some (p.t, pv) }

/-- `Emit`: take what is in the channel -/
def igEmit {F : Type} (s : IgSt F) : IgSt F × List (Pt F) :=
  match s.pending with
  | some pt => ({ s with pending := none }, [pt])
  | none => (s, [])

/-- `Close` followed by the last `Emit` -/
def igClose {F : Type} (s : IgSt F) : List (Pt F) :=
  match s.prev with
  | some (qt, _) => if qt ≠ s.wstart then [⟨s.wstart, s.sum⟩] else (igEmit s).2
  | none => (igEmit s).2

def igRun {V F : Type} (vo : VOps V F) (fo : FOps F) (isInt : Bool) (unit : Int) (o : WinOpt) :
    IgSt F → List (Pt V) → List (Pt F)
  | s, [] => igClose s
  | s, p :: ps =>
    let r := igEmit (igAgg vo fo isInt unit o s p)
    r.2 ++ igRun vo fo isInt unit o r.1 ps

def integral {V F : Type} (vo : VOps V F) (fo : FOps F) (isInt : Bool) (unit : Int) (o : WinOpt)
    (xs : List (Pt V)) : List (Pt F) :=
  igRun vo fo isInt unit o { sum := fo.ofInt 0 } xs

/-! ## dispatch: what the real reducer of `fn` emits for the series `xs` -/

def eval {V F : Type} (A : Arith V F) (isInt : Bool) (fn : Fn) (xs : List (Pt V)) : Option (Out V F) :=
  match fn with
  | .derivative unit nonNeg asc => some (.f (derivative A.vo A.fo unit nonNeg asc xs))
  | .difference nonNeg => some (.v (difference A.vo nonNeg xs))
  | .elapsed unit => some (.i (elapsed unit xs))
  | .cumulativeSum => some (.v (cumulativeSum A.vo xs))
  | .movingAverage n => (movingAverage A.vo A.fo n xs).map .f
  | .percentile pn pd => some (.v (percentile A.vo pn pd xs))
  | .median => some (.f (median A.vo A.fo xs))
  | .mode => some (.v (mode A.vo xs))
  | .spread => some (.v (spread A.vo xs))
  | .stddev => some (.f (stddev A.vo A.fo xs))
  | .distinct => some (.v (distinct A.vo xs))
  | .top n => some (.v (topN A.vo true n xs))
  | .bottom n => some (.v (topN A.vo false n xs))
  | .integral unit dur off st en asc =>
    some (.f (integral A.vo A.fo isInt unit ⟨dur, off, st, en, asc⟩ xs))

end Influx.Reducers
