/-
  Influx.Model.DelPredRun — the C16 model as a state machine over the ops of a
  case (state = the matcher in force), shared by the driver and the theorems.
-/
import Influx.Model.DelPred
import Influx.Spec.C16

namespace Influx.Model.DelPred
open Influx.Spec.C16 (Op Ans)

/-- the key handed to `Matches`: the series key, or the composite key `series#!~#field` -/
def opKey (name : Bytes) (tags : List (Bytes × Bytes)) : Option Bytes → Bytes
  | none => seriesKey name tags
  | some f => compositeKey (seriesKey name tags) f

/-- one op on the model; state = the matcher in force (`none` = none built / build failed) -/
def stepOp (st : Option Matcher) : Op → Option Matcher × Ans
  | .setPred p => match newMatcher (toDataType p) with
    | some m => (some m, .ok)
    | none => (none, .err)
  | .setRaw d => match newMatcher d with
    | some m => (some m, .ok)
    | none => (none, .err)
  | .clone => match st with
    | some m => (some m, .ok)         -- Clone is a deep copy
    | none => (none, .noPred)
  | .matchSeries name tags field => match st with
    | none => (none, .noPred)
    | some m =>
      match m.matches (opKey name tags field) with
      | some (b, m') => (some m', .bool b)
      | none => (some m, .other "panic")

/-- the model's trace on a list of ops -/
def run : Option Matcher → List Op → List (Op × Ans)
  | _, [] => []
  | st, op :: ops => (op, (stepOp st op).2) :: run (stepOp st op).1 ops

end Influx.Model.DelPred
