/-
  Influx.Model.CodecS8b — simple8b, as used by the tsm1 codecs.

  Two packages implement it:
    /repo/pkg/encoding/simple8b/encoding.go          (batch codecs: `EncodeAll`, `DecodeBytesBigEndian`, `CountBytes`)
    github.com/jwilder/encoding/simple8b (module cache; scalar codecs: `EncodeAll`, streaming `Encoder`, `Decoder`)
  They share the selector table, `canPack`, `Encode`, the `packN`/`unpackN` functions; they
  differ in `EncodeAll`: jwilder's tries the `canPack` chain at every position (and `canPack(…, 0)`
  looks at ALL remaining values), influxdb's looks for a run of 120/240 leading ones and then
  walks `numBits`.  Both are modelled; they can emit different words for the same input.

  The selector table and `numBits` are generated from the influxdb package
  (Influx.Generated.Codec); the unrolled `packN`/`unpackN` functions are modelled by the
  generic `packN`/`unpackN` below (`src[k] << (k*bits)` combined with `|` = little-endian
  fields; written arithmetically, the fields are disjoint because `canPack` bounds them).
-/
import Influx.Model.CodecBase
import Influx.Generated.Codec

namespace Influx.Codec
open Influx.Generated.Codec (selector numBits MaxValue)

/-- `src[0] | src[1]<<bits | …` -/
def packN (bits : Nat) : List Nat → Nat
  | [] => 0
  | v :: vs => v + 2 ^ bits * packN bits vs

/-- `dst[k] = (v >> (k*bits)) & mask`, `k < n` -/
def unpackN (bits : Nat) : (n : Nat) → Nat → List Nat
  | 0, _ => []
  | n + 1, w => (w % 2 ^ bits) :: unpackN bits n (w / 2 ^ bits)

/-- the word for selector `sel` holding `vals` -/
def packWord (sel bits : Nat) (vals : List Nat) : Nat :=
  if bits = 0 then sel * 2 ^ 60 else sel * 2 ^ 60 + packN bits vals

/-- `selector[sel].unpack(v, dst)` and `selector[sel].n`: selectors 0 and 1 are runs of ones. -/
def unpackSel (sel w : Nat) : List Nat :=
  match selector[sel]? with
  | some (n, bits) => if bits = 0 then List.replicate n 1 else unpackN bits n w
  | none => []   -- unreachable for a 64-bit word (`sel >= 16` is the Go error branch)

/-- `Decode(&dst, v)`: the values of one word (`sel := v >> 60`). -/
def unpackWord (w : Nat) : List Nat := unpackSel (w / 2 ^ 60) w

/-- `DecodeAll` / `DecodeBytesBigEndian` / the streaming `Decoder`: all values of all words -/
def decodeWords (ws : List Nat) : List Nat := ws.flatMap unpackWord

/-- `CountBytes` on whole words -/
def countWords (ws : List Nat) : Nat := (ws.map fun w => match selector[w / 2 ^ 60]? with | some (n, _) => n | none => 0).sum

/-- `canPack(src, n, bits)` -/
def canPack (src : List Nat) (n bits : Nat) : Bool :=
  if src.length < n then false
  else if bits = 0 then src.all (· == 1)          -- looks at ALL of src, not only the first n
  else (src.take n).all (fun v => decide (v ≤ 2 ^ bits - 1))

/-- `Encode(src)`: first selector whose `canPack` holds → (word, number of values consumed);
    `none` = "value out of bounds" (also returned here for empty `src`, where Go returns `(0, 0, nil)`;
    callers below never pass an empty slice). -/
def encodeOne (src : List Nat) : Option (Nat × Nat) :=
  let rec go : List (Nat × Nat) → Nat → Option (Nat × Nat)
    | [], _ => none
    | (n, bits) :: rest, sel =>
      if canPack src n bits then some (packWord sel bits (src.take n), n) else go rest (sel + 1)
  go selector 0

/-- the loop shared by both `EncodeAll`s: `step` packs a prefix of the remaining values into one word -/
def encodeAllWith (step : List Nat → Option (Nat × Nat)) : (fuel : Nat) → List Nat → Option (List Nat)
  | 0, src => if src.isEmpty then some [] else none
  | fuel + 1, src =>
    if src.isEmpty then some []
    else match step src with
      | none => none
      | some (w, n) =>
        match encodeAllWith step fuel (src.drop n) with
        | none => none
        | some ws => some (w :: ws)

/-- jwilder `EncodeAll`: `Encode` (the `canPack` chain) at every position; `none` = "value out of bounds". -/
def encodeAllJ (fuel : Nat) (src : List Nat) : Option (List Nat) := encodeAllWith encodeOne fuel src

/-- number of leading ones among the first `lim` values -/
def leadingOnes : List Nat → Nat → Nat
  | [], _ => 0
  | _, 0 => 0
  | v :: vs, lim + 1 => if v = 1 then leadingOnes vs lim + 1 else 0

/-- the `CODES:` loop of influxdb's `EncodeAll`: first row of `numBits` that fits → (word, consumed) -/
def codesLoop (remaining : List Nat) : List (Nat × Nat) → Nat → Option (Nat × Nat)
  | [], _ => none
  | (intN, bitN) :: rest, code =>
    if intN > remaining.length then codesLoop remaining rest (code + 1)
    else if (remaining.take intN).all (fun v => decide (v < 2 ^ bitN)) then
      some ((code + 2) * 2 ^ 60 + packN bitN (remaining.take intN), intN)
    else codesLoop remaining rest (code + 1)

/-- one iteration of influxdb's `EncodeAll` (`NEXTVALUE:`) -/
def encodeStepI (remaining : List Nat) : Option (Nat × Nat) :=
  if remaining.length ≥ 120 then
    let lim := if remaining.length ≥ 240 then 240 else 120
    let k := leadingOnes remaining lim          -- Go's `k` is this minus one
    if k = 240 then some (0, 240)
    else if k ≥ 120 then some (2 ^ 60, 120)
    else codesLoop remaining numBits 0
  else codesLoop remaining numBits 0

/-- influxdb `EncodeAll`; `none` = `ErrValueOutOfBounds`. -/
def encodeAllI (fuel : Nat) (src : List Nat) : Option (List Nat) := encodeAllWith encodeStepI fuel src

/-- jwilder streaming `Encoder`: `Write` buffers up to 240 values and emits one word (of as many
    buffered values as `Encode` takes) when the buffer is full; `Bytes` drains the buffer. -/
structure Stream where
  pending : List Nat := []
  out : List Nat := []      -- words, in order

def Stream.write (s : Stream) (v : Nat) : Option Stream :=
  if s.pending.length ≥ 240 then
    match encodeOne s.pending with
    | none => none
    | some (w, n) => some { pending := s.pending.drop n ++ [v], out := s.out ++ [w] }
  else some { s with pending := s.pending ++ [v] }

def Stream.drain : (fuel : Nat) → Stream → Option (List Nat)
  | 0, s => if s.pending.isEmpty then some s.out else none
  | fuel + 1, s =>
    if s.pending.isEmpty then some s.out
    else match encodeOne s.pending with
      | none => none
      | some (w, n) => Stream.drain fuel { pending := s.pending.drop n, out := s.out ++ [w] }

/-- all of `for v in vs { enc.Write(v) }; enc.Bytes()` as words -/
def encodeStream (vs : List Nat) : Option (List Nat) :=
  match vs.foldlM Stream.write ({} : Stream) with
  | none => none
  | some s => s.drain (s.pending.length + 1)

def wordsToBytes (ws : List Nat) : Bytes := ws.flatMap putU64

end Influx.Codec
