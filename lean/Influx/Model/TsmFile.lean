/-
  Model.TsmFile — the TSM file writer and the file/index parser, written from
  `tsdb/engine/tsm1/writer.go` (`tsmWriter.WriteBlock/WriteIndex`,
  `directIndex.Add/flush`) and `reader.go` (`mmapAccessor.init`,
  `indirectIndex.UnmarshalBinary`, `readKey`, `readEntries`, `readBytes`) as the
  code is, quirks included:
    * `directIndex.Add` tests `len(d.key) == 0` for "no current key", so blocks
      written under the empty key are attributed to the next key;
    * `directIndex.Add` ignores the error of `flush` (too many entries): the
      entries stay and the next key's are appended to them;
    * `UnmarshalBinary` looks only at the first entry's MinTime and the last
      entry's MaxTime of every key.
  The checksum is a parameter (`crc`), the layout constants are the translated
  ones (Generated/TsmLayout.lean).
-/
import Influx.Model.TsmBytes
import Influx.Generated.TsmLayout

namespace Influx.Tsm
open Influx.Generated.TsmLayout

/-- one key of the index section -/
structure KeyEntry where
  key : Key
  typ : Nat
  entries : List IndexEntry
deriving DecidableEq, Repr, Inhabited

/-! ## serialisation of the index section -/

/-- `IndexEntry.AppendTo` -/
def encEntry (e : IndexEntry) : Bytes :=
  be 8 (u64 e.MinTime) ++ be 8 (u64 e.MaxTime) ++ be 8 (u64 e.Offset) ++ be 4 e.Size

/-- what `directIndex.flush` writes for one key -/
def encKeyEntry (ke : KeyEntry) : Bytes :=
  be 2 ke.key.length ++ ke.key ++ [ke.typ] ++ be 2 ke.entries.length ++ ke.entries.flatMap encEntry

/-- `tsmWriter.writeHeader` -/
def header : Bytes := be 4 MagicNumber ++ [Version]

/-! ## the writer -/

/-- insertion of one entry into a list sorted by MinTime, after equal MinTimes (stable) -/
def insertEntry (e : IndexEntry) : List IndexEntry → List IndexEntry
  | [] => [e]
  | x :: xs => if e.MinTime < x.MinTime then e :: x :: xs else x :: insertEntry e xs

/-- `sort.Sort(entries)` by `MinTime` when `!sort.IsSorted(entries)`.  Go's sort is
    not stable; the model is (a stable sort leaves a sorted list untouched and
    gives the only possible answer when the MinTimes are distinct). -/
def sortEntries (es : List IndexEntry) : List IndexEntry :=
  es.foldl (fun acc e => insertEntry e acc) []

structure WState where
  /-- `tsmWriter.n`: file position -/
  n : Nat := 0
  /-- chunks handed to the file's buffered writer, newest first -/
  body : List Bytes := []
  /-- chunks written by `directIndex.flush` into the index buffer, newest first -/
  idx : List Bytes := []
  /-- `directIndex.key` (`nil` is `[]`) -/
  key : Key := []
  /-- `directIndex.indexEntries.Type` -/
  typ : Nat := 0
  /-- `directIndex.indexEntries.entries`, newest first -/
  ents : List IndexEntry := []
  keyCount : Nat := 0
  /-- `directIndex.size` (uint32) -/
  size : Nat := 0
deriving Repr, Inhabited

inductive WAns where
  | ok | maxKey | maxBlocks | blockType | panicUnsorted | noValues | maxEntries
deriving DecidableEq, Repr

def u32 (n : Nat) : Nat := n % 4294967296

/-- `directIndex.flush`: `none` is the "exceeds max index entries" error, in which
    case nothing is written and nothing is reset. -/
def flush (s : WState) : Option WState :=
  if s.key.length = 0 then some s
  else if s.ents.length > maxIndexEntries then none
  else
    let ke : KeyEntry := ⟨s.key, s.typ, sortEntries s.ents.reverse⟩
    some { s with idx := encKeyEntry ke :: s.idx, key := [], typ := 0, ents := [] }

/-- `directIndex.Add`; `none` is the panic "keys must be added in sorted order". -/
def idxAdd (s : WState) (key : Key) (typ : Nat) (e : IndexEntry) : Option WState :=
  if s.key.length = 0 then
    some { s with size := u32 (u32 (u32 (s.size + u32 (2 + key.length)) + indexCountSize) + indexEntrySize),
                  key := key, typ := typ, ents := e :: s.ents, keyCount := s.keyCount + 1 }
  else match kcmp s.key key with
    | .eq => some { s with ents := e :: s.ents, size := u32 (s.size + indexEntrySize) }
    | .lt =>
      let s := (flush s).getD s      -- the error of flush is dropped by the code
      some { s with size := u32 (u32 (u32 (s.size + u32 (2 + key.length)) + indexCountSize) + indexEntrySize),
                    key := key, typ := typ, ents := e :: s.ents, keyCount := s.keyCount + 1 }
    | .gt => none

/-- `directIndex.Entries(key)` length -/
def idxEntriesLen (s : WState) (key : Key) : Nat :=
  if s.key.length = 0 then 0 else if s.key = key then s.ents.length else 0

/-- `tsmWriter.WriteBlock(key, minTime, maxTime, block)` -/
def writeBlock (crc : Bytes → Nat) (s : WState) (key : Key) (minT maxT : Int) (block : Bytes) :
    WState × WAns :=
  if key.length > maxKeyLength then (s, .maxKey)
  else match block with
  | [] => (s, .ok)
  | b0 :: _ =>
    if b0 > BlockUnsigned then (s, .blockType)      -- BlockType: types 0..4
    else
      let s := if s.n = 0 then { s with body := header :: s.body, n := header.length } else s
      let chunk := be 4 (crc block) ++ block
      let s := { s with body := chunk :: s.body }
      let sz := chunk.length
      match idxAdd s key b0 ⟨minT, maxT, s.n, u32 sz⟩ with
      | none => (s, .panicUnsorted)       -- the bytes are in the file buffer, `n` is not advanced
      | some s =>
        let s := { s with n := s.n + sz }
        if idxEntriesLen s key ≥ maxIndexEntries then (s, .maxBlocks) else (s, .ok)

def bodyBytes (s : WState) : Bytes := s.body.reverse.flatten

/-- `tsmWriter.WriteIndex` (+ `Close`): the answer and the bytes of the file. -/
def writeIndex (s : WState) : WAns × Bytes :=
  if s.keyCount = 0 then (.noValues, bodyBytes s)
  else match flush s with
    | none => (.maxEntries, bodyBytes s)
    | some s' => (.ok, bodyBytes s ++ s'.idx.reverse.flatten ++ be 8 s.n)

/-- `tsmWriter.Size()` -/
def wSize (s : WState) : Nat := u32 (u32 s.n + s.size)

/-! ## the functional description of a file: what the writer produces for a
    well-formed list of keys and blocks (proved in Lemmas/TsmWriter) -/

structure Blk where
  minT : Int
  maxT : Int
  data : Bytes
deriving DecidableEq, Repr, Inhabited

/-- index entries of consecutive blocks starting at file position `pos` -/
def layoutBlocks (pos : Nat) : List Blk → List IndexEntry
  | [] => []
  | b :: bs => ⟨b.minT, b.maxT, pos, 4 + b.data.length⟩ :: layoutBlocks (pos + 4 + b.data.length) bs

def blocksLen (bs : List Blk) : Nat := (bs.map fun b => 4 + b.data.length).sum

/-- the index content of a list of (key, blocks), first block at `pos` -/
def layout (pos : Nat) : List (Key × List Blk) → List KeyEntry
  | [] => []
  | (k, bs) :: rest =>
    ⟨k, (bs.head?.bind (·.data.head?)).getD 0, layoutBlocks pos bs⟩ :: layout (pos + blocksLen bs) rest

def encBlocks (crc : Bytes → Nat) (bs : List Blk) : Bytes :=
  bs.flatMap fun b => be 4 (crc b.data) ++ b.data

/-- the whole file for a list of (key, blocks) whose per-key entries are already sorted -/
def serialise (crc : Bytes → Nat) (kbs : List (Key × List Blk)) : Bytes :=
  let blocks := kbs.flatMap fun kb => encBlocks crc kb.2
  header ++ blocks ++ (layout header.length kbs).flatMap encKeyEntry ++ be 8 (header.length + blocks.length)

/-! ## parsing -/

/-- `IndexEntry.UnmarshalBinary` on the first 28 bytes -/
def decEntry (b : Bytes) : IndexEntry :=
  ⟨i64 (unbe (b.take 8)), i64 (unbe ((b.drop 8).take 8)), i64 (unbe ((b.drop 16).take 8)),
   unbe ((b.drop 24).take 4)⟩

/-- `count` index entries (`readEntries`) -/
def decEntries : Nat → Bytes → Option (List IndexEntry × Bytes)
  | 0, b => some ([], b)
  | n + 1, b =>
    if b.length < indexEntrySize then none
    else match decEntries n (b.drop indexEntrySize) with
      | none => none
      | some (es, rest) => some (decEntry b :: es, rest)

/-- one key of the index: key length, key, type, count, entries -/
def decKeyEntry (b : Bytes) : Option (KeyEntry × Bytes) :=
  if b.length < 2 then none else
  let klen := unbe (b.take 2)
  let b1 := b.drop 2
  if b1.length < klen + indexTypeSize + indexCountSize then none else
  let key := b1.take klen
  let b2 := b1.drop klen
  match b2 with
  | [] => none
  | typ :: b3 =>
    let count := unbe (b3.take 2)
    if count = 0 then none else
    match decEntries count (b3.drop 2) with
    | none => none
    | some (es, rest) => some (⟨key, typ, es⟩, rest)

/-- the whole index section (`UnmarshalBinary` walks it key by key) -/
def decIndex : Nat → Bytes → Option (List KeyEntry)
  | 0, _ => none
  | fuel + 1, b =>
    if b.isEmpty then some [] else
    match decKeyEntry b with
    | none => none
    | some (ke, rest) =>
      match decIndex fuel rest with
      | none => none
      | some kes => some (ke :: kes)

inductive OpenErr where
  | magic | version | tooSmall | indexStart | index
deriving DecidableEq, Repr

/-- `verifyVersion` + `mmapAccessor.init`: locate and parse the index section -/
def parseFile (b : Bytes) : Except OpenErr (List KeyEntry) :=
  if b.length < 4 then .error .magic
  else if unbe (b.take 4) ≠ MagicNumber then .error .magic
  else match b[4]? with
  | none => .error .version
  | some v =>
    if v ≠ Version then .error .version
    else if b.length < 8 then .error .tooSmall
    else
      let indexOfsPos := b.length - 8
      let indexStart := unbe (b.drop indexOfsPos)
      if indexStart ≥ indexOfsPos then .error .indexStart
      else
        let ib := (b.take indexOfsPos).drop indexStart
        match decIndex (ib.length + 1) ib with
        | none => .error .index
        | some kes => .ok kes

/-- `mmapAccessor.readBytes`: checksum and block bytes of an entry -/
def readBytes (file : Bytes) (e : IndexEntry) : Option (Nat × Bytes) :=
  if e.Offset < 0 then none
  else if (file.length : Int) < e.Offset + e.Size then none
  else
    let o := e.Offset.toNat
    some (unbe ((file.drop o).take 4), (file.drop (o + 4)).take (e.Size - 4))

end Influx.Tsm
