/-
  Influx.Model.StoreDel — a multi-shard `tsdb.Store` (tsi1 index, tsm1 engine) at the
  level of its logical content, for C17 (bucket deletes) and C42 (metadata queries).

  Written from the code as it is:
    tsdb/store.go     WriteToShard, DeleteSeriesWithPredicate (measurement short-cut incl.),
                      MeasurementNames, TagKeys, TagValues, makeTagValues
    tsdb/index.go     IndexSet.MeasurementNamesByExpr, measurementNamesByExpr/ByNameFilter/
                      ByTagFilter, measurementAuthorizedSeries, TagKeyHasAuthorizedSeries,
                      MeasurementTagKeysByExpr, MeasurementTagKeyValuesByExpr, tagValuesByKeyAndExpr,
                      PredicateSeriesIDIterator
    tsdb/engine/tsm1/engine.go  DeleteSeriesRange / deleteSeriesRange (range delete + index
                      reconciliation: a series leaves the index iff no value remains; a measurement
                      leaves it iff no series remains)
    tsdb/index/tsi1/log_file.go  tag keys / tag values of a measurement stay in the (uncompacted)
                      index until the measurement itself is dropped (`tagvals` below)
    http/delete_handler.go decodeDeleteRequest + influxql.PartitionExpr (`measNameOf`)

  Not modelled byte-for-byte: TSM files, WAL, cache (the engine is its abstract content
  series ↦ time ↦ value; C01–C04 are about that), tsi1 files (a set of live series plus the
  lingering tag key/value entries), the series file.
-/
import Influx.Model.DelPred

namespace Influx.Model.StoreDel
open Influx.Model.DelPred (Bytes Pred)

abbrev Tags := List (Bytes × Bytes)

/-! ## byte order (`bytes.Compare`) and sorted duplicate-free lists -/

def cmpBytes : Bytes → Bytes → Ordering
  | [], [] => .eq
  | [], _ :: _ => .lt
  | _ :: _, [] => .gt
  | a :: as, b :: bs => if a < b then .lt else if b < a then .gt else cmpBytes as bs

/-- insert into a strictly ascending list (no duplicates) -/
def insertSorted (x : Bytes) : List Bytes → List Bytes
  | [] => [x]
  | y :: ys =>
    match cmpBytes x y with
    | .lt => x :: y :: ys
    | .eq => y :: ys
    | .gt => y :: insertSorted x ys

/-- sorted, duplicate-free (`bytesutil.Sort` + merge iterators / Go map keys + `sort.Strings`) -/
def sortDedup (l : List Bytes) : List Bytes := l.foldr insertSorted []

/-- `bytesutil.Union` / `bytesutil.Intersect` on sorted inputs -/
def unionSorted (a b : List Bytes) : List Bytes := sortDedup (a ++ b)
def interSorted (a b : List Bytes) : List Bytes := a.filter fun x => b.contains x

/-! ## state -/

/-- the series' key inside one TSM file (single field): the values as written, the tombstone
    ranges recorded for the key (`indirectIndex.tombstones`), and whether the key has been
    removed from the file's index (`indirectIndex.Delete`) -/
structure FileEnt where
  pts : List (Int × Int)
  tombs : List (Int × Int)
  gone : Bool
deriving Repr, DecidableEq

structure Series where
  name : Bytes
  tags : Tags
  /-- TSM files holding the series, oldest first -/
  files : List FileEnt
  /-- the cache entry: time ↦ value, ascending, one value per time -/
  cache : List (Int × Int)
deriving Repr, DecidableEq

structure Shard where
  id : Nat
  series : List Series
  /-- (measurement, tag key, tag value) entries of the shard's index, including those whose
      series are all gone while the measurement lives on -/
  tagvals : List (Bytes × Bytes × Bytes)
deriving Repr

abbrev State := List Shard

/-! ## writes -/

/-- last write wins per timestamp; ascending -/
def insertPt (p : Int × Int) : List (Int × Int) → List (Int × Int)
  | [] => [p]
  | q :: qs => if p.1 < q.1 then p :: q :: qs else if p.1 = q.1 then p :: qs else q :: insertPt p qs

def addPts (pts new : List (Int × Int)) : List (Int × Int) := new.foldl (fun acc p => insertPt p acc) pts

/-- the values of a file entry that no tombstone covers -/
def FileEnt.visible (f : FileEnt) : List (Int × Int) :=
  if f.gone then [] else f.pts.filter fun p => !f.tombs.any fun r => decide (r.1 ≤ p.1 ∧ p.1 ≤ r.2)

/-- what a read of the series returns: files oldest to newest, then the cache; newer wins -/
def Series.pts (s : Series) : List (Int × Int) :=
  addPts (s.files.foldl (fun acc f => addPts acc f.visible) []) s.cache

/-- the shard's index lists the series while a TSM file still has its key or the cache has values
    (`deleteSeriesRange`'s reconciliation) -/
def Series.listed (s : Series) : Bool := s.files.any (fun f => !f.gone) || !s.cache.isEmpty

def Shard.write (sh : Shard) (name : Bytes) (tags : Tags) (pts : List (Int × Int)) : Shard :=
  if sh.series.any (fun s => s.name = name ∧ s.tags = tags) then
    { sh with series := sh.series.map fun s =>
        if s.name = name ∧ s.tags = tags then { s with cache := addPts s.cache pts } else s }
  else
    { sh with
      series := sh.series ++ [⟨name, tags, [], addPts [] pts⟩],
      tagvals := sh.tagvals ++ (tags.map fun t => (name, t.1, t.2)).filter fun e => !sh.tagvals.contains e }

def write (st : State) (shard : Nat) (name : Bytes) (tags : Tags) (pts : List (Int × Int)) : State :=
  st.map fun sh => if sh.id = shard then sh.write name tags pts else sh

/-- `Engine.WriteSnapshot`: the cache entries become one new TSM file -/
def Shard.snapshot (sh : Shard) : Shard :=
  { sh with series := sh.series.map fun s =>
      if s.cache.isEmpty then s else { s with files := s.files ++ [⟨s.cache, [], false⟩], cache := [] } }

def snapshot (st : State) (shard : Nat) : State :=
  st.map fun sh => if sh.id = shard then sh.snapshot else sh

/-! ## delete -/

/-- `ConjunctionsToExprSlice` -/
def conjuncts : Pred → List Pred
  | .and l r => conjuncts l ++ conjuncts r
  | p => [p]

/-- what `Store.DeleteSeriesWithPredicate` takes for `measurementName` when the HTTP handler
    derived the measurement expression: exactly one `_measurement` comparison among the
    top-level conjuncts, and that one an equality (fix C17-delete-measurement-neq-shortcut:
    before it any operator was taken, so `_measurement != x` deleted only up to `x`). -/
def isMeasRule : Pred → Bool
  | .rule k _ _ => k = DelPred.measurementKey
  | _ => false

def measNameOf (p : Pred) : Option Bytes :=
  match (conjuncts p).filter isMeasRule with
  | [.rule _ false v] => some v
  | _ => none

def Shard.measurements (sh : Shard) : List Bytes := sortDedup (sh.series.map (·.name))

/-- the measurements `DeleteSeriesWithPredicate` visits in one shard -/
def visited (sh : Shard) (mname : Option Bytes) : List Bytes :=
  match mname with
  | none => sh.measurements
  | some nm =>
    if sh.measurements.contains nm then
      -- walks the sorted measurements, deleting in each, and stops after the named one
      sh.measurements.filter fun m => cmpBytes m nm != .gt
    else []

/-- does the compiled predicate select the series (`PredicateSeriesIDIterator`, C16 model)?
    `none` predicate = no filter. -/
def predSelects (pred : Option Pred) (name : Bytes) (tags : Tags) : Bool :=
  match pred with
  | none => true
  | some p => (DelPred.matchSeries p name tags).getD false

/-- the points outside `[min, max]` -/
def cutPts (min max : Int) (pts : List (Int × Int)) : List (Int × Int) :=
  pts.filter fun p => !(decide (min ≤ p.1 ∧ p.1 ≤ max))

/-- insertion into the tombstone list in the order `indirectIndex.DeleteRange` sorts it
    (by Min, then Max) -/
def insertTomb (r : Int × Int) : List (Int × Int) → List (Int × Int)
  | [] => [r]
  | q :: qs => if r.1 < q.1 ∨ (r.1 = q.1 ∧ r.2 ≤ q.2) then r :: q :: qs else q :: insertTomb r qs

/-- the window test of `indirectIndex.DeleteRange`: the sorted tombstones line up without a gap;
    returns the covered window, `none` when there is a gap -/
def tombWindow : List (Int × Int) → Option (Int × Int)
  | [] => none
  | r :: rest =>
    let rec go (prev : Int × Int) (w : Int × Int) : List (Int × Int) → Option (Int × Int)
      | [] => some w
      | t :: ts =>
        if prev.2 ≠ t.1 - 1 ∧ ¬(prev.1 ≤ t.2 ∧ prev.2 ≥ t.1) then none
        else go t (if t.1 < w.1 then t.1 else w.1, if t.2 > w.2 then t.2 else w.2) ts
    go r r rest

/-- what `indirectIndex.DeleteRange` does to one key of one file -/
inductive TombAct where
  | keep                                  -- nothing (key already removed, or range outside the key's times)
  | drop                                  -- the key is removed from the file's index
  | tomb (ts : List (Int × Int))          -- the tombstone list becomes `ts`
deriving Repr, DecidableEq

def FileEnt.tombAct (f : FileEnt) (min max : Int) : TombAct :=
  if f.gone then .keep else
  match f.pts.head?, f.pts.getLast? with
  | some a, some b =>
    if min > b.1 ∨ max < a.1 then .keep                       -- outside the key's time range
    else if min ≤ a.1 ∧ max ≥ b.1 then .drop                  -- covers every value
    else
      let ts := insertTomb (min, max) f.tombs
      match tombWindow ts with
      | some w => if w.1 ≤ a.1 ∧ w.2 ≥ b.1 then .drop else .tomb ts
      | none => .tomb ts
  | _, _ => .keep

/-- `indirectIndex.DeleteRange` on one key of one file -/
def FileEnt.deleteRange (f : FileEnt) (min max : Int) : FileEnt :=
  match f.tombAct min max with
  | .keep => f
  | .drop => { f with gone := true }
  | .tomb ts => { f with tombs := ts }

/-- range delete on one series (`sel` = it is among the series handed to `DeleteSeriesRange`):
    tombstones in every file, values cut from the cache; the series leaves the index iff no
    file has its key any more and the cache has no value for it -/
def Series.cut (s : Series) (min max : Int) : Series :=
  { s with files := s.files.map (·.deleteRange min max), cache := cutPts min max s.cache }

def delSeries (sel : Bool) (min max : Int) (s : Series) : Option Series :=
  if sel then (if (s.cut min max).listed then some (s.cut min max) else none) else some s

def Shard.delete (sh : Shard) (min max : Int) (pred : Option Pred) (mname : Option Bytes) : Shard :=
  let vis := visited sh mname
  let series' := sh.series.filterMap fun s =>
    delSeries (vis.contains s.name && predSelects pred s.name s.tags) min max s
  -- a measurement that lost its last series is dropped from the index with all its tag entries
  { sh with series := series',
            tagvals := sh.tagvals.filter fun e => series'.any fun s => s.name = e.1 }

def delete (st : State) (min max : Int) (pred : Option Pred) (handlerMode : Bool) : State :=
  let mname := if handlerMode then pred.bind measNameOf else none
  st.map fun sh => sh.delete min max pred mname

/-! ## reads -/

def seriesKeyOf (s : Series) : Bytes := DelPred.makeKey s.name s.tags

/-- insertion sort of series by their key -/
def insertByKey (s : Series) : List Series → List Series
  | [] => [s]
  | y :: ys => if cmpBytes (seriesKeyOf s) (seriesKeyOf y) == .gt then y :: insertByKey s ys else s :: y :: ys

def sortByKey (l : List Series) : List Series := l.foldr insertByKey []

def readShard (st : State) (shard : Nat) : Option (List Series) :=
  (st.find? (·.id = shard)).map fun sh => sortByKey sh.series

/-! ## authorizers -/

inductive Auth where
  | nil_ | open_
  | deny (pairs : Tags) (names : List Bytes)
deriving Repr

def Auth.isOpen : Auth → Bool
  | .deny .. => false
  | _ => true

def tagGet (tags : Tags) (k : Bytes) : Option Bytes := (tags.find? (·.1 = k)).map (·.2)

def Auth.allows (a : Auth) (name : Bytes) (tags : Tags) : Bool :=
  match a with
  | .deny pairs names => !names.contains name && !pairs.any fun p => tagGet tags p.1 = some p.2
  | _ => true

/-! ## the index set of the selected shards -/

def liveSeries (shs : List Shard) (m : Bytes) : List Series :=
  shs.flatMap fun sh => sh.series.filter (·.name = m)

def measNames (shs : List Shard) : List Bytes := sortDedup (shs.flatMap fun sh => sh.series.map (·.name))

/-- `measurementAuthorizedSeries(auth, name, nil)` -/
def measAuthorized (a : Auth) (shs : List Shard) (m : Bytes) : Bool :=
  a.isOpen || (liveSeries shs m).any fun s => a.allows s.name s.tags

/-- tag keys / values the index iterators return for a measurement (lingering ones included) -/
def idxTagKeys (shs : List Shard) (m : Bytes) : List Bytes :=
  sortDedup (shs.flatMap fun sh => (sh.tagvals.filter (·.1 = m)).map (·.2.1))
def idxTagValues (shs : List Shard) (m k : Bytes) : List Bytes :=
  sortDedup (shs.flatMap fun sh => (sh.tagvals.filter fun e => e.1 = m ∧ e.2.1 = k).map (·.2.2))

/-! ## MeasurementNames -/

inductive Cond where
  | cmp (key : Bytes) (neq : Bool) (val : Bytes)
  /-- `key =~ /^(?:v1|v2|…)$/` (`neg = false`) or `key !~ …`: a regular expression that matches
      exactly the listed values (Go's `regexp` itself is not modelled) -/
  | re (key : Bytes) (neg : Bool) (vals : List Bytes)
  | and (l r : Cond)
  | or (l r : Cond)
deriving Repr

def nameKey : Bytes := [95, 110, 97, 109, 101]                 -- "_name"

/-- only `_name` comparisons -/
def nameOnly : Cond → Bool
  | .cmp k _ _ => k = nameKey
  | .re k _ _ => k = nameKey
  | .and l r => nameOnly l && nameOnly r
  | .or l r => nameOnly l && nameOnly r

/-- conditions on which measurement-level and per-series evaluation coincide: `_name` comparisons,
    `tag = 'non-empty'`, OR, and AND with a `_name`-only side -/
def condOK : Cond → Bool
  | .cmp k neq v => k = nameKey || (!neq && v ≠ [])
  | .re k neg vals => k = nameKey || (!neg && !vals.contains [])
  | .and l r => condOK l && condOK r && (nameOnly l || nameOnly r)
  | .or l r => condOK l && condOK r

/-- `measurementNamesByNameFilter` (`mtch` = the name comparison: `string(e) == val` or
    `regex.Match(e)`; `neq` = the negated operator) -/
def namesByNameFilter (a : Auth) (shs : List Shard) (neq : Bool) (mtch : Bytes → Bool) : List Bytes :=
  (measNames shs).filter fun m => (mtch m != neq) && measAuthorized a shs m

/-- `measurementNamesByTagFilter` (`mtch` = `valEqual`: equality with the literal, or
    `regex.Match`).  The tag values of the measurement are scanned in sorted order; every matching
    value sets `tagMatch`; with a non-open authorizer the scan goes on until a matching value
    with an authorized live series is found (`if tagMatch && authorized { break }`). -/
def namesByTagFilter (a : Auth) (shs : List Shard) (neq : Bool) (key : Bytes) (mtch : Bytes → Bool) :
    List Bytes :=
  (measNames shs).filter fun m =>
    if !(idxTagKeys shs m).contains key then false else
    let matching := (idxTagValues shs m key).filter mtch
    let tagMatch := !matching.isEmpty
    let authorized0 := a.isOpen ||
      matching.any fun v => (liveSeries shs m).any fun s => tagGet s.tags key = some v && a.allows s.name s.tags
    let authorized := if neq && !tagMatch then measAuthorized a shs m else authorized0
    (tagMatch == !neq) && authorized

/-- `measurementNamesByExpr` -/
def namesByExpr (a : Auth) (shs : List Shard) : Cond → List Bytes
  | .cmp key neq val =>
    if key = nameKey then namesByNameFilter a shs neq (fun m => m = val)
    else namesByTagFilter a shs neq key (fun v => v = val)
  | .re key neg vals =>
    if key = nameKey then namesByNameFilter a shs neg (fun m => vals.contains m)
    else namesByTagFilter a shs neg key (fun v => vals.contains v)
  | .and l r => interSorted (namesByExpr a shs l) (namesByExpr a shs r)
  | .or l r => unionSorted (namesByExpr a shs l) (namesByExpr a shs r)

/-- `IndexSet.MeasurementNamesByExpr` -/
def measurementNames (a : Auth) (shs : List Shard) : Option Cond → List Bytes
  | none => (measNames shs).filter fun m => measAuthorized a shs m
  | some c => namesByExpr a shs c

/-! ## series filter of TagKeys / TagValues (`seriesByExprIterator`, per-series reading) -/

def evalFilter (tags : Tags) : Cond → Bool
  | .cmp key neq val =>
    let v := (tagGet tags key).getD []
    if neq then v ≠ val else v = val
  | .re key neg vals => vals.contains ((tagGet tags key).getD []) != neg
  | .and l r => evalFilter tags l && evalFilter tags r
  | .or l r => evalFilter tags l || evalFilter tags r

/-- `auth != nil && !auth.AuthorizeSeriesRead(...)` of tagValuesByKeyAndExpr -/
def Auth.allowsNonNil (a : Auth) (name : Bytes) (tags : Tags) : Bool := a.allows name tags

/-- values of `key` among the live, authorized series of `m` satisfying the filter -/
def filteredValues (a : Auth) (shs : List Shard) (m : Bytes) (f : Cond) (key : Bytes) : List Bytes :=
  sortDedup (((liveSeries shs m).filter fun s => evalFilter s.tags f && a.allows s.name s.tags).filterMap
    fun s => tagGet s.tags key)

/-- keys selected by the `_tagKey` clause among the index's keys of the measurement -/
def selectedKeys (shs : List Shard) (m : Bytes) (kc : Option (Bool × Bytes)) : List Bytes :=
  match kc with
  | none => idxTagKeys shs m
  | some (neq, val) => (idxTagKeys shs m).filter fun k => if neq then k ≠ val else k = val

/-- the measurements TagKeys / TagValues walk: `MeasurementNamesByExpr(nil, measurementExpr)` -/
def walkNames (shs : List Shard) (nc : Option (Bool × Bytes)) : List Bytes :=
  match nc with
  | none => measNames shs
  | some (neq, val) => namesByNameFilter .nil_ shs neq (fun m => m = val)

/-- `Store.TagKeys` -/
def tagKeys (a : Auth) (shs : List Shard) (nc kc : Option (Bool × Bytes)) (f : Option Cond) :
    List (Bytes × List Bytes) :=
  (walkNames shs nc).filterMap fun m =>
    let keys := selectedKeys shs m kc
    if keys.isEmpty then none else
    match f with
    | none =>
      -- TagKeyHasAuthorizedSeries
      some (m, keys.filter fun k =>
        a.isOpen || (liveSeries shs m).any fun s => (tagGet s.tags k).isSome && a.allows s.name s.tags)
    | some f => some (m, keys.filter fun k => !(filteredValues a shs m f k).isEmpty)

/-- `MeasurementTagKeyValuesByExpr` for one key -/
def keyValues (a : Auth) (shs : List Shard) (m : Bytes) (f : Option Cond) (k : Bytes) : List Bytes :=
  match f with
  | none =>
    if a.isOpen then idxTagValues shs m k
    else (idxTagValues shs m k).filter fun v =>
      (liveSeries shs m).any fun s => tagGet s.tags k = some v && a.allows s.name s.tags
  | some f => filteredValues a shs m f k

/-- `Store.TagValues` (after the "a condition is required" check) -/
def tagValues (a : Auth) (shs : List Shard) (nc kc : Option (Bool × Bytes)) (f : Option Cond) :
    List (Bytes × List (Bytes × Bytes)) :=
  (walkNames shs nc).filterMap fun m =>
    let keys := selectedKeys shs m kc
    let kvs := keys.flatMap fun k => (keyValues a shs m f k).map fun v => (k, v)
    if kvs.isEmpty then none else some (m, kvs)

/-- shards selected by id, in the order given, unknown ids skipped -/
def selectShards (st : State) (ids : List Nat) : List Shard :=
  ids.filterMap fun i => st.find? (·.id = i)

end Influx.Model.StoreDel
