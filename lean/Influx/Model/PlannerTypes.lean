/-
  Model.PlannerTypes — the data the compaction planner sees
  (tsdb/engine/tsm1/file_store.go `ExtFileStat`, compact.go `tsmGeneration`).
  Hand-written; imported by the generated module `Influx.Generated.Planner`.
-/
namespace Influx.Planner

/-- `ExtFileStat`, the fields the planner reads.  `Path` is an opaque key
    (the planner never parses it); `Generation`, `Sequence`, `FirstBlockCount`
    are Go `int`s, `Size` is a `uint32`. -/
structure File where
  path : String
  gen : Int
  seq : Int
  size : Nat
  fbc : Int
  tomb : Bool
deriving Repr, DecidableEq

/-- `tsmGeneration`: `FindGenerations` only ever builds generations with at
    least one file, so `files[0]` (used by `level()`) is the field `first`. -/
structure Gen where
  id : Int
  first : File
  rest : List File
deriving Repr, DecidableEq

def Gen.files (g : Gen) : List File := g.first :: g.rest

end Influx.Planner
