/-
  Model.SeriesFile — tsdb/series_file.go, series_partition.go, series_index.go,
  series_segment.go, written from the code as it is.

  * A series file is 8 partitions; the partition of a key is `xxhash(key) % 8` — a PARAMETER
    here (every key arrives with its partition), the partition of an id is `(id-1) % 8`.
  * A partition owns segment files and an index.  The model keeps ONE segment (`0000`, 4 MB
    pre-allocated with zeros; the harness never writes that much): `file : List Nat` are its
    bytes up to the current data size, everything beyond reads as zero (`byteAt`).
    Segment = header "SSEG\x01" + entries `flag:1 id:8(big endian) [key]`, key = uvarint
    length + body.  `InitForWrite` scans to the first invalid flag.
  * The index: an optional compacted index FILE (header fields + the two on-disk hash maps,
    kept as association lists in insertion order; the robin-hood layout of those maps is
    not modelled — see `ambiguous`) plus the in-memory part rebuilt by `Recover`
    (`keyIDMap`, `idOffsetMap`, `tombstones`).
  * `ambiguous`: set when an index compaction stores two live entries with the same key, the
    same id, or id 0 (only possible after a torn append left garbage).  In that state the
    on-disk probe order matters and the association lists do not determine the answer; the
    driver then prints `*` (not predicted) for that partition.
-/
namespace Influx.SF

abbrev Bytes := List Nat

def partN : Nat := 8
/-- `SeriesSegmentMagic` + version -/
def hdr : Bytes := [83, 83, 69, 71, 1]
def hdrSize : Nat := 5
/-- `SeriesEntryHeaderSize` -/
def entryHdrSize : Nat := 9
def insertFlag : Nat := 1
def tombstoneFlag : Nat := 2
/-- `DefaultSeriesPartitionCompactThreshold` -/
def defaultThreshold : Nat := 131072

/-- a byte of the (memory-mapped, pre-allocated) segment: zero beyond what was written -/
def byteAt (f : Bytes) (i : Nat) : Nat :=
  match f[i]? with
  | some b => b
  | none => 0

/-- `binary.BigEndian.Uint64` at `pos` -/
def be64 (f : Bytes) (pos : Nat) : Nat :=
  (List.range 8).foldl (fun acc i => acc * 256 + byteAt f (pos + i)) 0

/-- `binary.BigEndian.PutUint64` -/
def be64Bytes (v : Nat) : Bytes := (List.range 8).map fun i => (v / 256 ^ (7 - i)) % 256

/-- `binary.Uvarint` on the bytes from `pos` on: value and number of bytes read;
    `none` = overflow (more than 10 bytes), where the code's slice expression would panic. -/
def uvarintGo (f : Bytes) (pos : Nat) : Nat → Nat → Nat → Nat → Option (Nat × Nat)
  | 0, _, _, _ => none
  | fuel + 1, i, x, s =>
    let b := byteAt f (pos + i)
    if b < 128 then
      if i = 9 ∧ b > 1 then none else some (x + b * 2 ^ s, i + 1)
    else uvarintGo f pos fuel (i + 1) (x + (b % 128) * 2 ^ s) (s + 7)

def uvarint (f : Bytes) (pos : Nat) : Option (Nat × Nat) := uvarintGo f pos 10 0 0 0

/-- `ReadSeriesKey(data[pos:])`: the length prefix and that many bytes after it -/
def readKey (f : Bytes) (pos : Nat) : Option Bytes :=
  (uvarint f pos).map fun (sz, n) => (List.range (sz + n)).map fun i => byteAt f (pos + i)

/-- a key as the harness produces it: its uvarint prefix states exactly its length -/
def wfKey (k : Bytes) : Bool := readKey k 0 == some k && k.all (· < 256)

structure Entry where
  flag : Nat
  id : Nat
  /-- the key bytes of an insert entry (with the length prefix); `[]` for a tombstone -/
  key : Bytes
  /-- position of the flag byte = `JoinSeriesOffset(0, pos)` -/
  off : Nat
deriving DecidableEq, Repr

def Entry.size (e : Entry) : Nat := entryHdrSize + e.key.length

/-- `AppendSeriesEntry` -/
def entryBytes (flag id : Nat) (key : Bytes) : Bytes :=
  flag :: be64Bytes id ++ (if flag = insertFlag then key else [])

/-- `ReadSeriesEntry` at `pos`; `none` = invalid flag (end of data) -/
def readEntry (f : Bytes) (pos : Nat) : Option Entry :=
  let flag := byteAt f pos
  if flag = insertFlag then
    match readKey f (pos + entryHdrSize) with
    | none => none
    | some k =>
      -- fixes/C13-torn-entry-empty-key.patch: an insert entry with an empty key is a torn
      -- write (flag set, id possibly incomplete, key never reached the disk): end of data
      if k.length ≤ 1 then none else some ⟨flag, be64 f (pos + 1), k, pos⟩
  else if flag = tombstoneFlag then some ⟨flag, be64 f (pos + 1), [], pos⟩
  else none

/-- the loop of `ForEachEntry` / `InitForWrite` -/
def scan (f : Bytes) : Nat → Nat → List Entry
  | 0, _ => []
  | fuel + 1, pos =>
    match readEntry f pos with
    | none => []
    | some e => e :: scan f fuel (pos + e.size)

/-- all entries of the segment -/
def entries (f : Bytes) : List Entry := scan f (f.length + 1) hdrSize

/-- the data size `InitForWrite` computes: the end of the last valid entry -/
def dataSize (f : Bytes) : Nat :=
  match (entries f).getLast? with
  | some e => e.off + e.size
  | none => hdrSize

/-- the file restricted / zero-extended to `n` bytes -/
def resize (f : Bytes) (n : Nat) : Bytes := (List.range n).map (byteAt f)

/-- `SeriesSegment.MaxSeriesID` -/
def maxSeriesID (es : List Entry) : Nat :=
  es.foldl (fun m e => if e.flag = insertFlag ∧ e.id > m then e.id else m) 0

/-- the compacted index file -/
structure IndexFile where
  maxSeriesID : Nat
  maxOffset : Nat
  count : Nat
  /-- key/id map: (offset of the entry, id), in insertion order; the key is read from the segment -/
  keyID : List (Nat × Nat)
  /-- id/offset map: (id, offset), in insertion order -/
  idOff : List (Nat × Nat)
deriving Repr

structure Part where
  pid : Nat
  /-- durable: segment 0000 -/
  file : Bytes := hdr
  /-- durable: the index file, if a compaction ever wrote one -/
  idxFile : Option IndexFile := none
  /-- volatile from here on -/
  seq : Nat
  maxSeriesID : Nat := 0
  maxOffset : Nat := 0
  /-- `keyIDMap` (rhh): latest first -/
  memKeyID : List (Bytes × Nat) := []
  /-- `idOffsetMap` -/
  memIDOff : List (Nat × Nat) := []
  tomb : List Nat := []
  threshold : Nat := defaultThreshold
  ambiguous : Bool := false
  /-- durable: closed earlier segments `(id, bytes)`, oldest first — only non-empty after a
      segment roll-over; the functions of this file describe the partition while it has the
      single segment 0000 (`older = []`, `segId = 0`), `Model/SeriesFileG.lean` the general case -/
  older : List (Nat × Bytes) := []
  /-- id of the active segment `file` -/
  segId : Nat := 0
deriving Repr

namespace Part

/-- `ReadSeriesKey(segment.Slice(pos + SeriesEntryHeaderSize))` -/
def keyAt (p : Part) (off : Nat) : Option Bytes := readKey p.file (off + entryHdrSize)

/-- `SeriesIndex.FindOffsetByID` -/
def findOffsetByID (p : Part) (id : Nat) : Nat :=
  match p.memIDOff.find? (·.1 = id) with
  | some (_, off) => off
  | none =>
    match p.idxFile with
    | none => 0
    | some d =>
      match d.idOff.find? (·.1 = id) with
      | some (_, off) => off
      | none => 0

/-- `SeriesIndex.IsDeleted` -/
def isDeleted (p : Part) (id : Nat) : Bool := p.tomb.contains id || p.findOffsetByID id == 0

/-- `SeriesIndex.FindIDBySeriesKey` -/
def findID (p : Part) (key : Bytes) : Nat :=
  let disk : Nat :=
    match p.idxFile with
    | none => 0
    | some d =>
      match d.keyID.find? (fun (off, _) => p.keyAt off == some key) with
      | some (_, id) => if p.isDeleted id then 0 else id
      | none => 0
  match p.memKeyID.find? (·.1 = key) with
  | some (_, id) => if id ≠ 0 ∧ !p.isDeleted id then id else disk
  | none => disk

/-- `SeriesIndex.execEntry` -/
def execEntry (p : Part) (e : Entry) : Part :=
  if e.flag = insertFlag then
    { p with
      memKeyID := (e.key, e.id) :: p.memKeyID.filter (·.1 ≠ e.key)
      memIDOff := (e.id, e.off) :: p.memIDOff.filter (·.1 ≠ e.id)
      maxSeriesID := if e.id > p.maxSeriesID then e.id else p.maxSeriesID
      maxOffset := if e.off > p.maxOffset then e.off else p.maxOffset }
  else
    { p with tomb := if p.tomb.contains e.id then p.tomb else e.id :: p.tomb }

/-- `SeriesIndex.Open` + `Recover`: header fields from the index file, then replay of every
    entry behind `maxOffset`. -/
def recover (p : Part) : Part :=
  let p0 : Part :=
    { p with
      maxSeriesID := match p.idxFile with | some d => d.maxSeriesID | none => 0
      maxOffset := match p.idxFile with | some d => d.maxOffset | none => 0
      memKeyID := [], memIDOff := [], tomb := [] }
  ((entries p.file).filter (fun e => e.off > p0.maxOffset)).foldl execEntry p0

/-- `SeriesPartition.Open`: `openSegments` (seq from the highest id in the segment),
    `InitForWrite` (data size), index open + recover. -/
def load (p : Part) (threshold : Nat) : Part :=
  let es := entries p.file
  let m := SF.maxSeriesID es
  let seq0 := p.pid + 1
  let p1 : Part :=
    { p with
      file := resize p.file (dataSize p.file)
      seq := if m ≥ seq0 then m + partN else seq0
      threshold := threshold }
  p1.recover

/-- a fresh partition directory -/
def fresh (pid : Nat) : Part := { pid := pid, seq := pid + 1 }

/-- `writeLogEntry` + `Flush` -/
def append (p : Part) (flag id : Nat) (key : Bytes) : Part × Nat :=
  ({ p with file := p.file ++ entryBytes flag id key }, p.file.length)

/-- has a list a repeated element -/
def hasDup {α} [BEq α] : List α → Bool
  | [] => false
  | x :: xs => xs.contains x || hasDup xs

/-- `SeriesPartitionCompactor.Compact`: rebuild the index file from the segment, swap it in,
    reopen the index and replay what is behind its `maxOffset`. -/
def compact (p : Part) : Part :=
  let es := (entries p.file).takeWhile (fun e => e.off ≤ p.maxOffset)
  let ins := es.filter (·.flag = insertFlag)
  let live := ins.filter fun e => !p.isDeleted e.id
  let idx : IndexFile :=
    { maxSeriesID := match ins.getLast? with | some e => e.id | none => 0
      maxOffset := match ins.getLast? with | some e => e.off | none => 0
      count := live.length
      keyID := live.map fun e => (e.off, e.id)
      idOff := live.map fun e => (e.id, e.off) }
  let amb := hasDup (live.map (·.id)) || hasDup (live.map (·.key)) || live.any (·.id == 0)
  ({ p with idxFile := some idx, ambiguous := p.ambiguous || amb }).recover

/-- one key of `CreateSeriesListIfNotExists`: look it up, else `insert` (id = `seq`, append the
    entry, advance `seq`) and `index.Insert`.
    The code runs two passes over the batch (a lookup pass under the read lock; then, under the
    write lock, lookup again, append, and only after the flush `index.Insert` for all new
    entries, with `newIDs` catching a key repeated within the batch).  Processing the keys one
    after the other with an immediate `index.Insert` gives the same ids and the same final
    state: a new entry only adds bindings for its own key and its own (new) id. -/
def createOne (p : Part) (key : Bytes) : Part × Nat :=
  let id0 := p.findID key
  if id0 ≠ 0 then (p, id0) else
  let id := p.seq
  let (q, off) := p.append insertFlag id key
  -- `seriesKeyByOffset(offset)` reads the key back from the segment: for a well-formed key
  -- (`wfKey`, enforced by the driver) these are exactly the bytes just written
  (({ q with seq := p.seq + partN }).execEntry ⟨insertFlag, id, key, off⟩, id)

/-- the compaction threshold is checked at the end of a partition's batch when something was
    written (`old`: the partition before the batch) -/
def afterCreate (old new : Part) : Part :=
  if new.file.length ≠ old.file.length ∧ new.threshold ≠ 0 ∧ new.memIDOff.length ≥ new.threshold
  then new.compact else new

/-- `DeleteSeriesID` -/
def delete (p : Part) (id : Nat) : Part :=
  if p.isDeleted id then p
  else
    let (q, off) := p.append tombstoneFlag id []
    q.execEntry ⟨tombstoneFlag, id, [], off⟩

/-- `SeriesPartition.SeriesKey` -/
def seriesKey (p : Part) (id : Nat) : Option Bytes :=
  if id = 0 then none else
  let off := p.findOffsetByID id
  if off = 0 then none else p.keyAt off

/-- `SeriesSegment.CompactToPath` + removal of the index file, as `build-tsi
    --compact-series-file` does; `none` = the tool reports "tombstone entry but exists in index". -/
def segCompact (p : Part) : Option Part :=
  let es := entries p.file
  if es.any (fun e => !p.isDeleted e.id && e.flag == tombstoneFlag) then none else
  let keep := es.filter fun e => !p.isDeleted e.id
  some { p with
    file := hdr ++ keep.flatMap fun e => entryBytes e.flag e.id e.key
    idxFile := none }

end Part

/-- zero the bytes `[from, to)` -/
def tear (f : Bytes) (from_ to : Nat) : Bytes :=
  f.zipIdx.map fun (b, i) => if from_ ≤ i ∧ i < to then 0 else b

structure SFile where
  parts : List Part := (List.range partN).map Part.fresh
  /-- `CompactThreshold` the harness applies after every open (`none` = default) -/
  threshold : Option Nat := none
  /-- keys seen so far (with their partition), in order of first appearance -/
  seen : List (Bytes × Nat) := []
  /-- ids ever returned, in order of first appearance -/
  issued : List Nat := []
deriving Repr

namespace SFile

def thr (s : SFile) : Nat := match s.threshold with | some n => n | none => defaultThreshold

/-- `SeriesIDPartitionID`: `(id - 1) % 8` in uint64 -/
def idPart (id : Nat) : Nat := if id = 0 then 7 else (id - 1) % partN

def modPart (s : SFile) (i : Nat) (f : Part → Part) : SFile :=
  match s.parts[i]? with
  | some p => { s with parts := s.parts.set i (f p) }
  | none => s

def see (s : SFile) (ks : List (Bytes × Nat)) : SFile :=
  { s with seen := ks.foldl (fun acc k => if acc.any (·.1 == k.1) then acc else acc ++ [k]) s.seen }

def issue (s : SFile) (ids : List Nat) : SFile :=
  { s with issued := ids.foldl (fun acc id => if id = 0 ∨ acc.contains id then acc else acc ++ [id]) s.issued }

/-- the keys of a batch, one after the other, each in its partition (the partitions work
    concurrently in the code, but share nothing) -/
def createKeys : List Part → List (Bytes × Nat) → List Part × List Nat
  | ps, [] => (ps, [])
  | ps, k :: ks =>
    match ps[k.2]? with
    | none => let (r, ids) := createKeys ps ks; (r, 0 :: ids)
    | some p =>
      let (q, id) := p.createOne k.1
      let (r, ids) := createKeys (ps.set k.2 q) ks
      (r, id :: ids)

/-- `SeriesFile.CreateSeriesListIfNotExists` without bookkeeping -/
def createRaw (s : SFile) (keys : List (Bytes × Nat)) : SFile × List Nat :=
  let (ps, ids) := createKeys s.parts keys
  ({ s with parts := List.zipWith Part.afterCreate s.parts ps }, ids)

def create (s : SFile) (keys : List (Bytes × Nat)) : SFile × List Nat :=
  let (s', ids) := s.createRaw keys
  ((s'.see keys).issue ids, ids)

def findID (s : SFile) (k : Bytes × Nat) : Nat :=
  match s.parts[k.2]? with
  | some p => p.findID k.1
  | none => 0

def delete (s : SFile) (id : Nat) : SFile := s.modPart (idPart id) (·.delete id)

def seriesKey (s : SFile) (id : Nat) : Option Bytes :=
  if id = 0 then none else
  match s.parts[idPart id]? with
  | some p => p.seriesKey id
  | none => none

/-- `Close` + `Open` -/
def reopen (s : SFile) : SFile := { s with parts := s.parts.map (·.load s.thr) }

def setThreshold (s : SFile) (n : Nat) : SFile :=
  { s with threshold := some n, parts := s.parts.map fun p => { p with threshold := n } }

def compact (s : SFile) (i : Nat) : SFile := s.modPart i (·.compact)

/-- the offline segment compaction of every partition, then open -/
def segCompact (s : SFile) : Option SFile :=
  -- the tool opens each partition on its own first
  let opened := s.parts.map (·.load defaultThreshold)
  (opened.mapM Part.segCompact).map fun ps => ({ s with parts := ps }).reopen

/-- crash during the creation of `k`: the bytes of the append from `cut` on are lost -/
def torn (s : SFile) (k : Bytes × Nat) (cut : Nat) : SFile × Nat :=
  match s.parts[k.2]? with
  | none => (s, 0)
  | some p =>
    let size0 := p.file.length
    -- the harness sets CompactThreshold = 0 for this create: no index compaction
    let (q, _) := p.createOne k.1
    let q := { q with file := tear q.file (size0 + cut) q.file.length }
    let s' := ({ s with parts := s.parts.set k.2 q }).reopen
    let id := s'.findID k
    ((s'.see [k]).issue [id], id)

/-- crash during `DeleteSeriesID(id)` -/
def tornDel (s : SFile) (id cut : Nat) : SFile :=
  let i := idPart id
  match s.parts[i]? with
  | none => s
  | some p =>
    let size0 := p.file.length
    let q := p.delete id
    let q := { q with file := tear q.file (size0 + cut) q.file.length }
    ({ s with parts := s.parts.set i q }).reopen

def isDeleted (s : SFile) (id : Nat) : Bool :=
  match s.parts[idPart id]? with
  | some p => p.isDeleted id
  | none => false

end SFile

end Influx.SF
