/-
  Model.Creds — passwords, tokens, sessions and the authentication decision as the code
  makes it:

    tenant/service_user.go         SetPassword / ComparePassword / CompareAndSetPassword / IsPasswordStrong
    tenant/storage_user.go         password bucket (deleted with the user), CreateUser / UpdateUser / DeleteUser
    authorization/service.go       CreateAuthorization / UpdateAuthorization / DeleteAuthorization /
                                   FindAuthorizationByToken (raw or hashed token index)
    session/service.go, storage.go CreateSession / FindSession / ExpireSession / RenewSession
    http/tokens.go                 GetToken (schemes `Token ` and `Bearer `, case-insensitive)
    http/authentication_middleware.go  ProbeAuthScheme / ServeHTTP / extractAuthorization / extractSession /
                                   isUserActive
    auth.go, session.go            Authorization.PermissionSet (inactive: error), Session.PermissionSet (expired: error)

  bcrypt is not modelled byte-wise: a stored hash is represented by the password it was made of
  and verification is bcrypt's documented behaviour — only the first 72 bytes of the candidate
  take part (SetPassword never stores more than 72 bytes).  The token hashes of
  pkg/crypt/algorithm/influxdb2 enter as "equal tokens ⇔ equal hashes" (SHA-2 collision-free).
-/
import Influx.Model.Tenant
import Influx.Model.CredsTypes

namespace Influx.Creds
open Influx.Tenant (KV.get KV.put KV.del KV.has)

/-- an API token record: token, active?, user -/
abbrev TokRec := String × Bool × Nat

structure State where
  strong : Bool := false                         -- WithPasswordChecking
  cfgB : Bool := false                           -- session store without TTL + SessionRenewDisabled
  names : List (Nat × String) := []              -- usersv1: id ↦ name
  active : List (Nat × Bool) := []               -- usersv1: id ↦ status == active
  pw : List (Nat × String) := []                 -- userspasswordv1: id ↦ (the password the stored hash was made of)
  toks : List (Nat × TokRec) := []               -- authorizationsv1
  sess : List (String × (Nat × Bool)) := []      -- session index: key ↦ (user, ExpiresAt in the past)
  handles : List (String × Nat) := []            -- harness: session objects kept from CreateSession: key ↦ user
  nextUser : Nat := 2001
  nextTok : Nat := 5001
  nextKey : Nat := 1
deriving Repr

def init : State := {}

/-! ### passwords -/

def maxPasswordLen : Nat := 72
def minPasswordLen : Nat := 8

def isSpecial (c : Char) : Bool := "!@#$%^&*()_+".toList.contains c

/-- number of character classes (digit, upper, lower, special) present -/
def classes (cs : List Char) : Nat :=
  (if cs.any Char.isDigit then 1 else 0) + (if cs.any Char.isUpper then 1 else 0) +
  (if cs.any Char.isLower then 1 else 0) + (if cs.any isSpecial then 1 else 0)

/-- `IsPasswordStrong`: `none` is the division by zero on the empty password when checking is on -/
def strength (strong : Bool) (p : String) : Option (Bool × Bool) :=
  let lenBad := p.length < minPasswordLen || p.length > maxPasswordLen
  if strong then
    if p.length = 0 then none
    else some (lenBad, classes (p.toList.take maxPasswordLen) < 3)
  else some (lenBad, false)

/-- bcrypt.CompareHashAndPassword against the hash of `stored` (at most 72 bytes) -/
def verify (stored candidate : String) : Bool :=
  String.ofList (candidate.toList.take maxPasswordLen) = stored

/-- `comparePasswordNoStrengthCheck` -/
def compareNoStrength (s : State) (uid : Nat) (p : String) : PwRes :=
  if uid = 0 || !KV.has s.active uid then { baduser := true }
  else match KV.get s.pw uid with
    | none => { badpw := true }
    | some h => if verify h p then { ok := true } else { badpw := true }

/-- `SetPassword` -/
def setPassword (s : State) (uid : Nat) (p : String) : State × Ans :=
  match strength s.strong p with
  | none => (s, .panic)
  | some (lenBad, charsBad) =>
    if lenBad || charsBad then (s, .pw { len := lenBad, chars := charsBad })
    else if uid = 0 || !KV.has s.active uid then (s, .pw { baduser := true })
    else ({ s with pw := KV.put s.pw uid p }, .pw { ok := true })

/-- `ComparePassword`: a matching but weak password demands a change -/
def comparePassword (s : State) (uid : Nat) (p : String) : Ans :=
  let r := compareNoStrength s uid p
  match strength s.strong p with
  | none => .panic
  | some (lenBad, charsBad) =>
    if r.ok && (lenBad || charsBad) then .pw { change := true, len := lenBad, chars := charsBad }
    else .pw r

/-- `CompareAndSetPassword` -/
def compareAndSet (s : State) (uid : Nat) (old new : String) : State × Ans :=
  let r := compareNoStrength s uid old
  if r.ok then setPassword s uid new else (s, .pw r)

/-! ### users -/

def createUser (s : State) (name : String) : State × Ans :=
  let id := s.nextUser
  let s := { s with nextUser := id + 1 }
  if id = 0 then (s, .err .inv)
  else if s.names.any (fun e => e.2 = name) then (s, .err .cf)
  else if KV.has s.names id then (s, .err .cf)
  else ({ s with names := KV.put s.names id name, active := KV.put s.active id true }, .okId id)

def setUserStatus (s : State) (uid : Nat) (a : Bool) : State × Ans :=
  if uid = 0 then (s, .err .inv)
  else if !KV.has s.active uid then (s, .err .nf)
  else ({ s with active := KV.put s.active uid a }, .ok)

def deleteUser (s : State) (uid : Nat) : State × Ans :=
  if uid = 0 then (s, .err .inv)
  else if !KV.has s.active uid then (s, .err .nf)
  else ({ s with names := KV.del s.names uid, active := KV.del s.active uid, pw := KV.del s.pw uid }, .ok)

/-! ### tokens -/

def findTok (s : State) (t : String) : Option (Nat × TokRec) := s.toks.find? fun e => e.2.1 = t

def createTok (s : State) (uid : Nat) (t : String) (a : Bool) : State × Ans :=
  if uid = 0 || !KV.has s.active uid then (s, .err .inv)
  else if (findTok s t).isSome then (s, .err .cf)
  else
    let id := s.nextTok
    ({ s with nextTok := id + 1, toks := KV.put s.toks id (t, a, uid) }, .okId id)

def updateTok (s : State) (id : Nat) (a : Bool) : State × Ans :=
  match KV.get s.toks id with
  | none => (s, .err .nf)
  | some r => if id = 0 then (s, .err .nf) else ({ s with toks := KV.put s.toks id (r.1, a, r.2.2) }, .ok)

def deleteTok (s : State) (id : Nat) : State × Ans :=
  if id = 0 then (s, .err .inv)
  else match KV.get s.toks id with
    | none => (s, .err .nf)
    | some _ => ({ s with toks := KV.del s.toks id }, .ok)

/-! ### sessions -/

def createSession (s : State) (name : String) (long : Bool) : State × Ans :=
  match s.names.find? (fun e => e.2 = name) with
  | none => (s, .err .nf)
  | some (uid, _) =>
    let key := "s" ++ toString s.nextKey
    let s := { s with nextKey := s.nextKey + 1, handles := KV.put s.handles key uid }
    -- inmem.SessionStore drops an entry whose expiry is already in the past
    if long || s.cfgB then ({ s with sess := KV.put s.sess key (uid, !long) }, .okKey key uid)
    else (s, .okKey key uid)

def expireSession (s : State) (key : String) : State × Ans :=
  match KV.get s.sess key with
  | none => (s, .err .nf)
  | some _ => ({ s with sess := KV.del s.sess key }, .ok)

/-- session/service.go `RenewSession` → storage.go `RefreshSession` with a session object obtained
    earlier: the record is RE-READ by id; a session that ended in the meantime (ExpireSession, store TTL)
    is "not found" and nothing is written. Otherwise the expiry is extended when the new one is later
    (the record and its key index are re-created from the stored record). -/
def renewSession (s : State) (key : String) (far : Bool) : State × Ans :=
  if s.cfgB then (s, .err .unsupported)
  else match KV.get s.handles key with
    | none => (s, .err .nohandle)
    | some _ =>
      match KV.get s.sess key with
      | none => (s, .err .nf)
      | some (u, expired) =>
        -- 1 h sessions: only `far` extends; a record whose expiry lies in the past is extended by both
        if far || expired then ({ s with sess := KV.put s.sess key (u, false) }, .ok) else (s, .ok)

/-! ### the request -/

def lower (cs : List Char) : List Char := cs.map Char.toLower

/-- http/tokens.go `GetToken` -/
def getToken (hdr : Option String) : Option String :=
  match hdr with
  | none => none
  | some h =>
    let cs := h.toList
    if cs.isEmpty then none
    else if cs.length ≥ 6 && lower (cs.take 6) = "token ".toList then some (String.ofList (cs.drop 6))
    else if cs.length > 7 && lower (cs.take 7) = "bearer ".toList then some (String.ofList (cs.drop 7))
    else none

/-- what `extractAuthorization` / `extractSession` put on the context: user id and whether
    `PermissionSet()` will succeed (token active / session not expired) -/
def authorizerOf (s : State) (hdr cookie : Option String) : Option (Nat × Bool) :=
  match getToken hdr with
  | some t => (findTok s t).map fun e => (e.2.2.2, e.2.2.1)
  | none => match cookie with
    | none => none
    | some k => (KV.get s.sess k).map fun e => (e.1, !e.2)

/-- `AuthenticationHandler.ServeHTTP` -/
def serve (s : State) (hdr cookie : Option String) : Ans :=
  match authorizerOf s hdr cookie with
  | none => .http 401 false none 0
  | some (uid, psetOK) =>
    if uid ≠ 0 && KV.get s.active uid ≠ some true then .http 403 false none 0
    else .http 200 true (some psetOK) uid

/-! ### the influxdb2 digest format (pkg/crypt/algorithm/influxdb2 + go-crypt's Decoder) -/

def Variant.other : Variant → Variant
  | .sha256 => .sha512
  | .sha512 => .sha256

/-- `Hasher.Hash(pw).Encode()` = `$<identifier>$<base64url(SHA(pw))>`, damaged by `m`, then
    `crypt.Decoder.Decode` (leading delimiter, three sections, registered identifier), the variant's
    `decoderParts` / `decode` (base64 key, not empty) and `Digest.MatchAdvanced`.
    SHA-2 enters as: equal digests of one variant ⇔ equal inputs; digests of different variants
    differ (32 vs 64 bytes). -/
def phcMatch (decoders : List Variant) (v : Variant) (m : Mangle) (pw q : String) : PhcRes :=
  match m with
  | .noLead | .lead | .cut => .err .fmt
  | .unknownId => .err .ident
  | .swap => if decoders.contains v.other then .matched false else .err .ident
  | .emptyKey | .extra => if decoders.contains v then .err .key else .err .ident
  | .none => if decoders.contains v then .matched (q = pw) else .err .ident

def step (s : State) : Op → State × Ans
  | .cfg strong _ cfgB => ({ strong := strong, cfgB := cfgB }, .ok)
  | .strong b => ({ s with strong := b }, .ok)
  | .cu n => createUser s n
  | .us u a => setUserStatus s u a
  | .du u => deleteUser s u
  | .sp u p => setPassword s u p
  | .cp u p => (s, comparePassword s u p)
  | .cas u o n => compareAndSet s u o n
  | .ct u t a => createTok s u t a
  | .ut i a => updateTok s i a
  | .dt i => deleteTok s i
  | .cs n l => createSession s n l
  | .xs k => expireSession s k
  | .renew k far => renewSession s k far
  | .req h c => (s, serve s h c)
  | .phc ds v m p q => (s, .phc (phcMatch ds v m p q))

def run : State → List Op → List (Op × Ans)
  | _, [] => []
  | s, op :: ops => let r := step s op; (op, r.2) :: run r.1 ops

end Influx.Creds
