/-
  Influx.Model.Window — nanosecond (non-calendar) windows of
  `github.com/influxdata/flux/interval` as used by storage/reads and storage/flux.

  Go sources:
    flux/interval/window.go   NewWindow (UTC, no location), GetLatestBounds, NextBounds,
                              PrevBounds, lastIndex
    flux/interval/bounds.go   Bounds{start, stop, index}
    flux/values/time.go       Time.Add / Duration.Mul for month-free durations
                              (`start = zero + every*index`, `stop = start + period`)

  Restrictions (stated, not hidden): month components are 0 (calendar windows are
  excluded), the location is UTC (`zero = offset`), `every > 0` (NewWindow rejects
  `every ≤ 0`), `period ≥ 0` (a negative period enters a search loop in
  GetLatestBounds that is not modelled; storage/reads always passes
  `period = every`).  Times are unbounded `Int`: the model describes the Go code
  as long as `zero + every*(index+1)` stays inside int64 (no wrap-around).
-/
namespace Influx.Window

abbrev Time := Int

/-- `interval.Window` for nanosecond durations in UTC: `zero = epoch + offset`. -/
structure Window where
  every : Int
  period : Int
  offset : Int
deriving Repr, DecidableEq

/-- `interval.Bounds`. -/
structure Bounds where
  start : Int
  stop : Int
  index : Int
deriving Repr, DecidableEq

/-- `NewWindow(...).isValid()` restricted to month-free durations; the sign of a
    `values.Duration` is a separate flag, so `every < 0` stands for `negative = true`. -/
def Window.valid (w : Window) : Bool := decide (0 < w.every)

/-- `lastIndex(zero, target, every)`: Go's truncating `/` and `%`, then the
    adjustment for negative deltas that are not on a boundary. -/
def lastIndex (zero target every : Int) : Int :=
  let delta := target - zero
  let index := Int.tdiv delta every
  if delta < 0 ∧ Int.tmod delta every ≠ 0 then index - 1 else index

/-- bounds of the window with the given index (`w.zero.Add(w.every.Mul(index))`, `start.Add(w.period)`). -/
def Window.at (w : Window) (index : Int) : Bounds :=
  let start := w.offset + w.every * index
  { start := start, stop := start + w.period, index := index }

/-- `Window.GetLatestBounds(t)` for `period ≥ 0`, no location. -/
def Window.getLatestBounds (w : Window) (t : Int) : Bounds :=
  w.at (lastIndex w.offset t w.every)

/-- `Window.NextBounds(b)` / `PrevBounds(b)` (only the index of `b` is used). -/
def Window.nextBounds (w : Window) (b : Bounds) : Bounds := w.at (b.index + 1)
def Window.prevBounds (w : Window) (b : Bounds) : Bounds := w.at (b.index - 1)

/-- `k` applications of NextBounds (`k ≥ 0`) or PrevBounds (`k < 0`). -/
def Window.shift (w : Window) (b : Bounds) (k : Int) : Bounds := w.at (b.index + k)

/-! ### facts -/

/-- `lastIndex` is floor division. -/
theorem lastIndex_eq_fdiv (zero target every : Int) (h : 0 < every) :
    lastIndex zero target every = (target - zero) / every := by
  unfold lastIndex
  simp only
  generalize target - zero = d
  have hne : every ≠ 0 := by omega
  by_cases hd : d < 0
  · by_cases hm : Int.tmod d every = 0
    · simp only [hm, ne_eq, not_true_eq_false, and_false, ↓reduceIte]
      have hdvd : every ∣ d := Int.dvd_of_tmod_eq_zero hm
      obtain ⟨k, rfl⟩ := hdvd
      rw [Int.mul_tdiv_cancel_left _ hne, Int.mul_ediv_cancel_left _ hne]
    · simp only [hd, ne_eq, hm, not_false_eq_true, and_self, ↓reduceIte]
      -- d = every * tdiv + tmod, tmod in (-every, 0)
      have h1 := Int.tmod_add_mul_tdiv d every
      have h2 : Int.tmod d every < 0 := by
        have := Int.tmod_nonneg (a := -d) every (by omega)
        rw [Int.neg_tmod] at this
        omega
      have h3 : -every < Int.tmod d every := by
        have := Int.tmod_lt_of_pos (-d) h
        rw [Int.neg_tmod] at this
        omega
      generalize Int.tmod d every = r at *
      generalize Int.tdiv d every = q at *
      -- d = r + every*q = every*(q-1) + (r+every), 0 < r+every < every
      have : d / every = q - 1 := by
        have hd' : d = (r + every) + every * (q - 1) := by
          rw [← h1, Int.mul_sub]; omega
        rw [hd', Int.add_mul_ediv_left _ _ hne, Int.ediv_eq_zero_of_lt (by omega) (by omega)]
        omega
      omega
  · have hd0 : 0 ≤ d := by omega
    simp only [hd, false_and, ↓reduceIte]
    exact Int.tdiv_eq_ediv_of_nonneg hd0

/-- The latest window starts at or before `t`, and the next one after `t`. -/
theorem getLatestBounds_start_le (w : Window) (t : Int) (h : 0 < w.every) :
    (w.getLatestBounds t).start ≤ t ∧ t < (w.getLatestBounds t).start + w.every := by
  unfold Window.getLatestBounds Window.at
  simp only
  rw [lastIndex_eq_fdiv _ _ _ h]
  have h1 := Int.mul_ediv_add_emod (t - w.offset) w.every
  have h2 := Int.emod_nonneg (t - w.offset) (by omega : w.every ≠ 0)
  have h3 := Int.emod_lt_of_pos (t - w.offset) h
  constructor <;> omega

/-- For tumbling windows (`period = every`) `t` lies inside its latest window. -/
theorem getLatestBounds_contains (w : Window) (t : Int) (h : 0 < w.every) (hp : w.period = w.every) :
    (w.getLatestBounds t).start ≤ t ∧ t < (w.getLatestBounds t).stop := by
  have := getLatestBounds_start_le w t h
  have hs : (w.getLatestBounds t).stop = (w.getLatestBounds t).start + w.every := by
    simp [Window.getLatestBounds, Window.at, hp]
  omega

/-- the index is monotone in `t`. -/
theorem lastIndex_mono (zero every : Int) (h : 0 < every) {t1 t2 : Int} (ht : t1 ≤ t2) :
    lastIndex zero t1 every ≤ lastIndex zero t2 every := by
  rw [lastIndex_eq_fdiv _ _ _ h, lastIndex_eq_fdiv _ _ _ h]
  exact Int.ediv_le_ediv h (by omega)

/-- Key fact used by the window cursors: for tumbling windows and `t1 ≤ t2`,
    `t2` is before the stop of `t1`'s window iff both have the same window (same stop). -/
theorem stop_eq_iff (w : Window) (h : 0 < w.every) (hp : w.period = w.every) {t1 t2 : Int} (ht : t1 ≤ t2) :
    t2 < (w.getLatestBounds t1).stop ↔ (w.getLatestBounds t2).stop = (w.getLatestBounds t1).stop := by
  have c1 := getLatestBounds_contains w t1 h hp
  have c2 := getLatestBounds_contains w t2 h hp
  have hm := lastIndex_mono w.offset w.every h ht
  simp only [Window.getLatestBounds, Window.at, hp] at *
  generalize lastIndex w.offset t1 w.every = i1 at *
  generalize lastIndex w.offset t2 w.every = i2 at *
  constructor
  · intro hlt
    -- offset + every*i2 ≤ t2 < offset + every*i1 + every ⇒ i2 < i1 + 1
    have : i2 < i1 + 1 := by
      apply Int.lt_of_not_ge
      intro hge
      have := Int.mul_le_mul_of_nonneg_left hge (Int.le_of_lt h)
      rw [Int.mul_add] at this
      omega
    have : i2 = i1 := by omega
    subst this; rfl
  · intro heq
    have : w.every * i2 = w.every * i1 := by omega
    have : i2 = i1 := Int.eq_of_mul_eq_mul_left (by omega) this
    subst this
    omega

end Influx.Window
