/-
  Influx.Model.LineProtocolPoint — the `point` accessors (`Name`, `Tags`, the
  field iterator, `Fields`) and the rendering side (`NewPoint`, `Fields.MarshalBinary`,
  `String` / `PrecisionString`) of /repo/models/points.go.
-/
import Influx.Model.LineProtocolParse

namespace Influx.LP
open Influx.Generated.LineProto

/-! ### accessors of a parsed point -/

/-- `point.Name()`: `escape.Unescape(scanTo(key, 0, ','))` -/
def pointName (key : Bytes) : Bytes := unescape (scanTo cComma false key).1

/-- `point.Tags()`: `parseTags(key, nil)`; `none` = panic -/
def pointTags (key : Bytes) : Option (List Tag) := parseTags key

inductive FType | integer | float | boolean | string | empty | unsigned
deriving DecidableEq, Repr

structure RawField where
  key : Bytes          -- `FieldKey()` (unescaped)
  typ : FType
  valueBuf : Bytes     -- `it.valueBuf` (type suffix removed for integer/unsigned)
deriving DecidableEq, Repr

/-- the type switch of `point.Next()` -/
def classifyValue (vb : Bytes) : FType × Bytes :=
  match vb with
  | [] => (.empty, [])
  | c :: _ =>
    if c = cQuote then (.string, vb)
    else if (str "0123456789-.nNiIu").contains c then
      if vb.getLast? = some 105 then (.integer, vb.dropLast)
      else if vb.getLast? = some 117 then (.unsigned, vb.dropLast)
      else (.float, vb)
    else (.boolean, vb)

/-- the field iterator run to the end (`Next()` until false); fuel = len(fields)+1 -/
def iterFields : Nat → Bytes → List RawField
  | 0, _ => []
  | _, [] => []
  | fuel + 1, b :: r =>
    let s1 := scanTo cEq false (b :: r)
    let s2 := scanFieldValue false false (s1.2.drop 1)
    ⟨if isEscaped s1.1 then unescape s1.1 else s1.1, (classifyValue s2.1).1, (classifyValue s2.1).2⟩ ::
      iterFields fuel (s2.2.drop 1)

/-- a typed field value; a float is its text (value conversion is `strconv`'s) -/
inductive PVal
  | float (text : Bytes) | int (v : Int) | uint (v : Nat) | bool (b : Bool) | str (s : Bytes)
deriving DecidableEq, Repr

inductive ValErr | err | panic
deriving DecidableEq, Repr

/-- `IntegerValue` / `UnsignedValue` / `FloatValue` / `BooleanValue` / `StringValue`;
    `none` for the `Empty` type -/
def fieldValue (f : RawField) : Option (Except ValErr PVal) :=
  match f.typ with
  | .empty => none
  | .integer => some (match parseIntGo f.valueBuf with | .ok v => .ok (.int v) | .error _ => .error .err)
  | .unsigned => some (match parseUintGo f.valueBuf with | .ok v => .ok (.uint v) | .error _ => .error .err)
  | .float => some (if parseFloatOk f.valueBuf then .ok (.float f.valueBuf) else .error .err)
  | .boolean => some (match parseBoolGo f.valueBuf with | some b => .ok (.bool b) | none => .error .err)
  | .string =>
    -- `valueBuf[1 : len-1]`
    some (if f.valueBuf.length < 2 then .error .panic
          else .ok (.str (unescapeStringField ((f.valueBuf.drop 1).dropLast))))

/-- insert into a list of pairs kept sorted by key; an equal key is overwritten (Go map) -/
def mapInsert (k : Bytes) (v : β) : List (Bytes × β) → List (Bytes × β)
  | [] => [(k, v)]
  | (k', v') :: rest =>
    match cmpBytes k k' with
    | .lt => (k, v) :: (k', v') :: rest
    | .eq => (k, v) :: rest
    | .gt => (k', v') :: mapInsert k v rest

/-- `point.Fields()` (`unmarshalBinary`) as an association list sorted by key -/
def pointFieldsAux : List RawField → List (Bytes × PVal) → Except ValErr (List (Bytes × PVal))
  | [], acc => .ok acc
  | f :: rest, acc =>
    if f.key.isEmpty then pointFieldsAux rest acc
    else match fieldValue f with
      | none => pointFieldsAux rest acc
      | some (.error e) => .error e
      | some (.ok v) => pointFieldsAux rest (mapInsert f.key v acc)

def pointFields (fields : Bytes) : Except ValErr (List (Bytes × PVal)) :=
  pointFieldsAux (iterFields (fields.length + 1) fields) []

/-! ### NewPoint and rendering -/

/-- a field value handed to `NewPoint`; a float carries Go's rendering
    `strconv.FormatFloat(v,'f',-1,64)` of it (external function) -/
inductive FV
  | float (bits : Nat) (text : Bytes) | int (v : Int) | uint (v : Nat) | bool (b : Bool) | str (s : Bytes)
deriving DecidableEq, Repr

structure PointIn where
  name : Bytes
  tags : List Tag
  fields : List (Bytes × FV)       -- distinct keys (a Go map)
  time : Option Int                -- `none` = the zero time.Time
deriving DecidableEq, Repr

/-- NaN or ±Inf -/
def floatNotFinite (bits : Nat) : Bool := (bits / 2 ^ 52) % 2048 == 2047

inductive Rej | nofields | time | field | maxkey
deriving DecidableEq, Repr

def fvText : FV → Bytes
  | .float _ text => text
  | .int v => intDigits v ++ [105]
  | .uint v => natDigits v ++ [117]
  | .bool b => if b then str "true" else str "false"
  | .str s => cQuote :: escapeStringField s ++ [cQuote]

/-- `appendField` -/
def appendField (k : Bytes) (v : FV) : Bytes := escapeString k ++ cEq :: fvText v

def insertByKey (x : Bytes × FV) : List (Bytes × FV) → List (Bytes × FV)
  | [] => [x]
  | y :: ys => if cmpBytes x.1 y.1 == .gt then y :: insertByKey x ys else x :: y :: ys

/-- `sort.Strings(keys)` on distinct keys -/
def sortFields (fs : List (Bytes × FV)) : List (Bytes × FV) := fs.foldr insertByKey []

def joinCommaB : List Bytes → Bytes
  | [] => []
  | [a] => a
  | a :: b :: rest => a ++ cComma :: joinCommaB (b :: rest)

/-- `Fields.MarshalBinary` -/
def marshalFields (fs : List (Bytes × FV)) : Bytes :=
  joinCommaB ((sortFields fs).map fun f => appendField f.1 f.2)

/-- `!t.IsZero() && CheckTime(t) != nil` -/
def timeRejected : Option Int → Bool
  | some t => decide (t < MinNanoTime ∨ t > MaxNanoTime)
  | none => false

/-- the per-field checks of `pointKey`: empty name, NaN, ±Inf -/
def fieldRejected (f : Bytes × FV) : Bool :=
  f.1.isEmpty || (match f.2 with | .float b _ => floatNotFinite b | _ => false)

/-- `NewPoint` (`pointKey`): the key and the field text -/
def newPoint (p : PointIn) : Except Rej (Bytes × Bytes) :=
  if p.fields.isEmpty then .error .nofields
  else if timeRejected p.time then .error .time
  else if p.fields.any fieldRejected then .error .field
  else
    let key := makeKey p.name p.tags
    if p.fields.any (fun f => key.length + 4 + f.1.length > MaxKeyLength) then .error .maxkey
    else .ok (key, marshalFields p.fields)

/-- `String()` (prec = "ns") / `PrecisionString(prec)` -/
def renderLine (key fields : Bytes) (time : Option Int) (prec : String) : Bytes :=
  key ++ cSpace :: fields ++
    (match time with
     | none => []
     | some t => cSpace :: intDigits (Int.tdiv t (precisionMultiplier prec)))

end Influx.LP
