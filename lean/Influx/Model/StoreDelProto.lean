/-
  Influx.Model.StoreDelProto — ops of the C17 / C42 cases, their parsing, the model's step
  and the rendering of answers (shared by Drv.C17 and Drv.C42).
-/
import Influx.Proto
import Influx.Model.StoreDel

namespace Influx.Model.StoreDel
open Influx.Proto
open Influx.Model.DelPred (Bytes Pred)

inductive Op where
  | open_ (n : Nat)
  | write (shard : Nat) (name : Bytes) (tags : Tags) (pts : List (Int × Int))
  | snap (shard : Nat)
  | del (min max : Int) (pred : Option Pred) (handlerMode : Bool)
  | read (shard : Nat)
  | ls (shard : Nat)
  | mn (a : Auth) (c : Option Cond)
  | tk (a : Auth) (shards : List Nat) (nc kc : Option (Bool × Bytes)) (f : Option Cond)
  | tv (a : Auth) (shards : List Nat) (nc kc : Option (Bool × Bytes)) (f : Option Cond)
deriving Repr

/-! ### parsing -/

def parseRule (it : String) : Option (Bytes × Bool × Bytes) :=
  match it.splitOn ":" with
  | [op, k, v] =>
    match (if op = "E" then some false else if op = "N" then some true else none), hexDecode k, hexDecode v with
    | some neq, some kb, some vb => some (kb, neq, vb)
    | _, _, _ => none
  | _ => none

def parsePredItems : Nat → List String → Option (Pred × List String)
  | 0, _ => none
  | _, [] => none
  | fuel + 1, it :: rest =>
    if it = "A" ∨ it = "O" then
      match parsePredItems fuel rest with
      | none => none
      | some (l, rest1) =>
        match parsePredItems fuel rest1 with
        | none => none
        | some (r, rest2) => some (if it = "A" then .and l r else .or l r, rest2)
    else (parseRule it).map fun (k, neq, v) => (.rule k neq v, rest)

def parsePred (s : String) : Option (Option Pred) :=
  if s = "-" then some none else
  let items := s.splitOn ","
  match parsePredItems (items.length + 1) items with
  | some (p, []) => some (some p)
  | _ => none

def parseCondItems : Nat → List String → Option (Cond × List String)
  | 0, _ => none
  | _, [] => none
  | fuel + 1, it :: rest =>
    if it = "A" ∨ it = "O" then
      match parseCondItems fuel rest with
      | none => none
      | some (l, rest1) =>
        match parseCondItems fuel rest1 with
        | none => none
        | some (r, rest2) => some (if it = "A" then .and l r else .or l r, rest2)
    else if it.startsWith "R:" ∨ it.startsWith "NR:" then
      -- R:<hexkey>:<hexv1>+<hexv2>…  =  key =~ /^(?:v1|v2|…)$/ ;  NR = !~
      match it.splitOn ":" with
      | [op, k, vs] =>
        match hexDecode k, (vs.splitOn "+").mapM hexDecode with
        | some kb, some vl => if vl.contains [] then none else some (.re kb (op = "NR") vl, rest)
        | _, _ => none
      | _ => none
    else (parseRule it).map fun (k, neq, v) => (.cmp k neq v, rest)

def parseCond (s : String) : Option (Option Cond) :=
  if s = "-" then some none else
  let items := s.splitOn ","
  match parseCondItems (items.length + 1) items with
  | some (c, []) => some (some c)
  | _ => none

/-- keys of a condition -/
def Cond.keys : Cond → List Bytes
  | .cmp k _ _ => [k]
  | .re k _ _ => [k]
  | .and l r => l.keys ++ r.keys
  | .or l r => l.keys ++ r.keys

/-- regular-expression leaves (only MeasurementNames conditions carry them) -/
def Cond.hasRe : Cond → Bool
  | .cmp .. => false
  | .re .. => true
  | .and l r => l.hasRe || r.hasRe
  | .or l r => l.hasRe || r.hasRe

/-- a key starting with `_` other than `_name` (system names), or the pseudo key `value` -/
def reservedKey (allowName : Bool) (k : Bytes) : Bool :=
  (k.head? = some 95 && !(allowName && k = nameKey)) || k = [118, 97, 108, 117, 101] || k = []

def parseClause (s : String) : Option (Option (Bool × Bytes)) :=
  if s = "-" then some none else
  (parseRule s).bind fun (k, neq, v) => if k = [] then some (some (neq, v)) else none

def parseTags (s : String) : Option Tags :=
  (splitComma s).mapM fun kv =>
    match kv.splitOn ":" with
    | [k, v] => match hexDecode k, hexDecode v with
      | some kb, some vb => if kb = [] ∨ vb = [] then none else some (kb, vb)
      | _, _ => none
    | _ => none

/-- strictly ascending keys (`models.Tags` invariant) -/
def tagsSorted : Tags → Bool
  | [] => true
  | [_] => true
  | a :: b :: rest => cmpBytes a.1 b.1 == .lt && tagsSorted (b :: rest)

def parsePts (s : String) : Option (List (Int × Int)) :=
  (splitComma s).mapM fun p =>
    match p.splitOn ":" with
    | [t, v] => match t.toInt?, v.toInt? with
      | some ti, some vi => some (ti, vi)
      | _, _ => none
    | _ => none

def parseAuth (s : String) : Option Auth :=
  if s = "-" then some .nil_ else if s = "open" then some .open_ else
  (s.splitOn ",").foldlM (fun (acc : Auth) it =>
    match acc, it.splitOn ":" with
    | .deny ps ns, ["T", k, v] => match hexDecode k, hexDecode v with
      | some kb, some vb => some (.deny (ps ++ [(kb, vb)]) ns)
      | _, _ => none
    | .deny ps ns, ["M", n] => (hexDecode n).map fun nb => .deny ps (ns ++ [nb])
    | _, _ => none) (.deny [] [])

def parseOp : List String → Option Op
  | ["open", n] => n.toNat?.bind fun k => if 1 ≤ k ∧ k ≤ 4 then some (.open_ k) else none
  | ["w", sh, n, t, p] =>
    match sh.toNat?, hexDecode n, parseTags t, parsePts p with
    | some s, some nb, some ts, some ps =>
      if nb = [] ∨ ps = [] ∨ !tagsSorted ts then none else some (.write s nb ts ps)
    | _, _, _, _ => none
  | ["snap", sh] => sh.toNat?.map .snap
  | ["del", a, b, p, m] =>
    match a.toInt?, b.toInt?, parsePred p with
    | some lo, some hi, some pr =>
      if m = "n" then some (.del lo hi pr false) else if m = "h" then some (.del lo hi pr true) else none
    | _, _, _ => none
  | ["read", sh] => sh.toNat?.map .read
  | ["ls", sh] => sh.toNat?.map .ls
  | ["mn", a, c] =>
    match parseAuth a, parseCond c with
    | some au, some co =>
      if (co.map (·.keys)).getD [] |>.any (reservedKey true) then none else some (.mn au co)
    | _, _ => none
  | [op, a, shs, nc, kc, f] =>
    if op ≠ "tk" ∧ op ≠ "tv" then none else
    match parseAuth a, parseNats shs, parseClause nc, parseClause kc, parseCond f with
    | some au, some ids, some n, some k, some fo =>
      if ids = [] ∨ ((fo.map (·.keys)).getD [] |>.any (reservedKey false)) ∨ (fo.map (·.hasRe)).getD false then none
      else if op = "tk" then some (.tk au ids n k fo) else some (.tv au ids n k fo)
    | _, _, _, _, _ => none
  | _ => none

/-! ### rendering -/

/-- `<hexname>@<hexk>:<hexv>&…` -/
def seriesId (name : Bytes) (tags : Tags) : String :=
  hexEncode name ++ "@" ++ "&".intercalate (tags.map fun t => hexEncode t.1 ++ ":" ++ hexEncode t.2)

def parseSeriesId (s : String) : Option (Bytes × Tags) :=
  match s.splitOn "@" with
  | [n, ts] =>
    match hexDecode n, (if ts = "" then some [] else (ts.splitOn "&").mapM fun kv =>
        match kv.splitOn ":" with
        | [k, v] => match hexDecode k, hexDecode v with
          | some kb, some vb => some (kb, vb)
          | _, _ => none
        | _ => none) with
    | some nb, some tl => some (nb, tl)
    | _, _ => none
  | _ => none

def renderSeries (l : List Series) : String :=
  -- a listed series without a remaining value is not part of a read
  let l := l.filter fun s => !s.pts.isEmpty
  if l.isEmpty then "-" else
  ";".intercalate (l.map fun s =>
    seriesId s.name s.tags ++ "=" ++ ",".intercalate (s.pts.map fun p => toString p.1 ++ ":" ++ toString p.2))

def renderIds (l : List Series) : String := joinComma (l.map fun s => seriesId s.name s.tags)

def renderNames (l : List Bytes) : String := joinComma (l.map hexEncode)

def renderTagKeys (l : List (Bytes × List Bytes)) : String :=
  if l.isEmpty then "-" else ";".intercalate (l.map fun (m, ks) => hexEncode m ++ "=" ++ renderNames ks)

def renderTagValues (l : List (Bytes × List (Bytes × Bytes))) : String :=
  if l.isEmpty then "-" else
  ";".intercalate (l.map fun (m, kvs) =>
    hexEncode m ++ "=" ++ joinComma (kvs.map fun (k, v) => hexEncode k ++ ":" ++ hexEncode v))

/-! ### the model's step (`none` state = store not opened yet) -/

def stepOp (st : Option State) (op : Op) : Option State × String :=
  match st, op with
  | none, .open_ n => (some ((List.range n).map fun i => ⟨i + 1, [], []⟩), "ok")
  | some s, .open_ _ => (some s, "bad-op")
  | none, _ => (none, "bad-op")
  | some s, .write sh name tags pts =>
    if s.any (·.id = sh) then (some (write s sh name tags pts), "ok") else (some s, "bad-op")
  | some s, .snap sh => if s.any (·.id = sh) then (some (snapshot s sh), "ok") else (some s, "bad-op")
  | some s, .del lo hi pred hm => (some (delete s lo hi pred hm), "ok")
  | some s, .read sh =>
    match readShard s sh with
    | some l => (some s, renderSeries l)
    | none => (some s, "bad-op")
  | some s, .ls sh =>
    match readShard s sh with
    | some l => (some s, renderIds l)
    | none => (some s, "bad-op")
  | some s, .mn a c => (some s, renderNames (measurementNames a s c))
  | some s, .tk a ids nc kc f =>
    let shs := selectShards s ids
    if shs.isEmpty then (some s, "bad-op") else (some s, renderTagKeys (tagKeys a shs nc kc f))
  | some s, .tv a ids nc kc f =>
    let shs := selectShards s ids
    if shs.isEmpty then (some s, "bad-op")
    else if nc.isNone && kc.isNone && f.isNone then (some s, "err:cond-required")
    else (some s, renderTagValues (tagValues a shs nc kc f))

def step (st : Option State) (toks : List String) : Option State × String :=
  match parseOp toks with
  | some op => stepOp st op
  | none => (st, "bad-op")

end Influx.Model.StoreDel
