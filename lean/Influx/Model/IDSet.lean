/-
  Model.IDSet — tsdb/series_set.go (`SeriesIDSet`, a locked wrapper around a roaring bitmap).

  roaring is abstract: a finite set of 32-bit numbers, represented canonically as a strictly
  ascending list.  The wrapper converts every `uint64` id with `uint32(id)`: ids are kept
  modulo 2^32 (quirk kept; see Props.C36).
-/
namespace Influx.IDSet

abbrev Set := List Nat

def norm (id : Nat) : Nat := id % 2 ^ 32

/-- ordered insert without duplicates -/
def ins (x : Nat) : Set → Set
  | [] => [x]
  | y :: ys => if x < y then x :: y :: ys else if x = y then y :: ys else y :: ins x ys

/-- `Add`, `AddNoLock` -/
def add (s : Set) (id : Nat) : Set := ins (norm id) s
/-- `AddMany`, `NewSeriesIDSet(a...)` -/
def addMany (s : Set) (ids : List Nat) : Set := ids.foldl add s
/-- `Remove`, `RemoveNoLock` -/
def remove (s : Set) (id : Nat) : Set := s.filter (· ≠ norm id)
/-- `Contains`, `ContainsNoLock` -/
def contains (s : Set) (id : Nat) : Bool := s.contains (norm id)
/-- `roaring.Or` / `FastOr` -/
def union (a b : Set) : Set := b.foldl (fun acc x => ins x acc) a
/-- `Merge(others...)` -/
def merge (s : Set) (others : List Set) : Set := others.foldl union s
/-- `And` -/
def and (a b : Set) : Set := a.filter fun x => b.contains x
/-- `AndNot`, `Diff` -/
def andNot (a b : Set) : Set := a.filter fun x => !b.contains x
/-- `Intersects` -/
def intersects (a b : Set) : Bool := a.any fun x => b.contains x
/-- `Equals` -/
def equals (a b : Set) : Bool := a == b

end Influx.IDSet
