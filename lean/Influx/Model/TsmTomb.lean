/-
  Model.TsmTomb — `Tombstoner` (v4) of `tsdb/engine/tsm1/tombstone.go` and the
  reader-level delete path of `reader.go` (`TSMReader.Delete/DeleteRange`,
  `batchDelete`, `applyTombstones`).

  The v4 tombstone file is a 4-byte header followed by gzip members, one per
  committed batch; abstractly a list of members, each a list of tombstones
  (`none` = the file does not exist).  The byte level (with gzip as an abstract
  pair of functions) and the file-system steps of `prepareV4 … commit` are in
  Model/TsmTombBytes.lean.

  Kept as the code has them:
    * `Walk` resumes at `lastAppliedOffset` (a member boundary): a second `Walk`
      of the same `Tombstoner` yields only what was committed in between;
    * `prepareV4` copies the existing file into the tmp file when the batch is
      opened; `commit` renames that copy + the new member over the file;
    * `TombstoneStats` is cached (`statsLoaded`); `commit` does not invalidate it;
    * `TSMReader.Delete` removes the keys from the index directly and does not
      advance `lastAppliedOffset`.
-/
import Influx.Model.TsmIndex

namespace Influx.Tsm

abbrev TFile := Option (List (List Tombstone))

structure Pending where
  /-- the members copied from the existing file when the tmp file was created -/
  base : List (List Tombstone)
  /-- tombstones written to the new gzip member so far -/
  added : List Tombstone
deriving Repr, Inhabited

/-- the in-memory state of one `Tombstoner` -/
structure TObj where
  pending : Option Pending := none
  /-- `lastAppliedOffset`, in members -/
  lastApplied : Nat := 0
  statsLoaded : Bool := false
  statsExists : Bool := false
deriving Repr, Inhabited

/-- `AddRange(keys, min, max)` with filter `f` (`none` = no FilterFn) -/
def tAddRange (file : TFile) (o : TObj) (f : Option (Key → Bool)) (keys : List Key) (lo hi : Int) : TObj :=
  let keys := match f with
    | some f => keys.dropWhile (fun k => !f k)
    | none => keys
  if keys.isEmpty then o
  else
    let o := { o with statsLoaded := false }
    -- prepareV4
    let p : Pending := match o.pending with
      | some p => p
      | none => ⟨file.getD [], []⟩
    let ks := match f with
      | some f => keys.filter f
      | none => keys
    { o with pending := some { p with added := p.added ++ ks.map fun k => ⟨k, lo, hi⟩ } }

/-- `Flush` (= `commit`) -/
def tFlush (file : TFile) (o : TObj) : TFile × TObj :=
  match o.pending with
  | none => (file, o)
  | some p => (some (p.base ++ [p.added]), { o with pending := none })

def tRollback (o : TObj) : TObj := { o with pending := none }

/-- `Delete`: removes the tombstone file (not the tmp file) -/
def tDelete (o : TObj) : TFile × TObj :=
  (none, { o with statsLoaded := false, lastApplied := 0 })

/-- `Walk`: everything after `lastAppliedOffset`; the offset moves to the end -/
def tWalk (file : TFile) (o : TObj) : List Tombstone × TObj :=
  match file with
  | none => ([], o)
  | some ms =>
    if o.lastApplied ≥ ms.length then ([], o)    -- gzip.NewReader hits EOF: nothing read, offset kept
    else ((ms.drop o.lastApplied).flatten, { o with lastApplied := ms.length })

/-- `HasTombstones` through the cached `TombstoneStats` -/
def tHas (file : TFile) (o : TObj) : Bool × TObj :=
  if o.statsLoaded then (o.statsExists, o)
  else (file.isSome, { o with statsLoaded := true, statsExists := file.isSome })

/-! ## the reader -/

structure Reader where
  ix : Index
  ts : TObj := {}
  /-- a `BatchDelete` is open -/
  batch : Bool := false
deriving Repr, Inhabited

structure ABState where
  ix : Index
  batch : List Key := []
  prev : Tombstone := ⟨[], 0, 0⟩
  cur : Tombstone := ⟨[], 0, 0⟩

/-- the callback of `applyTombstones` for one walked tombstone -/
def abStep (s : ABState) (t : Tombstone) : ABState :=
  let s := { s with cur := t }
  let s := if !s.batch.isEmpty && (s.prev.min ≠ t.min || s.prev.max ≠ t.max)
    then { s with ix := deleteRange s.ix s.batch s.prev.min s.prev.max, batch := [] } else s
  let s := { s with batch := s.batch ++ [t.key] }
  let s := if s.batch.length ≥ 4096
    then { s with ix := deleteRange s.ix s.batch s.prev.min s.prev.max, batch := [] } else s
  { s with prev := t }

/-- `TSMReader.applyTombstones` -/
def applyTombstones (file : TFile) (r : Reader) : Reader :=
  let (ws, ts) := tWalk file r.ts
  let s := ws.foldl abStep { ix := r.ix }
  let ix := if s.batch.isEmpty then s.ix else deleteRange s.ix s.batch s.cur.min s.cur.max
  { r with ix := ix, ts := ts }

/-- `NewTSMReader` on a parsed index -/
def openReader (file : TFile) (kes : List KeyEntry) : Reader :=
  applyTombstones file { ix := mkIndex kes }

/-- `batchDelete.DeleteRange` -/
def bdRange (file : TFile) (r : Reader) (keys : List Key) (lo hi : Int) : Reader :=
  match keys.head?, keys.getLast? with
  | some k0, some kN =>
    if !overlapsKeyRange r.ix k0 kN then r
    else if !overlapsTimeRange r.ix lo hi then r
    else { r with ts := tAddRange file r.ts (some (containsKey r.ix)) keys lo hi }
  | _, _ => r

/-- `batchDelete.Commit` -/
def bdCommit (file : TFile) (r : Reader) : TFile × Reader :=
  let (file, ts) := tFlush file r.ts
  (file, applyTombstones file { r with ts := ts, batch := false })

def bdRollback (r : Reader) : Reader := { r with ts := tRollback r.ts, batch := false }

/-- `TSMReader.DeleteRange` -/
def rDeleteRange (file : TFile) (r : Reader) (keys : List Key) (lo hi : Int) : TFile × Reader :=
  if keys.isEmpty then (file, r)
  else bdCommit file (bdRange file r keys lo hi)

/-- `TSMReader.Delete` -/
def rDelete (file : TFile) (r : Reader) (keys : List Key) : TFile × Reader :=
  let ts := tAddRange file r.ts (some (containsKey r.ix)) keys minInt64 maxInt64
  let (file, ts) := tFlush file ts
  (file, { r with ts := ts, ix := delete r.ix keys })

end Influx.Tsm
