/-
  Model.TSITypes — types shared by the model of tsdb/index/tsi1 (Model.TSI) and the
  statement of C14 (Spec.C14): the operations of a case and their answers.

  Core Lean only.
-/
namespace Influx.Model.TSI

abbrev Tags := List (String × String)

/-- One operation of a C14 case (see go/cmd/c14/main.go). Series ids are the ids the
    series file assigns (the generator predicts them, the harness checks them). -/
inductive Op
  /-- `cfg n`: number of tsi1 partitions of the index (1 or 8). -/
  | cfg (parts : Nat)
  /-- `Index.CreateSeriesListIfNotExists` of one series; `part` = its tsi1 partition. -/
  | create (id part : Nat) (name : String) (tags : Tags)
  /-- the engine's delete flow for one series: `Index.DropSeries(id, key, false)`,
      `Index.DropMeasurementIfSeriesNotExist(name)`, `SeriesFile.DeleteSeriesID(id)`. -/
  | dropSeries (id : Nat)
  /-- the index half only (no series-file delete). -/
  | dropSeriesIndexOnly (id : Nat)
  /-- the engine's flow for every series of the measurement that is live in the index. -/
  | dropMeasurement (name : String)
  /-- the index half only. -/
  | dropMeasurementIndexOnly (name : String)
  /-- `Partition.prependActiveLogFile` on partition `p`. -/
  | roll (p : Nat)
  /-- `Partition.compactLogFile` on the oldest non-active log file of partition `p`. -/
  | compactLog (p : Nat)
  /-- `Partition.compactToLevel` on the last contiguous index files of `level`. -/
  | compactLevel (p level : Nat)
  /-- close and open index and series file. -/
  | reopen
  /-- crash while the last mutating operation was in flight: of the log entries that
      operation appended to partition `p`'s active log only the first `k` (plus `extra`
      bytes of the next) reached the disk; then open. -/
  | crash (p k extra : Nat)
  | measurements
  | tagKeys (name : String)
  | tagValues (name key : String)
  | measurementSeries (name : String)
  | tagKeySeries (name key : String)
  | tagValueSeries (name key value : String)

inductive Obs
  | ok
  | names (l : List String)
  | ids (l : List Nat)
  /-- the model refuses an operation the generator must not send. -/
  | rejected
  | err
deriving DecidableEq, Repr

end Influx.Model.TSI
