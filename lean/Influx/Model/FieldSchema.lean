/-
  Model.FieldSchema — the write path of a shard as far as field schema and
  partial writes are concerned, written from the code as it is:

    tsdb/shard.go            Shard.WritePoints, Shard.validateSeriesAndFields,
                             MeasurementFields.CreateFieldIfNotExists
    tsdb/field_validator.go  ValidateAndCreateFields
    tsdb/engine/tsm1/engine.go  Engine.WritePoints (fields named `time` skipped —
                             fixes/C40-engine-skip-time-field.patch)

  Not modelled (assumed not to fail / off by default): Config.ValidateKeys
  (unicode check of keys, default off), partial errors of
  `Index.CreateSeriesListIfNotExists` (tsi1 has no per-database limits), cache
  size limit, WAL errors.  `point.StringSize() > MaxFieldValueLength` is a cheap
  pre-filter implied by `len(StringValue()) > MaxFieldValueLength`.
-/
import Influx.Model.FieldTypes
import Influx.Generated.FieldsConsts

namespace Influx.Fields
open Influx.Generated.FieldsConsts (MaxFieldValueLength)

/-- `MeasurementFields.CreateFieldIfNotExists` on the field set of one shard
    (`LoadOrStore`): `none` = `ErrFieldTypeConflict`; the Boolean is `created`. -/
def createField (s : Schema) (k : FKey) (t : FType) : Option (Schema × Bool) :=
  match s.lookup k with
  | some t' => if t' = t then some (s, false) else none
  | none => some ((k, t) :: s, true)

/-- Outcome of `ValidateAndCreateFields` for one point. -/
inductive VRes
  | ok
  | stripped            -- PartialWriteError with Dropped = 0 ("time" field)
  | drop (r : Reason)   -- PartialWriteError with Dropped = 1
  deriving DecidableEq, Repr

def VRes.accepted : VRes → Bool
  | .drop _ => false
  | _ => true

/-- `ValidateAndCreateFields(mf, point, skipSizeValidation = false)`: the loop over
    the point's fields.  Returns the schema (fields created so far stay created even
    when the point is then refused), the list of created fields, and the outcome.
    `st` = a `time` field has been seen (partialWriteError != nil). -/
def validateFields (m : String) : Schema → List FieldV → Bool → Schema × List (FKey × FType) × VRes
  | s, [], st => (s, [], if st then .stripped else .ok)
  | s, f :: fs, st =>
    if f.ty = .str ∧ f.slen > MaxFieldValueLength then (s, [], .drop .tooLong)
    else if f.name = timeName then validateFields m s fs true
    else
      match createField s (m, f.name) f.ty with
      | none => (s, [], .drop .conflict)
      | some (s', created) =>
        let r := validateFields m s' fs st
        (r.1, if created then ((m, f.name), f.ty) :: r.2.1 else r.2.1, r.2.2)

/-- `tags.Get(TimeBytes) != nil` (tag values of a `models.Point` are never empty) -/
def hasTimeTag (p : Point) : Bool := p.tags.any (fun kv => kv.1 == timeName)

/-- "Skip any points with only invalid fields." -/
def onlyTimeFields (p : Point) : Bool := p.fields.all (fun f => f.name == timeName)

/-- Second loop of `validateSeriesAndFields` over the points that survived the
    tag check: schema after, created fields, verdict per point (in order). -/
def phase2 : Schema → List Point → Schema × List (FKey × FType) × List (Point × VRes)
  | s, [] => (s, [], [])
  | s, p :: ps =>
    if onlyTimeFields p then
      let r := phase2 s ps
      (r.1, r.2.1, (p, .drop .fieldTime) :: r.2.2)
    else
      let v := validateFields p.meas s p.fields false
      let r := phase2 v.1 ps
      (r.1, v.2.1 ++ r.2.1, (p, v.2.2) :: r.2.2)

/-- first refusal reason in a verdict list -/
def firstReason : List (Point × VRes) → Option Reason
  | [] => none
  | (_, .drop r) :: _ => some r
  | _ :: vs => firstReason vs

def countDropped (vs : List (Point × VRes)) : Nat := vs.countP (fun pv => !pv.2.accepted)

/-- What `validateSeriesAndFields` returns, as coded (two loops). -/
structure Validated where
  sch : Schema
  created : List (FKey × FType)
  kept : List Point
  dropped : Nat
  reason : Option Reason
  stripped : Bool
  deriving Repr

/-- `Shard.validateSeriesAndFields`, literally: loop 1 drops the points with a
    `time` tag (counting them, remembering the first reason), loop 2 runs over the
    rest. -/
def validateTwoPhase (s : Schema) (pts : List Point) : Validated :=
  let rest := pts.filter (fun p => !hasTimeTag p)
  let d1 := pts.countP hasTimeTag
  let r := phase2 s rest
  { sch := r.1, created := r.2.1,
    kept := (r.2.2.filter (fun pv => pv.2.accepted)).map (·.1),
    dropped := d1 + countDropped r.2.2,
    reason := if d1 > 0 then some .tagTime else firstReason r.2.2,
    stripped := r.2.2.any (fun pv => pv.2 == .stripped) }

/-- The same decision in one pass, with the verdict of *every* point of the batch
    in batch order (used by the theorems; `validate_eq` relates the two). -/
def verdicts : Schema → List Point → Schema × List (FKey × FType) × List (Point × VRes)
  | s, [] => (s, [], [])
  | s, p :: ps =>
    if hasTimeTag p then
      let r := verdicts s ps
      (r.1, r.2.1, (p, .drop .tagTime) :: r.2.2)
    else if onlyTimeFields p then
      let r := verdicts s ps
      (r.1, r.2.1, (p, .drop .fieldTime) :: r.2.2)
    else
      let v := validateFields p.meas s p.fields false
      let r := verdicts v.1 ps
      (r.1, v.2.1 ++ r.2.1, (p, v.2.2) :: r.2.2)

/-- insert-or-replace one value -/
def upsert (d : Store) (e : EKey × Val) : Store := e :: d.filter (fun x => x.1 != e.1)

/-- `Engine.WritePoints` on the kept points: every field that is not named
    `time` becomes one value of the series-field key (later values of the same
    key and timestamp replace earlier ones). -/
def engineWrite (d : Store) (pts : List Point) : Store :=
  (pts.flatMap pointEntries).foldl upsert d

/-- shard state relevant here -/
structure State where
  sch : Schema := []
  data : Store := []
  deriving Repr

/-- `Shard.WritePoints`: validate, save the created fields, write the kept
    points, return the partial-write error if any. -/
def writePoints (st : State) (batch : List Point) : State × WriteRes :=
  let v := validateTwoPhase st.sch batch
  let st' : State := { sch := v.sch, data := engineWrite st.data v.kept }
  let res :=
    if v.dropped > 0 then
      match v.reason with
      | some r => .partialWrite v.dropped r
      | none => .hardError "dropped-without-reason"   -- unreachable: `writePoints_reason`
    else if v.stripped then .partialWrite 0 .stripped
    else .ok
  (st', res)

/-- the distinct (series, field, type) the engine physically holds -/
def rawKeys (d : Store) : List ((String × List (String × String) × String) × FType) :=
  (d.map (fun e => ((e.1.1, e.1.2.1, e.1.2.2.1), e.2.1))).eraseDups

/-- operations of a C40 case -/
inductive Op40
  | write (batch : List Point)
  | read | schema | keys | snap | reopen
  deriving Repr

/-- one operation on the model and what is observed for it (snapshot and clean
    reopen do not change the abstract state: the data moves from cache+WAL to TSM
    files, the schema from `fields.idxl` to `fields.idx`) -/
def step40 (st : State) : Op40 → State × WStep
  | .write b => let r := writePoints st b; (r.1, .write b r.2 r.1.data)
  | .read => (st, .read st.data)
  | .keys => (st, .keys (rawKeys st.data))
  | .schema => (st, .other)
  | .snap => (st, .other)
  | .reopen => (st, .other)

def trace40 : State → List Op40 → List WStep
  | _, [] => []
  | st, o :: os => (step40 st o).2 :: trace40 (step40 st o).1 os

end Influx.Fields
