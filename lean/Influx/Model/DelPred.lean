/-
  Influx.Model.DelPred — executable model of the delete-predicate pipeline (C16).

  Written from the code as it is:
    predicate/tag_rule.go      TagRuleNode.ToDataType (specialKey), NodeComparison
    predicate/logical.go       LogicalNode.ToDataType
    tsdb/engine/tsm1/predicate.go
        NewProtobufPredicate, walkPredicateNodes, buildPredicateNode,
        predicateState (Reset/Set, generation counter), predicateCache (Cached/Store),
        predicateNodeAnd/Or/Comparison.Update, predicateEval (= and != only),
        predicateMatcher.Matches, predicatePopTag, predicatePopTagEscape
    tsdb/engine/tsm1/engine.go SeriesAndFieldFromCompositeKey (cut at "#!~#")
    tsdb/index.go              PredicateSeriesIDIterator.Next: key = MakeKey(name, {\x00=name} ++ tags)
    models/points.go           MakeKey/AppendMakeKey, EscapeMeasurement, unescapeMeasurement,
                               escapeTag, Tags.AppendHashKey (empty values skipped)

  Bytes are `List Nat` (the driver decodes hex into numbers below 256; nothing
  in the model depends on the bound).  Go `nil` slices are `none`.
-/
namespace Influx.Model.DelPred

abbrev Bytes := List Nat

/-! ## models: escaping and key construction -/

/-- `bytes.Replace(in, []byte{c}, []byte{'\\', c}, -1)`. -/
def escByte (c : Nat) (s : Bytes) : Bytes :=
  s.flatMap fun b => if b = c then [92, c] else [b]

/-- `models.escapeTag`: `,` then space then `=` (tagEscapeCodes order). -/
def escapeTag (s : Bytes) : Bytes := escByte 61 (escByte 32 (escByte 44 s))

/-- `models.EscapeMeasurement`: `,` then space (measurementEscapeCodes order). -/
def escapeMeasurement (s : Bytes) : Bytes := escByte 32 (escByte 44 s)

/-- `bytes.Replace(in, []byte{'\\', c}, []byte{c}, -1)`: non-overlapping, left to right. -/
def unescByte (c : Nat) : Bytes → Bytes
  | [] => []
  | [b] => [b]
  | a :: b :: rest =>
    if a = 92 ∧ b = c then c :: unescByte c rest else a :: unescByte c (b :: rest)

/-- `models.unescapeMeasurement`. -/
def unescapeMeasurement (s : Bytes) : Bytes :=
  if s.contains 92 then unescByte 32 (unescByte 44 s) else s

/-- `Tags.AppendHashKey(dst, true)`: `,k=v` per tag, escaped; tags with an empty value are skipped. -/
def appendHashKey : List (Bytes × Bytes) → Bytes
  | [] => []
  | (k, v) :: ts =>
    if v = [] then appendHashKey ts
    else 44 :: (escapeTag k ++ 61 :: (escapeTag v ++ appendHashKey ts))

/-- `models.MakeKey(name, tags)`. -/
def makeKey (name : Bytes) (tags : List (Bytes × Bytes)) : Bytes :=
  escapeMeasurement (unescapeMeasurement name) ++ appendHashKey tags

/-- The key `PredicateSeriesIDIterator.Next` hands to `pred.Matches`
    (`models.MeasurementTagKeyBytes` = `"\x00"`). -/
def seriesKey (name : Bytes) (tags : List (Bytes × Bytes)) : Bytes :=
  makeKey name (([0], name) :: tags)

/-- `keyFieldSeparator` = `"#!~#"`. -/
def fieldSep : Bytes := [35, 33, 126, 35]

/-- `tsm1.SeriesFieldKeyBytes`. -/
def compositeKey (series field : Bytes) : Bytes := series ++ fieldSep ++ field

/-- `SeriesAndFieldFromCompositeKey(key)`'s first result: `bytes.Cut(key, "#!~#")`. -/
def cutFieldSep : Bytes → Bytes
  | [] => []
  | b :: bs => if fieldSep.isPrefixOf (b :: bs) then [] else b :: cutFieldSep bs

/-! ## popping tags -/

/-- `bytes.Cut(s, []byte{c})`: before, and after (`none` = separator not found, Go returns `nil`). -/
def cut (c : Nat) : Bytes → Bytes × Option Bytes
  | [] => ([], none)
  | b :: bs =>
    if b = c then ([], some bs)
    else ((b :: (cut c bs).1), (cut c bs).2)

/-- `predicatePopTag`: (tag, value, rest).  `tag` is never nil here. -/
def popTag (s : Bytes) : Option Bytes × Option Bytes × Bytes :=
  let sr := cut 44 s
  let tv := cut 61 sr.1
  (some tv.1, tv.2, sr.2.getD [])

/-- The two scanning loops of `predicatePopTagEscape`: first occurrence of `c`
    whose preceding byte (in the whole slice) is not a backslash.
    `pb` = "the previous byte is a backslash". -/
def splitUnesc (c : Nat) : Bool → Bytes → Option (Bytes × Bytes)
  | _, [] => none
  | pb, b :: bs =>
    if b = c ∧ pb = false then some ([], bs)
    else match splitUnesc c (b == 92) bs with
      | some (x, y) => some (b :: x, y)
      | none => none

/-- The unescape loop of `predicatePopTagEscape`: a backslash followed by `,`, space or `=` is dropped. -/
def unescLoop : Bytes → Bytes
  | [] => []
  | [b] => [b]
  | a :: b :: rest =>
    if a = 92 ∧ (b = 44 ∨ b = 32 ∨ b = 61) then unescLoop (b :: rest)
    else a :: unescLoop (b :: rest)

/-- `if bytes.IndexByte(x, '\\') != -1 { … unescape … }`. -/
def unescIfBs (s : Bytes) : Bytes := if s.contains 92 then unescLoop s else s

/-- `predicatePopTagEscape`: (tag, value, rest); tag and value are nil when there is no unescaped `=`. -/
def popTagEscape (s : Bytes) : Option Bytes × Option Bytes × Bytes :=
  let sr : Bytes × Bytes := match splitUnesc 44 false s with
    | some (a, b) => (a, b)
    | none => (s, [])
  match splitUnesc 61 false sr.1 with
  | none => (none, none, sr.2)
  | some (t, v) => (some (unescIfBs t), some (unescIfBs v), sr.2)

/-! ## the protobuf tree (`datatypes.Node`, the part the delete path can build) -/

inductive DNode where
  | tagRef (k : Bytes)
  | strLit (v : Bytes)
  /-- comparison expression; `neq = false` is `ComparisonEqual`, `true` is `ComparisonNotEqual` -/
  | cmp (neq : Bool) (l r : DNode)
  /-- logical expression; `isOr = false` is `LogicalAnd` -/
  | logical (isOr : Bool) (l r : DNode)
deriving Repr, DecidableEq

/-- The predicate AST of package `predicate` (`TagRuleNode`, `LogicalNode`) plus OR. -/
inductive Pred where
  | rule (key : Bytes) (neq : Bool) (val : Bytes)
  | and (l r : Pred)
  | or (l r : Pred)
deriving Repr, DecidableEq

def measurementKey : Bytes := [95, 109, 101, 97, 115, 117, 114, 101, 109, 101, 110, 116]  -- "_measurement"
def fieldKey : Bytes := [95, 102, 105, 101, 108, 100]                                    -- "_field"

/-- `specialKey` of predicate/tag_rule.go. -/
def specialKey (k : Bytes) : Bytes :=
  if k = measurementKey then [0] else if k = fieldKey then [255] else k

/-- `TagRuleNode.ToDataType` / `LogicalNode.ToDataType` (OR built the same way by hand). -/
def toDataType : Pred → DNode
  | .rule k neq v => .cmp neq (.tagRef (specialKey k)) (.strLit v)
  | .and l r => .logical false (toDataType l) (toDataType r)
  | .or l r => .logical true (toDataType l) (toDataType r)

/-! ## the matcher -/

inductive Resp where
  | needMore | true_ | false_
deriving Repr, DecidableEq

/-- `predicateCache`: generation and response. -/
structure Cache where
  gen : Nat
  resp : Resp
deriving Repr, DecidableEq

inductive Operand where
  | lit (b : Bytes)
  | ref (i : Nat)
deriving Repr, DecidableEq

inductive PNode where
  | cmp (c : Cache) (neq : Bool) (l r : Operand)
  | and (c : Cache) (l r : PNode)
  | or (c : Cache) (l r : PNode)
deriving Repr

/-- `walkPredicateNodes` collecting tag refs, first occurrence first: `locs[k] = position`. -/
def collectRefs : DNode → List Bytes → List Bytes
  | .tagRef k, acc => if acc.contains k then acc else acc ++ [k]
  | .strLit _, acc => acc
  | .cmp _ l r, acc => collectRefs r (collectRefs l acc)
  | .logical _ l r, acc => collectRefs r (collectRefs l acc)

def newCache : Cache := ⟨0, .needMore⟩

/-- left operand of a comparison: tag ref or string literal -/
def buildOperand (locs : List Bytes) : DNode → Option Operand
  | .tagRef k => (locs.idxOf? k).map .ref
  | .strLit v => some (.lit v)
  | _ => none

/-- `buildPredicateNode` (`none` = it returns an error). -/
def buildNode (locs : List Bytes) : DNode → Option PNode
  | .cmp neq l r =>
    match buildOperand locs l, buildOperand locs r with
    | some lo, some ro => some (.cmp newCache neq lo ro)
    | _, _ => none
  | .logical isOr l r =>
    match buildNode locs l, buildNode locs r with
    | some ln, some rn => some (if isOr then .or newCache ln rn else .and newCache ln rn)
    | _, _ => none
  | _ => none

/-- `predicateMatcher`: shared state (generation, locs, value slots) and the root node with its caches. -/
structure Matcher where
  gen : Nat
  locs : List Bytes
  values : List (Option Bytes)
  root : PNode
deriving Repr

/-- `NewProtobufPredicate`. -/
def newMatcher (d : DNode) : Option Matcher :=
  let locs := collectRefs d []
  (buildNode locs d).map fun root =>
    { gen := 1, locs := locs, values := locs.map (fun _ => none), root := root }

/-- value of an operand: `none` = index out of range (Go would panic); `some none` = nil slice. -/
def operandVal (vals : List (Option Bytes)) : Operand → Option (Option Bytes)
  | .lit b => some (some b)
  | .ref i => vals[i]?

/-- `predicateEval` for Equal / NotEqual. -/
def evalCmp (neq : Bool) (l r : Bytes) : Bool := if neq then l ≠ r else l = r

def respOfBool (b : Bool) : Resp := if b then .true_ else .false_

/-- `Update()` of the three node kinds, with the caches: returns the response and the node
    with its caches after the call.  `g` = `state.gen`; `none` = slot index out of range. -/
def update (g : Nat) (vals : List (Option Bytes)) : PNode → Option (Resp × PNode)
  | .cmp c neq l r =>
    if c.gen = g then some (c.resp, .cmp c neq l r) else
    match operandVal vals l with
    | none => none
    | some none => some (.needMore, .cmp c neq l r)
    | some (some lv) =>
      match operandVal vals r with
      | none => none
      | some none => some (.needMore, .cmp c neq l r)
      | some (some rv) =>
        let resp := respOfBool (evalCmp neq lv rv)
        some (resp, .cmp ⟨g, resp⟩ neq l r)
  | .and c l r =>
    if c.gen = g then some (c.resp, .and c l r) else
    match update g vals l with
    | none => none
    | some (.false_, l') => some (.false_, .and ⟨g, .false_⟩ l' r)
    | some (.needMore, l') => some (.needMore, .and c l' r)
    | some (.true_, l') =>
      match update g vals r with
      | none => none
      | some (.false_, r') => some (.false_, .and ⟨g, .false_⟩ l' r')
      | some (.needMore, r') => some (.needMore, .and c l' r')
      | some (.true_, r') => some (.true_, .and c l' r')   -- not stored, as in the code
  | .or c l r =>
    if c.gen = g then some (c.resp, .or c l r) else
    match update g vals l with
    | none => none
    | some (.true_, l') => some (.true_, .or ⟨g, .true_⟩ l' r)
    | some (lresp, l') =>
      match update g vals r with
      | none => none
      | some (.true_, r') => some (.true_, .or ⟨g, .true_⟩ l' r')
      | some (rresp, r') =>
        if lresp = .false_ ∧ rresp = .false_ then some (.false_, .or ⟨g, .false_⟩ l' r')
        else some (.needMore, .or c l' r')

/-- `predicateState.Reset`. -/
def Matcher.reset (m : Matcher) : Matcher :=
  { m with gen := m.gen + 1, values := m.values.map fun _ => none }

/-- The loop of `Matches`; `fuel` bounds the iterations (each one consumes at least one byte;
    `matchLoop_fuel` in Lemmas shows `key.length` suffices).  `none` = panic or out of fuel. -/
def matchLoop (esc : Bool) : Nat → Matcher → Bytes → Option (Bool × Matcher)
  | 0, m, key => if key = [] then some (false, m) else none
  | fuel + 1, m, key =>
    if key = [] then some (false, m) else
    let p := if esc then popTagEscape key else popTag key
    match p.1 with
    | none => matchLoop esc fuel m p.2.2
    | some tag =>
      match m.locs.idxOf? tag with
      | none => matchLoop esc fuel m p.2.2
      | some i =>
        let m1 := { m with values := m.values.set i p.2.1 }
        match update m1.gen m1.values m1.root with
        | none => none
        | some (.true_, root') => some (true, { m1 with root := root' })
        | some (.false_, root') => some (false, { m1 with root := root' })
        | some (.needMore, root') => matchLoop esc fuel { m1 with root := root' } p.2.2

/-- `predicateMatcher.Matches(key)`: the answer and the matcher afterwards. -/
def Matcher.matches (m : Matcher) (key : Bytes) : Option (Bool × Matcher) :=
  let m := m.reset
  let key := cutFieldSep key
  matchLoop (key.contains 92) key.length m key

/-- Build from the predicate AST and match one series (fresh matcher). -/
def matchSeries (p : Pred) (name : Bytes) (tags : List (Bytes × Bytes)) : Option Bool :=
  match newMatcher (toDataType p) with
  | none => none
  | some m => (m.matches (seriesKey name tags)).map (·.1)

end Influx.Model.DelPred
