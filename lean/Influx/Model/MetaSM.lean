/-
  Influx.Model.MetaSM — the operations the C18/C19 harnesses drive on the real
  `meta.Client` (+ `coordinator.PointsWriter`, `retention.Service`) as a state
  machine over the meta model.  Wall-clock time: the code under test reads
  `time.Now()`; the harness therefore chooses each retention duration as
  `now₀ − cutoff` immediately before the call, which makes the only quantity the
  code depends on, `now − Duration`, equal to the `cutoff` written in the op line
  (up to the call's own run time, which the generators keep away from by a margin).
  The model does the same with the fixed clock `modelNow`.
-/
import Influx.Model.MetaWriter
import Influx.Model.MetaRetention

namespace Influx.Meta
open Influx.Generated.Meta

/-- the model's wall clock (2033-05-18): later than every cutoff the generators use -/
def modelNow : Int := 2000000000000000000

structure State where
  data : Data
  store : Store
deriving Repr, Inhabited

def State.init : State := { data := { Databases := [], MaxShardGroupID := 0, MaxShardID := 0 }, store := Store.empty }

inductive StoreField where
  | shards | inUse | blockFail | inUseFail | deleteFail | deleteNotFound | dsgFail | dropFail
deriving Repr, DecidableEq

inductive Op where
  /-- create database (if missing) and retention policy; `raw` overwrites the normalised duration -/
  | rp (db rp : String) (sgd : Int) (raw : Bool)
  /-- overwrite the shard group duration of an existing policy (`ALTER RETENTION POLICY … SHARD DURATION`) -/
  | sgd (db rp : String) (sgd : Int)
  | csg (db rp : String) (t : Int)
  /-- `MapShards` with `now − Duration = cutoff` (`none`: no retention duration) -/
  | ms (db rp : String) (cutoff : Option Int) (ts : List Int)
  | dump (db rp : String)
  | restart
  | find (db rp : String) (t : Int)
  | range (db rp : String) (tmin tmax : Int)
  | del (db rp : String) (id : Nat)
  /-- `ExpiredShardGroups(t)` of the policy with `Duration := D` -/
  | exp (db rp : String) (D : Int) (t : Int)
  | store (f : StoreField) (ids : List Nat)
  /-- `DeletionCheck` with `now − Duration = cutoff` for the listed policies, `Duration = 0` elsewhere -/
  | dc (cutoffs : List (String × String × Int))
  | setdel (db rp : String) (id : Nat) (at_ : Int)
  | dropshard (id : Nat)
  /-- `Client.PrecreateShardGroups(from, to)` -/
  | pre (from_ to : Int)
  /-- `Client.TruncateShardGroups(t)` -/
  | trunc (t : Int)
deriving Repr

inductive Obs where
  | ok
  | err (e : Err)
  | group (g : Option ShardGroupInfo)
  | mapping (m : ShardMapping)
  | groups (gs : List ShardGroupInfo)
  | restarted (before after : List (String × String × List ShardGroupInfo))
  | ids (ids : List Nat)
  | expired (ids : List Nat) (gs : List ShardGroupInfo)
  | dc (log : List Ev) (pre : List (String × String × List ShardGroupInfo)) (localShards : List Nat)
deriving Repr

def fullDump (d : Data) : List (String × String × List ShardGroupInfo) :=
  d.Databases.flatMap fun di => di.RetentionPolicies.map fun r => (di.Name, r.Name, r.ShardGroups)

/-- harness op `rp`: `Data.CreateDatabase` (if missing) + `Data.CreateRetentionPolicy` with
    `ReplicaN = 1, Duration = 0`, then (raw) the exact shard group duration -/
def opRP (d : Data) (db rp : String) (sgd : Int) (raw : Bool) : Except Err Data :=
  let d1 : Data := if (findDB d db).isSome then d else
    { d with Databases := d.Databases ++ [{ Name := db, DefaultRetentionPolicy := "", RetentionPolicies := [] }] }
  let n := NormalisedShardDuration sgd 0
  match findDB d1 db with
  | none => .error .dbNotFound
  | some di =>
    let fin (d2 : Data) : Except Err Data :=
      if raw then
        match getRP d2 db rp with
        | .ok r => .ok (setRP d2 db rp { r with ShardGroupDuration := sgd })
        | .error e => .error e
      else .ok d2
    match di.findRP rp with
    | some r =>
      if r.ReplicaN != 1 || r.Duration != 0 || r.ShardGroupDuration != n then .error .rpExists
      else fin d1
    | none =>
      let di' := { di with RetentionPolicies := di.RetentionPolicies ++
        [{ Name := rp, ReplicaN := 1, Duration := 0, ShardGroupDuration := n, ShardGroups := [] }] }
      fin { d1 with Databases := d1.Databases.map fun x => if x.Name == db then di' else x }

/-- set `Duration` of one policy (no-op when it does not exist) -/
def setDuration (d : Data) (db rp : String) (D : Int) : Data :=
  match getRP d db rp with
  | .ok r => setRP d db rp { r with Duration := D }
  | .error _ => d

def clearDurations (d : Data) : Data :=
  { d with Databases := d.Databases.map fun di =>
      { di with RetentionPolicies := di.RetentionPolicies.map fun r => { r with Duration := 0 } } }

def setDeletedAt (d : Data) (db rp : String) (id : Nat) (t : Int) : Data :=
  match getRP d db rp with
  | .ok r => setRP d db rp { r with ShardGroups := r.ShardGroups.map fun g => if g.ID == id then { g with DeletedAt := t } else g }
  | .error _ => d

def Store.set (s : Store) (f : StoreField) (ids : List Nat) : Store :=
  match f with
  | .shards => { s with shards := ids }
  | .inUse => { s with inUse := ids }
  | .blockFail => { s with blockFail := ids }
  | .inUseFail => { s with inUseFail := ids }
  | .deleteFail => { s with deleteFail := ids }
  | .deleteNotFound => { s with deleteNotFound := ids }
  | .dsgFail => { s with dsgFail := ids }
  | .dropFail => { s with dropFail := ids }

/-- the retention duration that puts `now − Duration` at the cutoff (`0` = no retention) -/
def cutoffDur : Option Int → Int
  | some a => modelNow - a
  | none => 0

def step (s : State) : Op → State × Obs
  | .rp db rp sgd raw =>
    match opRP s.data db rp sgd raw with
    | .ok d => ({ s with data := d }, .ok)
    | .error e => (s, .err e)
  | .sgd db rp sgd =>
    match getRP s.data db rp with
    | .ok r => ({ s with data := setRP s.data db rp { r with ShardGroupDuration := sgd } }, .ok)
    | .error e => (s, .err e)
  | .csg db rp t =>
    match clientCreateShardGroup s.data db rp t with
    | .ok (d, g) => ({ s with data := d }, .group g)
    | .error e => (s, .err e)
  | .ms db rp cutoff ts =>
    let d0 := setDuration s.data db rp (cutoffDur cutoff)
    match mapShards d0 db rp modelNow ts with
    | (d, .ok m) => ({ s with data := d }, .mapping m)
    | (d, .error e) => ({ s with data := d }, .err e)
  | .dump db rp =>
    match getRP s.data db rp with
    | .ok r => (s, .groups r.ShardGroups)
    | .error e => (s, .err e)
  | .restart =>
    let d' := reload s.data
    ({ s with data := d' }, .restarted (fullDump s.data) (fullDump d'))
  | .find db rp t =>
    match getRP s.data db rp with
    | .ok r => (s, .group (shardGroupByTimestamp r.ShardGroups t))
    | .error e => (s, .err e)
  | .range db rp tmin tmax =>
    match shardGroupsByTimeRange s.data db rp tmin tmax with
    | .ok gs => (s, .ids (gs.map (·.ID)))
    | .error e => (s, .err e)
  | .del db rp id =>
    match deleteShardGroup s.data db rp id modelNow with
    | .ok d => ({ s with data := d }, .ok)
    | .error e => (s, .err e)
  | .exp db rp D t =>
    match getRP s.data db rp with
    | .ok r => (s, .expired ((expiredShardGroups { r with Duration := D } t).map (·.ID)) r.ShardGroups)
    | .error e => (s, .err e)
  | .store f ids => ({ s with store := s.store.set f ids }, .ok)
  | .dc cutoffs =>
    let d0 := cutoffs.foldl (fun d (db, rp, a) => setDuration d db rp (modelNow - a)) (clearDurations s.data)
    let r := deletionCheck modelNow d0 s.store
    ({ data := r.data, store := r.store }, .dc r.log (fullDump d0) s.store.shards)
  | .setdel db rp id at_ => ({ s with data := setDeletedAt s.data db rp id at_ }, .ok)
  | .dropshard id => ({ s with data := dropShard s.data id modelNow }, .ok)
  | .pre a b => ({ s with data := precreateShardGroups s.data a b }, .ok)
  | .trunc t => ({ s with data := truncateShardGroups s.data t }, .ok)

/-- the model's trace on a list of operations -/
def run : State → List Op → List (Op × Obs)
  | _, [] => []
  | s, o :: os => let r := step s o; (o, r.2) :: run r.1 os

end Influx.Meta
