/-
  Model.SchedMacro — the scheduler model driven the way the harness drives the real TreeScheduler:
  one operation (Schedule / Release / clock advance / hold or release an executor), then the
  scheduler runs until it cannot move (`settle`), then the observation: the runs that started, `When()`.

  `Obs.runs` is in dispatch order; the driver prints them grouped by task (ids ascending, stable),
  as the harness does for the real code, where the order across tasks is not determined.
-/
import Influx.Model.Sched
import Influx.Spec.C24

namespace Influx.Model.Sched
open Influx.Spec.C24 (Op Res Obs SpinObs Ans cronOf)

/-- the macro state of one case: the scheduler model plus what the environment holds -/
structure M where
  created : Bool := false
  cfg : Cfg := { nworkers := 1, hash := xxhash64ofID }
  s : State := init
  blocked : List Nat := []

/-- is the operation acceptable in this state (else the harness answers `bad-op`) -/
def admissible (created : Bool) : Op → Bool
  | .new _ => !created
  | .spin _ _ _ => true
  | _ => created

def macroFuel : Nat := 20000

def tookRun : LogEv → Option Run
  | .took _ r _ => some r
  | _ => none

/-- the runs taken since the log had length `n0`, oldest first -/
def runsSince (n0 : Nat) (s : State) : List Run :=
  ((s.log.take (s.log.length - n0)).reverse).filterMap tookRun

/-- settle, observe; the flag says whether the scheduler came to rest (`quiet`) -/
def observe (m : M) (n0 : Nat) (res : Res) (s : State) : M × Ans × Bool :=
  let r := settle true m.cfg m.blocked macroFuel s
  ({ m with s := r.1 },
   .logic { res := res, runs := runsSince n0 r.1, when_ := r.1.when_, conc := false, ckBad := false },
   r.2 == .quiet)

def spinModel (repaired : Bool) (resched : Bool) (a b : Nat) : SpinObs :=
  let cfg : Cfg := { nworkers := 2, hash := xxhash64ofID }
  let cron := cronEvery 3600
  let offA : Int := (a : Int) - 3600000
  let offB : Int := (b : Int) - 3600000
  let idB := if resched then 1 else 2
  let s := (schedule init 1 cron offA 0).getD init
  let s := if resched then s else release s 1
  let s := (schedule s idB cron offB 0).getD s
  let s := (settle repaired cfg [] 64 s).1
  let mid := a + (b - a) / 2
  let r := settle repaired cfg [] 64 { s with now := mid }
  let s := r.1
  let wname := if s.when_ = some (b : Int) then "B" else if s.when_ = some (a : Int) then "A"
               else if s.when_ = none then "zero" else "other"
  let pulse := match s.when_ with
    | none => true
    | some w => !(s.now > w + 20)
  let s := (settle repaired cfg [] 64 { s with now := (b : Int) + 100 }).1
  let rs := runsSince 0 s
  let nB := (rs.filter fun r => r.id == idB && r.runAt == (b : Int)).length
  { spin := r.2 == .outOfFuel, when_ := wname, pulse := pulse, runsA := rs.length - nB, runsB := nB }

def stepOp (m : M) (op : Op) : M × Ans × Bool :=
  let n0 := m.s.log.length
  match op with
  | .new n =>
    let m := { m with created := true, cfg := { nworkers := n, hash := xxhash64ofID } }
    observe m n0 .ok m.s
  | .sched id isEvery p off last =>
    let last' := if isEvery then alignEvery p last else last
    match schedule m.s id (cronOf isEvery p) off last' with
    | none => observe m n0 .err m.s
    | some s => observe m n0 (.okAligned last') s
  | .rel id => observe m n0 .ok (release m.s id)
  | .adv d =>
    -- the harness lets the scheduler come to rest before it moves the clock
    let r := settle true m.cfg m.blocked macroFuel m.s
    let o := observe m n0 .ok { r.1 with now := r.1.now + d }
    (o.1, o.2.1, o.2.2 && r.2 == .quiet)
  | .block id =>
    let m := { m with blocked := if m.blocked.contains id then m.blocked else id :: m.blocked }
    observe m n0 .ok m.s
  | .unblock id =>
    let m := { m with blocked := m.blocked.filter (· ≠ id) }
    observe m n0 .ok m.s
  | .spin r a b => (m, .spin (spinModel true r a b), true)

/-- the model's trace of a history; operations the harness rejects (`bad-op`) are skipped -/
def traceFrom (m : M) : List Op → List (Op × Ans)
  | [] => []
  | op :: rest =>
    if admissible m.created op then
      let r := stepOp m op
      (op, r.2.1) :: traceFrom r.1 rest
    else traceFrom m rest

def trace (ops : List Op) : List (Op × Ans) := traceFrom {} ops

/-- every `settle` of the history came to rest -/
def allQuietFrom (m : M) : List Op → Bool
  | [] => true
  | op :: rest =>
    if admissible m.created op then
      let r := stepOp m op
      r.2.2 && allQuietFrom r.1 rest
    else allQuietFrom m rest

def allQuiet (ops : List Op) : Bool := allQuietFrom {} ops

/-- no executor is held by the environment and the real-clock operation is not used -/
def plainOp : Op → Bool
  | .block _ => false
  | .spin _ _ _ => false
  | _ => true

end Influx.Model.Sched
