/-
  Model.TSI — executable model of tsdb/index/tsi1 as far as C14 observes it:

    log_file.go    LogFile.execEntry / exec*Entry (the in-memory index of a log file is the
                   fold of its entries), AddSeriesList, DeleteSeriesID, open() (replay of the
                   longest valid prefix), CompactTo
    partition.go   Partition.createSeriesListIfNotExists, DropSeries, DropMeasurement,
                   MeasurementHasSeries, prependActiveLogFile, compactLogFile, compactToLevel,
                   buildSeriesSet, Open
    file_set.go    FileSet.MeasurementIterator / TagKeyIterator / TagValueIterator (newest file
                   first, tombstone flags), MeasurementSeriesIDIterator, TagKeySeriesIDIterator,
                   TagValueSeriesIDIterator (the per-file tombstone fold), LastContiguousIndexFilesByLevel
    index_files.go IndexFiles.CompactTo (merge of index files), buildSeriesIDSets
    index.go       Index.{CreateSeriesListIfNotExists, DropSeries, DropMeasurementIfSeriesNotExist,
                   MeasurementIterator, TagKeyIterator, TagValueIterator, *SeriesIDIterator}
    tsdb/index.go  IndexSet.*SeriesIDIterator = the index's iterator filtered by
                   SeriesFile.IsDeleted (FilterUndeletedSeriesIDIterator)

  written from the code as it is. What a file *contains* is modelled (measurements, tag
  keys, tag values with tombstone flags and series-id sets, the file's series / tombstone
  id sets); the on-disk block format of index files (tag blocks, measurement blocks, hash
  indexes, bloom filters, sketches) is NOT modelled: an index file is the content the
  compaction computes. The tag-value series-id cache of `Index` is modelled (`State.cache`).

  Core Lean only.
-/
import Influx.Model.TSITypes

namespace Influx.Model.TSI

/-! ### association lists and id sets -/

def alookup (l : List (String × α)) (k : String) : Option α :=
  match l with
  | [] => none
  | (k', v) :: rest => if k' = k then some v else alookup rest k

/-- replace the binding of `k`, or append a new one. -/
def aset (l : List (String × α)) (k : String) (v : α) : List (String × α) :=
  match l with
  | [] => [(k, v)]
  | (k', v') :: rest => if k' = k then (k, v) :: rest else (k', v') :: aset rest k v

def sadd (l : List Nat) (x : Nat) : List Nat := if l.contains x then l else x :: l
def sdel (l : List Nat) (x : Nat) : List Nat := l.filter (· != x)
def sunion (a b : List Nat) : List Nat := a ++ b.filter (fun x => !a.contains x)
def sdiff (a b : List Nat) : List Nat := a.filter (fun x => !b.contains x)

def insertNat (x : Nat) : List Nat → List Nat
  | [] => [x]
  | y :: ys => if x < y then x :: y :: ys else if y < x then y :: insertNat x ys else y :: ys

/-- ascending, duplicate-free. -/
def sortNat (l : List Nat) : List Nat := l.foldr insertNat []

def insertStr (x : String) : List String → List String
  | [] => [x]
  | y :: ys => if x < y then x :: y :: ys else if y < x then y :: insertStr x ys else y :: ys

def sortStr (l : List String) : List String := l.foldr insertStr []

/-! ### what a file contains -/

/-- `logTagValue` / `TagBlockValueElem`. -/
structure TagValue where
  deleted : Bool := false
  series : List Nat := []
deriving Repr

/-- `logTagKey` / `TagBlockKeyElem`. -/
structure TagKey where
  deleted : Bool := false
  values : List (String × TagValue) := []
deriving Repr

/-- `logMeasurement` / `MeasurementBlockElem`. -/
structure Meas where
  deleted : Bool := false
  series : List Nat := []
  keys : List (String × TagKey) := []
deriving Repr

structure FileData where
  mms : List (String × Meas) := []
  /-- `seriesIDSet` -/
  sset : List Nat := []
  /-- `tombstoneSeriesIDSet` -/
  tomb : List Nat := []
deriving Repr

/-- `LogEntry`. Series entries carry only the id: name and tags come from the series file. -/
inductive Entry
  | add (id : Nat)
  | delSeries (id : Nat)
  | delMeas (name : String)
  | delKey (name key : String)
  | delVal (name key value : String)
deriving Repr

/-! ### the series file, as far as the index uses it -/

structure SeriesInfo where
  id : Nat
  name : String
  tags : Tags
  /-- tsi1 partition of the series key -/
  part : Nat
deriving Repr

structure SFile where
  known : List SeriesInfo := []
  deleted : List Nat := []
deriving Repr

def SFile.find (sf : SFile) (id : Nat) : Option SeriesInfo := sf.known.find? (·.id = id)

/-- `SeriesFile.IsDeleted`: tombstoned, or not known at all. -/
def SFile.isDeleted (sf : SFile) (id : Nat) : Bool := sf.deleted.contains id || (sf.find id).isNone

/-- the live series with this key, if any (`SeriesFile.CreateSeriesListIfNotExists` returns its id). -/
def SFile.findKey (sf : SFile) (name : String) (tags : Tags) : Option SeriesInfo :=
  sf.known.find? (fun s => s.name = name ∧ s.tags = tags ∧ !sf.deleted.contains s.id)

/-! ### LogFile.execEntry -/

/-- `createMeasurementIfNotExists`: a missing measurement is a fresh empty one. -/
def getMeas (d : FileData) (name : String) : Meas := (alookup d.mms name).getD {}

/-- the tag loop of `execSeriesEntry`: add / remove the id on every (key, value) of the series. -/
def setSeriesInTags (isAdd : Bool) (id : Nat) (keys : List (String × TagKey)) :
    Tags → List (String × TagKey)
  | [] => keys
  | (k, v) :: rest =>
    let tk := (alookup keys k).getD {}
    let tv := (alookup tk.values v).getD {}
    -- fix C14-undelete-tag-on-series-add: adding a series clears the tombstone flags of its
    -- key and value (a removal leaves them as they are)
    let tv' : TagValue :=
      if isAdd then { deleted := false, series := sadd tv.series id }
      else { tv with series := sdel tv.series id }
    let tk' : TagKey :=
      { deleted := if isAdd then false else tk.deleted, values := aset tk.values v tv' }
    setSeriesInTags isAdd id (aset keys k tk') rest

def execSeries (sf : SFile) (d : FileData) (isAdd : Bool) (id : Nat) : FileData :=
  match sf.find id with
  | none => d     -- `seriesKey == nil`: the entry is skipped
  | some s =>
    let mm := getMeas d s.name
    let mm' : Meas :=
      { deleted := false,
        series := if isAdd then sadd mm.series id else sdel mm.series id,
        keys := setSeriesInTags isAdd id mm.keys s.tags }
    { mms := aset d.mms s.name mm',
      sset := if isAdd then sadd d.sset id else sdel d.sset id,
      tomb := if isAdd then sdel d.tomb id else sadd d.tomb id }

/-- `LogFile.execEntry`. -/
def exec (sf : SFile) (d : FileData) : Entry → FileData
  | .add id => execSeries sf d true id
  | .delSeries id => execSeries sf d false id
  | .delMeas name =>
    -- execDeleteMeasurementEntry: flag set, tag set and series of THIS file wiped
    { d with mms := aset d.mms name { deleted := true, series := [], keys := [] } }
  | .delKey name key =>
    let mm := getMeas d name
    let tk := (alookup mm.keys key).getD {}
    { d with mms := aset d.mms name { mm with keys := aset mm.keys key { tk with deleted := true } } }
  | .delVal name key value =>
    let mm := getMeas d name
    let tk := (alookup mm.keys key).getD {}
    let tv := (alookup tk.values value).getD {}
    let tk' := { tk with values := aset tk.values value { tv with deleted := true } }
    { d with mms := aset d.mms name { mm with keys := aset mm.keys key tk' } }

/-- `LogFile.open`: the in-memory index is the fold of the (valid) entries. -/
def replay (sf : SFile) (es : List Entry) : FileData := es.foldl (exec sf) {}

/-! ### files, partitions -/

structure File where
  isLog : Bool
  /-- 0 for log files -/
  level : Nat
  /-- the entries on disk (log files only) -/
  entries : List Entry := []
  data : FileData := {}
deriving Repr

def newLog : File := { isLog := true, level := 0 }

structure Partition where
  /-- `fileSet.files`, newest first; the head is the active log file -/
  files : List File := [newLog]
  /-- `Partition.seriesIDSet` -/
  sset : List Nat := []
  /-- number of entries the active log held before the last mutating operation -/
  opStart : Nat := 0
deriving Repr

def Partition.datas (p : Partition) : List FileData := p.files.map (·.data)

/-! ### FileSet views (lists of file contents, newest first) -/

def measFlag (name : String) (f : FileData) : Option Bool :=
  (alookup f.mms name).map (·.deleted)

def keyElem (name key : String) (f : FileData) : Option TagKey :=
  (alookup f.mms name).bind (fun mm => alookup mm.keys key)

def valElem (name key value : String) (f : FileData) : Option TagValue :=
  (keyElem name key f).bind (fun tk => alookup tk.values value)

/-- the flag of the first (newest) file that has the element: merge iterators return the
    first element of equal names; `Deleted()` is the first's flag. -/
def firstSome (get : FileData → Option β) : List FileData → Option β
  | [] => none
  | f :: rest =>
    match get f with
    | some b => some b
    | none => firstSome get rest

/-- `FileSet.MeasurementIterator` through the tsdb adapter: names whose newest element is not deleted. -/
def fsMeasurements (fs : List FileData) : List String :=
  sortStr ((fs.flatMap (fun f => f.mms.map (·.1))).filter
    (fun n => firstSome (measFlag n) fs == some false))

def fileKeys (name : String) (f : FileData) : List String :=
  ((alookup f.mms name).map (fun mm => mm.keys.map (·.1))).getD []

/-- `FileSet.TagKeyIterator(name)` through the adapter. -/
def fsTagKeys (fs : List FileData) (name : String) : List String :=
  sortStr ((fs.flatMap (fileKeys name)).filter
    (fun k => firstSome (fun f => (keyElem name k f).map (·.deleted)) fs == some false))

def fileValues (name key : String) (f : FileData) : List String :=
  ((keyElem name key f).map (fun tk => tk.values.map (·.1))).getD []

/-- `FileSet.TagValueIterator(name, key)` through the adapter (every file's values of the key
    are merged; the key's own tombstone is not consulted). -/
def fsTagValues (fs : List FileData) (name key : String) : List String :=
  sortStr ((fs.flatMap (fileValues name key)).filter
    (fun v => firstSome (fun f => (valElem name key v f).map (·.deleted)) fs == some false))

def fileMeasSeries (name : String) (f : FileData) : List Nat :=
  ((alookup f.mms name).map (·.series)).getD []

/-- `FileSet.MeasurementSeriesIDIterator`: plain union over the files. -/
def fsMeasSeries (fs : List FileData) (name : String) : List Nat :=
  fs.foldl (fun acc f => sunion acc (fileMeasSeries name f)) []

def fileValSeries (name key value : String) (f : FileData) : List Nat :=
  ((valElem name key value f).map (·.series)).getD []

/-- `File.TagKeySeriesIDIterator`: the union over the values of the key (a map in the code:
    each value name is looked up). -/
def fileKeySeries (name key : String) (f : FileData) : List Nat :=
  (fileValues name key f).foldl (fun acc v => sunion acc (fileValSeries name key v f)) []

/-- `FileSet.TagKeySeriesIDIterator`: plain union over files and values. -/
def fsKeySeries (fs : List FileData) (name key : String) : List Nat :=
  fs.foldl (fun acc f => sunion acc (fileKeySeries name key f)) []

/-- `FileSet.TagValueSeriesIDIterator`: oldest file first; before a file's set is merged in,
    the tombstones of the file processed just before (the next older one) are removed from
    the accumulated set. The newest file's tombstones are never applied. -/
def fsValSeries (fs : List FileData) (name key value : String) : List Nat :=
  (fs.reverse.foldl (fun (acc : List Nat × List Nat) f =>
      (sunion (sdiff acc.1 acc.2) (fileValSeries name key value f), f.tomb)) ([], [])).1

/-- `File.MeasurementHasSeries(ss, name)` over the file set. -/
def fsHasSeries (fs : List FileData) (ss : List Nat) (name : String) : Bool :=
  fs.any (fun f => (fileMeasSeries name f).any (fun id => ss.contains id))

/-! ### Partition.DropMeasurement -/

/-- `tagKeyMergeElem.TagValueIterator`: values of the key's elements, newest first, up to and
    including the first deleted one; each value with the flag of its first element. -/
def mergedKeyValues (fs : List FileData) (name key : String) : List (String × Bool) :=
  let elems := fs.filterMap (keyElem name key)
  let rec upto : List TagKey → List TagKey
    | [] => []
    | tk :: rest => if tk.deleted then [tk] else tk :: upto rest
  let es := upto elems
  let vals := sortStr (es.flatMap (fun tk => tk.values.map (·.1)))
  vals.filterMap (fun v =>
    (es.findSome? (fun tk => alookup tk.values v)).map (fun tv => (v, tv.deleted)))

/-- the log entries `Partition.DropMeasurement(name)` appends, in order. -/
def dropMeasurementEntries (fs : List FileData) (name : String) : List Entry :=
  let keys := sortStr (fs.flatMap (fileKeys name))
  let keyEntries := keys.flatMap (fun k =>
    let kdel := firstSome (fun f => (keyElem name k f).map (·.deleted)) fs
    (if kdel == some false then [Entry.delKey name k] else []) ++
      (mergedKeyValues fs name k).filterMap (fun (v, del) =>
        if del then none else some (Entry.delVal name k v)))
  keyEntries ++ (sortNat (fsMeasSeries fs name)).map Entry.delSeries ++ [Entry.delMeas name]

/-! ### compaction -/

/-- `LogFile.CompactTo`: same content, except that the values of a deleted tag key are not written. -/
def compactLogData (d : FileData) : FileData :=
  { d with mms := d.mms.map (fun (n, mm) =>
      (n, { mm with keys := mm.keys.map (fun (k, tk) =>
        if tk.deleted then (k, { tk with values := [] }) else (k, tk)) })) }

def dedupStr (l : List String) : List String := sortStr l

/-- merged tag value: flag of the first element, series of every file (tombstones are not applied). -/
def mergeVal (fs : List FileData) (n k v : String) (del : Bool) : TagValue :=
  { deleted := del, series := fs.foldl (fun acc f => sunion acc (fileValSeries n k v f)) [] }

def mergeKey (fs : List FileData) (n k : String) : TagKey :=
  { deleted := (firstSome (fun f => (keyElem n k f).map (·.deleted)) fs).getD false,
    values := (mergedKeyValues fs n k).map (fun p => (p.1, mergeVal fs n k p.1 p.2)) }

def mergeMeas (fs : List FileData) (n : String) : Meas :=
  { deleted := (firstSome (measFlag n) fs).getD false,
    series := fsMeasSeries fs n,
    keys := (dedupStr (fs.flatMap (fileKeys n))).map (fun k => (k, mergeKey fs n k)) }

/-- `IndexFiles.buildSeriesIDSets`: start from the oldest file, apply the newer ones in turn. -/
def mergeSets (fs : List FileData) : List Nat × List Nat :=
  fs.reverse.foldl (fun (acc : List Nat × List Nat) f =>
      (sunion (sdiff acc.1 f.tomb) f.sset, sdiff (sunion acc.2 f.tomb) f.sset)) ([], [])

/-- `IndexFiles.CompactTo` on the contents of the files (newest first). -/
def mergeData (fs : List FileData) : FileData :=
  { mms := (dedupStr (fs.flatMap (fun f => f.mms.map (·.1)))).map (fun n => (n, mergeMeas fs n)),
    sset := (mergeSets fs).1, tomb := (mergeSets fs).2 }

/-- replace the oldest non-active log file (the last log in the list, not the head). -/
def compactOldestLog : List File → List File
  | [] => []
  | active :: rest =>
    let rec go : List File → Option (List File)
      | [] => none
      | f :: fs =>
        match go fs with
        | some fs' => some (f :: fs')
        | none =>
          if f.isLog then some ({ isLog := false, level := 1, data := compactLogData f.data } :: fs)
          else none
    active :: (go rest).getD rest

/-- `FileSet.LastContiguousIndexFilesByLevel(level)` followed by `files[len-2:]` and
    `MustReplace`, on the file list reversed (oldest first): walking from the oldest file,
    files above the level are skipped, a file below it ends the search; the first file of the
    level is merged with the next newer file if that one is of the level too. (If it is of a
    higher level the real code would select non-adjacent files and `MustReplace` would panic;
    levels are ordered along the list, so this does not arise; the model then does nothing.) -/
def mergeOldestTwo (level : Nat) : List File → Option (List File)
  | [] => none
  | b :: rest =>
    if level < b.level then (mergeOldestTwo level rest).map (b :: ·)
    else if b.level < level then none
    else
      match rest with
      | a :: rest' =>
        if a.level = level then
          some ({ isLog := false, level := level + 1, data := mergeData [a.data, b.data] } :: rest')
        else none
      | [] => none

/-- `compactToLevel` on the two oldest files of `level` (the active log file, level 0, is
    never part of it: the walk from the oldest end stops at the first file below the level). -/
def compactLevelFiles (files : List File) (level : Nat) : List File :=
  if level < 1 ∨ level > 6 then files else
  match files with
  | [] => []
  | active :: rest =>
    match mergeOldestTwo level rest.reverse with
    | some r => active :: r.reverse
    | none => files

/-- one step of what `Partition.compact` schedules: the newest non-active log file is
    compacted; if there is none, the lowest level with two selectable files is merged. -/
def compactNewestLog : List File → Option (List File)
  | [] => none
  | active :: rest =>
    let rec go : List File → Option (List File)
      | [] => none
      | f :: fs =>
        if f.isLog then some ({ isLog := false, level := 1, data := compactLogData f.data } :: fs)
        else (go fs).map (f :: ·)
    (go rest).map (active :: ·)

def settleStep (files : List File) : Option (List File) :=
  match compactNewestLog files with
  | some fs => some fs
  | none =>
    ([1, 2, 3, 4, 5, 6].find? (fun l => (mergeOldestTwo l files.tail.reverse).isSome)).map
      (fun l => compactLevelFiles files l)

/-- the partition's background compaction run to its fixpoint (what happens after `Open`,
    before the harness switches compactions off). -/
def settle : Nat → List File → List File
  | 0, files => files
  | fuel + 1, files =>
    match settleStep files with
    | some fs => settle fuel fs
    | none => files

/-- `Partition.buildSeriesSet`: oldest file first, `Diff(tombstones)` then `Merge(series)`. -/
def buildSeriesSet (fs : List FileData) : List Nat :=
  fs.reverse.foldl (fun acc f => sunion (sdiff acc f.tomb) f.sset) []

/-! ### the index -/

structure State where
  parts : List Partition := [{}]
  sf : SFile := {}
  /-- the harness's bookkeeping of "created and not dropped" (drives `dropMeasurement`) -/
  tracked : List Nat := []
  configured : Bool := false
  /-- `Index.tagValueCache`: (name, key, value) ↦ the series-id set computed by the first
      `TagValueSeriesIDIterator` call; creations add to it, `DropSeries` removes from it
      (since fix C42-tsi1-tagvalue-cache-stale-after-delete), `DropMeasurement` does not; lost on close. (Capacity 100, never reached by the 8 tuples of the generated cases.) -/
  cache : List ((String × String × String) × List Nat) := []
deriving Repr

def modifyAt (l : List α) (i : Nat) (f : α → α) : List α :=
  match l, i with
  | [], _ => []
  | x :: xs, 0 => f x :: xs
  | x :: xs, n + 1 => x :: modifyAt xs n f

/-- append entries to the active log of a partition, executing each. -/
def Partition.append (sf : SFile) (p : Partition) (es : List Entry) : Partition :=
  match p.files with
  | [] => p
  | active :: rest =>
    { p with files :=
        { active with entries := active.entries ++ es, data := es.foldl (exec sf) active.data } :: rest }

/-- every mutating operation first notes how long each active log is. -/
def markOpStart (parts : List Partition) : List Partition :=
  parts.map (fun p => { p with opStart := (p.files.head?.map (·.entries.length)).getD 0 })

/-- `Index.DropSeries`, cache part (after fix C42-tsi1-tagvalue-cache-stale-after-delete: done
    whatever `cascade` is): the id is removed from the cached set of each of its tag pairs. -/
def cacheDel (c : List ((String × String × String) × List Nat)) (name : String) (tags : Tags) (id : Nat) :
    List ((String × String × String) × List Nat) :=
  c.map (fun e =>
    if e.1.1 = name ∧ tags.any (fun kv => kv.1 = e.1.2.1 ∧ kv.2 = e.1.2.2) then (e.1, sdel e.2 id) else e)

/-- `Index.DropSeries(id, key, cascade=false)` → `Partition.DropSeries`, then the cache update. -/
def dropSeriesIndex (st : State) (s : SeriesInfo) : State :=
  { st with
    parts := modifyAt st.parts s.part (fun p =>
      let p' := p.append st.sf [Entry.delSeries s.id]
      { p' with sset := sdel p'.sset s.id }),
    tracked := sdel st.tracked s.id,
    cache := cacheDel st.cache s.name s.tags s.id }

/-- `Index.DropMeasurementIfSeriesNotExist(name)`. -/
def dropMeasurementIfNoSeries (st : State) (name : String) : State :=
  if st.parts.any (fun p => fsHasSeries p.datas p.sset name) then st
  else { st with parts := st.parts.map (fun p => p.append st.sf (dropMeasurementEntries p.datas name)) }

def Partition.reopen (sf : SFile) (p : Partition) : Partition :=
  let files := p.files.map (fun f => if f.isLog then { f with data := replay sf f.entries } else f)
  { p with files := settle (8 * files.length + 8) files, sset := buildSeriesSet (files.map (·.data)) }

def cacheGet (c : List ((String × String × String) × List Nat)) (k : String × String × String) :
    Option (List Nat) :=
  (c.find? (fun e => e.1 = k)).map (·.2)

/-- `Index.CreateSeriesListIfNotExists`, cache part: if the measurement has cached sets, the new
    id is added to the cached set of each of its tag pairs that has one (`addToSet`). -/
def cacheAdd (c : List ((String × String × String) × List Nat)) (name : String) (tags : Tags) (id : Nat) :
    List ((String × String × String) × List Nat) :=
  c.map (fun e =>
    if e.1.1 = name ∧ tags.any (fun kv => kv.1 = e.1.2.1 ∧ kv.2 = e.1.2.2) then (e.1, sadd e.2 id) else e)

def tagsOK (tags : Tags) : Bool :=
  tags.all (fun kv => kv.1 ≠ "" ∧ kv.2 ≠ "") &&
    (tags.map (·.1)).Pairwise (· < ·)

def step (st : State) : Op → State × Obs
  | .cfg n =>
    if st.configured ∨ (n ≠ 1 ∧ n ≠ 8) then (st, .rejected)
    else ({ st with parts := List.replicate n {}, configured := true }, .ok)
  | .create id part name tags =>
    if part ≥ st.parts.length ∨ name = "" ∨ !tagsOK tags ∨ id = 0 then (st, .rejected) else
    -- the id the series file returns: the live series with this key, else a fresh one
    let idOK := match st.sf.findKey name tags with
      | some s => s.id = id ∧ s.part = part
      | none => (st.sf.find id).isNone
    if !idOK then (st, .rejected) else
    let sf := if (st.sf.find id).isSome then st.sf
      else { st.sf with known := st.sf.known ++ [{ id := id, name := name, tags := tags, part := part }] }
    let parts := markOpStart st.parts
    let isNew := !((st.parts[part]?.map (·.sset.contains id)).getD true)
    let parts := modifyAt parts part (fun p =>
      if p.sset.contains id then p
      else
        let p' := p.append sf [Entry.add id]
        { p' with sset := sadd p'.sset id })
    ({ st with parts := parts, sf := sf, tracked := sadd st.tracked id, configured := true,
               cache := if isNew then cacheAdd st.cache name tags id else st.cache }, .ok)
  | .dropSeries id =>
    match st.sf.find id with
    | none => (st, .rejected)
    | some s =>
      let st := { st with parts := markOpStart st.parts, configured := true }
      let st := dropMeasurementIfNoSeries (dropSeriesIndex st s) s.name
      ({ st with sf := { st.sf with deleted := sadd st.sf.deleted id } }, .ok)
  | .dropSeriesIndexOnly id =>
    match st.sf.find id with
    | none => (st, .rejected)
    | some s =>
      let st := { st with parts := markOpStart st.parts, configured := true }
      (dropMeasurementIfNoSeries (dropSeriesIndex st s) s.name, .ok)
  | .dropMeasurement name =>
    let ss := (sortNat st.tracked).filterMap (fun id =>
      (st.sf.find id).bind (fun s => if s.name = name then some s else none))
    let st := { st with parts := markOpStart st.parts, configured := true }
    let st := ss.foldl dropSeriesIndex st
    let st := dropMeasurementIfNoSeries st name
    ({ st with sf := { st.sf with deleted := ss.foldl (fun d s => sadd d s.id) st.sf.deleted } }, .ok)
  | .dropMeasurementIndexOnly name =>
    let ss := (sortNat st.tracked).filterMap (fun id =>
      (st.sf.find id).bind (fun s => if s.name = name then some s else none))
    let st := { st with parts := markOpStart st.parts, configured := true }
    let st := ss.foldl dropSeriesIndex st
    (dropMeasurementIfNoSeries st name, .ok)
  | .roll p =>
    if p ≥ st.parts.length then (st, .rejected) else
    ({ st with parts := modifyAt st.parts p (fun q => { q with files := newLog :: q.files, opStart := 0 }),
               configured := true }, .ok)
  | .compactLog p =>
    if p ≥ st.parts.length then (st, .rejected) else
    ({ st with parts := modifyAt st.parts p (fun q => { q with files := compactOldestLog q.files }),
               configured := true }, .ok)
  | .compactLevel p level =>
    if p ≥ st.parts.length then (st, .rejected) else
    ({ st with parts := modifyAt st.parts p (fun q => { q with files := compactLevelFiles q.files level }),
               configured := true }, .ok)
  | .reopen => ({ st with parts := st.parts.map (·.reopen st.sf), configured := true, cache := [] }, .ok)
  | .crash p k _ =>
    if p ≥ st.parts.length then (st, .rejected) else
    let parts := modifyAt st.parts p (fun q =>
      match q.files with
      | [] => q
      | active :: rest => { q with files := { active with entries := active.entries.take (q.opStart + k) } :: rest })
    ({ st with parts := parts.map (·.reopen st.sf), configured := true, cache := [] }, .ok)
  | .measurements =>
    (st, .names (sortStr (st.parts.flatMap (fun p => fsMeasurements p.datas))))
  | .tagKeys name =>
    (st, .names (sortStr (st.parts.flatMap (fun p => fsTagKeys p.datas name))))
  | .tagValues name key =>
    (st, .names (sortStr (st.parts.flatMap (fun p => fsTagValues p.datas name key))))
  | .measurementSeries name =>
    (st, .ids (sortNat ((st.parts.flatMap (fun p => fsMeasSeries p.datas name)).filter
      (fun id => !st.sf.isDeleted id))))
  | .tagKeySeries name key =>
    (st, .ids (sortNat ((st.parts.flatMap (fun p => fsKeySeries p.datas name key)).filter
      (fun id => !st.sf.isDeleted id))))
  | .tagValueSeries name key value =>
    -- Index.TagValueSeriesIDIterator: the cached set if there is one, else computed and cached
    let raw := match cacheGet st.cache (name, key, value) with
      | some ids => ids
      | none => sortNat (st.parts.flatMap (fun p => fsValSeries p.datas name key value))
    let st' := if (cacheGet st.cache (name, key, value)).isSome then st
      else { st with cache := ((name, key, value), raw) :: st.cache }
    (st', .ids (sortNat (raw.filter (fun id => !st.sf.isDeleted id))))

def run : State → List Op → List (Op × Obs)
  | _, [] => []
  | st, op :: rest => let (st', o) := step st op; (op, o) :: run st' rest

end Influx.Model.TSI
