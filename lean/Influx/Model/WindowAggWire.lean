/-
  Influx.Model.WindowAggWire — the textual encoding of values, points, arrays and
  shard shapes shared by the C20 / C21 / C41 drivers (core-only; no theorem uses it).
    value  : `f<16 hex>` float bits, `i<dec>`, `u<dec>`, `x<hex>` string (kept as hex), `b0|b1`
    array  : `<ts>:<val>,…`          arrays: joined by `|`
    shape  : shards separated by a slash, each a comma list of array lengths
             (a dash = a shard without cursor, `0` = a shard whose cursor is empty)
-/
import Influx.Proto
import Influx.Model.WindowAggVal

namespace Influx.WindowAgg.Wire
open Influx.Proto Influx.WindowAgg

def parseVal (s : String) : Option Val :=
  match s.toList with
  | 'f' :: r => (hex64 (String.ofList r)).map fun n => .f (UInt64.ofNat n)
  | 'i' :: r => (String.ofList r).toInt?.map .i
  | 'u' :: r => (String.ofList r).toNat?.map .u
  | 'x' :: r => (hexDecode (if r.isEmpty then "-" else String.ofList r)).map fun _ => .s (String.ofList r)   -- strings stay hex
  | ['b', '0'] => some (.b false)
  | ['b', '1'] => some (.b true)
  | _ => none

def showVal : Val → String
  | .f b => "f" ++ toHex64 b.toNat
  | .i v => "i" ++ toString v
  | .u v => "u" ++ toString v
  | .s x => "x" ++ x
  | .b x => if x then "b1" else "b0"

def typOf : Val → Typ
  | .f _ => .f | .i _ => .i | .u _ => .u | .s _ => .s | .b _ => .b

/-- shards separated by a slash, a dash for an empty shard: `3,2 / - / 4` ↦ [[3,2],[],[4]] -/
def parseShape (s : String) : Option (List (List Nat)) :=
  (s.splitOn "/").mapM parseNats

/-- cut `pts` into arrays of the given lengths; `none` unless the lengths add up and are positive -/
def cut {β} : List Nat → List β → Option (List (List β) × List β)
  | [], pts => some ([], pts)
  | n :: ns, pts =>
    if n = 0 then cut ns pts          -- `0`: a shard whose cursor is empty (no array)
    else if pts.length < n then none
    else (cut ns (pts.drop n)).map fun (cs, r) => (pts.take n :: cs, r)

def cutShards {β} : List (List Nat) → List β → Option (List (List (List β)))
  | [], pts => if pts.isEmpty then some [] else none
  | sh :: shs, pts =>
    match cut sh pts with
    | none => none
    | some (cs, r) => (cutShards shs r).map (cs :: ·)

def sortedTs : List Int → Bool
  | a :: b :: r => decide (a ≤ b) && sortedTs (b :: r)
  | _ => true

def showArr (a : List (Pt Val)) : String :=
  ",".intercalate (a.map fun p => toString p.1 ++ ":" ++ showVal p.2)

def showArrs (as : List (List (Pt Val))) : String :=
  if as.isEmpty then "ok -" else "ok " ++ "|".intercalate (as.map showArr)

def parsePt (s : String) : Option (Pt Val) :=
  match s.splitOn ":" with
  | [t, v] => do
    let t ← t.toInt?
    let v ← parseVal v
    some (t, v)
  | _ => none

def parseArrs (s : String) : Option (List (List (Pt Val))) :=
  if s = "ok -" then some []
  else match s.splitOn " " with
    | ["ok", body] => (body.splitOn "|").mapM fun a => (a.splitOn ",").mapM parsePt
    | _ => none


end Influx.WindowAgg.Wire
