/-
  Influx.Model.Reads — storage/reads: the multi-shard array cursor, the value filter
  cursor, the filtered result set and the group result set, over the rows a series
  cursor yields.

  Go sources:
    storage/reads/array_cursor.go       newMultiShardArrayCursors ([start,end) → [start,end-1]),
                                        multiShardArrayCursors.createCursor
    storage/reads/array_cursor.gen.go   *{T}MultiShardArrayCursor.Next / nextArrayCursor,
                                        *{T}ArrayFilterCursor.Next
    storage/reads/influxql_eval.go      evalBinaryExpr (value comparison `$ op literal`)
    storage/reads/resultset.go          resultSet.Next / Cursor / Tags
    storage/reads/group_resultset.go    NewGroupResultSet, groupBySort, groupNoneSort,
                                        groupByNextGroup, groupNoneNextGroup, seriesHasPoints
    storage/reads/keymerger.go          KeyMerger.MergeTagKeys

  Byte strings (tag keys, tag values, sort keys) are carried as lower-case hex strings:
  hex encoding preserves byte-lexicographic order and concatenation, so `<` on the hex
  strings is `bytes.Compare`.

  A shard is what its cursor iterator would return for the series+field: no cursor at
  all (`hasCursor = false`), or a cursor whose arrays — restricted by the storage engine
  to the *inclusive* request range — are `Shard.arrays lo hi` (the cursor contract; the
  harness' mock shards implement exactly this).

  Abstractions (each compared with the real code on every run):
  * a cursor is represented by the list of arrays its `Next()` returns until the first
    empty array;
  * the filter cursor's loop is summarised as "matching points, in blocks of
    MaxPointsPerBlock" (`reblock`);
  * `sort.Slice` (not stable) in groupBySort is a stable sort here; observations are
    compared up to the order of the series inside one group.
-/
import Influx.Model.WindowAggVal

namespace Influx.Reads
open Influx.WindowAgg (Val Typ Pt)

inductive CmpOp where | eq | ne | lt | le | gt | ge
deriving DecidableEq, Repr

/-- a value condition `$ <op> <literal>` (SeriesRow.ValueCond) -/
structure Cond where
  op : CmpOp
  lit : Val
deriving DecidableEq, Repr

def cmpF (op : CmpOp) (a b : Float) : Bool :=
  match op with
  | .eq => a == b | .ne => a != b | .lt => a < b | .le => a ≤ b | .gt => a > b | .ge => a ≥ b

def cmpI (op : CmpOp) (a b : Int) : Bool :=
  match op with
  | .eq => a == b | .ne => a != b | .lt => a < b | .le => a ≤ b | .gt => a > b | .ge => a ≥ b

def i2f (x : Int) : Float := (Int64.ofInt x).toFloat

/-- `evalBinaryExpr` with `lhs` the field value and `rhs` a float or integer literal.
    There is no `case uint64` (nor a numeric comparison for string/bool): the
    expression evaluates to nil, `EvalExprBool` to false. -/
def Cond.eval (c : Cond) (v : Val) : Bool :=
  match v, c.lit with
  | .f x, .f y => cmpF c.op (Float.ofBits x) (Float.ofBits y)
  | .f x, .i y => cmpF c.op (Float.ofBits x) (i2f y)
  | .i x, .f y => cmpF c.op (i2f x) (Float.ofBits y)
  | .i x, .i y => cmpI c.op x y
  | _, _ => false

structure Shard where
  typ : Typ
  hasCursor : Bool
  chunks : List (List (Pt Val))
deriving Repr

/-- a row of the series cursor -/
structure Row where
  /-- `SeriesRow.Tags`: (key, value), sorted by key -/
  tags : List (String × String)
  cond : Option Cond
  shards : List Shard
deriving Repr

def inRange (lo hi : Int) (p : Pt Val) : Bool := decide (lo ≤ p.1) && decide (p.1 ≤ hi)

/-- what the shard's cursor returns for the inclusive range `[lo, hi]` -/
def Shard.arrays (sh : Shard) (lo hi : Int) : List (List (Pt Val)) :=
  (sh.chunks.map (·.filter (inRange lo hi))).filter (fun a => !a.isEmpty)

/-- `xs` in blocks of `B` (`B ≥ 1`) -/
def blocks {β : Type} (B : Nat) (xs : List β) : List (List β) :=
  if h : B = 0 ∨ xs = [] then [] else
    xs.take B :: blocks B (xs.drop B)
termination_by xs.length
decreasing_by
  have : xs ≠ [] := fun e => h (Or.inr e)
  have : 0 < xs.length := List.length_pos_iff.mpr this
  simp only [List.length_drop]; omega

/-- `*ArrayFilterCursor` over one shard cursor: the matching points, `B` per array -/
def reblock (B : Nat) (c : Cond) (arrs : List (List (Pt Val))) : List (List (Pt Val)) :=
  blocks B (arrs.flatten.filter (fun p => c.eval p.2))

/-- arrays one shard contributes to the row's cursor -/
def shardArrays (B : Nat) (cond : Option Cond) (lo hi : Int) (sh : Shard) : List (List (Pt Val)) :=
  match cond with
  | none => sh.arrays lo hi
  | some c => reblock B c (sh.arrays lo hi)

/-- result of reading one row -/
structure RowRead where
  arrays : List (List (Pt Val))
  /-- `MultiShardArrayCursor.Err()`: a later shard has another field type -/
  typeErr : Bool
deriving Repr

/-- `createCursor(row)` and `Next()` until the first empty array, for the request range
    `[start, stop)`.  `none`: no shard has a cursor (createCursor returns nil). -/
def readRow (B : Nat) (start stop : Int) (row : Row) : Option RowRead :=
  match row.shards.filter (·.hasCursor) with        -- nil cursors are skipped everywhere
  | [] => none
  | s0 :: rest =>
    let same := rest.takeWhile (fun s => s.typ == s0.typ)
    some { arrays := (s0 :: same).flatMap (shardArrays B row.cond start (stop - 1)),
           typeErr := same.length < rest.length }

/-- `resultSet`: every row of the series cursor once, in order -/
def readFilter (B : Nat) (start stop : Int) (rows : List Row) : List (List (String × String) × Option RowRead) :=
  rows.map fun r => (r.tags, readRow B start stop r)

/-! ### group -/

/-- `models.Tags.Get` -/
def tagGet (tags : List (String × String)) (k : String) : Option String :=
  (tags.find? (·.1 == k)).map (·.2)

/-- `seriesHasPoints`: the first array of the row's cursor is non-empty -/
def hasPoints (B : Nat) (start stop : Int) (row : Row) : Bool :=
  match readRow B start stop row with
  | some r => !r.arrays.isEmpty
  | none => false

/-- hex of NilSortLo / NilSortHi -/
def nilSort (lo : Bool) : String := if lo then "00" else "ff"

/-- the sort key of groupBySort: values (nilSort for a missing or empty value), each followed by a NUL byte -/
def sortKey (keys : List String) (nilLo : Bool) (tags : List (String × String)) : String :=
  String.join (keys.map fun k =>
    (match tagGet tags k with
     | none => nilSort nilLo
     | some v => if v.isEmpty then nilSort nilLo else v) ++ "00")

/-- merge of two sorted key lists without duplicates (`KeyMerger.MergeKeys`) -/
def mergeKeys : List String → List String → List String
  | [], ys => ys
  | xs, [] => xs
  | x :: xs, y :: ys =>
    if x < y then x :: mergeKeys xs (y :: ys)
    else if y < x then y :: mergeKeys (x :: xs) ys
    else x :: mergeKeys xs ys

def mergeTagKeys (rows : List Row) : List String :=
  rows.foldl (fun acc r => mergeKeys acc (r.tags.map (·.1))) []

section
variable {ρ κ : Type} [LT κ] [DecidableLT κ] [DecidableEq κ]

/-- insertion into a list sorted by sort key, after the elements with an equal key (stable) -/
def insertBy (k : ρ → κ) (r : ρ) : List ρ → List ρ
  | [] => [r]
  | x :: xs => if k r < k x then r :: x :: xs else x :: insertBy k r xs

def sortBy (k : ρ → κ) (rows : List ρ) : List ρ :=
  rows.foldl (fun acc r => insertBy k r acc) []

/-- runs of equal sort key (`groupByNextGroup`: `bytes.Equal(rowKey, seriesRows[j].SortKey)`) -/
def runs (k : ρ → κ) : List ρ → List (List ρ)
  | [] => []
  | r :: rs =>
    match runs k rs with
    | (x :: g) :: gs => if k r = k x then (r :: x :: g) :: gs else [r] :: (x :: g) :: gs
    | _ => [[r]]
end

structure GroupReq where
  by_ : Bool                 -- GroupBy / GroupNone
  keys : List String
  nilLo : Bool               -- GroupOptionNilSortLo
  allTime : Bool             -- HintSchemaAllTime
  start : Int
  stop : Int
deriving Repr

structure Group where
  /-- PartitionKeyVals (`none` entry = nil) ; empty for GroupNone -/
  vals : List (Option String)
  /-- Keys(): merged tag keys -/
  keys : List String
  series : List (List (String × String) × Option RowRead)
deriving Repr

/-- `NewGroupResultSet` + iteration (`Next` group by group, `Next` series by series) -/
def readGroup (B : Nat) (q : GroupReq) (rows : List Row) : List Group :=
  let live := rows.filter fun r => q.allTime || hasPoints B q.start q.stop r
  if live.isEmpty then []            -- `n == 0`: NewGroupResultSet returns nil
  else if q.by_ then
    let k := fun r : Row => sortKey q.keys q.nilLo r.tags
    (runs k (sortBy k live)).map fun g =>
      { vals := match g with
          | r :: _ => q.keys.map (tagGet r.tags)
          | [] => [],
        keys := mergeTagKeys g,
        series := readFilter B q.start q.stop g }
  else
    [{ vals := [], keys := mergeTagKeys live, series := readFilter B q.start q.stop rows }]

end Influx.Reads
