/-
  Influx.Model.LineProtocolWire — the token formats shared by the C11 and C12
  drivers (and by go/cmd/c11/lp/lp.go):

    tags     `-` | khex:vhex{,khex:vhex}
    fields   `-` | khex:f:<bits16>:<texthex> | khex:i:<dec> | khex:u:<dec> | khex:b:<0|1> | khex:s:<hex>   (op)
             the same without the float text                                                              (answer of `pt`)
             khex:<i|u|f|b|s|e>:<value|!|PANIC|ok>                                                        (answer of `pp`)
-/
import Influx.Proto
import Influx.Model.LineProtocolPoint

namespace Influx.LP.Wire
open Influx Influx.Proto Influx.LP

def hex (b : Bytes) : String := hexEncode b

def tagsStr (ts : List Tag) : String :=
  Proto.joinComma (ts.map fun t => hex t.key ++ ":" ++ hex t.value)

def parseTag (s : String) : Option Tag :=
  match s.splitOn ":" with
  | [k, v] => do some ⟨← hexDecode k, ← hexDecode v⟩
  | _ => none

def parseTags (s : String) : Option (List Tag) := (splitComma s).mapM parseTag

def parseField (s : String) : Option (Bytes × FV) :=
  match s.splitOn ":" with
  | [k, "f", bits, text] => do some (← hexDecode k, .float (← hex64 bits) (← hexDecode text))
  | [k, "i", v] => do some (← hexDecode k, .int (← v.toInt?))
  | [k, "u", v] => do some (← hexDecode k, .uint (← v.toNat?))
  | [k, "b", v] => do some (← hexDecode k, .bool (← parseBool v))
  | [k, "s", v] => do some (← hexDecode k, .str (← hexDecode v))
  | _ => none

def distinctKeys : List (Bytes × FV) → Bool
  | [] => true
  | f :: rest => !(rest.any fun g => g.1 == f.1) && distinctKeys rest

def parseFields (s : String) : Option (List (Bytes × FV)) := do
  let fs ← (splitComma s).mapM parseField
  if distinctKeys fs then some fs else none

def parseTime (s : String) : Option (Option Int) :=
  if s = "z" then some none else s.toInt?.map some

/-- the (text ↦ bits) table of the floats of an op: stands for `strconv.ParseFloat` on
    exactly the texts `strconv.FormatFloat` produced for this op -/
def floatTable (fs : List (Bytes × FV)) : List (Bytes × Nat) :=
  fs.filterMap fun f => match f.2 with | .float b t => some (t, b) | _ => none

def pvalStr (tab : List (Bytes × Nat)) : PVal → String
  | .float t => match tab.lookup t with
    | some b => "f:" ++ toHex64 b
    | none => "f:?"
  | .int v => "i:" ++ toString v
  | .uint v => "u:" ++ toString v
  | .bool b => "b:" ++ boolStr b
  | .str s => "s:" ++ hex s

def valueFieldsStr (tab : List (Bytes × Nat)) (r : Except ValErr (List (Bytes × PVal))) : String :=
  match r with
  | .error .err => "ERR"
  | .error .panic => "PANIC"
  | .ok fs => Proto.joinComma (fs.map fun f => hex f.1 ++ ":" ++ pvalStr tab f.2)

def opt (f : α → String) : Option α → String
  | some a => f a
  | none => "PANIC"

/-- `key name tags time` of a parsed point -/
def pointDesc (p : Point) : String :=
  hex p.key ++ " " ++ hex (pointName p.key) ++ " " ++ opt tagsStr (pointTags p.key) ++ " " ++ toString p.time

def errHex : Option Bytes → String
  | none => "nil"
  | some e => hex e

def iterFieldStr (f : RawField) : String :=
  hex f.key ++ ":" ++
  match f.typ, fieldValue f with
  | .empty, _ => "e:"
  | .integer, some (.ok (.int v)) => "i:" ++ toString v
  | .integer, _ => "i:!"
  | .unsigned, some (.ok (.uint v)) => "u:" ++ toString v
  | .unsigned, _ => "u:!"
  | .float, some (.ok _) => "f:ok"
  | .float, _ => "f:!"
  | .boolean, some (.ok (.bool b)) => "b:" ++ boolStr b
  | .boolean, _ => "b:!"
  | .string, some (.ok (.str s)) => "s:" ++ hex s
  | .string, _ => "s:PANIC"

def iterFieldsStr (fields : Bytes) : String :=
  Proto.joinComma ((iterFields (fields.length + 1) fields).map iterFieldStr)

def validPrec (s : String) : Bool :=
  ["n", "ns", "u", "us", "ms", "s", "m", "h", "x"].contains s

end Influx.LP.Wire
