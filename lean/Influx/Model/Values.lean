/-
  Influx.Model.Values — L1: the sorted (timestamp, value) array algebra, written
  from the code as it is, for ONE value type parameterised over the payload `V`.

  Go sources (both are template instantiations, identical up to the payload type):
    tsdb/engine/tsm1/encoding.gen.go   `Values`, `FloatValues`, `IntegerValues`,
        `UnsignedValues`, `StringValues`, `BooleanValues`:
        Deduplicate, Exclude, Include, search, FindRange, Merge        (family `tsm1`)
    tsdb/cursors/arrayvalues.gen.go    `FloatArray` … `BooleanArray`:
        search, FindRange, Exclude, Include, Merge (in place)           (family `cursors`)

  Timestamps are `Int`: the functions only *compare* timestamps (no arithmetic on
  them), so every theorem holds for all integers, in particular for every int64
  including MinInt64/MaxInt64.  Slice indices are `Nat` (`uint(lo+hi) >> 1`
  cannot overflow for a real slice).  Where Go would panic (slice bounds out of
  range, only reachable on unsorted input) the model returns `none`; the model
  assumes `cap(a) = len(a)` there (the harness allocates exactly).
-/
namespace Influx.Values

abbrev TS := Int  -- documentation only; signatures below say `Int` so that `omega` sees through
abbrev Pt (V : Type) := Int × V

variable {V : Type}

/-! ### search / FindRange -/

/-- `search`: the loop `for lo < hi { mid := int(uint(lo+hi) >> 1); if a[mid] < v { lo = mid+1 } else { hi = mid } }`. -/
def searchLoop (a : List (Pt V)) (v : Int) (lo hi : Nat) (h : hi ≤ a.length) : Nat :=
  if hlt : lo < hi then
    let mid := (lo + hi) / 2
    if (a[mid]'(by omega)).1 < v then searchLoop a v (mid + 1) hi h
    else searchLoop a v lo mid (by omega)
  else lo
termination_by hi - lo

/-- `(a Values) search(v)` / `(a *Array) search(v)`. -/
def search (a : List (Pt V)) (v : Int) : Nat := searchLoop a v 0 a.length (Nat.le_refl _)

/-- `FindRange(min, max)`; `none` is Go's `(-1, -1)`. -/
def findRange (a : List (Pt V)) (mn mx : Int) : Option (Nat × Nat) :=
  match a.head?, a.getLast? with
  | some f, some l =>
    if mn > mx then none
    else if l.1 < mn ∨ f.1 > mx then none
    else some (search a mn, search a mx)
  | _, _ => none

/-- `if rmax < len(a) && a[rmax].UnixNano() == max { rmax++ }` -/
def bumpMax (a : List (Pt V)) (mx : Int) (rmax : Nat) : Nat :=
  if h : rmax < a.length then (if a[rmax].1 = mx then rmax + 1 else rmax) else rmax

/-- `Exclude(min, max)`: `none` = slice bounds panic (unsorted input only). -/
def exclude (a : List (Pt V)) (mn mx : Int) : Option (List (Pt V)) :=
  match findRange a mn mx with
  | none => some a
  | some (rmin, rmax) =>
    if rmax < a.length then
      let rmax' := bumpMax a mx rmax
      let rest := a.length - rmax'
      if rest > 0 then
        -- b := a[:rmin+rest]; copy(b[rmin:], a[rmax:])
        if rmin + rest ≤ a.length then some (a.take rmin ++ a.drop rmax') else none
      else some (a.take rmin)
    else some (a.take rmin)

/-- `Include(min, max)`: `none` = slice bounds panic (unsorted input only). -/
def «include» (a : List (Pt V)) (mn mx : Int) : Option (List (Pt V)) :=
  match findRange a mn mx with
  | none => some []
  | some (rmin, rmax) =>
    let rmax' := bumpMax a mx rmax
    -- b := a[:rmax-rmin]; copy(b, a[rmin:rmax])
    if rmin ≤ rmax' then some ((a.drop rmin).take (rmax' - rmin)) else none

/-! ### Deduplicate (tsm1 family only) -/

/-- the "already sorted and deduped" scan: no `a[i-1] >= a[i]`. -/
def strictAsc : List (Pt V) → Bool
  | [] => true
  | [_] => true
  | x :: y :: r => decide (x.1 < y.1) && strictAsc (y :: r)

/-- stable insertion: `x` (which preceded every element of the list in the
    original order) goes before the first element whose key is not smaller. -/
def insertStable (x : Pt V) : List (Pt V) → List (Pt V)
  | [] => [x]
  | y :: r => if x.1 ≤ y.1 then x :: y :: r else y :: insertStable x r

/-- `sort.Stable(a)` under `Less(i,j) = a[i].ts < a[j].ts`.  A stable sort is a
    function of its input (keys ascending, ties in original order), so any
    stable algorithm denotes the same list; insertion sort is the simplest. -/
def stableSort : List (Pt V) → List (Pt V)
  | [] => []
  | x :: r => insertStable x (stableSort r)

/-- the compaction loop `for j := 1..; if a[j].ts != a[i].ts { i++ }; a[i] = a[j]`:
    `cur` is `a[i]`, the list is `a[j:]`; returns `a[i:i'+1]` of the final array. -/
def compact (cur : Pt V) : List (Pt V) → List (Pt V)
  | [] => [cur]
  | v :: r => if v.1 ≠ cur.1 then cur :: compact v r else compact v r

/-- `Deduplicate()`. -/
def dedup (a : List (Pt V)) : List (Pt V) :=
  if a.length ≤ 1 then a
  else if strictAsc a then a
  else match stableSort a with
    | [] => []
    | x :: r => compact x r

/-! ### Merge -/

/-- tsm1 merge loop: on equal timestamps `a = a[1:]` (b's value is emitted by a later iteration). -/
def mergeLoopV : List (Pt V) → List (Pt V) → List (Pt V)
  | [], b => b
  | x :: a, [] => x :: a
  | x :: a, y :: b =>
    if x.1 < y.1 then x :: mergeLoopV a (y :: b)
    else if x.1 = y.1 then mergeLoopV a (y :: b)
    else y :: mergeLoopV (x :: a) b
termination_by a b => a.length + b.length

/-- cursors merge loop: on equal timestamps b's element is written and both advance. -/
def mergeLoopA : List (Pt V) → List (Pt V) → List (Pt V)
  | [], b => b
  | x :: a, [] => x :: a
  | x :: a, y :: b =>
    if x.1 < y.1 then x :: mergeLoopA a (y :: b)
    else if x.1 = y.1 then y :: mergeLoopA a b
    else y :: mergeLoopA (x :: a) b
termination_by a b => a.length + b.length

/-- the part of `Merge` after the emptiness checks (and, for tsm1, after Deduplicate). -/
def mergeCore (loop : List (Pt V) → List (Pt V) → List (Pt V)) (a b : List (Pt V)) : List (Pt V) :=
  match a.head?, a.getLast?, b.head?, b.getLast? with
  | some a0, some aN, some b0, some bN =>
    if aN.1 < b0.1 then a ++ b
    else if bN.1 < a0.1 then b ++ a
    else loop a b
  | _, _, _, _ => loop a b

/-- `(a Values) Merge(b)` (tsm1 family). -/
def mergeV (a b : List (Pt V)) : List (Pt V) :=
  if a.isEmpty then b
  else if b.isEmpty then a
  else mergeCore mergeLoopV (dedup a) (dedup b)

/-- `(a *Array) Merge(b)` (cursors family; no Deduplicate — it is commented out in the code). -/
def mergeA (a b : List (Pt V)) : List (Pt V) :=
  if a.isEmpty then b
  else if b.isEmpty then a
  else mergeCore mergeLoopA a b

end Influx.Values
