/-
  Model.HLL — `/repo/pkg/estimator/hll/hll.go` + `compressed.go` (HyperLogLog++ `Plus`).

  Written from the code as it is.  What is abstracted, and how it is justified:

  * `Plus.hash` (xxhash) is not modelled: `add` takes the 64-bit hash value (the
    harness installs an identity "hash" through the hook `VerifSetHash`).
  * `tmpSet` (a Go map used as a set) is a sorted duplicate-free list; the code
    only ever sorts its keys (`mergeSparse`) or takes a maximum over them (`Merge`).
  * `compressedList` is kept as the list of appended values `sparseVals`; its
    byte form (delta + varint, `variableLengthList`) is produced by `encodeVals`
    where the code needs bytes (`Len()` = byte length in `Add`, `MarshalBinary`)
    and read by `decodeVals` (`UnmarshalBinary`, the iterator);
    `Influx.Lemmas.HLL.decodeVals_encodeVals` proves decode ∘ encode = id on
    ascending 32-bit lists, which is what identifies the iterator with `sparseVals`.
  * `Count` is floating point (`math.Log`, `math.Pow`): not modelled; only its
    side effect (`mergeSparse` on a sparse sketch) is.
-/
namespace Influx.Model.HLL

/-- `pp := uint8(25)` in `NewPlus` -/
def pp : Nat := 25

structure Plus where
  p : Nat
  sparse : Bool
  tmpSet : List Nat          -- sorted ascending, no duplicates
  sparseVals : List Nat      -- ascending (append order)
  sparseBytes : Nat          -- `sparseList.Len()`: byte length of the varint coding of `sparseVals`
  dense : Array Nat          -- `denseList`; empty while sparse
deriving Repr

def Plus.m (h : Plus) : Nat := 2 ^ h.p

def u64 (x : Nat) : Nat := x % 2 ^ 64
def u32 (x : Nat) : Nat := x % 2 ^ 32

/-- `bits.Len64` / `bits.Len32` -/
def bitLen (x : Nat) : Nat := if x = 0 then 0 else Nat.log2 x + 1
/-- `bits.LeadingZeros64(x) = 64 - Len64(x)` for `x < 2^64` -/
def clz64 (x : Nat) : Nat := 64 - bitLen x
def clz32 (x : Nat) : Nat := 32 - bitLen x

/-- `bextr(v, start, length) = (v >> start) & ((1 << length) - 1)` -/
def bextr (v start length : Nat) : Nat := (v >>> start) &&& (2 ^ length - 1)

/-- `NewPlus(p)`: `none` = "precision must be between 4 and 18" -/
def newPlus (p : Nat) : Option Plus :=
  if p > 18 ∨ p < 4 then none
  else some { p := p, sparse := true, tmpSet := [], sparseVals := [], sparseBytes := 0, dense := #[] }

/-! ### hash coding -/

/-- `encodeHash(x)` for a 64-bit hash -/
def encodeHash (p x : Nat) : Nat :=
  let idx := u32 (bextr x (64 - pp) pp)
  if bextr x (64 - pp) (pp - p) = 0 then
    let zeros := clz64 (u64 ((bextr x 0 (64 - pp)) <<< pp) ||| (2 ^ pp - 1)) + 1
    u32 (idx <<< 7) ||| u32 (zeros <<< 1) ||| 1
  else u32 (idx <<< 1)

/-- `getIndex(k)` -/
def getIndex (p k : Nat) : Nat :=
  if k &&& 1 = 1 then bextr k (32 - p) p else bextr k (pp - p + 1) p

/-- `decodeHash(k)` = (index, rho) -/
def decodeHash (p k : Nat) : Nat × Nat :=
  let r :=
    if k &&& 1 = 1 then (bextr k 1 6 + pp - p) % 256
    else (clz32 (u32 (k <<< (32 - pp + p - 1))) + 1) % 256
  (getIndex p k, r)

/-- the dense branch of `Add`: (index, rho) of a hash -/
def denseIdxRho (p x : Nat) : Nat × Nat :=
  let i := bextr x (64 - p) p
  let w := u64 (x <<< p) ||| (2 ^ (p - 1))
  (i, (clz64 w + 1) % 256)

/-! ### the compressed list: delta + varint -/

/-- `variableLengthList.Append(x)`: the bytes appended for one 32-bit delta.
    `for x&0xffffff80 != 0 { append((x&0x7f)|0x80); x >>= 7 }; append(x&0x7f)` — for a `uint32` the
    loop body runs at most 4 times (28 bits), which is the fuel. -/
def varintGo : Nat → Nat → List Nat
  | 0, x => [x &&& 0x7f]
  | fuel + 1, x =>
    if x &&& 0xffffff80 ≠ 0 then ((x &&& 0x7f) ||| 0x80) :: varintGo fuel (x >>> 7) else [x &&& 0x7f]

def varint (x : Nat) : List Nat := varintGo 4 x

/-- bytes of `compressedList.b` after appending `vals` in order, starting from `last` -/
def encodeVals : Nat → List Nat → List Nat
  | _, [] => []
  | last, x :: xs => varint (u32 (x + 2 ^ 32 - last)) ++ encodeVals x xs

/-- `variableLengthList.decode(i, last)` on the remaining bytes: (delta, rest); `none` = index out of range -/
def decodeVarint : List Nat → Nat → Option (Nat × List Nat)
  | [], _ => none
  | b :: bs, shift =>
    if b &&& 0x80 ≠ 0 then
      match decodeVarint bs (shift + 7) with
      | some (x, rest) => some (u32 ((b &&& 0x7f) <<< shift) ||| x, rest)
      | none => none
    else some (u32 (b <<< shift), bs)

/-- the iterator: all values of a byte list (`fuel` ≥ number of bytes) -/
def decodeVals : Nat → List Nat → Nat → Option (List Nat)
  | _, [], _ => some []
  | 0, _ :: _, _ => none
  | fuel + 1, bs, last =>
    match decodeVarint bs 0 with
    | none => none
    | some (d, rest) =>
      let v := u32 (d + last)
      match decodeVals fuel rest v with
      | some vs => some (v :: vs)
      | none => none

def byteLen (vals : List Nat) : Nat := (encodeVals 0 vals).length

/-! ### sparse maintenance -/

def insertSorted (k : Nat) : List Nat → List Nat
  | [] => [k]
  | a :: as => if k < a then k :: a :: as else if k = a then a :: as else a :: insertSorted k as

/-- the merge loop of `mergeSparse` over the iterator values and the sorted keys
    (`fuel` ≥ the number of loop iterations = at most the two lengths together) -/
def mergeLoopGo : Nat → List Nat → List Nat → List Nat
  | _, [], keys => keys
  | _, vals, [] => vals
  | 0, vals, keys => vals ++ keys            -- not reached
  | fuel + 1, x1 :: vs, x2 :: ks =>
    if x1 = x2 then x1 :: mergeLoopGo fuel vs ks
    else if x1 > x2 then x2 :: mergeLoopGo fuel (x1 :: vs) ks
    else x1 :: mergeLoopGo fuel vs (x2 :: ks)

def mergeLoop (vals keys : List Nat) : List Nat := mergeLoopGo (vals.length + keys.length) vals keys

/-- `mergeSparse` -/
def mergeSparse (h : Plus) : Plus :=
  if h.tmpSet.isEmpty then h
  else
    let nl := mergeLoop h.sparseVals h.tmpSet
    { h with sparseVals := nl, sparseBytes := byteLen nl, tmpSet := [] }

def regMax (regs : Array Nat) (ir : Nat × Nat) : Array Nat :=
  if h : ir.1 < regs.size then (if regs[ir.1] < ir.2 then regs.set ir.1 ir.2 else regs) else regs

/-- `toNormal` (panics in Go if an index were out of range — it cannot be, `regMax` then leaves the
    array unchanged) -/
def toNormal (h : Plus) : Plus :=
  let h := if h.tmpSet.isEmpty then h else mergeSparse h
  let regs := h.sparseVals.foldl (fun r k => regMax r (decodeHash h.p k)) (Array.replicate h.m 0)
  { h with dense := regs, sparse := false, tmpSet := [], sparseVals := [], sparseBytes := 0 }

/-- sparse `Add`, step 1: `h.tmpSet.add(h.encodeHash(x))` -/
def addTmp (h : Plus) (x : Nat) : Plus := { h with tmpSet := insertSorted (encodeHash h.p x) h.tmpSet }
/-- step 2: `if uint32(len(h.tmpSet))*100 > h.m { h.mergeSparse() }` -/
def addMerge (h : Plus) : Plus := if h.tmpSet.length * 100 > h.m then mergeSparse h else h
/-- step 3: `if uint32(h.sparseList.Len()) > h.m { h.mergeSparse(); h.toNormal() }` -/
def addNormal (h : Plus) : Plus := if h.sparseBytes > h.m then toNormal (mergeSparse h) else h

/-- `Add` with the hash value `x` -/
def add (h : Plus) (x : Nat) : Plus :=
  if h.sparse then addNormal (addMerge (addTmp h x))
  else
    -- (the register array is taken out of the record first so that the update is in place)
    let d := h.dense
    let h := { h with dense := #[] }
    { h with dense := regMax d (denseIdxRho h.p x) }

/-- `Add` of a list of hashes, in order -/
def addAll (h : Plus) (xs : List Nat) : Plus := xs.foldl add h

inductive MErr where
  | precision      -- "precisions must be equal" (the receiver is unchanged)
  | size           -- register arrays of different length: the Go loop indexes out of range or stops
                   -- early; unreachable for sketches built through the API (both have 2^p registers)
deriving Repr, DecidableEq

/-- `Merge` -/
def merge (h other : Plus) : Except MErr Plus :=
  if h.p ≠ other.p then .error .precision
  else
    let h := if h.sparse then toNormal h else h
    if other.sparse then
      let r := other.tmpSet.foldl (fun r k => regMax r (decodeHash other.p k)) h.dense
      let r := other.sparseVals.foldl (fun r k => regMax r (decodeHash other.p k)) r
      .ok { h with dense := r }
    else if h.dense.size ≠ other.dense.size then .error .size
    else .ok { h with dense := Array.zipWith (fun a b => if b > a then b else a) h.dense other.dense }

/-- the side effect of `Count()` -/
def countEffect (h : Plus) : Plus := if h.sparse then mergeSparse h else h

def be32 (n : Nat) : List Nat := [(n >>> 24) % 256, (n >>> 16) % 256, (n >>> 8) % 256, n % 256]

/-- `MarshalBinary`: the (possibly `mergeSparse`d) sketch and the bytes -/
def marshal (h : Plus) : Plus × List Nat :=
  let h := if h.sparse then mergeSparse h else h
  if h.sparse then
    let tmp := be32 h.tmpSet.length ++ h.tmpSet.flatMap be32
    let last := h.sparseVals.getLast?.getD 0
    let b := encodeVals 0 h.sparseVals
    (h, [2, h.p % 256, 1] ++ tmp ++ be32 h.sparseVals.length ++ be32 last ++ be32 b.length ++ b)
  else
    (h, [2, h.p % 256, 0] ++ be32 h.dense.size ++ h.dense.toList)

def rd32 : List Nat → Option (Nat × List Nat)
  | a :: b :: c :: d :: rest => some (a * 2 ^ 24 + b * 2 ^ 16 + c * 2 ^ 8 + d, rest)
  | _ => none

def rdKeys : Nat → List Nat → Option (List Nat × List Nat)
  | 0, rest => some ([], rest)
  | n + 1, data =>
    match rd32 data with
    | none => none
    | some (k, rest) =>
      match rdKeys n rest with
      | some (ks, rest') => some (k :: ks, rest')
      | none => none

inductive UErr where
  | short | precision | malformed
deriving Repr, DecidableEq

/-- `UnmarshalBinary`.  `malformed` stands for the index-out-of-range panics of the Go code on
    truncated input; the harness only feeds well-formed data, short data and bad precisions. -/
def unmarshal (data : List Nat) : Except UErr Plus :=
  if data.length < 12 then .error .short
  else match data with
    | _ :: p :: flag :: rest =>
      match newPlus p with
      | none => .error .precision
      | some h0 =>
        if flag = 1 then
          match rd32 rest with
          | none => .error .malformed
          | some (tssz, r1) =>
            match rdKeys tssz r1 with
            | none => .error .malformed
            | some (keys, r2) =>
              match rd32 r2 with
              | none => .error .malformed
              | some (_count, r3) =>
                match rd32 r3 with
                | none => .error .malformed
                | some (_last, r4) =>
                  match rd32 r4 with
                  | none => .error .malformed
                  | some (sz, r5) =>
                    if r5.length < sz then .error .malformed
                    else
                      let b := r5.take sz
                      match decodeVals (b.length + 1) b 0 with
                      | none => .error .malformed
                      | some vals =>
                        .ok { h0 with sparse := true,
                                      tmpSet := keys.foldl (fun s k => insertSorted k s) [],
                                      sparseVals := vals, sparseBytes := b.length }
        else
          match rd32 rest with
          | none => .error .malformed
          | some (dsz, r1) =>
            if r1.length < dsz then .error .malformed
            else .ok { h0 with sparse := false, dense := (r1.take dsz).toArray }
    | _ => .error .short

/-- the register vector after `toNormal` — what a sketch "is" for the merge algebra -/
def regs (h : Plus) : Array Nat := if h.sparse then (toNormal h).dense else h.dense

end Influx.Model.HLL
