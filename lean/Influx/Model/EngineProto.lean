/-
  Model.EngineProto — the op lines of the C01/C02/C03 harness (go/cmd/c01/eng) ↔ model `Op`s
  and the rendering / parsing of answers.  Core-only (linked into the drivers).
-/
import Influx.Proto
import Influx.Model.Engine

namespace Influx.Model.Engine.LineProto
open Influx.Proto Influx.Model.Engine

def parseEntry (s : String) : Option Entry :=
  match s.splitOn ":" with
  | [a, b, c, d] => do
    let a ← a.toNat?; let b ← b.toNat?; let c ← c.toInt?; let d ← d.toInt?
    some ⟨⟨a, b⟩, c, d⟩
  | _ => none

def parseEntries (s : String) : Option Log := (s.splitOn ",").mapM parseEntry

def parseSeries (s : String) : Option (List Nat) := parseNats s

def parsePoint (s : String) : Option CPoint :=
  if s = "compact.afterWriteFiles" then some .afterWriteFiles
  else if s = "replace.afterRename" then some .afterRename
  else if s = "replace.afterRemoveOld" then some .afterRemoveOld
  else none

def validKind (s : String) : Bool := s = "lf" || s = "ls" || s = "full" || s = "opt"

/-- one op line = a list of model ops; the answer of the line is the answer of `ansIdx`-th of them -/
structure Line where
  ops : List Op
  /-- which op's observation is the line's answer -/
  ans : Nat := 0
  /-- `c` lines answer `ok <n>`, `files` lines answer `<n>` -/
  kind : String := ""

def parseLine : List String → Option Line
  | ["w", es] => do let es ← parseEntries es; some { ops := [.write es], kind := "w" }
  | ["r", s, f, lo, hi, asc] => do
    let s ← s.toNat?; let f ← f.toNat?; let lo ← lo.toInt?; let hi ← hi.toInt?; let asc ← parseBool asc
    some { ops := [.read ⟨s, f⟩ lo hi asc], kind := "r" }
  | ["d", ss, lo, hi] => do
    let ss ← parseSeries ss; let lo ← lo.toInt?; let hi ← hi.toInt?
    some { ops := [.delete ss lo hi], kind := "d" }
  | ["snap"] => some { ops := [.snapBegin, .snapTo .idle], kind := "snap" }
  | ["sb"] => some { ops := [.snapBegin], kind := "sb" }
  | ["snapfail"] => some { ops := [.snapFail], kind := "sf" }
  | ["sw"] => some { ops := [.snapTo .written], kind := "s" }
  | ["sr"] => some { ops := [.snapTo .replaced], kind := "s" }
  | ["sc"] => some { ops := [.snapTo .cleared], kind := "s" }
  | ["sx"] => some { ops := [.snapTo .idle], kind := "s" }
  | ["c", kind, i, j] => do
    let i ← i.toNat?; let j ← j.toNat?
    if validKind kind then some { ops := [.compact i j], kind := "c" } else none
  | ["files"] => some { ops := [.files], kind := "files" }
  | ["reopen"] => some { ops := [.snapTo .idle, .crash false], ans := 1, kind := "crash" }
  | ["crash", m] =>
    if m = "clean" then some { ops := [.crash false], kind := "crash" }
    else do
      let pm ← m.toNat?
      if pm < 1000 then some { ops := [.crash true], kind := "crash" } else none
  | ["ccrash", kind, i, j, pt, n] => do
    let i ← i.toNat?; let j ← j.toNat?; let pt ← parsePoint pt; let n ← n.toNat?
    if validKind kind && n ≥ 1 then some { ops := [.compactCrash i j pt n], kind := "crash" } else none
  | ["dcrash", ss, lo, hi] => do
    let ss ← parseSeries ss; let lo ← lo.toInt?; let hi ← hi.toInt?
    some { ops := [.deleteCrash ss lo hi], kind := "crash" }
  | _ => none

def showRows (r : List Pt) : String :=
  if r.isEmpty then "-" else ",".intercalate (r.map fun p => s!"{p.1}={p.2}")

def render (kind : String) : Obs → String
  | .ok => "ok"
  | .blocked => "blocked"
  | .inProgress => "err:inprogress"
  | .badGroup => "err:group"
  | .rows r => showRows r
  | .nfiles n => if kind = "c" then s!"ok {n}" else toString n
  | .failed => "err:snapshot-failed"
  | .busy => "busy"
  | .err => "err"

def parseRow (s : String) : Option Pt :=
  match s.splitOn "=" with
  | [a, b] => do let a ← a.toInt?; let b ← b.toInt?; some (a, b)
  | _ => none

/-- the implementation's answer to a line of kind `kind`, as an observation -/
def parseAns (kind : String) (a : String) : Obs :=
  if kind = "r" then
    if a = "-" then .rows []
    else match (a.splitOn ",").mapM parseRow with
      | some r => .rows r
      | none => .err
  else if kind = "c" then
    match a.splitOn " " with
    | ["ok", n] => match n.toNat? with | some n => .nfiles n | none => .err
    | _ => if a = "err:group" then .badGroup else .err
  else if kind = "files" then
    match a.toNat? with | some n => .nfiles n | none => .err
  else if a = "ok" then .ok
  else if a = "err:inprogress" then .inProgress
  else if a = "blocked" then .blocked
  else if a = "err:group" then .badGroup
  else if a = "err:snapshot-failed" then .failed
  else if a = "busy" then .busy
  else .err

/-- run a line on the model: new state and the answer -/
def stepLine (s : State) (l : Line) : State × String :=
  let (s', tr) := runFrom s l.ops
  -- `snap`: a refused begin (in progress / blocked) is the answer and nothing else happens
  match l.kind, tr with
  | "snap", (_, o) :: _ =>
    if o = .ok then (s', "ok") else ((step s .snapBegin).1, render l.kind o)
  | "sb", (_, o) :: _ =>
    -- a snapshot of an empty store is never parked by the harness: it runs to its end
    if s'.phase = .begun && s'.snap.isEmpty then ((step s' .snapStep).1, render l.kind o) else (s', render l.kind o)
  | _, _ =>
    match tr[l.ans]? with
    | some (_, o) => (s', render l.kind o)
    | none => (s', "bad-op")

def modelStep (s : State) (toks : List String) : State × String :=
  match parseLine toks with
  | some l => stepLine s l
  | none => (s, "bad-op")

/-- the typed trace of one line given the implementation's answer: the answering op carries
    the parsed answer, the other ops of the line (`snapTo` after `snap`, before `reopen`) `ok` -/
def lineTrace (l : Line) (a : String) : List (Op × Obs) :=
  let o := parseAns l.kind a
  if l.kind = "snap" && o != .ok then [(.snapBegin, o)]
  else (l.ops.zipIdx).map fun (op, i) => (op, if i = l.ans then o else .ok)

/-- the typed trace of a whole case; `none` if a line does not parse -/
def caseTrace (obs : List (List String × String)) : Option (List (Op × Obs)) :=
  (obs.mapM fun (toks, a) => (parseLine toks).map fun l => lineTrace l a).map List.flatten

end Influx.Model.Engine.LineProto
