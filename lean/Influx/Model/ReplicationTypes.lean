/-
  Influx.Model.ReplicationTypes — operations and answers of a C27 case.
-/
namespace Influx.Repl

abbrev Bytes := List Nat

/-- One scripted answer of the remote to a POST /api/v2/write. -/
structure Resp where
  /-- 0: an HTTP response; 1: the connection is closed without a response
      (network error, not a timeout); 2: no answer until the client times out -/
  kind : Nat
  status : Nat := 0
  /-- value of the `Retry-After` header, `none` = header absent -/
  retryAfter : Option String := none
deriving DecidableEq, Repr

inductive Op
  /-- a replication stream: DropNonRetryableData, max age (seconds, as configured),
      segment size of its durable queue -/
  | init (drop : Bool) (maxAgeSec : Int) (maxSeg : Nat)
  /-- `durableQueueManager.EnqueueData` -/
  | enq (b : Bytes)
  /-- one call of `replicationQueue.SendWrite`; the remote plays `script`
      (one entry per request, 204 once the script is exhausted) -/
  | send (script : List Resp)
  /-- time passes: every segment file is now older than the max age -/
  | age
  /-- the purge ticker fires -/
  | purge
  /-- look at what is still queued -/
  | dump
  /-- `writer.backoff(n)` -/
  | backoff (n : Nat)
deriving DecidableEq, Repr

inductive Ans
  | inited (maxAgeNs : Nat)
  | ok
  | err
  /-- bodies the remote received during this call, in order; the returned
      `waitForRetry` (ns), `shouldRetry`; `failedWrites` afterwards -/
  | sent (posted : List Bytes) (wait : Int) (retry : Bool) (failed : Nat)
  | dumped (rs : List Bytes)
  | dur (ns : Int)
  | notInit
deriving DecidableEq, Repr

/-! Go's `strconv.Atoi` (re-modelled from its documentation; used for the `Retry-After` value) -/

/-- decimal digits → value -/
def digitsVal : List Char → Option Nat
  | [] => none
  | cs => cs.foldl (fun acc c => match acc with
      | none => none
      | some a => if '0' ≤ c ∧ c ≤ '9' then some (a * 10 + (c.toNat - 48)) else none) (some 0)

/-- `strconv.Atoi`: optional sign, decimal digits, int64 range. -/
def atoi (s : String) : Option Int :=
  let cs := s.toList
  let (neg, ds) := match cs with
    | '-' :: t => (true, t)
    | '+' :: t => (false, t)
    | _ => (false, cs)
  match digitsVal ds with
  | none => none
  | some v =>
    if neg then (if v ≤ 2^63 then some (-(v : Int)) else none)
    else (if v < 2^63 then some (v : Int) else none)

end Influx.Repl
