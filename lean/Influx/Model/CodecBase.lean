/-
  Influx.Model.CodecBase — L2 building blocks shared by the tsm1 value codecs.

  Machine words: a `uint64` is a `Nat` below `W = 2^64` (an `int64` is its two's
  complement bit pattern, also a `Nat` below `W`); wrap-around is written out as
  `% W`.  A byte string is a `List Nat` of numbers below 256.

  Go sources:
    encoding/binary  BigEndian.PutUint64/Uint64, PutUvarint/Uvarint   (stdlib, re-modelled)
    tsdb/engine/tsm1/encoding.go  ZigZagEncode / ZigZagDecode
-/
namespace Influx.Codec

abbrev Bytes := List Nat

/-- 2^64 -/
def W : Nat := 18446744073709551616

/-- all-ones 64-bit word -/
def ones64 : Nat := 18446744073709551615

/-! ### big-endian 8-byte words -/

/-- `binary.BigEndian.PutUint64` -/
def putU64 (v : Nat) : Bytes :=
  [v / 72057594037927936 % 256, v / 281474976710656 % 256, v / 1099511627776 % 256, v / 4294967296 % 256,
   v / 16777216 % 256, v / 65536 % 256, v / 256 % 256, v % 256]

/-- `binary.BigEndian.Uint64(b[:8])` and the rest; `none` when fewer than 8 bytes remain. -/
def getU64 : Bytes → Option (Nat × Bytes)
  | b0 :: b1 :: b2 :: b3 :: b4 :: b5 :: b6 :: b7 :: rest =>
    some (b0 * 72057594037927936 + b1 * 281474976710656 + b2 * 1099511627776 + b3 * 4294967296 +
          b4 * 16777216 + b5 * 65536 + b6 * 256 + b7, rest)
  | _ => none

/-- all complete 8-byte words of a byte string and the (shorter than 8) remainder -/
def getWords : (fuel : Nat) → Bytes → List Nat × Bytes
  | 0, b => ([], b)
  | fuel + 1, b =>
    match getU64 b with
    | none => ([], b)
    | some (w, rest) => let (ws, r) := getWords fuel rest; (w :: ws, r)

def words (b : Bytes) : List Nat × Bytes := getWords b.length b

/-! ### varints -/

/-- `binary.PutUvarint` -/
def putUvarint (v : Nat) : Bytes :=
  if h : v < 128 then [v] else (v % 128 + 128) :: putUvarint (v / 128)
decreasing_by omega

/-- `binary.Uvarint`: value and remaining bytes; `none` for "buffer too small" (n == 0)
    and for overflow (n < 0: more than 10 bytes, or a 10th byte above 1).
    `x | uint64(b&0x7f) << s` is written arithmetically (the fields are disjoint). -/
def getUvarintAux : (i : Nat) → Bytes → Option (Nat × Bytes)
  | _, [] => none
  | i, b :: r =>
    if i = 10 then none
    else if b < 128 then (if i = 9 ∧ b > 1 then none else some (b, r))
    else match getUvarintAux (i + 1) r with
      | none => none
      | some (x, r') => some ((b - 128) + 128 * x, r')

def getUvarint (b : Bytes) : Option (Nat × Bytes) := getUvarintAux 0 b

/-! ### zigzag -/

/-- `ZigZagEncode(x) = uint64(x<<1) ^ uint64(x>>63)` on the bit pattern `x < 2^64`
    (`x >> 63` is the arithmetic shift: all ones for a negative `x`). -/
def zigzagEnc (x : Nat) : Nat :=
  ((x * 2) % W) ^^^ (if x ≥ 9223372036854775808 then ones64 else 0)

/-- `ZigZagDecode(v) = int64((v >> 1) ^ uint64((int64(v&1)<<63)>>63))` -/
def zigzagDec (v : Nat) : Nat :=
  (v / 2) ^^^ (if v % 2 = 1 then ones64 else 0)

/-! ### bits -/

/-- the `n` low bits of `u`, most significant first (`BitWriter.WriteBits(u, n)`) -/
def bitsOf (u : Nat) : (n : Nat) → List Bool
  | 0 => []
  | n + 1 => (u / 2 ^ n % 2 == 1) :: bitsOf u n

/-- value of a bit string, most significant first -/
def natOfBits : List Bool → Nat
  | [] => 0
  | b :: bs => (if b then 2 ^ bs.length else 0) + natOfBits bs

/-- read `n` bits; `none` at end of input (`io.EOF`) -/
def readBits (n : Nat) (bs : List Bool) : Option (Nat × List Bool) :=
  let hd := bs.take n
  if hd.length < n then none else some (natOfBits hd, bs.drop n)

def byteOfBits (bs : List Bool) : Nat := natOfBits bs

/-- pack bits into bytes, padding the last byte with zero bits (`Flush(bitstream.Zero)`) -/
def bytesOfBits : (fuel : Nat) → List Bool → Bytes
  | 0, _ => []
  | fuel + 1, bs =>
    if bs.isEmpty then []
    else byteOfBits ((bs.take 8) ++ List.replicate (8 - (bs.take 8).length) false) :: bytesOfBits fuel (bs.drop 8)

def packBits (bs : List Bool) : Bytes := bytesOfBits bs.length bs

def bitsOfBytes (b : Bytes) : List Bool := b.flatMap (fun x => bitsOf x 8)

end Influx.Codec
