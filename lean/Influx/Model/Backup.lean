/-
  Model.Backup — a shard as cache + ordered TSM files, and the backup / export /
  restore / import paths of the tsm1 engine (property C38).

  Written from the code as it is:
    tsdb/engine/tsm1/engine.go   Backup, Export, timeStampFilterTarFile,
                                 filterFileToBackup, Restore, Import, overlay,
                                 readFileFromBackup, WriteSnapshot, deleteSeriesRange
    tsdb/engine/tsm1/file_store.go  CreateSnapshot, MakeSnapshotLinks, Replace, NextGeneration
    tsdb/engine/tsm1/reader.go   batchDelete.DeleteRange, indirectIndex.DeleteRange (key removal)
    tsdb/engine/tsm1/compact.go  Compactor.WriteSnapshot / compact (output names, block size)
    pkg/tar/stream.go            Stream (WalkDir order), SinceFilterTarFile, StreamFile
    tsdb/shard.go, tsdb/store.go Backup/Export/Restore/Import wrappers

  Quirks kept on purpose (each observed on the real code through the C38 harness):
    * readFileFromBackup skips every archive entry whose name does not end in
      "tsm": tombstone files of a backup are NOT restored.
    * timeStampFilterTarFile: a TSM file that has a tombstone makes Export fail
      (it tries to stream the tombstone's base name relative to the cwd).
    * filterFileToBackup copies whole blocks that overlap the range, and fails
      with "no values written" when the file overlaps the range but no block does.
    * a file whose time range equals the export range is written twice.
  Core Lean only.
-/
import Influx.Generated.BackupConsts

namespace Influx.Backup

abbrev Key := Nat
abbrev TS := Int
abbrev Val := Int

/-- tsdb.DefaultMaxPointsPerBlock (regenerated from tsdb/config.go on every run) -/
def blockSize : Nat := Influx.Generated.BackupConsts.DefaultMaxPointsPerBlock

/-- `readFileFromBackup`: `strings.HasSuffix(hdr.Name, TSMFileExtension)` — which entry
    names Restore / Import read at all (constants regenerated from the source) -/
def restoresName (name : String) : Bool :=
  name.endsWith Influx.Generated.BackupConsts.TSMFileExtension

/-- series universe of the harness (k0..k5) -/
def nKeys : Nat := 6

/-- One TSM block = one index entry (key, MinTime, MaxTime) + its points. -/
structure Block where
  key : Key
  lo : TS
  hi : TS
  pts : List (TS × Val)
deriving Repr, DecidableEq

/-- A tombstone record of a `.tombstone` file. -/
structure Tomb where
  key : Key
  lo : TS
  hi : TS
deriving Repr, DecidableEq

/-- File modification time: explicit NANOSECONDS after the epoch (set by `os.Chtimes`;
    `time.Time.After` compares at nanosecond resolution) or "fresh"
    (written at wall-clock time, later than every `since` a case names). -/
inductive MTime
  | at (sec : Int)
  | fresh
deriving Repr, DecidableEq

/-- `f.ModTime().After(since)`; `none` is the zero `time.Time`. -/
def MTime.after : MTime → Option Int → Bool
  | _, none => true
  | .fresh, some _ => true
  | .at s, some t => decide (t < s)

structure TFile where
  gen : Nat
  seq : Nat
  mtime : MTime
  blocks : List Block
  /-- records of the tombstone file, in file order -/
  tombs : List Tomb
  /-- the tombstone file exists, with this mtime -/
  tombM : Option MTime
deriving Repr, DecidableEq

/-- cache entries, newest first -/
abbrev Cache := List (Key × TS × Val)

structure Shard where
  cache : Cache
  /-- sorted by (gen, seq): oldest first -/
  files : List TFile
  /-- FileStore.currentGeneration + 1 -/
  nextGen : Nat
  /-- series present in the index -/
  series : List Key
  /-- Cache.Size() > 0 although values were dropped without being accounted (DESIGN F4:
      `entry.deduplicate`, called by `Cache.Values` on a read, shrinks an entry that holds a
      timestamp twice without adjusting `Cache.size`; the excess stays until the next
      `Cache.Snapshot`).  Only observable here when everything else is then deleted: the
      "empty" cache still has a size, so WriteSnapshot takes the non-empty path and
      `Compactor.WriteSnapshot` consumes a generation without writing a file. -/
  residue : Bool := false
deriving Repr

def Shard.empty : Shard := { cache := [], files := [], nextGen := 1, series := [] }

/-! ## Reading -/

def Block.lookup (b : Block) (k : Key) (t : TS) : Option Val :=
  if b.key = k then b.pts.lookup t else none

def blocksLookup (bs : List Block) (k : Key) (t : TS) : Option Val :=
  bs.findSome? (fun b => b.lookup k t)

def Tomb.covers (tb : Tomb) (k : Key) (t : TS) : Bool :=
  tb.key == k && decide (tb.lo ≤ t) && decide (t ≤ tb.hi)

def TFile.tombstoned (f : TFile) (k : Key) (t : TS) : Bool :=
  f.tombs.any (fun tb => tb.covers k t)

/-- what one TSM file contributes to a read: its blocks minus its own tombstones -/
def TFile.lookup (f : TFile) (k : Key) (t : TS) : Option Val :=
  if f.tombstoned k t then none else blocksLookup f.blocks k t

/-- the same file read without its tombstone file -/
def TFile.lookupRaw (f : TFile) (k : Key) (t : TS) : Option Val :=
  blocksLookup f.blocks k t

/-- KeyCursor merge: the newest file (last in name order) that has the point wins -/
def filesLookup : List TFile → Key → TS → Option Val
  | [], _, _ => none
  | f :: rest, k, t => (filesLookup rest k t).or (f.lookup k t)

def filesLookupRaw : List TFile → Key → TS → Option Val
  | [], _, _ => none
  | f :: rest, k, t => (filesLookupRaw rest k t).or (f.lookupRaw k t)

def cacheLookup (c : Cache) (k : Key) (t : TS) : Option Val :=
  (c.find? (fun e => e.1 == k && e.2.1 == t)).map (·.2.2)

/-- the readable content of a shard: cache over files -/
def Shard.abs (s : Shard) (k : Key) (t : TS) : Option Val :=
  (cacheLookup s.cache k t).or (filesLookup s.files k t)

/-! ## Sorting helpers (own insertion sort: membership lemmas are one-liners) -/

def insertTS (a : TS) : List TS → List TS
  | [] => [a]
  | b :: l => if a < b then a :: b :: l else if a = b then b :: l else b :: insertTS a l

def sortDedup (l : List TS) : List TS := l.foldr insertTS []

def insertKey (a : Key) : List Key → List Key
  | [] => [a]
  | b :: l => if a < b then a :: b :: l else if a = b then b :: l else b :: insertKey a l

def sortKeys (l : List Key) : List Key := l.foldr insertKey []

/-- split into chunks of `n` (n > 0), fuel = length -/
def chunkAux (n : Nat) : Nat → List α → List (List α)
  | 0, _ => []
  | _, [] => []
  | fuel + 1, l => l.take n :: chunkAux n fuel (l.drop n)

def chunk (n : Nat) (l : List α) : List (List α) :=
  if n = 0 then (if l.isEmpty then [] else [l]) else chunkAux n l.length l

def minT : List (TS × Val) → TS
  | [] => 0
  | [p] => p.1
  | p :: rest => min p.1 (minT rest)

def maxT : List (TS × Val) → TS
  | [] => 0
  | [p] => p.1
  | p :: rest => max p.1 (maxT rest)

/-- a block's index entry carries the first/last timestamp of its (sorted) values;
    written as min/max so that the bounds invariant needs no sortedness argument -/
def mkBlock (k : Key) (pts : List (TS × Val)) : Block :=
  { key := k, lo := minT pts, hi := maxT pts, pts := pts }

def mkBlocks (k : Key) (pts : List (TS × Val)) : List Block :=
  (chunk blockSize pts).map (mkBlock k)

/-! ## Cache snapshot (Engine.WriteSnapshot → Compactor.WriteSnapshot) -/

def cacheKeys (c : Cache) : List Key := sortKeys (c.map (·.1))

def cacheTimes (c : Cache) (k : Key) : List TS :=
  sortDedup ((c.filter (fun e => e.1 == k)).map (·.2.1))

/-- deduplicated, sorted values of one cache key (last write wins) -/
def cachePts (c : Cache) (k : Key) : List (TS × Val) :=
  (cacheTimes c k).filterMap (fun t => (cacheLookup c k t).map (fun v => (t, v)))

def flushBlocks (c : Cache) : List Block :=
  (cacheKeys c).flatMap (fun k => mkBlocks k (cachePts c k))

/-- some (key, time) is held twice by the cache: a read of that key deduplicates its entry -/
def hasDup (c : Cache) : Bool :=
  c.any (fun e => decide ((c.filter (fun e' => e'.1 == e.1 && e'.2.1 == e.2.1)).length > 1))

/-- a read of every key of the universe through `Cache.Values` (the harness' `dump`) -/
def Shard.noteRead (s : Shard) : Shard :=
  if hasDup s.cache then { s with residue := true } else s

/-- WriteSnapshot: an empty cache writes nothing and consumes no generation — unless its
    size is not zero (`residue`): then the snapshot path runs on no values, consumes a
    generation and writes no file.
    (Compactor.writeNewFiles returns no file when the iterator has no key; a
    non-empty cache always has one, so the inner test never fires — it keeps
    "every file has a block" a one-line invariant.) -/
def Shard.flush (s : Shard) : Shard :=
  if s.cache.isEmpty then
    (if s.residue then { s with nextGen := s.nextGen + 1, residue := false } else s)
  else
  { s with
    residue := false
    cache := []
    files := s.files ++ (if (flushBlocks s.cache).isEmpty then [] else
      [{ gen := s.nextGen, seq := 1, mtime := .fresh,
         blocks := flushBlocks s.cache, tombs := [], tombM := none }])
    nextGen := s.nextGen + 1 }

/-! ## Writes -/

def writePts (k : Key) (t0 step : Int) (v0 : Int) : Nat → Cache → Cache
  | 0, c => c
  | n + 1, c =>
    -- points are applied in order i = 0..n: build recursively from the front
    writePts k (t0 + step) step (v0 + 1) n ((k, t0, v0) :: c)

def Shard.write (s : Shard) (k : Key) (t0 step : Int) (n : Nat) (v0 : Int) : Shard :=
  { s with cache := writePts k t0 step v0 n s.cache
           series := if s.series.contains k then s.series else insertKey k s.series }

/-! ## Deletes (Engine.deleteSeriesRange) -/

def TFile.keys (f : TFile) : List Key := sortKeys (f.blocks.map (·.key))

def listMin : List TS → TS
  | [] => 0
  | [a] => a
  | a :: l => min a (listMin l)

def listMax : List TS → TS
  | [] => 0
  | [a] => a
  | a :: l => max a (listMax l)

/-- TimeRange of the file index (never updated by deletes) -/
def TFile.minTime (f : TFile) : TS := listMin (f.blocks.map (·.lo))
def TFile.maxTime (f : TFile) : TS := listMax (f.blocks.map (·.hi))

def TFile.overlapsTime (f : TFile) (lo hi : TS) : Bool :=
  decide (f.minTime ≤ hi) && decide (f.maxTime ≥ lo)

/-- first entry MinTime / last entry MaxTime of one key -/
def TFile.keyMin (f : TFile) (k : Key) : TS := listMin ((f.blocks.filter (·.key == k)).map (·.lo))
def TFile.keyMax (f : TFile) (k : Key) : TS := listMax ((f.blocks.filter (·.key == k)).map (·.hi))

def insertRange (r : TS × TS) : List (TS × TS) → List (TS × TS)
  | [] => [r]
  | b :: l =>
    if r.1 < b.1 || (r.1 == b.1 && r.2 ≤ b.2) then r :: b :: l else b :: insertRange r l

/-- indirectIndex.DeleteRange's "window" test on the sorted tombstones of one key:
    `none` = a gap was found -/
def windowAux : TS × TS → TS → TS → List (TS × TS) → Option (TS × TS)
  | _, mn, mx, [] => some (mn, mx)
  | prev, mn, mx, ts :: rest =>
    if prev.2 != ts.1 - 1 && !(decide (prev.1 ≤ ts.2) && decide (prev.2 ≥ ts.1)) then none
    else windowAux ts (min mn ts.1) (max mx ts.2) rest

def window : List (TS × TS) → Option (TS × TS)
  | [] => none
  | a :: rest => windowAux a a.1 a.2 rest

/-- Has the index of the file dropped key `k` (whose entries span [kmin,kmax])
    after applying the tombstone ranges in file order?  State: recorded ranges. -/
def goneAux (kmin kmax : TS) : List (TS × TS) → List (TS × TS) → Bool
  | _, [] => false
  | rec, r :: rest =>
    if r.1 > kmax || r.2 < kmin then goneAux kmin kmax rec rest
    else if r.1 ≤ kmin && r.2 ≥ kmax then true
    else
      let rec' := insertRange r rec
      match window rec' with
      | some (mn, mx) => if mn ≤ kmin && mx ≥ kmax then true else goneAux kmin kmax rec' rest
      | none => goneAux kmin kmax rec' rest

def TFile.gone (f : TFile) (k : Key) : Bool :=
  goneAux (f.keyMin k) (f.keyMax k) [] ((f.tombs.filter (·.key == k)).map (fun tb => (tb.lo, tb.hi)))

/-- keys still present in the file's index -/
def TFile.liveKeys (f : TFile) : List Key := f.keys.filter (fun k => !f.gone k)

/-- one file's part of deleteSeriesRange: tombstone every listed key that is
    still in the index, when the file's time range overlaps -/
def TFile.deleteRange (f : TFile) (ks : List Key) (lo hi : TS) : TFile :=
  if !f.overlapsTime lo hi then f else
  let hit := f.liveKeys.filter (fun k => ks.contains k)
  if hit.isEmpty then f else
  { f with tombs := f.tombs ++ hit.map (fun k => { key := k, lo := lo, hi := hi })
           tombM := some .fresh }

def Shard.delete (s : Shard) (ks : List Key) (lo hi : TS) : Shard :=
  if !(s.files.any (fun f => f.overlapsTime lo hi)) && s.cache.isEmpty then s else
  let files := s.files.map (fun f => f.deleteRange ks lo hi)
  let cache := s.cache.filter (fun e => !(ks.contains e.1 && decide (lo ≤ e.2.1) && decide (e.2.1 ≤ hi)))
  let stillThere (k : Key) : Bool :=
    files.any (fun f => f.liveKeys.contains k) || cache.any (fun e => e.1 == k)
  { s with files := files, cache := cache
           series := s.series.filter (fun k => !ks.contains k || stillThere k) }

/-! ## Full compaction of all files -/

def filesKeys (fs : List TFile) : List Key := sortKeys (fs.flatMap (fun f => f.blocks.map (·.key)))

def filesTimes (fs : List TFile) (k : Key) : List TS :=
  sortDedup (fs.flatMap (fun f => (f.blocks.filter (·.key == k)).flatMap (fun b => b.pts.map (·.1))))

def filesPts (fs : List TFile) (k : Key) : List (TS × Val) :=
  (filesTimes fs k).filterMap (fun t => (filesLookup fs k t).map (fun v => (t, v)))

def compactBlocks (fs : List TFile) : List Block :=
  (filesKeys fs).flatMap (fun k => mkBlocks k (filesPts fs k))

def maxGenSeq : List TFile → Nat × Nat
  | [] => (0, 0)
  | f :: rest =>
    let (g, q) := maxGenSeq rest
    if f.gen > g then (f.gen, f.seq) else if f.gen = g && f.seq > q then (g, f.seq) else (g, q)

def Shard.compact (s : Shard) : Shard :=
  if s.files.isEmpty then s else
  let bs := compactBlocks s.files
  let (g, q) := maxGenSeq s.files
  { s with files := if bs.isEmpty then [] else
      [{ gen := g, seq := q + 1, mtime := .fresh, blocks := bs, tombs := [], tombM := none }] }

/-! ## `age`: os.Chtimes on every fresh file -/

def MTime.age (sec : Int) : MTime → MTime
  | .fresh => .at sec
  | m => m

def Shard.age (s : Shard) (sec : Int) : Shard :=
  { s with files := s.files.map (fun f =>
      { f with mtime := f.mtime.age sec, tombM := f.tombM.map (MTime.age sec) }) }

/-! ## Archives -/

inductive Entry
  | tsm (gen seq : Nat) (blocks : List Block)
  | tomb (gen seq : Nat)
deriving Repr, DecidableEq

abbrev Archive := List Entry

/-- Engine.Backup after its snapshot: WalkDir order (`.tombstone` sorts before
    `.tsm`), SinceFilterTarFile on each file -/
def backupEntries (since : Option Int) : List TFile → Archive
  | [] => []
  | f :: rest =>
    (match f.tombM with
      | some m => if m.after since then [Entry.tomb f.gen f.seq] else []
      | none => []) ++
    (if f.mtime.after since then [Entry.tsm f.gen f.seq f.blocks] else []) ++
    backupEntries since rest

/-- Backup = WriteSnapshot + CreateSnapshot + tar stream -/
def Shard.backup (s : Shard) (since : Option Int) : Shard × Archive :=
  let s' := s.flush
  (s', backupEntries since s'.files)

/-- block-level test of filterFileToBackup -/
def Block.overlaps (b : Block) (a e : TS) : Bool :=
  (decide (b.lo ≥ a) && decide (b.lo ≤ e)) || (decide (b.hi ≥ a) && decide (b.hi ≤ e)) ||
  (decide (b.lo ≤ a) && decide (b.hi ≥ e))

/-- file-level tests of timeStampFilterTarFile -/
def TFile.needsFilter (f : TFile) (a e : TS) : Bool :=
  let mn := f.minTime; let mx := f.maxTime
  (decide (mn ≥ a) && decide (mn ≤ e) && decide (mx > e)) ||
  (decide (mx ≥ a) && decide (mx ≤ e) && decide (mn < a)) ||
  (decide (mn ≤ a) && decide (mx ≥ e))

def TFile.inside (f : TFile) (a e : TS) : Bool :=
  decide (f.minTime ≥ a) && decide (f.maxTime ≤ e)

inductive ExportErr
  | tombstone   -- a TSM file with a tombstone: os.Open(base name) fails
  | noValues    -- filtered copy has no block: TSMWriter.WriteIndex → ErrNoValues
deriving Repr, DecidableEq

def exportEntries (a e : TS) : List TFile → Except ExportErr Archive
  | [] => .ok []
  | f :: rest =>
    if f.tombM.isSome then .error .tombstone else
    let filtered := f.blocks.filter (fun b => b.overlaps a e)
    if f.needsFilter a e && filtered.isEmpty then .error .noValues else
    match exportEntries a e rest with
    | .error x => .error x
    | .ok more =>
      .ok ((if f.needsFilter a e then [Entry.tsm f.gen f.seq filtered] else []) ++
           (if f.inside a e then [Entry.tsm f.gen f.seq f.blocks] else []) ++ more)

def Shard.export (s : Shard) (a e : TS) : Shard × Except ExportErr Archive :=
  let s' := s.flush
  (s', exportEntries a e s'.files)

/-! ## Targets: Restore / Import into a shard -/

def insertFile (f : TFile) : List TFile → List TFile
  | [] => [f]
  | g :: l =>
    if f.gen < g.gen || (f.gen == g.gen && f.seq < g.seq) then f :: g :: l
    else if f.gen == g.gen && f.seq == g.seq then f :: l      -- same name: overwritten
    else g :: insertFile f l

def blocksKeys (bs : List Block) : List Key := sortKeys (bs.map (·.key))

def addSeries (ser : List Key) (ks : List Key) : List Key :=
  ks.foldl (fun acc k => if acc.contains k then acc else insertKey k acc) ser

/-- Engine.Restore = overlay(asNew = false): only `.tsm` entries are read, each
    under its own name; tombstone entries are skipped -/
def Shard.restore (s : Shard) : Archive → Shard
  | [] => s
  | .tomb _ _ :: rest => s.restore rest
  | .tsm g q bs :: rest =>
    let f : TFile := { gen := g, seq := q, mtime := .fresh, blocks := bs, tombs := [], tombM := none }
    Shard.restore { s with files := insertFile f s.files
                           nextGen := max s.nextGen (g + 1)
                           series := addSeries s.series (blocksKeys bs) } rest

/-- Engine.Import = overlay(asNew = true): every `.tsm` entry becomes a new
    generation (FileStore.NextGeneration), sequence 1 -/
def Shard.importA (s : Shard) : Archive → Shard
  | [] => s
  | .tomb _ _ :: rest => s.importA rest
  | .tsm _ _ bs :: rest =>
    let f : TFile := { gen := s.nextGen, seq := 1, mtime := .fresh, blocks := bs, tombs := [], tombM := none }
    Shard.importA { s with files := s.files ++ [f]
                           nextGen := s.nextGen + 1
                           series := addSeries s.series (blocksKeys bs) } rest

/-! ## Observations -/

structure FName where
  gen : Nat
  seq : Nat
  tomb : Bool
deriving Repr, DecidableEq

structure Dump where
  pts : List (Key × List (TS × Val))
  series : List Key
deriving Repr, DecidableEq

def Shard.times (s : Shard) (k : Key) : List TS :=
  sortDedup ((s.cache.filter (fun e => e.1 == k)).map (·.2.1) ++
    s.files.flatMap (fun f => (f.blocks.filter (·.key == k)).flatMap (fun b => b.pts.map (·.1))))

def Shard.keyPts (s : Shard) (k : Key) : List (TS × Val) :=
  (s.times k).filterMap (fun t => (s.abs k t).map (fun v => (t, v)))

def Shard.dump (s : Shard) : Dump :=
  { pts := (List.range nKeys).filterMap (fun k =>
      let p := s.keyPts k
      if p.isEmpty then none else some (k, p))
    series := s.series }

def archiveNames (a : Archive) : List FName :=
  a.map (fun | .tsm g q _ => ⟨g, q, false⟩ | .tomb g q => ⟨g, q, true⟩)

def listing (fs : List TFile) : List (FName × MTime) :=
  fs.flatMap (fun f =>
    (match f.tombM with | some m => [(⟨f.gen, f.seq, true⟩, m)] | none => []) ++
    [(⟨f.gen, f.seq, false⟩, f.mtime)])

/-- (file, key, MinTime, MaxTime) of every block the reader's BlockIterator still
    walks: keys dropped from the index by tombstones are not listed -/
def blockListing (fs : List TFile) : List (FName × Key × TS × TS) :=
  fs.flatMap (fun f => (f.blocks.filter (fun b => !f.gone b.key)).map
    (fun b => (⟨f.gen, f.seq, false⟩, b.key, b.lo, b.hi)))

def targetNames (fs : List TFile) : List FName := fs.map (fun f => ⟨f.gen, f.seq, false⟩)

/-! ## The typed state machine -/

inductive Op
  | write (k : Key) (t0 step : Int) (n : Nat) (v0 : Int)
  | delete (ks : List Key) (lo hi : TS)
  | snap
  | compact
  | age (sec : Int)
  | backup (id : String) (since : Option Int)
  | export (id : String) (a e : TS)
  | restore (ids : List String)
  | importA (ids : List String)
  | dump
  /-- the self-contained many-keys scenario: n float `cpu` series + four later-sorting
      measurements with an integer / string / boolean / float field, one batch, snapshot,
      full backup, restore (or import) into an empty shard -/
  | bigcase (n : Nat) (imp : Bool)
deriving Repr

inductive Obs
  | ok
  | badOp
  | noArchive
  /-- a failed export: the error, and the shard / block listing at that moment -/
  | exportErr (e : ExportErr) (files : List (FName × MTime)) (blocks : List (FName × Key × TS × TS))
  /-- answer of backup / export: archive entry names, shard listing, block listing, source dump -/
  | snapshot (arch : List FName) (files : List (FName × MTime)) (blocks : List (FName × Key × TS × TS)) (d : Dump)
  /-- answer of restore / import: file names of the target, its dump -/
  | target (files : List FName) (d : Dump)
  | dumped (d : Dump)
  /-- what the source and the restored shard of `bigcase` read (points of the late keys
      through the cursor their field schema selects, readable cpu series, field schema) -/
  | big (src dst : String)
deriving Repr, DecidableEq

inductive ArchKind | backup | export
deriving Repr, DecidableEq

structure State where
  src : Shard
  archives : List (String × ArchKind × Archive)
deriving Repr

def State.init : State := { src := Shard.empty, archives := [] }

def State.archive? (st : State) (id : String) : Option (ArchKind × Archive) :=
  st.archives.lookup id

def State.put (st : State) (id : String) (k : ArchKind) (a : Archive) : State :=
  { st with archives := (id, k, a) :: st.archives }

def lookupAll (st : State) : List String → Option (List (ArchKind × Archive))
  | [] => some []
  | id :: rest =>
    match st.archive? id, lookupAll st rest with
    | some a, some more => some (a :: more)
    | _, _ => none

/-- what a shard holding the `bigcase` data reads -/
def bigObs (n : Nat) : String :=
  s!"cpu={n}/{n};mem.used=i:10=42;net.name=s:10=65746830;sys.up=b:10=1;zzz.v=f:10=1.5;" ++
  "schema=cpu.value:float,mem.used:integer,net.name:string,sys.up:boolean,zzz.v:float"

def step (st : State) : Op → State × Obs
  | .write k t0 step n v0 =>
    if k ≥ nKeys || n = 0 then (st, .badOp) else
    ({ st with src := st.src.write k t0 step n v0 }, .ok)
  | .delete ks lo hi =>
    if ks.any (· ≥ nKeys) || lo > hi then (st, .badOp) else
    ({ st with src := st.src.delete ks lo hi }, .ok)
  | .snap => ({ st with src := st.src.flush }, .ok)
  | .compact => ({ st with src := st.src.compact }, .ok)
  | .age sec =>
    if sec < 0 || sec ≥ 1000000000000000000 then (st, .badOp) else
    ({ st with src := st.src.age sec }, .ok)
  | .backup id since =>
    let (s', a) := st.src.backup since
    (({ st with src := s' }).put id .backup a,
     .snapshot (archiveNames a) (listing s'.files) (blockListing s'.files) s'.dump)
  | .export id a e =>
    if a > e then (st, .badOp) else
    match st.src.export a e with
    | (s', .error x) => ({ st with src := s' }, .exportErr x (listing s'.files) (blockListing s'.files))
    | (s', .ok ar) =>
      (({ st with src := s' }).put id .export ar,
       .snapshot (archiveNames ar) (listing s'.files) (blockListing s'.files) s'.dump)
  | .restore ids =>
    match lookupAll st ids with
    | none => (st, .noArchive)
    | some as =>
      -- restoring an Export archive is outside the property (and the harness refuses it)
      if as.any (fun a => a.1 == .export) then (st, .badOp) else
      let t := as.foldl (fun t a => t.restore a.2) Shard.empty
      (st, .target (targetNames t.files) t.dump)
  | .importA ids =>
    match lookupAll st ids with
    | none => (st, .noArchive)
    | some as =>
      let t := as.foldl (fun t a => t.importA a.2) Shard.empty
      (st, .target (targetNames t.files) t.dump)
  | .dump => ({ st with src := st.src.noteRead }, .dumped st.src.dump)
  | .bigcase n _ =>
    if n = 0 || n > 50000 then (st, .badOp) else
    -- Engine.overlay registers every key of the restored files with its own block type,
    -- batch after batch: the restored shard reads what the source reads
    (st, .big (bigObs n) (bigObs n))

/-- trace of the model on a list of operations -/
def run : State → List Op → List (Op × Obs)
  | _, [] => []
  | st, op :: rest => let (st', o) := step st op; (op, o) :: run st' rest

end Influx.Backup
