/-
  Influx.Model.MetaRetention — `retention.Service.DeletionCheck`
  (`v1/services/retention/service.go`) over the meta model and a TSDB store that
  is a set of local shard ids with injectable failures.  The `MetaClient` is the
  real `meta.Client` behind a recording wrapper (OSS: `NodeID() = ossNodeID`, so
  every shard left in the map after the local pass is a phantom).
-/
import Influx.Model.Meta

namespace Influx.Meta
open Influx.Generated.Meta

/-- the fake `TSDBStore` + failure injection of the harness -/
structure Store where
  /-- `ShardIDs()` in the order returned -/
  shards : List Nat
  /-- `ShardInUse(id) = true` -/
  inUse : List Nat
  /-- `SetShardNewReadersBlocked(id, true)` fails -/
  blockFail : List Nat
  /-- `ShardInUse(id)` fails -/
  inUseFail : List Nat
  /-- `DeleteShard(id)` fails with some error -/
  deleteFail : List Nat
  /-- `DeleteShard(id)` fails with `tsdb.ErrShardNotFound` -/
  deleteNotFound : List Nat
  /-- `MetaClient.DeleteShardGroup(_, _, id)` fails (group ids) -/
  dsgFail : List Nat
  /-- `DropShardMetaRef(id, _)` fails -/
  dropFail : List Nat
  /-- shards whose new readers are currently blocked -/
  blocked : List Nat
deriving Repr, DecidableEq, Inhabited

def Store.empty : Store :=
  { shards := [], inUse := [], blockFail := [], inUseFail := [], deleteFail := [], deleteNotFound := [],
    dsgFail := [], dropFail := [], blocked := [] }

/-- calls made by `DeletionCheck`, in order (phantom drops in ascending id order: Go iterates a map) -/
inductive Ev where
  | dsg (db rp : String) (id : Nat) (ok : Bool)
  | block (id : Nat) (ok : Bool)
  | unblock (id : Nat)
  | inUse (id : Nat) (ok : Bool) (used : Bool)
  /-- 0 = deleted, 1 = error, 2 = ErrShardNotFound -/
  | delete (id : Nat) (res : Nat)
  | dropRef (id : Nat) (ok : Bool) (phantom : Bool)
  | prune
deriving Repr, DecidableEq

/-- `deletedShardIDs[id] = info` (only the key matters for OSS) -/
def mapPut (m : List Nat) (id : Nat) : List Nat := if m.contains id then m else m ++ [id]

structure DC where
  data : Data
  store : Store
  del : List Nat
  log : List Ev
deriving Repr

/-- body of `for _, g := range r.ExpiredShardGroups(now)` -/
def dcExpire (db rp : String) (now : Int) (s : DC) (g : ShardGroupInfo) : DC :=
  if s.store.dsgFail.contains g.ID then
    { s with log := s.log ++ [Ev.dsg db rp g.ID false] }
  else
    match deleteShardGroup s.data db rp g.ID now with
    | .error _ => { s with log := s.log ++ [Ev.dsg db rp g.ID false] }
    | .ok d' =>
      { s with data := d', del := (g.Shards.map (·.ID)).foldl mapPut s.del,
               log := s.log ++ [Ev.dsg db rp g.ID true] }

/-- body of `for _, r := range d.RetentionPolicies` (on the snapshot `r`) -/
def dcPolicy (db : String) (now : Int) (s : DC) (r : RetentionPolicyInfo) : DC :=
  let s := { s with del := ((deletedShardGroups r).flatMap (·.Shards.map (·.ID))).foldl mapPut s.del }
  (expiredShardGroups r now).foldl (dcExpire db r.Name now) s

/-- first phase: the snapshot `dbs := s.MetaClient.Databases()` is walked, the live data updated -/
def dcCollect (now : Int) (s : DC) : DC :=
  s.data.Databases.foldl (fun s di => di.RetentionPolicies.foldl (dcPolicy di.Name now) s) s

/-- `DropShardMetaRef(id, owners)` = `meta.Client.DropShard(id)` behind the failure switch -/
def dcDropRef (now : Int) (phantom : Bool) (s : DC) (id : Nat) : DC :=
  if s.store.dropFail.contains id then { s with log := s.log ++ [Ev.dropRef id false phantom] }
  else { s with data := dropShard s.data id now, log := s.log ++ [Ev.dropRef id true phantom] }

/-- body of `for _, id := range s.TSDBStore.ShardIDs()` -/
def dcLocal (now : Int) (s : DC) (id : Nat) : DC :=
  if !s.del.contains id then s else
  let s := { s with del := s.del.erase id }
  if s.store.blockFail.contains id then
    -- error blocking new readers: returns before the deferred unblock is registered; retried later
    { s with log := s.log ++ [Ev.block id false] }
  else
  let s := { s with store := { s.store with blocked := mapPut s.store.blocked id }, log := s.log ++ [Ev.block id true] }
  let unblock (s : DC) : DC :=
    { s with store := { s.store with blocked := s.store.blocked.erase id }, log := s.log ++ [Ev.unblock id] }
  if s.store.inUseFail.contains id then
    unblock { s with log := s.log ++ [Ev.inUse id false false] }
  else if s.store.inUse.contains id then
    unblock { s with log := s.log ++ [Ev.inUse id true true] }
  else
  let s := { s with log := s.log ++ [Ev.inUse id true false] }
  if s.store.deleteNotFound.contains id then
    -- ErrShardNotFound: no unblock, continue with the metadata reference
    dcDropRef now false { s with log := s.log ++ [Ev.delete id 2] } id
  else if s.store.deleteFail.contains id then
    unblock { s with log := s.log ++ [Ev.delete id 1] }
  else
    let s := { s with store := { s.store with shards := s.store.shards.erase id,
                                               blocked := s.store.blocked.erase id },
                      log := s.log ++ [Ev.delete id 0] }
    dcDropRef now false s id

/-- ascending insertion sort of the remaining map keys (canonical order of the map walk) -/
def sortNat (xs : List Nat) : List Nat :=
  xs.foldl (fun acc x =>
    let rec ins : List Nat → List Nat
      | [] => [x]
      | y :: ys => if x ≤ y then x :: y :: ys else y :: ins ys
    ins acc) []

/-- `Service.DeletionCheck` at wall-clock `now` -/
def deletionCheck (now : Int) (data : Data) (store : Store) : DC :=
  let s : DC := { data := data, store := store, del := [], log := [] }
  let s := dcCollect now s
  let s := s.store.shards.foldl (dcLocal now) s
  let s := (sortNat s.del).foldl (dcDropRef now true) { s with del := [] }
  { s with data := pruneShardGroups s.data (Time.Add now ShardGroupDeletedExpiration), log := s.log ++ [Ev.prune] }

/-- shard ids handed to `TSDBStore.DeleteShard` -/
def deleteCalls (log : List Ev) : List Nat :=
  log.filterMap fun
    | Ev.delete id _ => some id
    | _ => none

end Influx.Meta
