/-
  Model.TsmOps — operations and answers of the C08 protocol and the model's
  state machine over them: one TSM file built by a `tsmWriter`, read by a
  `TSMReader` (index + tombstoner), and a stand-alone `Tombstoner`.
-/
import Influx.Model.TsmTomb

namespace Influx.Tsm

abbrev Pt := Int × Int     -- (unix nanoseconds, integer value)

inductive Op where
  /-- `WriteBlock(key, min, max, block)`; `pts` = the integer values the block encodes (valued blocks) -/
  | wb (key : Key) (minT maxT : Int) (block : Bytes) (pts : Option (List Pt))
  /-- `count` blocks `[t0+i*step, t0+i*step+step-1]` with the same bytes -/
  | wbn (key : Key) (count : Nat) (t0 step : Int) (block : Bytes)
  | wsize | wi | file | index | filelen
  | open_ | close | reopen
  | keycount | keyat (i : Int) | key (i : Int) | seek (k : Key) | contains (k : Key)
  | containsvalue (k : Key) (t : Int) | entries (k : Key) | entry (k : Key) (t : Int) | typ (k : Key)
  | timerange | keyrange | overlapstime (lo hi : Int) | overlapskey (lo hi : Key)
  | tombrange (k : Key) | hastomb | readbytes (k : Key) (i : Int) | readall (k : Key) | read (k : Key) (t : Int)
  | iter | del (ks : List Key) | delrange (ks : List Key) (lo hi : Int)
  | bdBegin | bdRange (ks : List Key) (lo hi : Int) | bdCommit | bdRollback
  | walk | crash (ks : List Key) (lo hi : Int) (step : Nat)
  | tsNew | tsAdd (ks : List Key) | tsAddRange (ks : List Key) (lo hi : Int) | tsFlush | tsRollback
  | tsDelete | tsHas | tsWalk | tsWalkFresh
deriving Repr, Inhabited

structure BlockObs where
  key : Key
  minT : Int
  maxT : Int
  typ : Nat
  crc : Nat
  data : Bytes
deriving DecidableEq, Repr, Inhabited

inductive Ans where
  | ok | dead | nil | star
  | err (e : String)
  | num (n : Int)
  | bool (b : Bool)
  | keyTyp (k : Key) (t : Nat)
  | keyFull (k : Key) (t : Nat) (es : List IndexEntry)
  | entries (es : List IndexEntry)
  | times (a b : Int)
  | keys2 (a b : Key)
  | ranges (rs : List TimeRange)
  | bytes (b : Bytes)
  | crcBytes (crc : Nat) (b : Bytes)
  | points (ps : List Pt)
  | tombs (ts : List Tombstone)
  | blocks (bs : List BlockObs)
  | runs (rs : List (String × Nat))
  | crash (pfx : Bool) (old new : List Tombstone) (outs : List (Option (List Tombstone)))
  | bad
deriving DecidableEq, Repr, Inhabited

def WAns.str : WAns → String
  | .ok => "ok" | .maxKey => "err:maxkey" | .maxBlocks => "err:maxblocks" | .blockType => "err:blocktype"
  | .panicUnsorted => "panic:unsorted" | .noValues => "err:novalues" | .maxEntries => "err:maxentries"

/-- answers are `err <kind>` (rendered `err:<kind>`) or `err "panic:…"` (rendered as is) -/
def WAns.toAns : WAns → Ans
  | .ok => .ok
  | .maxKey => .err "maxkey" | .maxBlocks => .err "maxblocks" | .blockType => .err "blocktype"
  | .panicUnsorted => .err "panic:unsorted" | .noValues => .err "novalues" | .maxEntries => .err "maxentries"

def OpenErr.str : OpenErr → String
  | .magic => "magic" | .version => "version" | .tooSmall => "toosmall" | .indexStart => "indexstart" | .index => "index"

structure State where
  crc : Bytes → Nat
  w : WState := {}
  wdead : Bool := false
  /-- the bytes of the TSM file on disk (`none` = the file was never created) -/
  disk : Option Bytes := none
  /-- the integer values of the valued blocks, by file offset -/
  pts : List (Nat × List Pt) := []
  /-- the tombstone file of the TSM file -/
  tfile : TFile := none
  rdr : Option Reader := none
  /-- the stand-alone tombstoner and its file -/
  sfile : TFile := none
  sobj : Option TObj := none

def State.init (crc : Bytes → Nat) : State := { crc := crc }

def allTombs (f : TFile) : List Tombstone := (f.getD []).flatten

/-- run-length encoding of consecutive equal answers -/
def rle (xs : List String) : List (String × Nat) :=
  xs.foldr (fun x acc => match acc with
    | (y, n) :: rest => if x = y then (y, n + 1) :: rest else (x, 1) :: acc
    | [] => [(x, 1)]) []

def doOpen (s : State) : State × Ans :=
  match s.rdr with
  | some _ => (s, .err "already-open")
  | none =>
    match s.disk with
    | none => (s, .err "nofile")
    | some b =>
      match parseFile b with
      | .error e => (s, .err e.str)
      | .ok kes => ({ s with rdr := some (openReader s.tfile kes) }, .ok)

def pointsAt (s : State) (e : IndexEntry) : Option (List Pt) :=
  (s.pts.find? (fun p => (p.1 : Int) = e.Offset)).map (·.2)

def covered (rs : List TimeRange) (t : Int) : Bool :=
  rs.any fun r => decide (r.Min ≤ t) && decide (r.Max ≥ t)

/-- `mmapAccessor.readAll`: skip blocks covered by one tombstone, exclude the
    tombstoned times from the others (`Values.Exclude` on strictly increasing
    timestamps = filter; C37) -/
def readAll (s : State) (r : Reader) (k : Key) : Option (List Pt) :=
  let tr := tombRange r.ix k
  (entriesOf r.ix k).foldl (fun acc e =>
    match acc with
    | none => none
    | some ps =>
      if tr.any fun t => decide (t.Min ≤ e.MinTime) && decide (t.Max ≥ e.MaxTime) then some ps
      else match pointsAt s e with
        | none => none
        | some bp => some (ps ++ bp.filter fun p => !covered tr p.1)) (some [])

def blockObs (s : State) (ke : KeyEntry) : Option (List BlockObs) :=
  ke.entries.mapM fun e =>
    match readBytes (s.disk.getD []) e with
    | some (c, d) => some ⟨ke.key, e.MinTime, e.MaxTime, ke.typ, c, d⟩
    | none => none

def writerStep (s : State) (key : Key) (minT maxT : Int) (block : Bytes) (pts : Option (List Pt)) : State × WAns :=
  let ofs := if s.w.n = 0 then header.length else s.w.n
  let (w, a) := writeBlock s.crc s.w key minT maxT block
  let s := { s with w := w }
  match a with
  | .panicUnsorted => ({ s with wdead := true, disk := some (bodyBytes w) }, a)
  | .ok | .maxBlocks =>
    match pts with
    | some ps => (if block.isEmpty then s else { s with pts := (ofs, ps) :: s.pts }, a)
    | none => (s, a)
  | _ => (s, a)

def step (s : State) (op : Op) : State × Ans :=
  match op with
  | .wb key minT maxT block pts =>
    if s.wdead then (s, .dead) else
    let (s, a) := writerStep s key minT maxT block pts
    (s, a.toAns)
  | .wbn key count t0 stp block =>
    if s.wdead then (s, .dead) else
    let (s, as_) := (List.range count).foldl (fun (acc : State × List String) (i : Nat) =>
      if acc.1.wdead then acc else
      let lo := t0 + (i : Int) * stp
      let (s', a) := writerStep acc.1 key lo (lo + stp - 1) block none
      (s', a.str :: acc.2)) (s, [])
    (s, .runs (rle as_.reverse))
  | .wsize => (s, if s.wdead then .nil else .num (wSize s.w))
  | .wi =>
    if s.wdead then (s, .dead) else
    let (a, b) := writeIndex s.w
    ({ s with wdead := true, disk := some b }, a.toAns)
  | .file => (s, match s.disk with | some b => .bytes b | none => .nil)
  | .filelen => (s, match s.disk with | some b => .num b.length | none => .nil)
  | .index =>
    (s, match s.disk with
      | some b =>
        if b.length < 13 then .nil
        else
          let ofs := unbe (b.drop (b.length - 8))
          if ofs > b.length - 8 then .nil else .bytes ((b.take (b.length - 8)).drop ofs)
      | none => .nil)
  | .open_ => doOpen s
  | .close =>
    match s.rdr with
    | none => (s, .err "closed")
    | some _ => ({ s with rdr := none }, .ok)
  | .reopen =>
    match s.rdr with
    | none => (s, .err "closed")
    | some _ => doOpen { s with rdr := none }
  | .tsNew => ({ s with sobj := some {} }, .ok)
  | .tsAdd ks => tsOp s fun f o => (f, tAddRange f o none ks minInt64 maxInt64, .ok)
  | .tsAddRange ks lo hi => tsOp s fun f o => (f, tAddRange f o none ks lo hi, .ok)
  | .tsFlush => tsOp s fun f o => let (f, o) := tFlush f o; (f, o, .ok)
  | .tsRollback => tsOp s fun f o => (f, tRollback o, .ok)
  | .tsDelete => tsOp s fun _ o => let (f, o) := tDelete o; (f, o, .ok)
  | .tsHas => tsOp s fun f o => let (b, o) := tHas f o; (f, o, .bool b)
  | .tsWalk => tsOp s fun f o => let (ws, o) := tWalk f o; (f, o, .tombs ws)
  | .tsWalkFresh => tsOp s fun f o => (f, o, .tombs (allTombs f))
  | op =>
    match s.rdr with
    | none => (s, .err "closed")
    | some r =>
      let ix := r.ix
      match op with
      | .keycount => (s, .num ix.live.length)
      | .keyat i => (s, match keyAt ix i with | some ke => .keyTyp ke.key ke.typ | none => .nil)
      | .key i => (s, match keyAt ix i with | some ke => .keyFull ke.key ke.typ ke.entries | none => .nil)
      | .seek k => (s, .num (searchOffset ix k))
      | .contains k => (s, .bool (contains ix k))
      | .containsvalue k t => (s, .bool (containsValue ix k t))
      | .entries k => (s, .entries (entriesOf ix k))
      | .entry k t => (s, match entryOf ix k t with | some e => .entries [e] | none => .nil)
      | .typ k => (s, match typeOf ix k with | some t => .num t | none => .err "nokey")
      | .timerange => (s, .times ix.minTime ix.maxTime)
      | .keyrange => (s, .keys2 ix.minKey ix.maxKey)
      | .overlapstime lo hi => (s, .bool (overlapsTimeRange ix lo hi))
      | .overlapskey lo hi => (s, .bool (overlapsKeyRange ix lo hi))
      | .tombrange k => (s, .ranges (tombRange ix k))
      | .hastomb => let (b, ts) := tHas s.tfile r.ts; ({ s with rdr := some { r with ts := ts } }, .bool b)
      | .readbytes k i =>
        (s, if i < 0 then .nil else
          match (entriesOf ix k)[i.toNat]? with
          | none => .nil
          | some e => match readBytes (s.disk.getD []) e with
            | some (c, d) => .crcBytes c d
            | none => .err "read")
      | .readall k => (s, match readAll s r k with | some ps => .points ps | none => .star)
      | .read k t =>
        (s, match entryOf ix k t with
          | none => .points []
          | some e => match pointsAt s e with | some ps => .points ps | none => .star)
      | .iter => (s, match ix.live.mapM (blockObs s) with | some bs => .blocks bs.flatten | none => .err "iter")
      | .del ks =>
        if r.batch then (s, .err "batch-open") else
        let (f, r) := rDelete s.tfile r ks
        ({ s with tfile := f, rdr := some r }, .ok)
      | .delrange ks lo hi =>
        if r.batch then (s, .err "batch-open") else
        let (f, r) := rDeleteRange s.tfile r ks lo hi
        ({ s with tfile := f, rdr := some r }, .ok)
      | .bdBegin => if r.batch then (s, .err "batch-open") else ({ s with rdr := some { r with batch := true } }, .ok)
      | .bdRange ks lo hi =>
        if !r.batch then (s, .err "no-batch") else
        ({ s with rdr := some (if ks.isEmpty then r else bdRange s.tfile r ks lo hi) }, .ok)
      | .bdCommit =>
        if !r.batch then (s, .err "no-batch") else
        let (f, r) := bdCommit s.tfile r
        ({ s with tfile := f, rdr := some r }, .ok)
      | .bdRollback =>
        if !r.batch then (s, .err "no-batch") else ({ s with rdr := some (bdRollback r) }, .ok)
      | .walk => (s, .tombs (allTombs s.tfile))
      | .crash ks lo hi _ =>
        if r.batch then (s, .err "batch-open") else
        let old := allTombs s.tfile
        let (f, r') := bdCommit s.tfile (if ks.isEmpty then r else bdRange s.tfile r ks lo hi)
        let new := allTombs f
        -- every crash state re-opens as the old or as the new file; consecutive equal outcomes are merged
        let outs := if f = s.tfile then [some old] else [some old, some new]
        ({ s with tfile := f, rdr := some r' }, .crash true old new outs)
      | _ => (s, .bad)
where
  tsOp (s : State) (f : TFile → TObj → TFile × TObj × Ans) : State × Ans :=
    match s.sobj with
    | none => (s, .err "no-ts")
    | some o => let (fl, o, a) := f s.sfile o; ({ s with sfile := fl, sobj := some o }, a)

/-- the trace of the model on a list of operations: each with the model's answer -/
def traceFrom (s : State) : List Op → List (Op × Ans)
  | [] => []
  | op :: ops => let r := step s op; (op, r.2) :: traceFrom r.1 ops

def traceOf (crc : Bytes → Nat) (ops : List Op) : List (Op × Ans) := traceFrom (State.init crc) ops

end Influx.Tsm
