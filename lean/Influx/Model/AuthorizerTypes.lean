/-
  Model.AuthorizerTypes — callers, operations and observations of the authorization
  wrappers (shared by the model `Model.Authorizer`, the statement `Spec.C29` and the driver).
-/
import Influx.Model.TenantTypes
import Influx.Model.AuthzTypes

namespace Influx.Authzr
open Influx Influx.Tenant

/-- error classes (`errors.ErrorCode`): the two denials and everything else -/
inductive Err
  | unauth                 -- EUnauthorized: the caller lacks the permission / token inactive
  | forbidden              -- EForbidden: VerifyPermissions — a granted permission the caller does not hold
  | base (e : Tenant.Err)
deriving DecidableEq, Repr

/-- the authorizer found on the context: an `influxdb.Authorization` (token) -/
structure Caller where
  present : Bool           -- icontext.GetAuthorizer succeeds
  active : Bool            -- Status == Active
  user : Nat
  perms : List Permission
deriving DecidableEq, Repr

structure AuthRec where
  token : String
  active : Bool
  user : Nat
  org : Nat
  perms : List Permission
deriving DecidableEq, Repr

/-- calls through the authorizing wrappers -/
inductive WOp
  | gb (id : Nat) | fb (org : Nat) (name : String) | fB (org : Nat) (name : String) | lb (org : Option Nat)
  | cb (org : Nat) (name : String) (sys : Bool) | ub (id : Nat) (name : Option String) | db (id : Nat)
  | gO (id : Nat) | fo (name : String) | lo | co (name : String) | uo (id : Nat) (name : Option String) | dO (id : Nat)
  | gu (id : Nat) | fu (name : String) | lu | cu (name : String) (id : Nat) | uu (id : Nat) (name : Option String)
  | du (id : Nat) | pu (id : Nat)
  | ga (id : Nat) | ft (tok : String) | la | ca (a : AuthRec) | ua (id : Nat) (active : Bool) | da (id : Nat)
  | ca2 (a : AuthRec)      -- CreateAuthorization of authorization/middleware_auth.go (AuthedAuthorizationService)
deriving DecidableEq, Repr

inductive Op
  | admin (op : Tenant.Op)            -- directly on the tenant service (set-up)
  | adminAuth (a : AuthRec)           -- directly on the token service
  | idgenAuth (n : Nat)
  | w (c : Caller) (op : WOp)
  | dump
deriving DecidableEq, Repr

inductive Ans
  | err (e : Err) (chg : Bool)                        -- `chg`: did any stored byte change
  | bucket (id org : Nat) (sys : Bool)
  | buckets (l : List (Nat × Nat × Bool))
  | org (id : Nat)
  | orgs (l : List Nat)
  | user (id : Nat)
  | users (l : List Nat)
  | auth (id org user : Nat)
  | auths (l : List (Nat × Nat × Nat))
  | okMut (id : Nat) (pre : Option (Nat × Nat))       -- mutation done; (org, user) of the target before the call
  | admin (a : Tenant.Ans)
  | dump (d : Tenant.Dump) (auths : List (Nat × AuthRec)) (tokIdx : List (String × Nat))
deriving DecidableEq, Repr

end Influx.Authzr
