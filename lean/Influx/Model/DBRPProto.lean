/-
  Influx.Model.DBRPProto — line protocol of the C43 harness.
-/
import Influx.Proto
import Influx.Model.DBRP

namespace Influx.DBRP
open Influx.Proto

def showMapping (m : Mapping) : String :=
  "/".intercalate [toString m.ID, stringToHex m.Database, stringToHex m.RetentionPolicy, boolStr m.Default,
    boolStr m.Virtual, toString m.OrganizationID, toString m.BucketID]

/-- canonical order of index / default entries in a dump: `(org, db, id)` -/
def tripleLe (a b : Nat × String × Nat) : Bool :=
  if a.1 != b.1 then decide (a.1 < b.1)
  else if a.2.1 != b.2.1 then decide (a.2.1 < b.2.1)
  else decide (a.2.2 ≤ b.2.2)

def sortTriples (xs : List (Nat × String × Nat)) : List (Nat × String × Nat) :=
  xs.foldl (fun acc x =>
    let rec ins : List (Nat × String × Nat) → List (Nat × String × Nat)
      | [] => [x]
      | y :: ys => if tripleLe x y then x :: y :: ys else y :: ins ys
    ins acc) []

def pairLe (a b : Nat × Nat) : Bool := if a.1 != b.1 then decide (a.1 < b.1) else decide (a.2 ≤ b.2)

def sortPairs (xs : List (Nat × Nat)) : List (Nat × Nat) :=
  xs.foldl (fun acc x =>
    let rec ins : List (Nat × Nat) → List (Nat × Nat)
      | [] => [x]
      | y :: ys => if pairLe x y then x :: y :: ys else y :: ins ys
    ins acc) []

def showTriple (t : Nat × String × Nat) : String := s!"{t.1}/{stringToHex t.2.1}/{t.2.2}"

def Err.str : Err → String
  | .notFound => "err:not-found"
  | .invalid => "err:invalid"
  | .exists_ => "err:exists"
  | .bucketNotFound => "err:bucket-not-found"
  | .internal => "err:internal"
  | .panic => "panic"

def render : Obs → String
  | .ok => "ok"
  | .err e => e.str
  | .mapping m => "m=" ++ showMapping m
  | .mappings ms => "ms=" ++ joinComma (ms.map showMapping)
  | .state recs idx byOrg defs =>
    "recs=" ++ joinComma (recs.map showMapping) ++
    " idx=" ++ joinComma ((sortTriples idx).map showTriple) ++
    " byorg=" ++ joinComma ((sortPairs byOrg).map fun p => s!"{p.1}/{p.2}") ++
    " defs=" ++ joinComma ((sortTriples defs).map showTriple)

/-! ### parsing -/

/-- a platform.ID as decimal below 2^64 -/
def toId? (s : String) : Option Nat :=
  match s.toNat? with
  | some v => if v < 18446744073709551616 then some v else none
  | none => none

def opt (p : String → Option α) (s : String) : Option (Option α) :=
  if s = "~" then some none else (p s).map some

def parseOp : List String → Option Op
  | ["bucket", org, id, name] => do some (.bucket (← toId? org) (← toId? id) (← hexToString name))
  | ["delbucket", id] => do some (.delBucket (← toId? id))
  | ["create", org, db, rp, d, b] => do
    some (.create (← toId? org) (← hexToString db) (← hexToString rp) (← parseBool d) (← toId? b))
  | ["update", org, id, rp, d] => do
    some (.update (← toId? org) (← toId? id) (← opt hexToString rp) (← opt parseBool d))
  | ["delete", org, id] => do some (.delete (← toId? org) (← toId? id))
  | ["get", org, id] => do some (.get (← toId? org) (← toId? id))
  | ["find", id, org, b, db, rp, d, v] => do
    some (.find { ID := (← opt toId? id), OrgID := (← opt toId? org), BucketID := (← opt toId? b),
                  Database := (← opt hexToString db), RetentionPolicy := (← opt hexToString rp),
                  Default := (← opt parseBool d), Virtual := (← opt parseBool v) })
  | ["dump"] => some .dump
  | _ => none

def parseErr : String → Option Err
  | "err:not-found" => some .notFound
  | "err:invalid" => some .invalid
  | "err:exists" => some .exists_
  | "err:bucket-not-found" => some .bucketNotFound
  | "err:internal" => some .internal
  | "panic" => some .panic
  | _ => none

def parseMapping (s : String) : Option Mapping :=
  match s.splitOn "/" with
  | [id, db, rp, d, v, org, b] => do
    some { ID := (← id.toNat?), Database := (← hexToString db), RetentionPolicy := (← hexToString rp),
           Default := (← parseBool d), Virtual := (← parseBool v), OrganizationID := (← org.toNat?), BucketID := (← b.toNat?) }
  | _ => none

def parseTriple (s : String) : Option (Nat × String × Nat) :=
  match s.splitOn "/" with
  | [a, b, c] => do some ((← a.toNat?), (← hexToString b), (← c.toNat?))
  | _ => none

def parsePair (s : String) : Option (Nat × Nat) :=
  match s.splitOn "/" with
  | [a, b] => do some ((← a.toNat?), (← b.toNat?))
  | _ => none

def kv (key s : String) : Option String :=
  if s.startsWith (key ++ "=") then some (s.drop (key.length + 1)).toString else none

def parseObs (ans : String) : Option Obs :=
  if ans = "ok" then some .ok else
  if ans.startsWith "err:" || ans = "panic" then (parseErr ans).map .err else
  match tokens ans with
  | [m] =>
    if m.startsWith "m=" then do some (.mapping (← parseMapping (← kv "m" m)))
    else do some (.mappings (← (splitComma (← kv "ms" m)).mapM parseMapping))
  | [r, i, b, d] => do
    some (.state (← (splitComma (← kv "recs" r)).mapM parseMapping) (← (splitComma (← kv "idx" i)).mapM parseTriple)
      (← (splitComma (← kv "byorg" b)).mapM parsePair) (← (splitComma (← kv "defs" d)).mapM parseTriple))
  | _ => none

end Influx.DBRP
