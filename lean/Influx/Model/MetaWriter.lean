/-
  Influx.Model.MetaWriter — `PointsWriter.MapShards` and `sgList` of
  `v1/coordinator/points_writer.go`, over the meta model (the `MetaClient` of the
  points writer is `meta.Client`: `Influx.Meta.clientCreateShardGroup`).
-/
import Influx.Model.Meta

namespace Influx.Meta
open Influx.Generated.Meta

/-- `sgList` (`needsSort` is not state: `ShardGroupAt` has a value receiver, so the flag is
    never cleared and the shared backing array is re-sorted on every call) -/
structure SgList where
  items : List ShardGroupInfo
  earliest : Int
  latest : Int
deriving Repr

def SgList.empty : SgList := { items := [], earliest := zeroTime, latest := zeroTime }

/-- `sort.Search(n, f)`: Go's loop, literally (`fuel` ≥ ⌈log₂ n⌉+1 iterations suffice). -/
def goSearch (f : Nat → Bool) : Nat → Nat → Nat → Nat
  | 0, i, _ => i
  | fuel + 1, i, j =>
    if i < j then
      let h := (i + j) / 2
      if !f h then goSearch f fuel (h + 1) j else goSearch f fuel i h
    else i

/-- the predicate `ShardGroupAt` hands to `sort.Search`: `l.items[i].EndTime.After(t)` -/
def endAfter (items : List ShardGroupInfo) (t : Int) (i : Nat) : Bool :=
  match items[i]? with
  | some g => Time.After g.EndTime t
  | none => true

/-- `sgList.ShardGroupAt(t)`: the (sorted) items and the group found -/
def SgList.shardGroupAt (l : SgList) (t : Int) : SgList × Option ShardGroupInfo :=
  if l.items.length == 0 then (l, none) else
  let items := sgSort l.items
  let l' := { l with items := items }
  let n := items.length
  let idx := goSearch (endAfter items t) (n + 1) 0 n
  let direct : Option ShardGroupInfo :=
    match items[idx]? with
    | some g => if Time.Before t g.StartTime then none else some g
    | none => none
  match direct with
  | some g => (l', some g)
  | none =>
    if Time.Before t l.earliest || Time.After t l.latest then (l', none)
    else (l', items.find? (Contains · t))

/-- `sgList.Covers(t)` -/
def SgList.covers (l : SgList) (t : Int) : SgList × Bool :=
  if l.items.length == 0 then (l, false) else
  let r := l.shardGroupAt t
  (r.1, r.2.isSome)

/-- `sgList.Add(sgi)` -/
def SgList.add (l : SgList) (g : ShardGroupInfo) : SgList :=
  { items := l.items ++ [g],
    earliest := if Time.IsZero l.earliest || Time.After l.earliest g.StartTime then g.StartTime else l.earliest,
    latest := if Time.IsZero l.latest || Time.Before l.latest g.EndTime then g.EndTime else l.latest }

/-- what `MapShards` did with one point -/
inductive Placement where
  | dropped
  | mapped (shard : ShardInfo) (group : ShardGroupInfo)
deriving Repr, DecidableEq

structure ShardMapping where
  placements : List Placement
  retentionDropped : Nat
deriving Repr

/-- the lower bound `MapShards` computes: `now − Duration` when the policy has a duration -/
def minTime (r : RetentionPolicyInfo) (now : Int) : Int :=
  if r.Duration > 0 then Time.Add now (-r.Duration) else Time.Unix MinNanoTime

/-- first loop of `MapShards`: create the missing shard groups.  The data is returned also
    on error: groups created before (and by) the failing call stay committed in the meta store. -/
def mapCreate (db rp : String) (min : Int) : Data → SgList → List Int → Data × Except Err SgList
  | d, l, [] => (d, .ok l)
  | d, l, t :: ts =>
    if Time.Before t min then mapCreate db rp min d l ts else
    let c := l.covers t
    if c.2 then mapCreate db rp min d c.1 ts else
    match clientCreateShardGroup d db rp t with
    | .error e => (d, .error e)
    | .ok (d', none) => (d', .error .nilShardGroup)
    | .ok (d', some g) => mapCreate db rp min d' (c.1.add g) ts

/-- `ShardGroupInfo.ShardFor` (hash 0 for groups with several shards) -/
def shardFor (g : ShardGroupInfo) : Option ShardInfo := g.Shards.head?

/-- second loop of `MapShards`: place every point.  With `fixes/C19-mapshards-recheck-min.patch`
    the lower bound is checked here too (`sg == nil || p.Time().Before(min)`): before the patch a
    point older than the retention period was accepted whenever the shard group created for a
    younger point of the same request happened to cover it. -/
def mapPlace (min : Int) : SgList → List Int → Except Err (List Placement)
  | _, [] => .ok []
  | l, t :: ts =>
    let r := l.shardGroupAt t
    match (if Time.Before t min then none else r.2) with
    | none => (mapPlace min r.1 ts).map (Placement.dropped :: ·)
    | some g =>
      match shardFor g with
      | none => .error .noShards
      | some sh => (mapPlace min r.1 ts).map (Placement.mapped sh g :: ·)

def countDropped (ps : List Placement) : Nat := (ps.filter (· == Placement.dropped)).length

/-- `PointsWriter.MapShards` at wall-clock `now`: the meta data afterwards, and the mapping or error -/
def mapShards (d : Data) (db rp : String) (now : Int) (pts : List Int) : Data × Except Err ShardMapping :=
  match getRP d db rp with
  | .error e => (d, .error e)
  | .ok r =>
    let min := minTime r now
    match mapCreate db rp min d SgList.empty pts with
    | (d', .error e) => (d', .error e)
    | (d', .ok l) =>
      match mapPlace min l pts with
      | .error e => (d', .error e)
      | .ok ps => (d', .ok { placements := ps, retentionDropped := countDropped ps })

end Influx.Meta
