/-
  Influx.Model.KCTypes — hand-written types of the KeyCursor model (C06).
  Field names follow tsdb/engine/tsm1 (`IndexEntry`, `TimeRange`, `location`) so that the
  translator-regenerated leaf predicates (`Influx.Generated.KeyCursor`) read them directly.
  Timestamps are `Int`; the int64 range is an explicit side condition where it matters.
-/
namespace Influx.KC

/-- `math.MinInt64` / `math.MaxInt64` -/
def minI64 : Int := -9223372036854775808
def maxI64 : Int := 9223372036854775807

/-- tsm1.IndexEntry, the two fields the cursor reads -/
structure IndexEntry where
  MinTime : Int
  MaxTime : Int
deriving Repr, DecidableEq, Inhabited

/-- tsm1.TimeRange -/
structure TimeRange where
  Min : Int
  Max : Int
deriving Repr, DecidableEq, Inhabited

/-- tsm1.location without the file handle `r` -/
structure Location where
  entry : IndexEntry
  readMin : Int
  readMax : Int
deriving Repr, DecidableEq, Inhabited

end Influx.KC
