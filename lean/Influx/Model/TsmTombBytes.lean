/-
  Model.TsmTombBytes — the bytes of a v4 tombstone file (`tombstone.go`:
  `writeTombstone`, `prepareV4`, `commit`, `readTombstoneV4`) with gzip as an
  abstract member codec, and a small file-system model for the crash points of
  `prepareV4 … commit`:

    inode  = durable bytes + the chunks appended since the last fsync,
    directory = durable entries + the directory operations since the last SyncDir,
    crash  = a prefix of the pending directory operations and, per inode, a byte
             prefix of the unsynced appended tail survive; rename is atomic.
-/
import Influx.Model.TsmTomb

namespace Influx.Tsm
open Influx.Generated.TsmLayout

/-- gzip, as far as the tombstone file needs it: members can be concatenated and are
    read back one at a time (`gzip.Reader.Multistream(false)` + `Reset`) -/
structure Gzip where
  zip : Bytes → Bytes
  unzip1 : Bytes → Option (Bytes × Bytes)
  spec : ∀ p rest, unzip1 (zip p ++ rest) = some (p, rest)
  /-- a member is never empty (a gzip member has at least its 10-byte header) -/
  ne : ∀ p, zip p ≠ []

/-- `Tombstoner.writeTombstone` -/
def encTomb (t : Tombstone) : Bytes :=
  be 4 t.key.length ++ t.key ++ be 8 (u64 t.min) ++ be 8 (u64 t.max)

def encTombs (ts : List Tombstone) : Bytes := ts.flatMap encTomb

/-- the records of one decompressed member (`io.ReadFull` of the 4-byte key length
    hitting EOF / UnexpectedEOF ends the member; a record cut short is an error) -/
def decTombs : Nat → Bytes → Option (List Tombstone)
  | 0, _ => none
  | f + 1, b =>
    if b.length < 4 then some []
    else
      let klen := unbe (b.take 4)
      let b1 := b.drop 4
      if b1.length < klen + 16 then none
      else
        let b2 := b1.drop klen
        match decTombs f (b2.drop 16) with
        | none => none
        | some ts => some (⟨b1.take klen, i64 (unbe (b2.take 8)), i64 (unbe ((b2.drop 8).take 8))⟩ :: ts)

def walkMembers (G : Gzip) : Nat → Bytes → Option (List Tombstone)
  | 0, _ => none
  | f + 1, b =>
    if b.isEmpty then some []
    else match G.unzip1 b with
      | none => none
      | some (p, rest) =>
        match decTombs (p.length + 1) p, walkMembers G f rest with
        | some a, some c => some (a ++ c)
        | _, _ => none

/-- `Tombstoner.Walk` of a v4 file from its start -/
def walkBytes (G : Gzip) (b : Bytes) : Option (List Tombstone) :=
  if b.length < headerSize then none
  else if unbe (b.take headerSize) ≠ v4header then none
  else walkMembers G (b.length + 1) (b.drop headerSize)

def tombHeader : Bytes := be 4 v4header

/-- the bytes of a v4 file holding the given members -/
def tfileBytes (G : Gzip) (ms : List (List Tombstone)) : Bytes :=
  tombHeader ++ ms.flatMap fun m => G.zip (encTombs m)

/-! ## the file system -/

structure Inode where
  durable : Bytes := []
  /-- chunks appended since the last fsync, oldest first -/
  pending : List Bytes := []

/-- a directory: name ↦ inode number -/
abbrev Dir := String → Option Nat

def Dir.lookup (d : Dir) (n : String) : Option Nat := d n
def Dir.remove (d : Dir) (n : String) : Dir := fun m => if m = n then none else d m
def Dir.set (d : Dir) (n : String) (i : Nat) : Dir := fun m => if m = n then some i else d m

inductive DirOp where
  | link (n : String) (i : Nat)
  | unlink (n : String)
  | rename (a b : String)

def applyDirOp (d : Dir) : DirOp → Dir
  | .link n i => d.set n i
  | .unlink n => d.remove n
  | .rename a b => match d.lookup a with
    | some i => (d.remove a).set b i
    | none => d

structure FS where
  inodes : Nat → Inode
  /-- the directory as the running process sees it -/
  dir : Dir
  /-- the directory as it is on disk -/
  ddir : Dir
  /-- directory operations since the last `SyncDir`, oldest first -/
  dpend : List DirOp
  next : Nat

inductive FSStep where
  | create (n : String)
  | append (n : String) (chunk : Bytes)
  | fsync (n : String)
  | rename (a b : String)
  | syncDir

def setInode (f : Nat → Inode) (i : Nat) (x : Inode) : Nat → Inode := fun j => if j = i then x else f j

def fsStep (fs : FS) : FSStep → FS
  | .create n =>
    { fs with inodes := setInode fs.inodes fs.next {}, dir := fs.dir.set n fs.next,
              dpend := fs.dpend ++ [.link n fs.next], next := fs.next + 1 }
  | .append n c =>
    match fs.dir.lookup n with
    | some i => { fs with inodes := setInode fs.inodes i { fs.inodes i with pending := (fs.inodes i).pending ++ [c] } }
    | none => fs
  | .fsync n =>
    match fs.dir.lookup n with
    | some i => { fs with inodes := setInode fs.inodes i ⟨(fs.inodes i).durable ++ (fs.inodes i).pending.flatten, []⟩ }
    | none => fs
  | .rename a b => { fs with dir := applyDirOp fs.dir (.rename a b), dpend := fs.dpend ++ [.rename a b] }
  | .syncDir => { fs with ddir := fs.dpend.foldl applyDirOp fs.ddir, dpend := [] }

/-- `fs'` is what a crash (and restart) can make of `fs` -/
structure CrashOf (fs fs' : FS) : Prop where
  dir : ∃ k, k ≤ fs.dpend.length ∧ fs'.ddir = (fs.dpend.take k).foldl applyDirOp fs.ddir
  data : ∀ i, ∃ p s, (fs.inodes i).pending.flatten = p ++ s ∧ (fs'.inodes i).durable = (fs.inodes i).durable ++ p

/-- the bytes found under a name after the restart -/
def readDurable (fs : FS) (n : String) : Option Bytes := (fs.ddir.lookup n).map fun i => (fs.inodes i).durable

/-- `prepareV4` (create the tmp file, copy the old file or write the header), the writes
    of the new gzip member in whatever chunks the buffered writer produces, and
    `commit` (fsync, rename over the tombstone file, SyncDir) -/
def commitSteps (tomb tmp : String) (base : Bytes) (chunks : List Bytes) : List FSStep :=
  [.create tmp, .append tmp base] ++ chunks.map (.append tmp) ++ [.fsync tmp, .rename tmp tomb, .syncDir]

end Influx.Tsm
