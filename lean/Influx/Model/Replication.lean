/-
  Influx.Model.Replication — executable model of the replication send path:
  `replications/internal/queue_management.go` (`replicationQueue.SendWrite`,
  `newReplicationQueue` max-age clamp, the purge branch of `run`) and
  `replications/remotewrite/writer.go` (`writer.Write` decision table,
  `backoff`, `waitTimeFromHeader`), over an abstract durable queue: a list of
  segments, each a list of unconsumed entries plus the file size that drives
  segment rollover (`pkg/durablequeue`; its byte-level model and crash behaviour
  are C26's).  Constants come from the translator (`Generated.Replication`).
-/
import Influx.Model.ReplicationTypes
import Influx.Generated.Replication

namespace Influx.Repl
open Influx.Generated.Replication

/-! ### writer.go -/

/-- `writer.backoff(numAttempts)`, in ns:
    `numAttempts > maximumAttempts ⇒ maximumBackoffTime`, else `0.5·2^(n-1)` s
    (exact in float64 for 0 ≤ n ≤ 10; n = 0 gives 0.25 s). -/
def backoff (attempts : Nat) : Nat :=
  if attempts > maximumAttempts then maximumBackoffTime
  else if attempts = 0 then 250000000
  else 500000000 * 2 ^ (attempts - 1)

/-- int64 wrap-around of a product -/
def wrapI64 (i : Int) : Int := (i + 2^63) % 2^64 - 2^63

/-- `writer.waitTimeFromHeader`, ns; 0 = "not set" -/
def waitFromHeader : Option String → Int
  | none => 0
  | some s =>
    if s = "" then 0
    else if s = "0" then backoff 1
    else match atoi s with
      | none => 0
      | some n => wrapI64 (n * 1000000000)

inductive WriteRes
  | ok                    -- `(0, nil)`: written, or dropped as non-retryable
  | fail (wait : Int)     -- `(wait, err)`
deriving DecidableEq, Repr

/-- `writer.Write(data, attempts)` as a function of the remote's answer. -/
def writeDecision (drop : Bool) (attempts : Nat) (r : Resp) : WriteRes :=
  if r.kind ≠ 0 then .fail (backoff attempts)          -- no response (timeout or not)
  else if r.status = 204 then .ok
  else if r.status = 400 ∧ drop then .ok
  else if r.status = 429 then
    let h := waitFromHeader r.retryAfter
    .fail (if h ≠ 0 then h else (backoff attempts : Int))
  else .fail (backoff attempts)

/-! ### the queue, abstractly -/

structure ASeg where
  rest : List Bytes        -- unconsumed entries of this segment
  size : Nat               -- file size (footer included)
  maxSize : Nat
  old : Bool               -- last modified before the max-age cutoff
deriving DecidableEq, Repr

structure St where
  segs : List ASeg
  maxSeg : Nat
  failed : Nat             -- replicationQueue.failedWrites
  drop : Bool
  maxAge : Nat             -- ns
deriving DecidableEq, Repr

def freshSeg (maxSeg : Nat) : ASeg := { rest := [], size := 8, maxSize := maxSeg, old := false }

/-- `newReplicationQueue`: max-age clamp (seconds → ns) -/
def clampMaxAge (sec : Int) : Nat :=
  if sec ≤ 0 then defaultMaxAge
  else if sec < MinReplicationMaxAgeSeconds then MinReplicationMaxAgeSeconds * 1000000000
  else if sec > MaxReplicationMaxAgeSeconds then MaxReplicationMaxAgeSeconds * 1000000000
  else sec.toNat * 1000000000

def initSt (drop : Bool) (maxAgeSec : Int) (maxSeg : Nat) : St :=
  { segs := [freshSeg maxSeg], maxSeg := maxSeg, failed := 0, drop := drop, maxAge := clampMaxAge maxAgeSec }

def ASeg.put (s : ASeg) (b : Bytes) : ASeg :=
  { rest := s.rest ++ [b], size := s.size + 8 + b.length, maxSize := max s.maxSize b.length, old := false }

/-- `Queue.Append` (the queue's total-size limit is never reached in C27's cases) -/
def St.enq (st : St) (b : Bytes) : St :=
  match st.segs.getLast? with
  | none => st
  | some t =>
    if t.size > t.maxSize then { st with segs := st.segs ++ [(freshSeg st.maxSeg).put b] }
    else { st with segs := st.segs.dropLast ++ [t.put b] }

/-- `Queue.trimHead(false)` after the head segment was scanned to its end -/
def trimHead (maxSeg : Nat) : List ASeg → List ASeg
  | [h] => if h.size ≥ h.maxSize then [freshSeg maxSeg] else [h]
  | _ :: h2 :: t => h2 :: t
  | [] => []

structure SendObs where
  posted : List Bytes
  wait : Int
  retry : Bool
deriving DecidableEq, Repr

/-- the `for scan.Next()` loop over the entries of the head segment -/
def sendLoop (drop : Bool) : List Bytes → List Resp → Nat → List Bytes → (List Bytes × Nat × Option Int)
  | [], _, failed, posted => (posted, failed, none)
  | e :: es, script, failed, posted =>
    let r := script.headD { kind := 0, status := 204 }
    match writeDecision drop failed r with
    | .ok => sendLoop drop es script.tail 0 (posted ++ [e])
    | .fail w => (posted ++ [e], failed + 1, some w)

/-- `replicationQueue.SendWrite` -/
def St.send (st : St) (script : List Resp) : St × SendObs :=
  match st.segs with
  | [] => (st, ⟨[], 0, false⟩)
  | h :: t =>
    if h.rest = [] then (st, ⟨[], 0, false⟩)                 -- NewScanner: io.EOF
    else
      match sendLoop st.drop h.rest script st.failed [] with
      | (posted, failed, some w) =>                          -- a write failed: no advance
        ({ st with failed := failed }, ⟨posted, w, true⟩)
      | (posted, failed, none) =>                            -- whole segment sent: advance, trim
        ({ st with failed := failed,
                   segs := trimHead st.maxSeg ({ h with rest := [], old := false } :: t) },
         ⟨posted, 0, true⟩)

/-- `Queue.PurgeOlderThan(now - maxAge)` -/
def purgeSegs (maxSeg : Nat) : Nat → List ASeg → List ASeg
  | 0, segs => segs
  | fuel + 1, segs =>
    match segs with
    | [] => []
    | h :: t =>
      if h.old then
        (match t with
         | [] => [freshSeg maxSeg]
         | _ => purgeSegs maxSeg fuel t)
      else segs

def St.purge (st : St) : St :=
  if st.maxAge = 0 then st else { st with segs := purgeSegs st.maxSeg (st.segs.length + 1) st.segs }

def St.age (st : St) : St := { st with segs := st.segs.map fun s => { s with old := true } }

def St.remaining (st : St) : List Bytes := st.segs.flatMap ASeg.rest

/-! ### typed core -/

abbrev State := Option St

def init : State := none

def step (s : State) (op : Op) : State × Ans :=
  match op with
  | .backoff n => (s, .dur (backoff n))
  | _ =>
  match s with
  | none =>
    (match op with
     | .init d a g => let st := initSt d a g; (some st, .inited st.maxAge)
     | _ => (none, .notInit))
  | some st =>
    match op with
    | .init _ _ _ => (some st, .err)
    | .enq b => (some (st.enq b), .ok)
    | .send script =>
      let (st', o) := st.send script
      (some st', .sent o.posted o.wait o.retry st'.failed)
    | .age => (some st.age, .ok)
    | .purge => (some st.purge, .ok)
    | .dump => (some st, .dumped st.remaining)
    | .backoff n => (some st, .dur (backoff n))

def trace : State → List Op → List (Op × Ans)
  | _, [] => []
  | s, op :: ops => let (s', a) := step s op; (op, a) :: trace s' ops

end Influx.Repl
