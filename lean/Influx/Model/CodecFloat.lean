/-
  Influx.Model.CodecFloat — float codec (Gorilla XOR), floats as 64-bit patterns.
  Go: tsdb/engine/tsm1/float.go (FloatEncoder over dgryski/go-bitstream, FloatDecoder over
  tsm1's BitReader), batch_float.go (FloatArrayEncodeAll / FloatArrayDecodeAll: hand-rolled bit
  buffers).  The model is at the level of the bit stream: both encoders emit the same bits
  (checked byte-for-byte by correspondence), both decoders read them back.
  The stream ends with the sentinel NaN `uvnan`; NaN values are rejected by the encoders.
-/
import Influx.Model.CodecBase
import Influx.Generated.Codec

namespace Influx.Codec
open Influx.Generated.Codec

/-- `math.IsNaN` on the bit pattern -/
def isNaN (b : Nat) : Bool := (b / 4503599627370496 % 2048 == 2047) && (b % 4503599627370496 != 0)

/-- `bits.LeadingZeros64` for `0 < x < 2^64` -/
def clz64 (x : Nat) : Nat := 63 - Nat.log2 x

/-- `bits.TrailingZeros64` for `x ≠ 0` -/
def ctz (x : Nat) : Nat :=
  if h : x = 0 then 64 else if x % 2 = 1 then 0 else ctz (x / 2) + 1
decreasing_by omega

structure FState where
  prev : Nat
  /-- `none` is the encoder's initial `leading = ^uint64(0)` -/
  window : Option (Nat × Nat) := none

/-- one `Write(v)` after the first: emitted bits and new state -/
def floatStep (s : FState) (v : Nat) : List Bool × FState :=
  let vDelta := v ^^^ s.prev
  if vDelta = 0 then ([false], { s with prev := v })
  else
    let leading := clz64 vDelta % 32          -- `leading &= 0x1F` (the `>= 32` clamp after it is dead code)
    let trailing := ctz vDelta
    let reuse := match s.window with
      | some (pl, pt) => decide (leading ≥ pl) && decide (trailing ≥ pt)
      | none => false
    if reuse then
      match s.window with
      | some (pl, pt) =>
        (true :: false :: bitsOf (vDelta / 2 ^ pt) (64 - pl - pt), { s with prev := v })
      | none => ([], s)   -- unreachable
    else
      let sigbits := 64 - leading - trailing
      (true :: true :: (bitsOf leading 5 ++ bitsOf sigbits 6 ++ bitsOf (vDelta / 2 ^ trailing) sigbits),
       { prev := v, window := some (leading, trailing) })

def floatBitsLoop : FState → List Nat → List Bool
  | _, [] => []
  | s, v :: vs => let (bs, s') := floatStep s v; bs ++ floatBitsLoop s' vs

/-- the whole bit stream for `vs` followed by the sentinel -/
def floatBits (vs : List Nat) : List Bool :=
  match vs ++ [uvnan] with
  | [] => []
  | first :: rest => bitsOf first 64 ++ floatBitsLoop { prev := first } rest

/-- both encoders (after the batch fix: a NaN anywhere is rejected, nothing else is) -/
def floatEncode (vs : List Nat) : Option Bytes :=
  if vs.any isNaN then none
  else some ((floatCompressedGorilla * 16) :: packBits (floatBits vs))

structure DState where
  val : Nat
  leading : Nat := 0
  trailing : Nat := 0

/-- one `Next()` after the first: `none` = read error (EOF); `some none` = sentinel reached -/
def floatDecStep (s : DState) (bs : List Bool) : Option (Option (DState × List Bool)) :=
  match bs with
  | [] => none
  | false :: rest => some (some (s, rest))
  | true :: rest =>
    match rest with
    | [] => none
    | ctl :: rest2 =>
      let hdr : Option (Nat × Nat × List Bool) :=
        if ctl then
          match readBits 5 rest2 with
          | none => none
          | some (l, r3) =>
            match readBits 6 r3 with
            | none => none
            | some (m, r4) => let mbits := if m = 0 then 64 else m; some (l, 64 - l - mbits, r4)
        else some (s.leading, s.trailing, rest2)
      match hdr with
      | none => none
      | some (l, t, r) =>
        match readBits (64 - l - t) r with
        | none => none
        | some (bits, r') =>
          let v := s.val ^^^ (bits * 2 ^ t % W)
          if v = uvnan then some none
          else some (some ({ val := v, leading := l, trailing := t }, r'))

def floatDecLoop : (fuel : Nat) → DState → List Bool → Option (List Nat)
  | 0, _, _ => none
  | fuel + 1, s, bs =>
    match floatDecStep s bs with
    | none => none
    | some none => some []
    | some (some (s', bs')) =>
      match floatDecLoop fuel s' bs' with
      | none => none
      | some vs => some (s'.val :: vs)

/-- both decoders on well-formed input -/
def floatDecode (b : Bytes) : Option (List Nat) :=
  match b with
  | [] => some []
  | _ :: body =>
    let bs := bitsOfBytes body
    match readBits 64 bs with
    | none => none
    | some (first, rest) =>
      if first = uvnan then some []
      else match floatDecLoop (rest.length + 1) { val := first } rest with
        | none => none
        | some vs => some (first :: vs)

end Influx.Codec
