/-
  Model.EngineLog — the data carried by the tsm1 engine model (properties C01–C03):
  composite keys, points, *logs* of points and the newest-wins value algebra.

  Code this stands for
    * tsdb/engine/tsm1/cache.go   `entry.values` is an append-only slice per key (`entry.add`);
      `Values.Deduplicate` (encoding.gen.go) = stable sort by time, keep the LAST value per
      timestamp.  `Cache.Values(key)` = Deduplicate(snapshot values ++ hot values).
    * TSM files hold, per key, sorted de-duplicated values; KeyCursor / array cursors merge
      files so that the newest file wins, and the cache wins over files
      (array_cursor.gen.go `ckey == tkey` branch takes the cache value).
  All of these are instances of one primitive here: `insertPt` into a strictly sorted list
  (replace on equal timestamp), folded over the points in oldest→newest order (`dedup`).
-/
namespace Influx.Model.Engine

/-- timestamps (ns) and values are plain `Int`s (`TS`, `Val` are documentation names only) -/
abbrev TS := Int
abbrev Val := Int

/-- composite key `series#!~#field` (engine.go `SeriesFieldKey`) -/
structure Key where
  series : Nat
  field : Nat
deriving DecidableEq, Repr

structure Entry where
  key : Key
  ts : Int
  val : Int
deriving DecidableEq, Repr

/-- A log: points in write order (oldest first). -/
abbrev Log := List Entry

abbrev Pt := Int × Int

/-- Last-write-wins lookup in a log. -/
def Log.get : Log → Key → Int → Option Int
  | [], _, _ => none
  | e :: l, k, t =>
    match Log.get l k t with
    | some v => some v
    | none => if e.key = k ∧ e.ts = t then some e.val else none

/-- The points of one key, in write order. -/
def Log.pts (l : Log) (k : Key) : List Pt :=
  (l.filter (fun e => e.key = k)).map (fun e => (e.ts, e.val))

/-- Insert into a list sorted strictly by time; an equal timestamp is replaced. -/
def insertPt (p : Pt) : List Pt → List Pt
  | [] => [p]
  | q :: l =>
    if p.1 < q.1 then p :: q :: l
    else if p.1 = q.1 then p :: l
    else q :: insertPt p l

/-- `b` merged over `a` (`b` wins on equal timestamps).  `a` sorted. -/
def mergeOver (a b : List Pt) : List Pt := b.foldl (fun acc p => insertPt p acc) a

/-- `Values.Deduplicate`: sorted by time, last value per timestamp. -/
def dedup (l : List Pt) : List Pt := mergeOver [] l

/-- first match in a (sorted) point list -/
def lookupPt (t : Int) : List Pt → Option Int
  | [] => none
  | q :: l => if q.1 = t then some q.2 else lookupPt t l

/-- last match in a point list in write order -/
def lastPt (t : Int) : List Pt → Option Int
  | [] => none
  | q :: l => match lastPt t l with
    | some v => some v
    | none => if q.1 = t then some q.2 else none

/-- strictly ascending timestamps -/
def SortedPts (l : List Pt) : Prop := l.Pairwise (fun a b => a.1 < b.1)

/-- The de-duplicated, sorted values of key `k` in log `l`. -/
def Log.values (l : Log) (k : Key) : List Pt := dedup (l.pts k)

/-- distinct keys of a log, in first-appearance order -/
def Log.keys : Log → List Key
  | [] => []
  | e :: l => if (Log.keys l).contains e.key then Log.keys l else e.key :: Log.keys l

/-- Canonical form of a log: per key (keys in first-appearance order from the end) its sorted
    de-duplicated values.  This is what a TSM file written from the log contains. -/
def Log.canon (l : Log) : Log :=
  (Log.keys l).flatMap fun k => (l.values k).map fun p => ⟨k, p.1, p.2⟩

end Influx.Model.Engine
