/-
  Model.FieldTypes — plain data types shared by the field-schema model
  (C40, C10): points as the shard sees them, the per-shard field schema and the
  abstract content of the tsm1 engine.  No algorithms here (the statement
  checkers in `Spec/` import only this file).
-/
namespace Influx.Fields

/-- `influxql.DataType` restricted to what `dataTypeFromModelsFieldType` can return
    for a parsed point (`tsdb/field_validator.go`). -/
inductive FType | float | int | uint | bool | str
  deriving DecidableEq, Repr, Inhabited

/-- One field of a point.  `val` is the canonical rendering of the value (the
    harness' token), `slen` the byte length of a string value (0 for other types). -/
structure FieldV where
  name : String
  ty : FType
  val : String
  slen : Nat
  deriving DecidableEq, Repr

/-- A `models.Point`: tags sorted by key, fields in `FieldIterator` order. -/
structure Point where
  meas : String
  tags : List (String × String)
  fields : List FieldV
  ts : Int
  deriving DecidableEq, Repr

/-- (measurement, field name) -/
abbrev FKey := String × String
/-- `MeasurementFieldSet`: (measurement, field) ↦ type. -/
abbrev Schema := List (FKey × FType)

/-- one stored value: (measurement, tags, field, timestamp) -/
abbrev EKey := String × List (String × String) × String × Int
abbrev Val := FType × String
/-- what the engine holds / what a read returns -/
abbrev Store := List (EKey × Val)

/-- `tsdb.TimeBytes` -/
def timeName : String := "time"

/-- The data a point carries: one entry per field that is not named `time`
    (a field named `time` is illegal and never data). -/
def pointEntries (p : Point) : Store :=
  (p.fields.filter (fun f => f.name != timeName)).map
    (fun f => ((p.meas, p.tags, f.name, p.ts), (f.ty, f.val)))

/-- Why a point (or the `time` field of a point) was refused; order of the
    constructors is irrelevant. -/
inductive Reason | tagTime | fieldTime | tooLong | conflict | stripped
  deriving DecidableEq, Repr

/-- Result of `Shard.WritePoints`: `ok`, a `PartialWriteError` (dropped count and
    the kind of the first reason), or any other error. -/
inductive WriteRes
  | ok
  | partialWrite (dropped : Nat) (r : Reason)
  | hardError (e : String)
  deriving DecidableEq, Repr

/-- (series, field) ↦ block type: what the engine physically holds -/
abbrev RawKey := (String × List (String × String) × String) × FType

/-- One operation of a C40 case together with what was observed for it. -/
inductive WStep
  /-- `Shard.WritePoints batch` answered `res`; `after` = everything readable afterwards -/
  | write (batch : List Point) (res : WriteRes) (after : Store)
  /-- a read of everything (after a snapshot, a reopen, …) -/
  | read (stored : Store)
  /-- listing of the engine's physical keys (cache ∪ TSM files) -/
  | keys (ks : List RawKey)
  /-- operations C40 says nothing about (schema dump, snapshot, reopen) -/
  | other
  deriving Repr

/-- what is observable after an operation of a C10 case: the field schema
    (`MeasurementFieldSet`) and everything a read returns (`none`: the read failed) -/
structure Seen where
  sch : Schema
  store : Option Store
  deriving Repr

/-- how the shard was restarted -/
inductive Restart
  | clean            -- Close, then Open
  | kill             -- process kill: every completed write(2) is in the files
  | inSnapshot (point : String)  -- crash inside the fields.idx rewrite of a clean close
  deriving DecidableEq, Repr

/-- One operation of a C10 case together with what was observed for it. -/
inductive Step10
  | write (batch : List Point) (res : WriteRes) (after : Seen)
  /-- `Shard.DeleteMeasurement m`; `ok` = it returned without error -/
  | drop (m : String) (ok : Bool) (after : Seen)
  /-- restart; `opened` = the shard opened again -/
  | restart (kind : Restart) (opened : Bool) (after : Seen)
  /-- `Shard.WritePoints batch` crashed in the middle of the append of its record
      to fields.idxl (never acknowledged); then restart -/
  | tornWrite (batch : List Point) (opened : Bool) (after : Seen)
  /-- `Shard.DeleteMeasurement m` crashed in the middle of that append; then restart -/
  | tornDrop (m : String) (opened : Bool) (after : Seen)
  /-- two writers ran `Shard.WritePoints a` and `Shard.WritePoints b` concurrently -/
  | race (a b : List Point) (ra rb : WriteRes) (after : Seen)
  /-- schema dump / read / snapshot: operations that must not change anything -/
  | look (after : Seen)
  deriving Repr

end Influx.Fields
