/-
  Model.TenantTypes — operations, answers and the raw kv dump of the tenant
  store, shared by the model (`Model.Tenant`), the statement (`Spec.C30`) and the
  driver (`Drv.C30`).  Names are ASCII strings (the harness and the driver reject
  anything else with `bad-op`); ids are `Nat` (0 = platform.InvalidID()).
-/
namespace Influx.Tenant

/-- error classes: `errors.ErrorCode` of what the service returned -/
inductive Err | nf | cf | inv | int
deriving DecidableEq, Repr

/-- value stored under a bucket id in `bucketsv1` (the fields the property is about) -/
structure BucketRec where
  org : Nat
  name : String
  sys : Bool          -- Type == BucketTypeSystem
deriving DecidableEq, Repr

/-- value stored under `resourceID ‖ userID` in `userresourcemappingsv1` -/
structure UrmRec where
  rtypeOrg : Bool     -- ResourceType orgs (else buckets)
  owner : Bool        -- UserType owner (else member)
deriving DecidableEq, Repr

inductive Gen | org | bkt | user
deriving DecidableEq, Repr

inductive Op
  | co (name : String) (ctxUser : Nat)
  | uo (id : Nat) (name : Option String)
  | dO (id : Nat)
  | cb (org : Nat) (name : String) (sys : Bool)
  | ub (id : Nat) (name : Option String)
  | db (id : Nat)
  | cu (name : String) (id : Nat)
  | uu (id : Nat) (name : Option String)
  | du (id : Nat)
  | cm (res user : Nat) (rtypeOrg owner : Bool)
  | dm (res user : Nat)
  | fo (name : String)
  | fb (org : Nat) (name : String)
  | fu (name : String)
  | lb (org : Nat)
  | idgen (g : Gen) (n : Nat)
  | dump
deriving DecidableEq, Repr

/-- The raw contents of the tenant kv buckets, one list per bucket.
    Record lists carry the kv key *and* the id field found inside the value. -/
structure Dump where
  orgs : List (Nat × Nat × String)                 -- key, record.ID, record.Name
  orgIdx : List (String × Nat)                     -- index key, id
  bkts : List (Nat × Nat × BucketRec)              -- key, record.ID, record
  bktIdx : List ((Nat × String) × Nat)             -- (org, name) decoded from the key, id
  users : List (Nat × Nat × String)
  userIdx : List (String × Nat)
  urms : List ((Nat × Nat) × (Nat × Nat) × UrmRec) -- key (res,user), record (res,user), record
  urmIdx : List ((Nat × Nat × Nat) × (Nat × Nat))  -- key user/(res,user), value (res,user)
  pws : List Nat
deriving DecidableEq, Repr

inductive Ans
  | err (e : Err)
  | ok                                              -- cm / dm / idgen
  | okId (id : Nat)                                 -- create / update / delete
  | foundOrg (id : Nat) (name : String)
  | foundBkt (id org : Nat) (name : String)
  | foundUser (id : Nat) (name : String)
  | ids (xs : List Nat)
  | dump (d : Dump)
deriving DecidableEq, Repr

end Influx.Tenant
