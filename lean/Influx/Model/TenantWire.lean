/-
  Model.TenantWire — line-protocol encoding of tenant operations, answers and raw
  kv dumps (shared by the C30 and C29 drivers; core only).
-/
import Influx.Proto
import Influx.Model.Tenant

open Influx.Proto

namespace Influx.Tenant.Wire
open Influx.Tenant

/-! ### parsing operations -/

def maxID : Nat := 2 ^ 64

def parseID (s : String) : Option Nat :=
  match s.toNat? with
  | some n => if n < maxID && s.length ≤ 20 && s.toList.all Char.isDigit then some n else none
  | none => none

/-- a name token: hex of an ASCII string -/
def parseName (s : String) : Option String :=
  match hexDecode s with
  | some bs => if bs.all (· < 128) then some (String.ofList (bs.map Char.ofNat)) else none
  | none => none

def parseOptName (s : String) : Option (Option String) :=
  if s = "~" then some none else (parseName s).map some

def parseOp : List String → Option Op
  | ["co", n, u] => do some (.co (← parseName n) (← parseID u))
  | ["uo", i, n] => do some (.uo (← parseID i) (← parseOptName n))
  | ["do", i] => do some (.dO (← parseID i))
  | ["cb", o, n, t] => do
    let sys ← if t = "s" then some true else if t = "u" then some false else none
    some (.cb (← parseID o) (← parseName n) sys)
  | ["ub", i, n] => do some (.ub (← parseID i) (← parseOptName n))
  | ["db", i] => do some (.db (← parseID i))
  | ["cu", n, i] => do some (.cu (← parseName n) (← parseID i))
  | ["uu", i, n] => do some (.uu (← parseID i) (← parseOptName n))
  | ["du", i] => do some (.du (← parseID i))
  | ["cm", r, u, rt, ut] => do
    let rt ← if rt = "o" then some true else if rt = "b" then some false else none
    let ut ← if ut = "o" then some true else if ut = "m" then some false else none
    some (.cm (← parseID r) (← parseID u) rt ut)
  | ["dm", r, u] => do some (.dm (← parseID r) (← parseID u))
  | ["fo", n] => do some (.fo (← parseName n))
  | ["fb", o, n] => do some (.fb (← parseID o) (← parseName n))
  | ["fu", n] => do some (.fu (← parseName n))
  | ["lb", o] => do some (.lb (← parseID o))
  | ["idgen", g, n] => do
    let g ← if g = "o" then some Gen.org else if g = "b" then some Gen.bkt else if g = "u" then some Gen.user else none
    some (.idgen g (← parseID n))
  | ["dump"] => some .dump
  | _ => none

/-! ### rendering answers (the Go harness sorts by raw kv key; so do we) -/

def strLe (a b : String) : Bool := !(decide (b < a))

def sortBy {α : Type} (le : α → α → Bool) (xs : List α) : List α := xs.mergeSort le

def errStr : Err → String
  | .nf => "err nf" | .cf => "err cf" | .inv => "err inv" | .int => "err int"

def hexN (s : String) : String := stringToHex s
def bflag (b : Bool) (t f : String) : String := if b then t else f

def sect (name : String) (items : List String) : String := name ++ "=" ++ joinComma items

def renderDump (d : Dump) : String :=
  let orgs := sortBy (fun a b => a.1 ≤ b.1) d.orgs
  let orgIdx := sortBy (fun a b => strLe a.1 b.1) d.orgIdx
  let bkts := sortBy (fun a b => a.1 ≤ b.1) d.bkts
  let bktIdx := sortBy (fun a b => a.1.1 < b.1.1 || (a.1.1 = b.1.1 && strLe a.1.2 b.1.2)) d.bktIdx
  let users := sortBy (fun a b => a.1 ≤ b.1) d.users
  let userIdx := sortBy (fun a b => strLe a.1 b.1) d.userIdx
  let urms := sortBy (fun a b => a.1.1 < b.1.1 || (a.1.1 = b.1.1 && a.1.2 ≤ b.1.2)) d.urms
  let urmIdx := sortBy (fun a b => a.1.1 < b.1.1 || (a.1.1 = b.1.1 &&
      (a.1.2.1 < b.1.2.1 || (a.1.2.1 = b.1.2.1 && a.1.2.2 ≤ b.1.2.2)))) d.urmIdx
  " ".intercalate [
    sect "O" (orgs.map fun (k, i, n) => s!"{k}:{i}:{hexN n}"),
    sect "OI" (orgIdx.map fun (k, i) => s!"{hexN k}:{i}"),
    sect "B" (bkts.map fun (k, i, b) => s!"{k}:{i}:{b.org}:{hexN b.name}:{bflag b.sys "s" "u"}"),
    sect "BI" (bktIdx.map fun ((o, n), i) => s!"{o}:{hexN n}:{i}"),
    sect "U" (users.map fun (k, i, n) => s!"{k}:{i}:{hexN n}"),
    sect "UI" (userIdx.map fun (k, i) => s!"{hexN k}:{i}"),
    sect "M" (urms.map fun ((r, u), (r', u'), m) => s!"{r}:{u}:{r'}:{u'}:{bflag m.rtypeOrg "o" "b"}:{bflag m.owner "o" "m"}"),
    sect "MI" (urmIdx.map fun ((u, r, u2), (vr, vu)) => s!"{u}:{r}:{u2}:{vr}:{vu}"),
    sect "P" ((sortBy (fun a b => a ≤ b) d.pws).map toString)]

def render : Ans → String
  | .err e => errStr e
  | .ok => "ok"
  | .okId i => s!"ok {i}"
  | .foundOrg i n => s!"ok {i} {hexN n}"
  | .foundBkt i o n => s!"ok {i} {o} {hexN n}"
  | .foundUser i n => s!"ok {i} {hexN n}"
  | .ids xs => "ok " ++ showNats (sortBy (fun a b => a ≤ b) xs)
  | .dump d => renderDump d

/-! ### parsing observed answers -/

def parseErr : String → Option Err
  | "nf" => some .nf | "cf" => some .cf | "inv" => some .inv | "int" => some .int | _ => none

def fields (s : String) : List String := s.splitOn ":"

def parseSect (name : String) (tok : String) : Option (List (List String)) :=
  match tok.splitOn "=" with
  | [n, body] => if n = name then some ((splitComma body).map fields) else none
  | _ => none

def parseFlag (s t f : String) : Option Bool :=
  if s = t then some true else if s = f then some false else none

def parseDump (toks : List String) : Option Dump :=
  match toks with
  | [o, oi, b, bi, u, ui, m, mi, p] => do
    let orgs ← (← parseSect "O" o).mapM fun
      | [k, i, n] => do some ((← parseID k), (← parseID i), (← parseName n))
      | _ => none
    let orgIdx ← (← parseSect "OI" oi).mapM fun
      | [k, i] => do some ((← parseName k), (← parseID i))
      | _ => none
    let bkts ← (← parseSect "B" b).mapM fun
      | [k, i, og, n, t] => do
        some ((← parseID k), (← parseID i), (⟨← parseID og, ← parseName n, ← parseFlag t "s" "u"⟩ : BucketRec))
      | _ => none
    let bktIdx ← (← parseSect "BI" bi).mapM fun
      | [og, n, i] => do some (((← parseID og), (← parseName n)), (← parseID i))
      | _ => none
    let users ← (← parseSect "U" u).mapM fun
      | [k, i, n] => do some ((← parseID k), (← parseID i), (← parseName n))
      | _ => none
    let userIdx ← (← parseSect "UI" ui).mapM fun
      | [k, i] => do some ((← parseName k), (← parseID i))
      | _ => none
    let urms ← (← parseSect "M" m).mapM fun
      | [r, us, r', u', rt, ut] => do
        some (((← parseID r), (← parseID us)), ((← parseID r'), (← parseID u')),
              (⟨← parseFlag rt "o" "b", ← parseFlag ut "o" "m"⟩ : UrmRec))
      | _ => none
    let urmIdx ← (← parseSect "MI" mi).mapM fun
      | [us, r, u2, vr, vu] => do
        some (((← parseID us), (← parseID r), (← parseID u2)), ((← parseID vr), (← parseID vu)))
      | _ => none
    let pws ← (← parseSect "P" p).mapM fun
      | [k] => parseID k
      | _ => none
    some { orgs, orgIdx, bkts, bktIdx, users, userIdx, urms, urmIdx, pws }
  | _ => none

def parseAns (op : Op) (s : String) : Option Ans :=
  match tokens s with
  | ["err", e] => (parseErr e).map .err
  | "ok" :: rest =>
    match op, rest with
    | .cm .., [] | .dm .., [] | .idgen .., [] => some .ok
    | .fo _, [i, n] => do some (.foundOrg (← parseID i) (← parseName n))
    | .fu _, [i, n] => do some (.foundUser (← parseID i) (← parseName n))
    | .fb .., [i, o, n] => do some (.foundBkt (← parseID i) (← parseID o) (← parseName n))
    | .lb _, [xs] => (parseNats xs).map .ids
    | .co .., [i] | .uo .., [i] | .dO _, [i] | .cb .., [i] | .ub .., [i] | .db _, [i]
    | .cu .., [i] | .uu .., [i] | .du _, [i] => (parseID i).map .okId
    | _, _ => none
  | toks => if op = .dump then (parseDump toks).map .dump else none

end Influx.Tenant.Wire
