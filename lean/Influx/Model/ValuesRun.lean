/-
  Model.ValuesRun — the typed core of the C37 driver: one operation of the
  property's vocabulary (`Spec.C37.Op`) executed on the model of the code
  (`Model.Values`).  The family only matters for `merge` (tsm1 deduplicates).
-/
import Influx.Model.Values
import Influx.Spec.C37

namespace Influx.Values
open Influx.Spec.C37

def optArr {V : Type} : Option (List (Int × V)) → Res V
  | some l => .arr l
  | none => .panic

/-- what the code answers (per the model) -/
def run {V : Type} : Op V → Res V
  | .merge .tsm1 a b => .arr (mergeV a b)
  | .merge .cursors a b => .arr (mergeA a b)
  | .exclude a lo hi => optArr (exclude a lo hi)
  | .incl a lo hi => optArr («include» a lo hi)
  | .findRange a lo hi => .range (findRange a lo hi)
  | .search a t => .pos (search a t)
  | .dedup a => .arr (dedup a)

end Influx.Values
