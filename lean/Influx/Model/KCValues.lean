/-
  Influx.Model.KCValues — the small `Values` algebra the KeyCursor model (C06) needs:
  timestamp-sorted lists of (timestamp, payload) with `Exclude`, `Include`, `Merge`
  (tsdb/engine/tsm1/encoding.gen.go `FloatValues.Exclude/Include/Merge`, and the identical
  operations of tsdb/cursors/arrayvalues.gen.go used by `Read*ArrayBlock`).

  The Go code finds the range by binary search and copies slices; on its documented domain
  ("values must be deduplicated and sorted") that is a filter, which is how it is written here.
  `Merge(a, b)`: `b` wins on equal timestamps; the Go fast paths (`append(a, b...)` when
  `a` ends before `b` starts, and the converse) are the same function on sorted input.
  The correspondence run compares these three definitions directly with the real
  `tsm1.IntegerValues` and `tsdb.IntegerArray` methods (op `V`), and through every `K` op.
  (A separate, code-shaped model of these operations belongs to C37; this file is
  self-contained on purpose.)
-/
namespace Influx.KC

abbrev Vals (V : Type) := List (Int × V)

variable {V : Type}

/-- `Values.Exclude(min, max)`: drop the points with `min ≤ ts ≤ max`. -/
def exclude (a : Vals V) (lo hi : Int) : Vals V :=
  a.filter fun p => !(decide (lo ≤ p.1) && decide (p.1 ≤ hi))

/-- `Values.Include(min, max)`: keep the points with `min ≤ ts ≤ max`. -/
def include_ (a : Vals V) (lo hi : Int) : Vals V :=
  a.filter fun p => decide (lo ≤ p.1) && decide (p.1 ≤ hi)

/-- `a.Merge(b)`: overlay `b` on top of `a`; on equal timestamps `b`'s point is kept. -/
def merge : Vals V → Vals V → Vals V
  | [], b => b
  | x :: a, [] => x :: a
  | x :: a, y :: b =>
    if x.1 < y.1 then x :: merge a (y :: b)
    else if x.1 = y.1 then merge a (y :: b)
    else y :: merge (x :: a) b
termination_by a b => a.length + b.length

/-- `Values.MinTime()` = `a[0].UnixNano()`; `none` where Go would index an empty slice. -/
def minTime? (a : Vals V) : Option Int := a.head?.map (·.1)
/-- `Values.MaxTime()` = `a[len(a)-1].UnixNano()`. -/
def maxTime? (a : Vals V) : Option Int := a.getLast?.map (·.1)

end Influx.KC
