/-
  Influx.Model.KCValues — the small `Values` algebra the KeyCursor model (C06) needs:
  timestamp-sorted lists of (timestamp, payload) with `Exclude`, `Include`, `Merge`
  (tsdb/engine/tsm1/encoding.gen.go `FloatValues.Exclude/Include/Merge`, and the identical
  operations of tsdb/cursors/arrayvalues.gen.go used by `Read*ArrayBlock`).

  The Go code finds the range by binary search and copies slices; on its documented domain
  ("values must be deduplicated and sorted") that is a filter, which is how it is written here.
  `Merge(a, b)`: `b` wins on equal timestamps; the Go fast paths (`append(a, b...)` when
  `a` ends before `b` starts, and the converse) are the same function on sorted input.
  The correspondence run compares these three definitions directly with the real
  `tsm1.IntegerValues` and `tsdb.IntegerArray` methods (op `V`), and through every `K` op.
  (A separate, code-shaped model of these operations belongs to C37; this file is
  self-contained on purpose.)
-/
namespace Influx.KC

abbrev Vals (V : Type) := List (Int × V)

variable {V : Type}

/-- `Values.Exclude(min, max)`: drop the points with `min ≤ ts ≤ max`. -/
def exclude (a : Vals V) (lo hi : Int) : Vals V :=
  a.filter fun p => !(decide (lo ≤ p.1) && decide (p.1 ≤ hi))

/-- `Values.Include(min, max)`: keep the points with `min ≤ ts ≤ max`. -/
def include_ (a : Vals V) (lo hi : Int) : Vals V :=
  a.filter fun p => decide (lo ≤ p.1) && decide (p.1 ≤ hi)

/-- the merge loop of `a.Merge(b)` (`for len(a) > 0 && len(b) > 0 { … }` and the two trailing
    appends); the first argument is the loop's variant `len(a) + len(b)`, which makes the
    definition structurally recursive (kernel-reducible: concrete instances are decided by
    evaluation).  `b` wins on equal timestamps. -/
def mergeAux : Nat → Vals V → Vals V → Vals V
  | _, [], b => b
  | _, x :: a, [] => x :: a
  | 0, x :: a, y :: b => x :: a ++ y :: b      -- not reached: the variant is large enough
  | k + 1, x :: a, y :: b =>
    if x.1 < y.1 then x :: mergeAux k a (y :: b)
    else if x.1 = y.1 then mergeAux k a (y :: b)
    else y :: mergeAux k (x :: a) b

/-- `a.Merge(b)`: overlay `b` on top of `a`; on equal timestamps `b`'s point is kept. -/
def merge (a b : Vals V) : Vals V := mergeAux (a.length + b.length) a b

/-- `Values.MinTime()` = `a[0].UnixNano()`; `none` where Go would index an empty slice. -/
def minTime? (a : Vals V) : Option Int := a.head?.map (·.1)
/-- `Values.MaxTime()` = `a[len(a)-1].UnixNano()`. -/
def maxTime? (a : Vals V) : Option Int := a.getLast?.map (·.1)

end Influx.KC
