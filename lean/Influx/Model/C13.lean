/-
  Model.C13 — typed operation interface of the series-file model.
-/
import Influx.Model.SeriesFile
import Influx.Model.SeriesFileG

namespace Influx.C13
open Influx.SF

/-- a key with the partition its hash selects -/
abbrev PKey := Bytes × Nat

inductive Op where
  | create (keys : List PKey)
  | delete (id : Nat)
  | delKey (k : PKey)
  | id (k : PKey)
  | key (id : Nat)
  | reopen
  | compact (p : Nat)
  | threshold (n : Nat)
  | segCompact
  | torn (k : PKey) (cut : Nat)
  | tornDel (id cut : Nat)
  | allIDs
  | allKeys
  | state (p : Nat)
  | dump (p : Nat)
  /-- harness: start every partition with the (small) empty segment `id` instead of 0000 -/
  | smallSeg (id : Nat)
  /-- harness: a header-only newest segment appears in partition `p` (crashed roll-over); reopen -/
  | hdrSeg (p : Nat)
deriving Repr

inductive Obs where
  | ok
  | ids (xs : List Nat)
  | id (x : Nat)
  | key (k : Option Bytes)
  | bool (b : Bool)
  | keyIDs (ps : List (Bytes × Nat))
  | idKeys (ps : List (Nat × Option Bytes))
  | nums (xs : List Nat)
  | entries (es : List Entry)
  | err (e : String)
  | other (s : String)
deriving Repr, DecidableEq

abbrev State := SFile

def init : State := {}

def step (s : State) : Op → State × Obs
  | .create keys => let (s', ids) := s.create keys; (s', .ids ids)
  | .delete id => (s.delete id, .ok)
  | .delKey k =>
    let id := s.findID k
    (if id ≠ 0 then s.delete id else s, .id id)
  | .id k => (s, .id (s.findID k))
  | .key id => (s, .key (s.seriesKey id))
  | .reopen => (s.reopen, .ok)
  | .compact p => (s.compact p, .ok)
  | .threshold n => (s.setThreshold n, .ok)
  | .segCompact =>
    match s.segCompact with
    | some s' => (s', .ok)
    | none => (s.reopen, .err "err-compact")
  | .torn k cut => let (s', id) := s.torn k cut; (s', .id id)
  | .tornDel id cut => let s' := s.tornDel id cut; (s', .bool (s'.isDeleted id))
  | .allIDs => (s, .keyIDs (s.seen.map fun k => (k.1, s.findID k)))
  | .allKeys => (s, .idKeys (s.issued.map fun id => (id, s.seriesKey id)))
  | .state i =>
    match s.parts[i]? with
    | some p =>
      (s, .nums [p.seq, p.maxSeriesID, p.maxOffset,
        (match p.idxFile with | some d => d.count | none => 0), p.memIDOff.length, p.tomb.length])
    | none => (s, .err "bad-op")
  | .dump i =>
    match s.parts[i]? with
    | some p => (s, .entries (entries p.file))
    | none => (s, .err "bad-op")
  -- only meaningful in the general model (`stepG`)
  | .smallSeg _ => (s, .err "bad-op")
  | .hdrSeg _ => (s, .err "bad-op")

def run : State → List Op → List (Op × Obs)
  | _, [] => []
  | st, o :: os => let (st', a) := step st o; (o, a) :: run st' os

/-- partitions an op reads or writes (for masking answers of ambiguous partitions) -/
def touches : Op → List Nat
  | .create keys => keys.map (·.2)
  | .delete id => [SFile.idPart id]
  | .delKey k => [k.2]
  | .id k => [k.2]
  | .key id => [SFile.idPart id]
  | .torn k _ => [k.2]
  | .tornDel id _ => [SFile.idPart id]
  | .state p => [p]
  | .dump p => [p]
  | .compact p => [p]
  | .allIDs | .allKeys | .segCompact | .reopen => List.range partN
  | .threshold _ => []
  | .smallSeg _ | .hdrSeg _ => List.range partN

/-! ### several segments per partition -/

/-- the general model (`Model/SeriesFileG.lean`); crash ops and the offline segment compaction
    are not modelled there (`unmodelled`: the driver prints `*`) -/
def stepG (s : State) : Op → State × Obs
  | .create keys =>
    match s.createG keys with
    | some (s', ids) => (s', .ids ids)
    | none => (s, .err "unmodelled")
  | .delete id =>
    match s.deleteG id with
    | some s' => (s', .ok)
    | none => (s, .err "unmodelled")
  | .delKey k =>
    let id := s.findIDG k
    if id ≠ 0 then
      match s.deleteG id with
      | some s' => (s', .id id)
      | none => (s, .err "unmodelled")
    else (s, .id id)
  | .id k => (s, .id (s.findIDG k))
  | .key id => (s, .key (s.seriesKeyG id))
  | .reopen => (s.reopenG, .ok)
  | .compact p => (s.compactG p, .ok)
  | .threshold n => (s.setThreshold n, .ok)
  | .allIDs => (s, .keyIDs (s.seen.map fun k => (k.1, s.findIDG k)))
  | .allKeys => (s, .idKeys (s.issued.map fun id => (id, s.seriesKeyG id)))
  | .state i =>
    match s.parts[i]? with
    | some p =>
      (s, .nums [p.seq, p.maxSeriesID, p.maxOffset,
        (match p.idxFile with | some d => d.count | none => 0), p.memIDOff.length, p.tomb.length])
    | none => (s, .err "bad-op")
  | .dump i =>
    match s.parts[i]? with
    | some p => (s, .entries p.entriesG)
    | none => (s, .err "bad-op")
  | .smallSeg id => if s.fresh ∧ id < 65536 then (s.smallSeg id, .ok) else (s, .err "bad-op")
  | .hdrSeg i => if i < partN then (s.hdrSeg i, .ok) else (s, .err "bad-op")
  | .segCompact | .torn .. | .tornDel .. => (s, .err "unmodelled")

/-- bytes an op can append to one segment at most -/
def cost : Op → Nat
  | .create keys => (keys.map fun k => entryHdrSize + k.1.length).sum
  | .delete _ | .delKey _ | .tornDel .. => entryHdrSize
  | .torn k _ => entryHdrSize + k.1.length
  | _ => 0

/-- every partition has the single segment 0000 and `op` cannot fill it: no roll-over can
    happen while `op` runs, the single-segment model applies -/
def plainFor (s : State) (op : Op) : Bool :=
  (match op with | .smallSeg _ | .hdrSeg _ => false | _ => true) &&
  s.parts.all fun p => p.older.isEmpty && p.segId == 0 && decide (p.file.length + cost op ≤ 2 ^ 22)

/-- **the model the driver runs**: the single-segment model while no roll-over is possible,
    the general one otherwise -/
def stepM (s : State) (op : Op) : State × Obs := if plainFor s op then step s op else stepG s op

def runM : State → List Op → List (Op × Obs)
  | _, [] => []
  | st, o :: os => (o, (stepM st o).2) :: runM (stepM st o).1 os

/-- the states before each op of a run -/
def statesM : State → List Op → List (State × Op)
  | _, [] => []
  | st, o :: os => (st, o) :: statesM (stepM st o).1 os

end Influx.C13
