/-
  Model.C13 — typed operation interface of the series-file model.
-/
import Influx.Model.SeriesFile

namespace Influx.C13
open Influx.SF

/-- a key with the partition its hash selects -/
abbrev PKey := Bytes × Nat

inductive Op where
  | create (keys : List PKey)
  | delete (id : Nat)
  | delKey (k : PKey)
  | id (k : PKey)
  | key (id : Nat)
  | reopen
  | compact (p : Nat)
  | threshold (n : Nat)
  | segCompact
  | torn (k : PKey) (cut : Nat)
  | tornDel (id cut : Nat)
  | allIDs
  | allKeys
  | state (p : Nat)
  | dump (p : Nat)
deriving Repr

inductive Obs where
  | ok
  | ids (xs : List Nat)
  | id (x : Nat)
  | key (k : Option Bytes)
  | bool (b : Bool)
  | keyIDs (ps : List (Bytes × Nat))
  | idKeys (ps : List (Nat × Option Bytes))
  | nums (xs : List Nat)
  | entries (es : List Entry)
  | err (e : String)
  | other (s : String)
deriving Repr, DecidableEq

abbrev State := SFile

def init : State := {}

def step (s : State) : Op → State × Obs
  | .create keys => let (s', ids) := s.create keys; (s', .ids ids)
  | .delete id => (s.delete id, .ok)
  | .delKey k =>
    let id := s.findID k
    (if id ≠ 0 then s.delete id else s, .id id)
  | .id k => (s, .id (s.findID k))
  | .key id => (s, .key (s.seriesKey id))
  | .reopen => (s.reopen, .ok)
  | .compact p => (s.compact p, .ok)
  | .threshold n => (s.setThreshold n, .ok)
  | .segCompact =>
    match s.segCompact with
    | some s' => (s', .ok)
    | none => (s.reopen, .err "err-compact")
  | .torn k cut => let (s', id) := s.torn k cut; (s', .id id)
  | .tornDel id cut => let s' := s.tornDel id cut; (s', .bool (s'.isDeleted id))
  | .allIDs => (s, .keyIDs (s.seen.map fun k => (k.1, s.findID k)))
  | .allKeys => (s, .idKeys (s.issued.map fun id => (id, s.seriesKey id)))
  | .state i =>
    match s.parts[i]? with
    | some p =>
      (s, .nums [p.seq, p.maxSeriesID, p.maxOffset,
        (match p.idxFile with | some d => d.count | none => 0), p.memIDOff.length, p.tomb.length])
    | none => (s, .err "bad-op")
  | .dump i =>
    match s.parts[i]? with
    | some p => (s, .entries (entries p.file))
    | none => (s, .err "bad-op")

def run : State → List Op → List (Op × Obs)
  | _, [] => []
  | st, o :: os => let (st', a) := step st o; (o, a) :: run st' os

/-- partitions an op reads or writes (for masking answers of ambiguous partitions) -/
def touches : Op → List Nat
  | .create keys => keys.map (·.2)
  | .delete id => [SFile.idPart id]
  | .delKey k => [k.2]
  | .id k => [k.2]
  | .key id => [SFile.idPart id]
  | .torn k _ => [k.2]
  | .tornDel id _ => [SFile.idPart id]
  | .state p => [p]
  | .dump p => [p]
  | .compact p => [p]
  | .allIDs | .allKeys | .segCompact | .reopen => List.range partN
  | .threshold _ => []

end Influx.C13
