/-
  Model.CompactCase — the typed core of the C04 check: operations, observations
  and the model's `step`.

  A case describes a set of TSM files block by block (`blk`), range deletes on
  single files (`del`: `TSMReader.DeleteRange`), cache writes (`cw`) and then
  asks for a compaction (`compact`: `Compactor.CompactFull/CompactFast`) or a
  snapshot (`snap`: `Compactor.WriteSnapshot`); the observation is the content
  of the files written, block by block.

  Deletes are modelled from reader.go as they are:
    `batchDelete.DeleteRange`  (key-range / time-range pre-checks against the file),
    `Tombstoner.AddRange`      (FilterFn = index.ContainsKey),
    `batchDelete.Commit → applyTombstones` (walks the tombstones added since `lastAppliedOffset`),
    `indirectIndex.DeleteRange` (per-key range checks, full-key deletion when the range or
                                 the chained sorted tombstones cover the key, else a tombstone).
-/
import Influx.Model.CompactIter

namespace Influx.Model.Compact

/-- operations of a case (payload = `Int`) -/
inductive Op where
  | blk (file : Nat) (key : Key) (pts : Pts Int)
  | del (file : Nat) (keys : List Key) (lo hi : Int)
  | cw (key : Key) (pts : Pts Int)
  | compact (fast : Bool) (size : Nat) (reopen : Bool)
  | snap (size : Nat)
deriving Repr, BEq, DecidableEq

abbrev OutFile := List (Key × OBlk Int)

/-- observations -/
inductive Obs where
  | ok
  | badOp
  | out (files : List OutFile)
  | err (msg : String)
deriving Repr, BEq, DecidableEq

/-! ### validity of `blk` / `cw` lines (the harness applies the same rules) -/

/-- storable timestamps: models.MinNanoTime … models.MaxNanoTime -/
def timeOK (t : Int) : Bool := decide (minInt64 + 2 ≤ t) && decide (t ≤ maxInt64 - 1)

/-- the key's first byte selects the value type: f,i,u,b,s (anything else: integer) -/
def valueOK (k : Key) (v : Int) : Bool :=
  match k.head? with
  | some 98 => v == 0 || v == 1                                     -- 'b' boolean
  | some 117 => decide (0 ≤ v) && decide (v ≤ 4611686018427387904)  -- 'u' unsigned
  | some 102 => decide (-9007199254740992 ≤ v) && decide (v ≤ 9007199254740992)  -- 'f' float64
  | _ => decide (-4611686018427387904 ≤ v) && decide (v ≤ 4611686018427387904)

def keyOK (k : Key) : Bool := decide (0 < k.length) && decide (k.length ≤ 64) && k.all (fun b => decide (b < 256))

def strictAsc : Pts Int → Bool
  | [] => true
  | [_] => true
  | p :: q :: rest => decide (p.1 < q.1) && strictAsc (q :: rest)

def ptsOK (k : Key) (pts : Pts Int) : Bool :=
  pts.all (fun p => timeOK p.1 && valueOK k p.2)

/-- last timestamp already written for (file, key); `s` holds the accepted ops newest first -/
def lastTime (file : Nat) (key : Key) : List Op → Option Int
  | [] => none
  | Op.blk f k pts :: rest =>
    if f = file ∧ k = key then pts.getLast?.map (·.1) else lastTime file key rest
  | _ :: rest => lastTime file key rest

/-- State = accepted operations, newest first. -/
abbrev State := List Op

def init : State := []

def blkOK (s : State) (file : Nat) (key : Key) (pts : Pts Int) : Bool :=
  decide (file < 64) && keyOK key && decide (0 < pts.length) && strictAsc pts && ptsOK key pts &&
    (match lastTime file key s, pts.head? with
     | some t, some p => decide (t < p.1)
     | _, _ => true)

/-- `DeleteRange`: "the series keys passed in must be sorted" -/
def keysAsc : List Key → Bool
  | [] => true
  | [_] => true
  | a :: b :: rest => keyLt a b && keysAsc (b :: rest)

def delOK (file : Nat) (keys : List Key) : Bool :=
  decide (file < 64) && keys.all keyOK && keysAsc keys

def cwOK (key : Key) (pts : Pts Int) : Bool :=
  keyOK key && decide (0 < pts.length) && ptsOK key pts

/-! ### building the files -/

def keyLe (a b : Key) : Bool := !keyLt b a

/-- insert a block at the end of its key's run, keys kept sorted -/
def addBlock (k : Key) (b : Pts Int) : List (Key × List (Pts Int)) → List (Key × List (Pts Int))
  | [] => [(k, [b])]
  | (k', bs) :: rest =>
    if k = k' then (k', bs ++ [b]) :: rest
    else if keyLt k k' then (k, [b]) :: (k', bs) :: rest
    else (k', bs) :: addBlock k b rest

/-- the blocks of file `f`, keys sorted, blocks in op order (`ops` oldest first) -/
def fileBlocksL (f : Nat) (ops : List Op) : List (Key × List (Pts Int)) :=
  ops.foldl (fun acc op => match op with
    | Op.blk f' k pts => if f' = f then addBlock k pts acc else acc
    | _ => acc) []

/-! ### the index of one reader under deletes -/

/-- per key: `some tombstones` = present, `none` = removed from the index -/
abbrev IndexSt := List (Key × Option (List (Int × Int)))

/-- `fn` of `sort.Slice(newTs, fn)`: by Min, then Max -/
def tsLe (a b : Int × Int) : Bool :=
  if a.1 = b.1 then decide (a.2 ≤ b.2) else decide (a.1 < b.1)

def tsInsert (x : Int × Int) : List (Int × Int) → List (Int × Int)
  | [] => [x]
  | y :: ys => if tsLe x y then x :: y :: ys else y :: tsInsert x ys

def tsSort (l : List (Int × Int)) : List (Int × Int) := l.foldr tsInsert []

/-- the chain walk over the sorted tombstones: returns the window (minTs, maxTs) or the
    reset window (MaxInt64, MinInt64) at the first gap -/
def tsChain : Int × Int → List (Int × Int) → Int → Int → Int × Int
  | _, [], lo, hi => (lo, hi)
  | prev, ts :: rest, lo, hi =>
    if prev.2 ≠ ts.1 - 1 ∧ ¬ (prev.1 ≤ ts.2 ∧ prev.2 ≥ ts.1) then (maxInt64, minInt64)
    else tsChain ts rest (if ts.1 < lo then ts.1 else lo) (if ts.2 > hi then ts.2 else hi)

/-- `indirectIndex.DeleteRange` for one key of the batch.
    `fmin/fmax` = time range of the file, `kmin/kmax` = first block's min / last block's max. -/
def indexDelete (fmin fmax : Int) (kmin kmax : Int) (lo hi : Int)
    (cur : Option (List (Int × Int))) : Option (List (Int × Int)) :=
  match cur with
  | none => none
  | some existing =>
    if lo = minInt64 ∧ hi = maxInt64 then none
    else if lo > fmax ∨ hi < fmin then some existing
    else if lo > kmax ∨ hi < kmin then some existing
    else if lo ≤ kmin ∧ hi ≥ kmax then none
    else
      let newTs := tsSort (existing ++ [(lo, hi)])
      match newTs with
      | [] => some newTs
      | t0 :: rest =>
        let (a, z) := tsChain t0 rest t0.1 t0.2
        if a ≤ kmin ∧ z ≥ kmax then none else some newTs

structure RFile where
  blocks : List (Key × List (Pts Int))
  /-- tombstone log: what `Tombstoner.AddRange` appended -/
  log : List (Key × Int × Int)
  index : IndexSt

def ptsFirst (b : Pts Int) : Int := (b.head?.map (·.1)).getD 0
def ptsLast (b : Pts Int) : Int := (b.getLast?.map (·.1)).getD 0

def RFile.fmin (f : RFile) : Int :=
  (f.blocks.flatMap (fun kb => kb.2.map ptsFirst)).foldl (fun a b => if b < a then b else a) maxInt64
def RFile.fmax (f : RFile) : Int :=
  (f.blocks.flatMap (fun kb => kb.2.map ptsLast)).foldl (fun a b => if b > a then b else a) minInt64

def RFile.keyRange (f : RFile) (k : Key) : Option (Int × Int) :=
  match f.blocks.find? (fun kb => kb.1 = k) with
  | some (_, bs) =>
    match bs.head?, bs.getLast? with
    | some b0, some b1 => some (ptsFirst b0, ptsLast b1)
    | _, _ => none
  | none => none

def RFile.applyEntry (f : RFile) (ix : IndexSt) (e : Key × Int × Int) : IndexSt :=
  ix.map fun (k, cur) =>
    if k = e.1 then
      match f.keyRange k with
      | some (kmin, kmax) => (k, indexDelete f.fmin f.fmax kmin kmax e.2.1 e.2.2 cur)
      | none => (k, cur)
    else (k, cur)

/-- `TSMReader.DeleteRange(keys, lo, hi)` -/
def RFile.deleteRange (f : RFile) (keys : List Key) (lo hi : Int) : RFile :=
  match keys.head?, keys.getLast?, f.blocks.head?, f.blocks.getLast? with
  | some k0, some k1, some (fk0, _), some (fk1, _) =>
    -- OverlapsKeyRange(minKey, maxKey): file.minKey ≤ maxKey ∧ file.maxKey ≥ minKey
    if !(keyLe fk0 k1 && keyLe k0 fk1) then f
    -- OverlapsTimeRange(lo, hi)
    else if !(decide (f.fmin ≤ hi) && decide (f.fmax ≥ lo)) then f
    else
      -- AddRange: FilterFn = index.ContainsKey
      let present := keys.filter fun k => f.index.any fun (k', cur) => k' = k && cur.isSome
      let added := present.map fun k => (k, lo, hi)
      -- Commit → applyTombstones: `Tombstoner.Walk` resumes at `lastAppliedOffset`, so only the
      -- entries added by this call are applied (a freshly opened reader walks the whole file once)
      { f with log := f.log ++ added, index := added.foldl f.applyEntry f.index }
  | _, _, _, _ => f

def mkRFile (blocks : List (Key × List (Pts Int))) : RFile :=
  ⟨blocks, [], blocks.map fun kb => (kb.1, some [])⟩

/-- what `BlockIterator` + `TombstoneRange` present to the compaction -/
def RFile.runs (f : RFile) : FileRuns Int :=
  f.blocks.filterMap fun (k, bs) =>
    match f.index.find? (fun e => e.1 = k) with
    | some (_, some tombs) =>
      some (k, bs.map fun b => { minTime := ptsFirst b, maxTime := ptsLast b, pts := b, tombstones := tombs })
    | _ => none

/-- file numbers used by the case, ascending -/
def fileIds (ops : List Op) : List Nat :=
  (List.range 64).filter fun f => ops.any fun op => match op with
    | Op.blk f' _ _ => f' = f
    | _ => false

/-- all readers of the case after the deletes (in op order) -/
def readers (ops : List Op) : List RFile :=
  (fileIds ops).map fun f =>
    ops.foldl (fun rf op => match op with
      | Op.del f' keys lo hi => if f' = f then rf.deleteRange keys lo hi else rf
      | _ => rf) (mkRFile (fileBlocksL f ops))

/-- `maxIndexEntries`, `tsdb.MaxTSMFileSize` (not reachable by a small case) -/
def limits : Limits := ⟨65535, none⟩

def cacheOf (ops : List Op) : List (Key × Pts Int) :=
  ops.foldl (fun acc op => match op with
    | Op.cw k pts => insertKey k pts acc
    | _ => acc) []

def seqLen (s : List (Key × OBlk Int)) : Nat := s.length + 1

def modelCompact (ops : List Op) (fast : Bool) (size : Nat) : Obs :=
  match compactSeq { size := size, fast := fast } ((readers ops).map RFile.runs) with
  | .ok s => Obs.out (splitFiles limits (fun _ => 0) (seqLen s) s)
  | .error e => Obs.err e

def modelSnap (ops : List Op) (size : Nat) : Obs :=
  match snapshotSeq (if size = 0 then 1000 else size) (cacheOf ops) with
  | .ok s => Obs.out (splitFiles limits (fun _ => 0) (seqLen s) s)
  | .error e => Obs.err e

/-- one step of the model; the state keeps accepted ops newest first -/
def step (s : State) (op : Op) : State × Obs :=
  match op with
  | Op.blk f k pts => if blkOK s f k pts then (op :: s, Obs.ok) else (s, Obs.badOp)
  | Op.del f keys _ _ => if delOK f keys then (op :: s, Obs.ok) else (s, Obs.badOp)
  | Op.cw k pts => if cwOK k pts then (op :: s, Obs.ok) else (s, Obs.badOp)
  | Op.compact fast size _ =>
    if size = 0 ∨ size > 100000 then (s, Obs.badOp) else (s, modelCompact s.reverse fast size)
  | Op.snap size =>
    if size > 100000 then (s, Obs.badOp) else (s, modelSnap s.reverse size)

/-- trace of the model on a case -/
def run : State → List Op → List (Op × Obs)
  | _, [] => []
  | s, op :: ops => let (s', o) := step s op; (op, o) :: run s' ops

end Influx.Model.Compact
