/-
  Influx.Model.DBRP — `dbrp.Service` (`dbrp/service.go`, `dbrp/index.go`,
  `dbrp_mapping.go`, `dbrp/bucket_service.go`) over the four kv buckets it uses,
  written from the code as it is.

  * `recs`  — bucket `dbrpv1`: encoded id ↦ JSON of the mapping.  Keys are 16 hex digits,
    so cursor order = ascending id; the JSON round trip is the identity on the fields.
  * `idx`   — bucket `dbrpbyorganddbindexv1`: key `hex(org) ++ db ++ "/" ++ hex(id)` ↦ id.
  * `byOrg` — bucket `dbrpbyorgv1`: key `hex(org) ++ "/" ++ hex(id)` ↦ id.
  * `defs`  — bucket `dbrpdefaultv1`: `hex(org) ++ db` ↦ id of the default mapping.
  * `buckets` — the `influxdb.BucketService` the service consults for virtual mappings
    (harness: an in-memory list, `FindBuckets` in insertion order).
  * `nextID` — the injected `IDGenerator` (harness: 1, 3, 5, …; bucket ids are even).

  `platform.ID` is a `Nat` (0 = invalid).  kv transactions are serialisable and every
  operation here runs alone, so a transaction is a pure function on `St`.
-/
import Influx.Model.DBRPTypes
import Influx.Generated.DBRP

namespace Influx.DBRP

structure St where
  recs : List Mapping
  idx : List (Nat × String × Nat)
  byOrg : List (Nat × Nat)
  defs : List (Nat × String × Nat)
  buckets : List Bucket
  nextID : Nat
deriving Repr, Inhabited

def St.init : St := { recs := [], idx := [], byOrg := [], defs := [], buckets := [], nextID := 1 }

inductive Err where
  | notFound        -- ErrDBRPNotFound
  | invalid         -- ErrInvalidDBRP (Validate)
  | exists_         -- ErrDBRPAlreadyExists (EConflict)
  | bucketNotFound  -- error of BucketService.FindBucketByID
  | internal        -- ErrInternalService
  | panic           -- nil dereference in FindMany (`*defID`)
deriving Repr, DecidableEq, Inhabited

/-! ### kv primitives -/

def getRec (s : St) (id : Nat) : Option Mapping := s.recs.find? (·.ID == id)

/-- `bucket.Put(encodedID, json)`: replace or insert in key order -/
def insertRec (m : Mapping) : List Mapping → List Mapping
  | [] => [m]
  | x :: xs => if m.ID < x.ID then m :: x :: xs else if m.ID == x.ID then m :: xs else x :: insertRec m xs

def putRec (s : St) (m : Mapping) : St := { s with recs := insertRec m s.recs }
def delRec (s : St) (id : Nat) : St := { s with recs := s.recs.filter (·.ID != id) }

def getDefault (s : St) (org : Nat) (db : String) : Option Nat :=
  (s.defs.find? fun e => e.1 == org && e.2.1 == db).map (·.2.2)

def setDefault (s : St) (org : Nat) (db : String) (id : Nat) : St :=
  { s with defs := (org, db, id) :: s.defs.filter fun e => !(e.1 == org && e.2.1 == db) }

def unsetDefault (s : St) (org : Nat) (db : String) : St :=
  { s with defs := s.defs.filter fun e => !(e.1 == org && e.2.1 == db) }

def idxInsert (s : St) (org : Nat) (db : String) (id : Nat) : St :=
  if s.idx.contains (org, db, id) then s else { s with idx := s.idx ++ [(org, db, id)] }
def idxDelete (s : St) (org : Nat) (db : String) (id : Nat) : St :=
  { s with idx := s.idx.filter (· != (org, db, id)) }
def byOrgInsert (s : St) (org id : Nat) : St :=
  if s.byOrg.contains (org, id) then s else { s with byOrg := s.byOrg ++ [(org, id)] }
def byOrgDelete (s : St) (org id : Nat) : St :=
  { s with byOrg := s.byOrg.filter (· != (org, id)) }

/-- ascending insertion sort (cursor order of the index keys of one foreign key) -/
def sortIds (xs : List Nat) : List Nat :=
  xs.foldl (fun acc x =>
    let rec ins : List Nat → List Nat
      | [] => [x]
      | y :: ys => if x ≤ y then x :: y :: ys else y :: ins ys
    ins acc) []

/-- `byOrgAndDatabase.Walk(org ++ db)`: primary keys in key order, then `GetBatch`: the
    records that exist, whatever they contain -/
def walk (s : St) (org : Nat) (db : String) : List Mapping :=
  (sortIds ((s.idx.filter fun e => e.1 == org && e.2.1 == db).map (·.2.2))).filterMap (getRec s)

/-- `byOrg.Walk(org)` -/
def walkOrg (s : St) (org : Nat) : List Mapping :=
  (sortIds ((s.byOrg.filter fun e => e.1 == org).map (·.2))).filterMap (getRec s)

/-! ### names, buckets, virtual mappings -/

/-- `validName` of `dbrp_mapping.go`, for ASCII names (`unicode.IsPrint` = 0x20 … 0x7e);
    non-ASCII characters are taken as printable (the generators stay within ASCII) -/
def validName (name : String) : Bool :=
  name.toList.all (fun c => decide (c.toNat ≥ 0x20) && c.toNat != 0x7f) &&
  name != "" && name != "." && name != ".." && !name.toList.any (fun c => c == '/' || c == '\\')

def validate (m : Mapping) : Bool :=
  validName m.Database && validName m.RetentionPolicy && m.OrganizationID != 0 && m.BucketID != 0

/-- `parseDBRP`: `strings.Cut(name, "/")`, `autogen` when there is no slash -/
def parseDBRP (name : String) : String × String :=
  let cs := name.toList
  if cs.contains '/' then
    (String.ofList (cs.takeWhile (· != '/')), String.ofList ((cs.dropWhile (· != '/')).drop 1))
  else (name, "autogen")

def bucketToMapping (b : Bucket) : Mapping :=
  let p := parseDBRP b.Name
  { ID := b.ID, Default := b.Name == p.1, Database := p.1, RetentionPolicy := p.2,
    OrganizationID := b.OrgID, BucketID := b.ID, Virtual := true }

def findBucketByID (s : St) (id : Nat) : Option Bucket := s.buckets.find? (·.ID == id)

/-! ### `Service.FindByID` -/

def findByID (s : St) (org id : Nat) : Except Err Mapping :=
  if id == 0 then .error .invalid else   -- `id.Encode()` fails: ErrInvalidDBRPID
  let virt : Except Err Mapping :=
    match findBucketByID s id with
    | some b => .ok (bucketToMapping b)
    | none => .error .notFound
  match getRec s id with
  | none => virt
  | some m =>
    if m.OrganizationID != org then virt
    else .ok { m with Default := getDefault s m.OrganizationID m.Database == some id }

/-! ### `Service.isDBRPUnique`, `getFirstBut` -/

def isDBRPUnique (s : St) (m : Mapping) : Bool :=
  (walk s m.OrganizationID m.Database).all fun v => v.ID == m.ID || v.RetentionPolicy != m.RetentionPolicy

/-- first key of the walk that is not `skip` -/
def getFirstBut (s : St) (org : Nat) (db : String) (skip : Nat) : Option Nat :=
  ((sortIds ((s.idx.filter fun e => e.1 == org && e.2.1 == db).map (·.2.2))).filter
    fun k => (getRec s k).isSome && k != skip).head?

/-! ### `Service.Create` -/

/-- the mapping as passed by the caller (`ID = 0`: generate one); returns the stored mapping -/
def create (s : St) (m : Mapping) : St × Except Err Mapping :=
  let (s, m) := if m.ID == 0 then ({ s with nextID := s.nextID + 2 }, { m with ID := s.nextID }) else (s, m)
  if !validate m then (s, .error .invalid) else
  if (findBucketByID s m.BucketID).isNone then (s, .error .bucketNotFound) else
  let dup := match findByID s m.OrganizationID m.ID with
    | .ok d => !d.Virtual
    | .error _ => false
  if dup then (s, .error .exists_) else
  if !isDBRPUnique s m then (s, .error .exists_) else
  let s := idxInsert s m.OrganizationID m.Database m.ID
  let s := byOrgInsert s m.OrganizationID m.ID
  let m := if (getDefault s m.OrganizationID m.Database).isNone then { m with Default := true } else m
  let s := putRec s m
  let s := if m.Default then setDefault s m.OrganizationID m.Database m.ID else s
  (s, .ok m)

/-! ### `Service.Update` -/

def update (s : St) (m : Mapping) : St × Except Err Mapping :=
  if !validate m then (s, .error .invalid) else
  match findByID s m.OrganizationID m.ID with
  | .error _ => (s, .error .notFound)
  | .ok old =>
    let m := { m with ID := old.ID, OrganizationID := old.OrganizationID, BucketID := old.BucketID, Database := old.Database }
    if !isDBRPUnique s m then (s, .error .exists_) else
    let s := putRec s m
    let s :=
      if m.Default then setDefault s m.OrganizationID m.Database m.ID
      else if old.Default then
        match getFirstBut s m.OrganizationID m.Database m.ID with
        | some f => setDefault s m.OrganizationID m.Database f
        | none => s
      else s
    (s, .ok m)

/-! ### `Service.Delete` -/

def delete (s : St) (org id : Nat) : St × Except Err Unit :=
  match findByID s org id with
  | .error _ => (s, .ok ())
  | .ok m =>
    if org == 0 then (s, .error .internal) else   -- `orgID.Encode()` fails before the transaction
    (let s := delRec s id
    let s := idxDelete s m.OrganizationID m.Database id
    let s := byOrgDelete s org id
    if m.Default then
      match getFirstBut s m.OrganizationID m.Database id with
      | some f => setDefault s m.OrganizationID m.Database f
      | none => unsetDefault s m.OrganizationID m.Database
    else s, .ok ())

/-! ### `Service.FindMany` -/

/-- `filterFunc` of `dbrp/service.go`, regenerated from /repo by the translator
    (`Influx.Generated.DBRP.filterFunc`, `none` = nil dereference; it never is: `filterFunc_total`) -/
def filterFunc (m : Mapping) (f : Filter) : Bool :=
  Influx.Generated.DBRP.filterFunc m f == some true

/-- the visitor `add`: recompute `Default` from the defaults bucket (`*defID` panics when the
    database has no default entry), then filter -/
def addAll (s : St) (f : Filter) : List Mapping → List Mapping → Except Err (List Mapping)
  | ms, [] => .ok ms
  | ms, v :: vs =>
    match getDefault s v.OrganizationID v.Database with
    | none => .error .panic
    | some d =>
      let m := { v with Default := v.ID == d }
      addAll s f (if filterFunc m f then ms ++ [m] else ms) vs

/-- the stored mappings matching the filter (first half of `FindMany`) -/
def findPhysical (s : St) (f : Filter) : Except Err (List Mapping) :=
  match f.OrgID with
  | some org =>
    match f.Database with
    | some db =>
      if db != "" then
        if f.Default == some true then
          match getDefault s org db with
          | none => .ok []
          | some d =>
            match getRec s d with
            | none => .error .internal
            | some v => addAll s f [] [v]
        else addAll s f [] (walk s org db)
      else addAll s f [] (walkOrg s org)
    | none => addAll s f [] (walkOrg s org)
  | none => addAll s f [] s.recs

/-- `BucketService.FindBuckets{ID: filter.BucketID, OrganizationID: filter.OrgID}` of the harness -/
def findBuckets (s : St) (f : Filter) : List Bucket :=
  s.buckets.filter fun b => (f.BucketID.isNone || f.BucketID == some b.ID) && (f.OrgID.isNone || f.OrgID == some b.OrgID)

/-- the inner loop over `ms` for one virtual mapping: `none` = `continue OUTER`.
    With `fixes/C43-findmany-virtual-dedup.patch` the loop no longer `break`s after clearing
    `Default` (before the patch a second bucket naming the same database and retention policy
    was listed again whenever an earlier entry of that database was a default). -/
def mergeOne (nm : Mapping) : List Mapping → Option Mapping
  | [] => some nm
  | m :: ms =>
    if m.Database == nm.Database then
      if nm.Virtual && m.RetentionPolicy == nm.RetentionPolicy then none
      else mergeOne (if m.Default && nm.Default then { nm with Default := false } else nm) ms
    else mergeOne nm ms

/-- second half of `FindMany`: virtual mappings from bucket names -/
def mergeVirtual (f : Filter) : List Mapping → List Bucket → List Mapping
  | ms, [] => ms
  | ms, b :: bs =>
    match mergeOne (bucketToMapping b) ms with
    | none => mergeVirtual f ms bs
    | some nm => mergeVirtual f (if filterFunc nm f then ms ++ [nm] else ms) bs

def findMany (s : St) (f : Filter) : Except Err (List Mapping) :=
  match findPhysical s f with
  | .error e => .error e
  | .ok ms => .ok (mergeVirtual f ms (findBuckets s f))

/-! ### `dbrp.BucketService.DeleteBucket` (the wrapper that removes a bucket's mappings) -/

def deleteBucket (s : St) (id : Nat) : St × Except Err Unit :=
  match findBucketByID s id with
  | none => (s, .error .bucketNotFound)
  | some b =>
    let s := { s with buckets := s.buckets.filter (·.ID != id) }
    match findMany s { OrgID := some b.OrgID, BucketID := some b.ID } with
    | .error _ => (s, .ok ())
    | .ok ms => (ms.foldl (fun s m => (delete s b.OrgID m.ID).1) s, .ok ())

/-! ### the harness operations as a state machine -/

inductive Op where
  /-- add a bucket to the bucket service (no effect when the id is taken or 0) -/
  | bucket (org id : Nat) (name : String)
  /-- `dbrp.BucketService.DeleteBucket` -/
  | delBucket (id : Nat)
  | create (org : Nat) (db rp : String) (dflt : Bool) (bucket : Nat)
  /-- as the HTTP PATCH handler: `FindByID`, overwrite rp / default, `Update` -/
  | update (org id : Nat) (rp : Option String) (dflt : Option Bool)
  | delete (org id : Nat)
  | get (org id : Nat)
  | find (f : Filter)
  /-- raw content of the kv buckets -/
  | dump
deriving Repr

inductive Obs where
  | ok
  | err (e : Err)
  | mapping (m : Mapping)
  | mappings (ms : List Mapping)
  | state (recs : List Mapping) (idx : List (Nat × String × Nat)) (byOrg : List (Nat × Nat)) (defs : List (Nat × String × Nat))
deriving Repr

def step (s : St) : Op → St × Obs
  | .bucket org id name =>
    if id == 0 || (findBucketByID s id).isSome then (s, .err .exists_)
    else ({ s with buckets := s.buckets ++ [{ ID := id, OrgID := org, Name := name }] }, .ok)
  | .delBucket id =>
    match deleteBucket s id with
    | (s', .ok _) => (s', .ok)
    | (s', .error e) => (s', .err e)
  | .create org db rp dflt bucket =>
    match create s { ID := 0, Database := db, RetentionPolicy := rp, Default := dflt, Virtual := false,
                     OrganizationID := org, BucketID := bucket } with
    | (s', .ok m) => (s', .mapping m)
    | (s', .error e) => (s', .err e)
  | .update org id rp dflt =>
    match findByID s org id with
    | .error e => (s, .err e)
    | .ok old =>
      let m := { old with RetentionPolicy := rp.getD old.RetentionPolicy, Default := dflt.getD old.Default }
      match update s m with
      | (s', .ok m') => (s', .mapping m')
      | (s', .error e) => (s', .err e)
  | .delete org id =>
    match delete s org id with
    | (s', .ok _) => (s', .ok)
    | (s', .error e) => (s', .err e)
  | .get org id =>
    match findByID s org id with
    | .ok m => (s, .mapping m)
    | .error e => (s, .err e)
  | .find f =>
    match findMany s f with
    | .ok ms => (s, .mappings ms)
    | .error e => (s, .err e)
  | .dump => (s, .state s.recs s.idx s.byOrg s.defs)

def run : St → List Op → List (Op × Obs)
  | _, [] => []
  | s, o :: os => let r := step s o; (o, r.2) :: run r.1 os

end Influx.DBRP
