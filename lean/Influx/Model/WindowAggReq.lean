/-
  Influx.Model.WindowAggReq — the request-level decisions of storage/reads/aggregate_resultset.go
  that are pure functions of the request, taken from the TRANSLATED code
  (`Influx.Generated.WAReq`, regenerated from /repo on every run):

    IsLastDescendingAggregateOptimization(req)   — ask the storage engine for DESCENDING cursors
                                                   (and v1/services/storage for descending shard order)

  `createCursor` then builds, independently, the limit cursor only when the window is the
  zero window (`every = MaxInt64`); for every other window it builds the ascending-only
  window cursors.  The two sites must agree on what "no window" means: `Cursor.newReqD`
  keeps them separate (direction from the translated predicate, cursor kind from the window),
  so that a disagreement shows up in the model's answer exactly as it does in the code.
-/
import Influx.Generated.WAReq
import Influx.Model.WindowAgg

namespace Influx.WindowAgg
open Influx.Generated.WAReq

/-- protobuf enum number of an aggregate (generated constants) -/
def Agg.code : Agg → Int
  | .count => Aggregate_AggregateTypeCount
  | .sum => Aggregate_AggregateTypeSum
  | .min => Aggregate_AggregateTypeMin
  | .max => Aggregate_AggregateTypeMax
  | .mean => Aggregate_AggregateTypeMean
  | .first => Aggregate_AggregateTypeFirst
  | .last => Aggregate_AggregateTypeLast

/-- a request in the legacy form `WindowEvery` / `Offset` (what Drv.C20's `agg` op sends) -/
def reqLegacy (agg : Agg) (every offset : Int) : WAReq.Req := ⟨[agg.code], every, offset, none⟩

/-- a request with a `Window` message whose `every` is `nsecs` nanoseconds plus `months` months
    (what the Flux reader sends; `cal` ops of Drv.C20 use `nsecs = 0`) -/
def reqWindowMsg (agg : Agg) (nsecs months : Int) : WAReq.Req :=
  ⟨[agg.code], 0, 0, some ⟨⟨nsecs, months, false⟩, some ⟨0, 0, false⟩⟩⟩

/-- the cursor a request gets: direction `desc` (from `IsLastDescendingAggregateOptimization`),
    kind from the window (`newAggregateArrayCursor` for the zero window, else
    `newWindowAggregateArrayCursor`).  A descending request makes the (mock or real) storage
    cursors return the same points in reverse order, shards in reverse order. -/
def Cursor.newReqD {α} (desc : Bool) (agg : Agg) (w : Win) (shards : List (List (List (Pt α)))) : Cursor α :=
  let inp := shards.flatten.filter (fun c => !c.isEmpty)
  Cursor.new agg w (if desc then inp.reverse.map List.reverse else inp)

end Influx.WindowAgg
