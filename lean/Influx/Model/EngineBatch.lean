/-
  Model.EngineBatch — one level below Model.EngineSteps: a write BATCH is not atomic.

  Written from the code:
    Engine.WritePoints    takes Engine.mu.RLock (shared), then Cache.WriteMulti:
                          `store := c.store` is read ONCE (under Cache.mu.RLock), then every
                          key of the batch is written into that store object without the
                          cache lock (`store.write(k, v)`).
    Engine.doWriteSnapshot takes Engine.mu.Lock (EXCLUSIVE) around Cache.Snapshot(), which
                          swaps the stores: the hot store object becomes the snapshot store
                          and a fresh object becomes the hot store.
    Compactor.WriteSnapshot reads the snapshot store into the new TSM file (our `snapReplace`),
    Cache.ClearSnapshot     drops the snapshot store object.

  A store object is identified by its generation: `gen` is the hot store's; while a
  snapshot is in flight the snapshot store is generation `gen - 1`; older ones are gone.
  A batch in flight remembers the generation it captured.  The lock modes are what
  go/cmd/c39/lockmode.go extracts from the source on every run (`snapshot=W write=R`).
-/
import Influx.Model.EngineSteps

namespace Influx.Conc

structure FSt where
  st : St
  /-- generation of the hot store object -/
  gen : Nat
  /-- batches in flight (holding Engine.mu shared): id, captured store generation -/
  writers : List (Nat × Nat)
deriving Repr, DecidableEq

def FSt.init : FSt := { st := St.init, gen := 0, writers := [] }

inductive FStep
  | wBegin (i : Nat)                              -- RLock + `store := c.store`
  | wKey (i : Nat) (k : Key) (t : TS) (v : Val)   -- store.write of one key of batch i
  | wEnd (i : Nat)                                -- batch acknowledged, RUnlock
  | snapBegin (exclusive : Bool)                  -- Cache.Snapshot under Engine.mu Lock (true) / RLock (false)
  | other (σ : Step)                              -- every other step of the coarse model
deriving Repr, DecidableEq

/-- one step; `none` = the step cannot happen now (blocked by the lock, or ill-formed) -/
def fstep (s : FSt) : FStep → Option FSt
  | .wBegin i =>
    if s.writers.any (fun w => w.1 == i) then none
    else some { s with writers := (i, s.gen) :: s.writers }
  | .wKey i k t v =>
    match s.writers.find? (fun w => w.1 == i) with
    | none => none
    | some (_, g) =>
      if g = s.gen then some { s with st := step s.st (.wr k t v) }               -- the hot store
      else if g + 1 = s.gen && s.st.phase != .idle then
        some { s with st := { s.st with snap := (k, t, v) :: s.st.snap } }         -- the store that became the snapshot
      else some s                                                                  -- a store that no longer exists
  | .wEnd i =>
    if s.writers.any (fun w => w.1 == i) then some { s with writers := s.writers.filter (fun w => w.1 != i) }
    else none
  | .snapBegin exclusive =>
    -- an exclusive lock is granted only when no batch holds the lock shared
    if exclusive && !s.writers.isEmpty then none
    else if s.st.phase == .idle then some { s with st := step s.st .snapBegin, gen := s.gen + 1 }
    else some s                                   -- ErrSnapshotInProgress: no swap
  | .other σ =>
    match σ with
    | .wr .. => none
    | .snapBegin => none
    | σ => some { s with st := step s.st σ }

def frun (s : FSt) : List FStep → Option FSt
  | [] => some s
  | σ :: rest => match fstep s σ with
    | none => none
    | some s' => frun s' rest

/-- the coarse steps a fine step stands for -/
def coarsen : FStep → List Step
  | .wBegin _ => []
  | .wKey _ k t v => [.wr k t v]
  | .wEnd _ => []
  | .snapBegin _ => [.snapBegin]
  | .other σ => [σ]

/-- every snapshot of the execution takes Engine.mu exclusively (what the code does) -/
def allExclusive : List FStep → Bool
  | [] => true
  | .snapBegin e :: rest => e && allExclusive rest
  | _ :: rest => allExclusive rest

end Influx.Conc
