/-
  Model.EngineWal — the byte level of a WAL segment (tsdb/engine/tsm1/wal.go):

    record  = type (1 byte) ++ big-endian uint32 length ++ snappy(entry bytes)     WALSegmentWriter.Write
    reader  = WALSegmentReader.Next: io.ReadFull of the 5-byte header (clean EOF = stop), io.ReadFull of
              `length` bytes, snappy.Decode, type switch, UnmarshalBinary; any failure is an error and
              r.n (the count of bytes of successfully decoded records) is not advanced
    loader  = CacheLoader.Load: on the first error truncate the file at r.Count() and go on with the next segment

  snappy and the entry marshalling are abstract: `valid typ payload` says whether a payload
  decompresses and unmarshals for that type.  Bytes are `Nat`s (nothing below depends on < 256
  except the length field, whose four digits are produced by `be32`).
-/
import Influx.Model.Engine

namespace Influx.Model.Engine.Wal

structure Rec where
  typ : Nat
  payload : List Nat
deriving Repr, DecidableEq

/-- binary.BigEndian.PutUint32 -/
def be32 (n : Nat) : List Nat := [(n / 16777216) % 256, (n / 65536) % 256, (n / 256) % 256, n % 256]

/-- binary.BigEndian.Uint32 -/
def unbe32 : List Nat → Nat
  | [a, b, c, d] => ((a * 256 + b) * 256 + c) * 256 + d
  | _ => 0

def Rec.encode (r : Rec) : List Nat := r.typ :: (be32 r.payload.length ++ r.payload)

def encodeAll (rs : List Rec) : List Nat := rs.flatMap Rec.encode

/-- the reader + loader over the bytes of one segment: the records decoded before the first
    failure and the length the file is truncated to (= kept as is when nothing fails) -/
def decodeAll (valid : Nat → List Nat → Bool) : Nat → List Nat → List Rec × Nat
  | 0, _ => ([], 0)
  | fuel + 1, bs =>
    if bs.length < 5 then ([], 0)                       -- EOF, or a torn header
    else
      let typ := bs.headD 0
      let len := unbe32 ((bs.drop 1).take 4)
      let rest := bs.drop 5
      if rest.length < len then ([], 0)                 -- torn payload
      else
        let payload := rest.take len
        if !valid typ payload then ([], 0)              -- does not decompress / unknown type / unmarshal error
        else
          let r := decodeAll valid fuel (rest.drop len)
          (⟨typ, payload⟩ :: r.1, 5 + len + r.2)

/-- `CacheLoader.Load` on one segment file -/
def loadSegment (valid : Nat → List Nat → Bool) (bs : List Nat) : List Rec × Nat :=
  decodeAll valid (bs.length + 1) bs

/-- how engine-level WAL entries become records: snappy ∘ Encode and their inverses, abstract -/
structure Codec where
  valid : Nat → List Nat → Bool
  enc : WalEntry → Rec
  dec : Rec → Option WalEntry
  valid_enc : ∀ e, valid (enc e).typ (enc e).payload = true
  dec_enc : ∀ e, dec (enc e) = some e
  len_ok : ∀ e, (enc e).payload.length < 4294967296

/-- the bytes of a segment whose records are all durable -/
def Codec.segBytes (c : Codec) (recs : List WalEntry) : List Nat := encodeAll (recs.map c.enc)

/-- what the loader puts into the cache from a segment file -/
def Codec.load (c : Codec) (bs : List Nat) : List (Option WalEntry) := (loadSegment c.valid bs).1.map c.dec

end Influx.Model.Engine.Wal
