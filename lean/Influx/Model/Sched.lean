/-
  Model.Sched — the task scheduler `TreeScheduler`, written from
  task/backend/scheduler/treescheduler.go and scheduler.go as a transition system.

  State (treescheduler.go:63): the btree `priorityQueue` as a list ascending by
  (when, id) — `nextTime` is its id index —, `when`, the timer (armed deadline),
  the pending tick in `timer.C`, the control state of the main-loop goroutine
  (blocked in `select` / inside the inner `for`), the workers (one unbuffered
  mailbox each: a worker is either receiving or executing one run), and a ghost
  log of what happened.

  Atomic events (every critical section under `s.mu` is one event):
    schedule   TreeScheduler.Schedule           (treescheduler.go:340)
    release    TreeScheduler.Release            (:298)
    advance    the clock moves
    timerFire  the armed timer expires: a tick is put into timer.C
    wake       `case <-s.timer.C:` — the loop goroutine enters the inner `for`
    iter       one pass of the inner `for` (:167-:198): process() + timer handling
    done w     worker w returns from Executor.Execute (+ checkpoint) and receives again

  `iter true` is the code as repaired by fixes/C24-notdue-timer-reset.patch,
  `iter false` the code before (not-due branch: `timer.Reset(ts.Sub(it.When()))`,
  `when` left alone).

  Times are milliseconds (`Int`); cron times are whole seconds (`Nat`).  A cron
  schedule is an arbitrary function `Nat → Option Nat` (`none` = `Next` failed);
  the theorems assume only that it is strictly increasing.  The worker of an id
  is `hash id % nworkers` for an arbitrary `hash` (the driver uses xxhash64 of
  the id's 8 little-endian bytes, as `iterator` does).

  Core Lean only.
-/
namespace Influx.Model.Sched

abbrev Cron := Nat → Option Nat

/-- `Item` (treescheduler.go:388): `when = next + Offset`. -/
structure Item where
  id : Nat
  next : Nat        -- scheduledFor, seconds
  offset : Int      -- milliseconds
  cron : Cron

def Item.when (it : Item) : Int := 1000 * (it.next : Int) + it.offset

/-- one call of `Executor.Execute(ctx, id, scheduledFor, runAt)` -/
structure Run where
  id : Nat
  sf : Nat          -- scheduledFor, seconds
  runAt : Int       -- milliseconds
deriving DecidableEq, Repr

inductive Mode | idle | looping
deriving DecidableEq, Repr

inductive LogEv
  | scheduled (id : Nat) (cron : Cron) (offset : Int) (last : Nat)
  | released (id : Nat)
  | took (w : Nat) (r : Run) (now : Int)
  | finished (w : Nat) (r : Run)

structure Cfg where
  nworkers : Nat
  hash : Nat → Nat

def Cfg.wk (c : Cfg) (id : Nat) : Nat := c.hash id % c.nworkers

structure State where
  now : Int
  queue : List Item
  when_ : Option Int
  timer : Option Int
  tick : Bool
  mode : Mode
  busy : List (Nat × Run)
  log : List LogEv          -- newest first

def init : State :=
  { now := 0, queue := [], when_ := none, timer := none, tick := false, mode := .idle, busy := [], log := [] }

/-- `Item.Less`: (when, id) lexicographic. -/
def Item.lt (a b : Item) : Bool := a.when < b.when || (a.when == b.when && a.id < b.id)

/-- `priorityQueue.ReplaceOrInsert` on the ascending list. -/
def insertItem (it : Item) : List Item → List Item
  | [] => [it]
  | x :: xs => if it.lt x then it :: x :: xs else x :: insertItem it xs

/-- `release`: delete the item of that id (found through `nextTime`). -/
def removeId (id : Nat) (q : List Item) : List Item := q.filter (fun x => x.id ≠ id)

def workerBusy (busy : List (Nat × Run)) (w : Nat) : Bool := busy.any (fun b => b.1 == w)

/-- the timer part of `Schedule`: if `when` is zero or later than the new item's time,
    `s.when = nt; timer.Stop(); Reset(0)` if overdue else `Reset(when - now)` -/
def armFor (s : State) (it : Item) : State :=
  if (match s.when_ with
      | none => true
      | some w => decide (w > it.when)) = true then
    { s with when_ := some it.when, timer := some (if it.when ≤ s.now then s.now else it.when) }
  else s

/-- `TreeScheduler.Schedule`. `none`: `cron.Next(LastScheduled)` failed, nothing changes. -/
def schedule (s : State) (id : Nat) (cron : Cron) (offset : Int) (last : Nat) : Option State :=
  match cron last with
  | none => none
  | some nt =>
    let it : Item := { id := id, next := nt, offset := offset, cron := cron }
    some { armFor s it with queue := insertItem it (removeId id s.queue),
                            log := .scheduled id cron offset last :: s.log }

/-- `TreeScheduler.Release`. -/
def release (s : State) (id : Nat) : State :=
  { s with queue := removeId id s.queue, log := .released id :: s.log }

/-- result of one `process()` pass over the ascending queue -/
structure Pass where
  kept : List Item            -- items left in the tree by the pass
  ins : List Item             -- `toInsert`: taken items with `updateNext` applied
  busy : List (Nat × Run)
  runs : List (Nat × Run)     -- dispatched (worker, run), in dispatch order

/-- `iterator(now)` driven by `Ascend`: stop at the first item not yet due; a due
    item goes to its worker iff that worker is receiving (`select … default`). -/
def dispatch (cfg : Cfg) (now : Int) : List Item → List (Nat × Run) → Pass
  | [], busy => { kept := [], ins := [], busy := busy, runs := [] }
  | it :: rest, busy =>
    if it.when > now then { kept := it :: rest, ins := [], busy := busy, runs := [] }
    else if workerBusy busy (cfg.wk it.id) then
      let p := dispatch cfg now rest busy
      { p with kept := it :: p.kept }
    else
      let r : Run := { id := it.id, sf := it.next, runAt := it.when }
      let p := dispatch cfg now rest ((cfg.wk it.id, r) :: busy)
      match it.cron it.next with
      | none => { p with runs := (cfg.wk it.id, r) :: p.runs }            -- updateNext failed: dropped
      | some n => { p with runs := (cfg.wk it.id, r) :: p.runs, ins := { it with next := n } :: p.ins }

def reinsert (ins kept : List Item) : List Item := ins.foldl (fun q it => insertItem it q) kept

/-- `process()`: one dispatch pass, then `toDelete`/`toInsert` applied to the tree. -/
def processStep (cfg : Cfg) (s : State) : State :=
  let p := dispatch cfg s.now s.queue s.busy
  { s with queue := reinsert p.ins p.kept, busy := p.busy,
           log := (p.runs.map (fun wr => LogEv.took wr.1 wr.2 s.now)).reverse ++ s.log }

/-- the tail of the inner `for` after `process()` (treescheduler.go:182-198) -/
def afterProcess (s : State) : State :=
  match s.queue with
  | [] => { s with when_ := none, mode := .idle }
  | m :: _ =>
    if m.when > s.now then { s with when_ := some m.when, timer := some m.when, mode := .idle }   -- resetTimer(until)
    else { s with when_ := some m.when }                                                          -- go round again

/-- the not-yet-due branch (treescheduler.go:176-180), repaired or as it was -/
def notDue (repaired : Bool) (s : State) (it : Item) : State :=
  if repaired then { s with when_ := some it.when, timer := some it.when, mode := .idle }
  else { s with timer := some (s.now + (s.now - it.when)), mode := .idle }

/-- One pass of the inner `for` of the main loop. -/
def iter (repaired : Bool) (cfg : Cfg) (s : State) : State :=
  if s.mode ≠ .looping then s else
  match s.queue with
  | [] => { s with when_ := none, mode := .idle }
  | it :: _ =>
    if it.when > s.now then notDue repaired s it
    else afterProcess (processStep cfg s)

def timerExpired (s : State) : Bool :=
  match s.timer with
  | some d => d ≤ s.now
  | none => false

inductive Ev
  | schedule (id : Nat) (cron : Cron) (offset : Int) (last : Nat)
  | release (id : Nat)
  | advance (d : Nat)
  | timerFire
  | wake
  | iter
  | done (w : Nat)

/-- One event; an event that is not enabled leaves the state unchanged. -/
def stepEv (repaired : Bool) (cfg : Cfg) (s : State) : Ev → State
  | .schedule id c off last => (schedule s id c off last).getD s
  | .release id => release s id
  | .advance d => { s with now := s.now + d }
  | .timerFire => if timerExpired s then { s with timer := none, tick := true } else s
  | .wake => if s.mode = .idle ∧ s.tick then { s with tick := false, mode := .looping } else s
  | .iter => iter repaired cfg s
  | .done w =>
    match s.busy.find? (fun b => b.1 == w) with
    | none => s
    | some b => { s with busy := s.busy.filter (fun x => x.1 ≠ w), log := .finished w b.2 :: s.log }

def runEvs (repaired : Bool) (cfg : Cfg) (s : State) (evs : List Ev) : State :=
  evs.foldl (stepEv repaired cfg) s

/-! ### concrete cron families and alignment (scheduler.go `NewSchedule`, influxdata/cron) -/

/-- `@every <p>s`: `Next(from) = from + p` (fails for p = 0: "next time must be later"). -/
def cronEvery (p : Nat) : Cron := fun t => if p = 0 then none else some (t + p)

/-- `*/p * * * * *`: the next second-of-minute that is a multiple of p, else second 0 of the next minute. -/
def cronSec (p : Nat) : Cron := fun t =>
  if p = 0 ∨ p > 29 then none else
  let s' := (t % 60 / p + 1) * p
  if s' ≤ 59 then some (t / 60 * 60 + s') else some (t / 60 * 60 + 60)

/-- seconds between Go's zero time (year 1) and the Unix epoch -/
def unixToZero : Nat := 62135596800

/-- `NewSchedule`'s alignment of LastScheduled for `@every`: `Truncate(every)` counts from Go's zero time. -/
def alignEvery (p last : Nat) : Nat := if p = 0 then last else last - (last + unixToZero) % p

/-! ### xxhash64 of the id's 8 little-endian bytes (cespare/xxhash Sum64), seed 0 -/

def rol64 (x : UInt64) (r : UInt64) : UInt64 := (x <<< r) ||| (x >>> (64 - r))

def xxhash64ofID (id : Nat) : Nat :=
  let p1 : UInt64 := 11400714785074694791
  let p2 : UInt64 := 14029467366897019727
  let p3 : UInt64 := 1609587929392839161
  let p4 : UInt64 := 9650029242287828579
  let p5 : UInt64 := 2870177450012600261
  let u : UInt64 := UInt64.ofNat id
  let h : UInt64 := p5 + 8
  let k1 : UInt64 := rol64 (u * p2) 31 * p1
  let h := h ^^^ k1
  let h := rol64 h 27 * p1 + p4
  let h := h ^^^ (h >>> 33)
  let h := h * p2
  let h := h ^^^ (h >>> 29)
  let h := h * p3
  let h := h ^^^ (h >>> 32)
  h.toNat

/-! ### running to quiescence (what the harness observes after each operation) -/

/-- finish every execution that is not held by the environment -/
def finishFree (blocked : List Nat) (s : State) : State :=
  let fin := s.busy.filter (fun b => !blocked.contains b.2.id)
  { s with busy := s.busy.filter (fun b => blocked.contains b.2.id),
           log := (fin.map (fun b => LogEv.finished b.1 b.2)).reverse ++ s.log }

inductive Settled | quiet | spinning | outOfFuel
deriving DecidableEq, Repr

/-- Let the scheduler run until it cannot move: free workers finish, an expired
    timer fires, the loop wakes and iterates.  `spinning`: the loop keeps
    iterating without dispatching because a due item's worker is held. -/
def settle (repaired : Bool) (cfg : Cfg) (blocked : List Nat) : Nat → State → State × Settled
  | 0, s => (s, .outOfFuel)
  | fuel + 1, s =>
    let s := finishFree blocked s
    if timerExpired s then settle repaired cfg blocked fuel (stepEv repaired cfg s .timerFire)
    else if s.mode = .idle ∧ s.tick then settle repaired cfg blocked fuel (stepEv repaired cfg s .wake)
    else if s.mode = .looping then
      let s' := iter repaired cfg s
      if s'.mode = .looping ∧ s'.log.length = s.log.length then (s', .spinning)
      else settle repaired cfg blocked fuel s'
    else (s, .quiet)

end Influx.Model.Sched
