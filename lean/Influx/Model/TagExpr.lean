/-
  Model.TagExpr — executable model of
    tsdb/index.go:  IndexSet.MeasurementSeriesByExprIterator
                    IndexSet.seriesByExprIterator
                    IndexSet.seriesByBinaryExprIterator
                    IndexSet.seriesByBinaryExprStringIterator
                    IndexSet.seriesByBinaryExprRegexIterator
                    IndexSet.seriesByBinaryExprVarRefIterator
                    IndexSet.matchTagValue{Equal,NotEqual}{Empty,NotEmpty}SeriesIDIterator
                    Intersect/Union/Difference/MergeSeriesIDIterators (incl. their nil cases)
                    FilterUndeletedSeriesIDIterator
  written from the code as it is.  A `tsdb.SeriesIDIterator` value is
  `Option (List Nat)`: `none` is Go's nil iterator, `some l` delivers `l` in
  order.  The streaming iterators (`seriesIDUnionIterator`, …) are two-pointer
  merges over ascending inputs and are modelled as such; the bitmap path
  (`SeriesIDSet.And/AndNot/Merge`) computes the same sets and is identified
  with them (roaring = finite set, trusted).

  One `tsdb.Index` (tsi1) is abstracted to the four views the expression
  evaluator reads (`Index`); the executable instance derives them from the list
  of series the index holds (`Index.ofSeries`).  That tsi1's views are those
  of its live series is C14's subject, and is checked here by correspondence.

  Core Lean only.
-/
import Influx.Model.TagExprTypes

namespace Influx.Model.TagExpr

/-- `tsdb.SeriesIDIterator`; `none` = nil. -/
abbrev Itr := Option (List Nat)

/-- ids an iterator delivers (nil delivers nothing: every consumer checks `itr == nil`). -/
def Itr.ids : Itr → List Nat
  | none => []
  | some l => l

/-! ### two-pointer set operations (seriesIDUnionIterator.Next etc.) -/

/-- `seriesIDUnionIterator` / `SeriesIDSet.Merge`. -/
def union : List Nat → List Nat → List Nat
  | [], l => l
  | a :: as, [] => a :: as
  | a :: as, b :: bs =>
    if a < b then a :: union as (b :: bs)
    else if b < a then b :: union (a :: as) bs
    else a :: union as bs
termination_by l1 l2 => l1.length + l2.length

/-- `seriesIDIntersectIterator` / `SeriesIDSet.And`. -/
def inter : List Nat → List Nat → List Nat
  | [], _ => []
  | _ :: _, [] => []
  | a :: as, b :: bs =>
    if a < b then inter as (b :: bs)
    else if b < a then inter (a :: as) bs
    else a :: inter as bs
termination_by l1 l2 => l1.length + l2.length

/-- `seriesIDDifferenceIterator` / `SeriesIDSet.AndNot`. -/
def diff : List Nat → List Nat → List Nat
  | [], _ => []
  | a :: as, [] => a :: as
  | a :: as, b :: bs =>
    if a < b then a :: diff as (b :: bs)
    else if b < a then diff (a :: as) bs
    else diff as bs
termination_by l1 l2 => l1.length + l2.length

/-- `IntersectSeriesIDIterators`: nil if either side is nil. -/
def intersectItr : Itr → Itr → Itr
  | some a, some b => some (inter a b)
  | _, _ => none

/-- `UnionSeriesIDIterators`: the other side if one is nil. -/
def unionItr : Itr → Itr → Itr
  | none, x => x
  | some a, none => some a
  | some a, some b => some (union a b)

/-- `DifferenceSeriesIDIterators`: nil if the first is nil, the first if the second is nil. -/
def differenceItr : Itr → Itr → Itr
  | none, _ => none
  | some a, none => some a
  | some a, some b => some (diff a b)

/-- `MergeSeriesIDIterators(itrs...)` applied to the list of **non-nil** iterators
    the callers collect (`else if itr != nil { a = append(a, itr) }`):
    no iterator → nil; one → itself; otherwise the merged set (k-way merge,
    modelled as a fold of two-way unions). -/
def mergeNonNil : List (List Nat) → Itr
  | [] => none
  | [x] => some x
  | xs => some (xs.foldl union [])

/-- keep the non-nil iterators of a list (the callers' `if itr != nil` filter). -/
def nonNil (l : List Itr) : List (List Nat) := l.filterMap id

/-! ### one index, abstractly -/

/-- What one `tsdb.Index` answers to the evaluator.
    `tagValues = none` is a nil `TagValueIterator`. -/
structure Index where
  measurementSeries : String → Itr
  tagKeySeries : String → String → Itr
  tagValueSeries : String → String → String → Itr
  tagValues : String → String → Option (List String)

/-- insert into a strictly ascending list (no duplicates). -/
def insertId (x : Nat) : List Nat → List Nat
  | [] => [x]
  | y :: ys => if x < y then x :: y :: ys else if y < x then y :: insertId x ys else y :: ys

/-- the ascending duplicate-free list of the given ids. -/
def idSet (l : List Nat) : List Nat := l.foldr insertId []

/-- nil when empty (what tsi1 does where it matters is not observable: every
    consumer treats nil as empty; the theorems hold for any choice, see `Index.Sound`). -/
def mkItr (l : List Nat) : Itr := if l.isEmpty then none else some l

/-- The executable instance: the views of an index holding exactly `ss`. -/
def Index.ofSeries (ss : List Series) : Index where
  measurementSeries name := mkItr (idSet ((ss.filter (·.name = name)).map (·.id)))
  tagKeySeries name k :=
    mkItr (idSet ((ss.filter (fun s => s.name = name ∧ (lookupTag s.tags k).isSome)).map (·.id)))
  tagValueSeries name k v :=
    mkItr (idSet ((ss.filter (fun s => s.name = name ∧ lookupTag s.tags k = some v)).map (·.id)))
  tagValues name k :=
    let vs := (ss.filter (·.name = name)).filterMap (fun s => lookupTag s.tags k)
    if vs.isEmpty then none else some vs

/-! ### the index set for one measurement -/

/-- `IndexSet` restricted to what the evaluator reads for measurement `name`. -/
structure Ctx where
  name : String
  /-- `is.measurementSeriesIDIterator(name)` -/
  mseries : Itr
  /-- `is.tagKeySeriesIDIterator(name, key)` -/
  keySeries : String → Itr
  /-- `is.tagValueSeriesIDIterator(name, key, value)` -/
  valSeries : String → String → Itr
  /-- `is.tagValueIterator(name, key)` drained (`none` = nil iterator) -/
  tagValues : String → Option (List String)
  /-- `is.HasField(name, key)` -/
  hasField : String → Bool

/-- `MergeTagValueIterators` over the non-nil iterators: none → nil, one → itself,
    else the merged values (the model does not order or de-duplicate them: the
    evaluator only unions the per-value series sets). -/
def mergeValues : List (List String) → Option (List String)
  | [] => none
  | [x] => some x
  | xs => some xs.flatten

/-- The `IndexSet` methods `measurementSeriesIDIterator`, `tagKeySeriesIDIterator`,
    `tagValueSeriesIDIterator`, `tagValueIterator`: ask every index, keep the
    non-nil answers, merge. -/
def Ctx.ofIndexes (ixs : List Index) (fields : List (String × String)) (name : String) : Ctx where
  name := name
  mseries := mergeNonNil (nonNil (ixs.map (·.measurementSeries name)))
  keySeries k := mergeNonNil (nonNil (ixs.map (·.tagKeySeries name k)))
  valSeries k v := mergeNonNil (nonNil (ixs.map (·.tagValueSeries name k v)))
  tagValues k := mergeValues ((ixs.map (·.tagValues name k)).filterMap id)
  hasField f := fields.contains (name, f)

/-! ### the evaluator -/

/-- `seriesByBinaryExprStringIterator(name, key, value, op)`. -/
def byString (c : Ctx) (key value : String) (op : Tok) : Itr :=
  if key = "_name" then
    if (op = .eq ∧ value = c.name) ∨ (op = .neq ∧ value ≠ c.name) then c.mseries else none
  else if op = .eq then
    if value ≠ "" then c.valSeries key value
    else differenceItr c.mseries (c.keySeries key)
  else if value ≠ "" then differenceItr c.mseries (c.valSeries key value)
  else c.keySeries key

/-- the loop shared by the four `matchTagValue*` functions: the non-nil
    `tagValueSeriesIDIterator`s of the values selected by `sel`, merged. -/
def valuesMerge (c : Ctx) (key : String) (vs : List String) (sel : String → Bool) : Itr :=
  mergeNonNil (nonNil ((vs.filter sel).map (c.valSeries key)))

/-- `matchTagValueSeriesIDIterator(name, key, value, matches)` with its four branches. -/
def matchTagValue (c : Ctx) (key : String) (re : String → Bool) (isMatch : Bool) : Itr :=
  let matchEmpty := re ""
  if isMatch then
    if matchEmpty then
      -- matchTagValueEqualEmptySeriesIDIterator
      match c.tagValues key with
      | none => c.mseries
      | some vs => differenceItr c.mseries (valuesMerge c key vs (fun v => !re v))
    else
      -- matchTagValueEqualNotEmptySeriesIDIterator
      match c.tagValues key with
      | none => none
      | some vs => valuesMerge c key vs re
  else
    if matchEmpty then
      -- matchTagValueNotEqualEmptySeriesIDIterator
      match c.tagValues key with
      | none => none
      | some vs => valuesMerge c key vs (fun v => !re v)
    else
      -- matchTagValueNotEqualNotEmptySeriesIDIterator
      match c.tagValues key with
      | none => c.mseries
      | some vs => differenceItr c.mseries (valuesMerge c key vs re)

/-- `seriesByBinaryExprRegexIterator(name, key, value, op)`. -/
def byRegex (c : Ctx) (key : String) (re : String → Bool) (op : Tok) : Itr :=
  if key = "_name" then
    let m := re c.name
    if (op = .eqregex ∧ m = true) ∨ (op = .neqregex ∧ m = false) then c.mseries else none
  else matchTagValue c key re (op = .eqregex)

/-- `seriesByBinaryExprVarRefIterator(name, key, value, op)` (tag-to-tag: compares
    key *presence*, not values — outside the property's grammar). -/
def byVarRef (c : Ctx) (key value : String) (op : Tok) : Itr :=
  let itr0 := c.keySeries key
  let itr1 := c.keySeries value
  if op = .eq then intersectItr itr0 itr1 else differenceItr itr0 itr1

def Expr.isBin : Expr → Bool
  | .bin _ _ _ => true
  | _ => false

/-- the "this is a field" test of `seriesByBinaryExprIterator`
    (`keyTyp` is the *key's* type: the code tests `key.Type == AnyField` also for the value). -/
def isFieldRef (c : Ctx) (val : String) (typ keyTyp : VType) : Bool :=
  val ≠ "_name" ∧
    ((typ = .unknown ∧ c.hasField val) ∨ keyTyp = .anyField ∨ (typ ≠ .tag ∧ typ ≠ .unknown))

/-- the tail of `seriesByBinaryExprIterator` once key and value are chosen. -/
def byKeyValue (c : Ctx) (op : Tok) (kval : String) (ktyp : VType) (value : Expr) : Itr :=
  if isFieldRef c kval ktyp ktyp then c.mseries
  else
    match value with
    | .ref vval vtyp =>
      if isFieldRef c vval vtyp ktyp then c.mseries else byVarRef c kval vval op
    | .str v => byString c kval v op
    | .regex re => byRegex c kval re op
    | _ => c.mseries

/-- `seriesByBinaryExprIterator(name, n)` for a non-AND/OR binary expression. -/
def byBinary (c : Ctx) (op : Tok) (lhs rhs : Expr) : Itr :=
  if lhs.isBin then c.mseries
  else if rhs.isBin then c.mseries
  else
    match lhs with
    | .ref kval ktyp => byKeyValue c op kval ktyp rhs
    | _ =>
      match rhs with
      | .ref kval ktyp => byKeyValue c op kval ktyp lhs
      | _ => c.mseries

/-- `seriesByExprIterator(name, expr)`. -/
def eval (c : Ctx) : Expr → Itr
  | .bin .and l r => intersectItr (eval c l) (eval c r)
  | .bin .or l r => unionItr (eval c l) (eval c r)
  | .bin op l r => byBinary c op l r
  | .paren e => eval c e
  | .bool true => c.mseries
  | .bool false => none
  | _ => none

/-- `FilterUndeletedSeriesIDIterator(sfile, itr)`. -/
def filterUndeleted (deleted : List Nat) : Itr → Itr
  | none => none
  | some l => some (l.filter (fun id => !deleted.contains id))

/-! ### state machine of a case -/

structure State where
  /-- `IndexSet.Indexes`: the series each index holds -/
  shards : List (List Series) := []
  /-- ids tombstoned in the series file -/
  deleted : List Nat := []
  /-- `MeasurementFieldSet` content: (measurement, field) -/
  fields : List (String × String) := []

def State.allSeries (st : State) : List Series := st.shards.flatten

/-- tag values are never empty and keys are not repeated (`models.Tags` of a
    stored series), and the id is not bound to a different series. -/
def keysNodup : List (String × String) → Bool
  | [] => true
  | (k, _) :: rest => (lookupTag rest k).isNone && keysNodup rest

def seriesOK (s : Series) : Bool :=
  keysNodup s.tags && s.tags.all (fun kv => kv.2 ≠ "")

def State.accepts (st : State) (s : Series) : Bool :=
  seriesOK s && st.allSeries.all (fun t => t.id ≠ s.id ∨ t = s)

/-- add `s` to shard number `i` (appending empty shards as needed). -/
def addToShard : List (List Series) → Nat → Series → List (List Series)
  | [], 0, s => [[s]]
  | [], n + 1, s => [] :: addToShard [] n s
  | sh :: rest, 0, s => (s :: sh) :: rest
  | sh :: rest, n + 1, s => sh :: addToShard rest n s

/-- `IndexSet.MeasurementSeriesByExprIterator(name, expr)` (expr ≠ nil). -/
def State.query (st : State) (name : String) (e : Expr) : Itr :=
  filterUndeleted st.deleted
    (eval (Ctx.ofIndexes (st.shards.map Index.ofSeries) st.fields name) e)

def step (st : State) : Op → State × Obs
  | .addSeries i s =>
    if st.accepts s then ({ st with shards := addToShard st.shards i s }, .ok) else (st, .rejected)
  | .delSeries id => ({ st with deleted := id :: st.deleted }, .ok)
  | .addField n f => ({ st with fields := (n, f) :: st.fields }, .ok)
  | .query name e => (st, .ids (st.query name e).ids)

/-- the model's trace on a list of operations. -/
def run : State → List Op → List (Op × Obs)
  | _, [] => []
  | st, op :: rest => let (st', o) := step st op; (op, o) :: run st' rest

end Influx.Model.TagExpr
