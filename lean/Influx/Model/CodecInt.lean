/-
  Influx.Model.CodecInt — integer / unsigned value codec.

  Go: tsdb/engine/tsm1/int.go (IntegerEncoder, IntegerDecoder: scalar),
      tsdb/engine/tsm1/batch_integer.go (IntegerArrayEncodeAll / DecodeAll, Unsigned* = reinterpretation).
  An int64/uint64 value is its 64-bit pattern (`Nat < W`); unsigned values use the same codec.
-/
import Influx.Model.CodecS8b

namespace Influx.Codec
open Influx.Generated.Codec

/-- zigzag of the wrapped differences `v[i] - v[i-1]` (`prev` starts at 0 in the scalar encoder;
    the batch encoder leaves `deltas[0] = v[0]`: the same). -/
def zzDeltas : Nat → List Nat → List Nat
  | _, [] => []
  | prev, v :: vs => zigzagEnc ((v + W - prev) % W) :: zzDeltas v vs

/-- all elements from index 1 on are equal (the `rle` flag of both encoders) -/
def allEqTail : List Nat → Bool
  | _ :: d :: rest => rest.all (· == d)
  | _ => true

def rleBytes (enc : List Nat) : Bytes :=
  match enc with
  | e0 :: e1 :: _ => (intCompressedRLE * 16) :: (putU64 e0 ++ putUvarint e1 ++ putUvarint (enc.length - 1))
  | _ => []

/-- scalar `IntegerEncoder`: Write* then Bytes -/
def intEncodeS (vs : List Nat) : Option Bytes :=
  let enc := zzDeltas 0 vs
  if allEqTail enc && decide (enc.length > 2) then some (rleBytes enc)
  else if enc.any (fun v => decide (v > MaxValue)) then
    some ((intUncompressed * 16) :: enc.flatMap putU64)            -- encodeUncompressed (len > 0 here)
  else match enc with
    | [] => some []                                                  -- encodePacked: `return nil, nil`
    | e0 :: rest =>
      match encodeAllJ rest.length rest with
      | none => none
      | some ws => some ((intCompressedSimple * 16) :: (putU64 e0 ++ wordsToBytes ws))

/-- batch `IntegerArrayEncodeAll(src, nil)`; `max` ignores the first value. -/
def intEncodeB (vs : List Nat) : Option Bytes :=
  let enc := zzDeltas 0 vs
  match enc with
  | [] => some []
  | e0 :: rest =>
    if decide (enc.length > 2) && allEqTail enc then some (rleBytes enc)
    else if rest.any (fun v => decide (v > MaxValue)) then
      some ((intUncompressed * 16) :: enc.flatMap putU64)
    else match encodeAllI rest.length rest with
      | none => none
      | some ws => some ((intCompressedSimple * 16) :: (putU64 e0 ++ wordsToBytes ws))

/-- running sum (mod 2^64) of zigzag-decoded deltas -/
def unDeltas : Nat → List Nat → List Nat
  | _, [] => []
  | prev, e :: es => let v := (prev + zigzagDec e) % W; v :: unDeltas v es

/-- `first + i*delta` for `i < n` (mod 2^64) -/
def rleExpand (first delta : Nat) : (n : Nat) → (i : Nat) → List Nat
  | 0, _ => []
  | n + 1, i => ((first + i * delta) % W) :: rleExpand first delta n (i + 1)

/-- what both decoders compute on well-formed input.  `none` = an error is reported
    (short data, bad varint, unknown encoding).  Partial results before an error are not modelled. -/
def intDecode (b : Bytes) : Option (List Nat) :=
  match b with
  | [] => some []
  | h :: body =>
    let enc := h / 16
    if enc = intUncompressed then
      let (ws, rest) := words body
      if rest.isEmpty then some (unDeltas 0 ws) else none
    else if enc = intCompressedSimple then
      match getU64 body with
      | none => none
      | some (e0, body') =>
        let (ws, rest) := words body'
        if rest.isEmpty then some (unDeltas 0 (e0 :: decodeWords ws)) else none
    else if enc = intCompressedRLE then
      match getU64 body with
      | none => none
      | some (e0, r1) =>
        match getUvarint r1 with
        | none => none
        | some (e1, r2) =>
          match getUvarint r2 with
          | none => none
          | some (cnt, _) => some (rleExpand (zigzagDec e0) (zigzagDec e1) (cnt + 1) 0)
    else none

end Influx.Codec
