/-
  Model.TagExprTypes — the types shared by the model of
  `tsdb.IndexSet.MeasurementSeriesByExprIterator` (Model.TagExpr) and by the
  statement of C15 (Spec.C15): series, the InfluxQL expression tree as the Go
  code sees it (`influxql.BinaryExpr / ParenExpr / BooleanLiteral / VarRef /
  StringLiteral / RegexLiteral / anything else`), and the operations of a case.

  Core Lean only.
-/
namespace Influx.Model.TagExpr

/- A series id (`uint64`, never 0 in the code; the model does not need that) is a `Nat`. -/

/-- One series of the index: id (series file), measurement name, tag set. -/
structure Series where
  id : Nat
  name : String
  tags : List (String × String)
deriving DecidableEq, Repr

/-- `influxql.DataType` of a `VarRef`, as far as `seriesByBinaryExprIterator`
    distinguishes: `Unknown`, `Tag`, `AnyField`, any other type (Float, Integer, …). -/
inductive VType | unknown | tag | anyField | other
deriving DecidableEq, Repr

/-- `BinaryExpr.Op`: the six operators of the property's grammar and "any other
    token" (`<`, `+`, …). -/
inductive Tok | and | or | eq | neq | eqregex | neqregex | other
deriving DecidableEq, Repr

/-- `influxql.Expr`. A regular expression is an arbitrary predicate on strings
    (Go `regexp` is not modelled: the theorems hold for every predicate). -/
inductive Expr
  | bin (op : Tok) (lhs rhs : Expr)
  | paren (e : Expr)
  | bool (b : Bool)
  | ref (val : String) (typ : VType)
  | str (val : String)
  | regex (re : String → Bool)
  | other

/-- Value of tag `k` in a tag set (`none` = the series does not have the key). -/
def lookupTag (tags : List (String × String)) (k : String) : Option String :=
  match tags with
  | [] => none
  | (k', v) :: rest => if k' = k then some v else lookupTag rest k

/-- One operation of a C15 case. -/
inductive Op
  /-- `Index.CreateSeriesIfNotExists` on index number `shard` of the index set
      (the series file assigns the id; the harness maps it to the label `id`). -/
  | addSeries (shard : Nat) (s : Series)
  /-- `SeriesFile.DeleteSeriesID`: the series stays in the index, the series file
      tombstones it. -/
  | delSeries (id : Nat)
  /-- a field of a measurement in the shard's `MeasurementFieldSet`. -/
  | addField (name field : String)
  /-- `IndexSet.MeasurementSeriesByExprIterator(name, expr)`, drained. -/
  | query (name : String) (e : Expr)

/-- Answer to one operation. -/
inductive Obs
  | ok
  /-- the model refuses an ill-formed `addSeries` (empty tag value, repeated key,
      id already bound to another series); the generator never sends one. -/
  | rejected
  /-- ids delivered by the iterator (the harness sorts them). -/
  | ids (l : List Nat)
  /-- the call returned an error / the line was not understood. -/
  | err
deriving DecidableEq, Repr

end Influx.Model.TagExpr
