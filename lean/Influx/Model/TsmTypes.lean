/-
  Model.TsmTypes — the record types of `tsdb/engine/tsm1/writer.go` (`IndexEntry`)
  and `reader.go` (`TimeRange`) with the Go field names, so that the translator can
  regenerate `IndexEntry.Contains`, `IndexEntry.OverlapsTimeRange` and
  `TimeRange.Overlaps` against them (Generated/TsmLayout.lean).
  Times and offsets are `Int` (the model states the int64 range where it matters).
-/
namespace Influx.Tsm

/-- a byte string: bytes as naturals below 256 (what `Proto.hexDecode` yields) -/
abbrev Bytes := List Nat
abbrev Key := List Nat

/-- `tsm1.IndexEntry` -/
structure IndexEntry where
  MinTime : Int
  MaxTime : Int
  Offset : Int
  Size : Nat
deriving DecidableEq, Repr, Inhabited

/-- `tsm1.TimeRange` -/
structure TimeRange where
  Min : Int
  Max : Int
deriving DecidableEq, Repr, Inhabited

/-- `tsm1.Tombstone` -/
structure Tombstone where
  key : Key
  min : Int
  max : Int
deriving DecidableEq, Repr, Inhabited

end Influx.Tsm
