/-
  Influx.Model.Check — executable model of kit/check (Check, ReadyGate,
  FreshnessResponse, Named) and of http/check_handler.go (HealthReadyHandler).

    kit/check/check.go     Check.AddNamedReadyCheck / AddHealthCheck / AddNamedHealthCheck,
                           snapshotReady/snapshotHealth, evaluate            → `register*`, `evaluate`
    kit/check/response.go  Responses.Less (status, then name), sort.Sort     → `less`, `sortRes`
    kit/check/helpers.go   ReadyGate (Ready / Unready / Check), Named/Rename → `Cell`, `signal`, `unsignal`
    kit/check/freshness.go FreshnessResponse (no probe / stale / fresh)      → `Kind.fresh`
    cmd/influxd/run/startup_logger.go  StartupProgressLogger (ReadyChecker / HealthChecker) → `Startup`
    cmd/influxd/run/scheduler_pulse.go SchedulerPulseCheck (idle / future / on time / stalled) → `pulseRes`
    http/check_handler.go  writeHealth, writeReady, firstFailureMessage,
                           failingChecks                                     → `health`, `ready`

  `evaluate` follows the code *after* fixes/C33-failing-check-not-masked.patch:
  `if s := resp.Status(); s != StatusPass && overall != StatusFail { overall = s }`.
  `overallOld` is the aggregation before the patch (`overall = s`: the last
  non-pass status wins), kept for the witness theorem.

  The second half is the interleaving model: registration, signalling and
  requests as atomic steps (a critical section under Check.mu, one atomic
  load/store of ReadyGate.ready), a request being `snapshot; read g₁; …; read gₙ; respond`.
-/
import Influx.Generated.CheckConsts

namespace Influx.CheckM
open Influx.Generated.CheckConsts (statusStarting statusReady messageHealthy)

/-- kit/check.Status is a string type; only "pass" and "fail" are declared.
    The constants are regenerated from kit/check/check.go and http/check_handler.go on every run. -/
abbrev Status := String
def pass : Status := Influx.Generated.CheckConsts.StatusPass
def fail : Status := Influx.Generated.CheckConsts.StatusFail

/-- what one checker answers: Response.Name / Status / Message -/
structure Res where
  name : String
  status : Status
  msg : String
deriving DecidableEq, Repr, Inhabited

inductive Kind where
  | gate                         -- *ReadyGate
  | plain                        -- Named(name, CheckerFunc) / CheckerFunc returning a fixed BasicResponse
  | fresh (alwaysStale : Bool)   -- CheckerFunc returning a *FreshnessResponse
  | startup                      -- StartupProgressLogger.ReadyChecker() / HealthChecker()
deriving DecidableEq, Repr

/-- a registered checker and what it would answer right now -/
structure Cell where
  kind : Kind
  res : Res
deriving Repr

/-- NewReadyGate(name): reports NamedFail(name, "not ready") until Ready() -/
def newGate (name : String) : Cell := ⟨.gate, ⟨name, fail, "not ready"⟩⟩
/-- NewFreshnessResponse: "no probe completed yet" until the first Update -/
def newFresh (name : String) (alwaysStale : Bool) : Cell :=
  ⟨.fresh alwaysStale, ⟨name, fail, "no probe completed yet"⟩⟩
def newPlain (name : String) (s : Status) (m : String) : Cell := ⟨.plain, ⟨name, s, m⟩⟩

/-- ReadyGate.Ready / Unready -/
def Cell.signal (c : Cell) (ready : Bool) : Option Cell :=
  match c.kind with
  | .gate => some { c with res := if ready then ⟨c.res.name, pass, ""⟩ else ⟨c.res.name, fail, "not ready"⟩ }
  | _ => none

/-- the fixed answer of a plain checker is replaced / FreshnessResponse.Update(basic(s, m));
    a freshness response whose budget has run out reports fail "stale: …" (canonicalised to "stale") -/
def Cell.set (c : Cell) (s : Status) (m : String) : Option Cell :=
  match c.kind with
  | .plain => some { c with res := ⟨c.res.name, s, m⟩ }
  | .fresh stale => some { c with res := if stale then ⟨c.res.name, fail, "stale"⟩ else ⟨c.res.name, s, m⟩ }
  | _ => none

/-- fmt.Sprintf restricted to what the checkers' message formats use: `%s` `%d` `%.1f`
    take the next argument (already rendered), `%%` is a percent sign -/
def sprintfAux : List Char → List String → List Char
  | [], _ => []
  | '%' :: '%' :: rest, args => '%' :: sprintfAux rest args
  | '%' :: 's' :: rest, a :: args => a.toList ++ sprintfAux rest args
  | '%' :: 'd' :: rest, a :: args => a.toList ++ sprintfAux rest args
  | '%' :: '.' :: '1' :: 'f' :: rest, a :: args => a.toList ++ sprintfAux rest args
  | c :: rest, args => c :: sprintfAux rest args

def sprintf (f : String) (args : List String) : String := String.ofList (sprintfAux f.toList args)

/-- cmd/influxd/run/startup_logger.go: StartupProgressLogger -/
structure Startup where
  name : String
  completed : Nat := 0
  total : Nat := 0
  done : Bool := false
  failMsg : Option String := none
  /-- accumulated ShardLoadFailed(id, err) -/
  errs : List (Nat × String) := []
  /-- where its ReadyChecker / HealthChecker are registered -/
  readyIdx : Nat
  healthIdx : Nat
deriving Repr

inductive StartupEv where
  | addShard | completedShard
  | shardFailed (id : Nat) (msg : String)
  | finish (err : Option String)
deriving Repr

/-- `Finish(err)`, first atomic store: `s.failErrMsg.Store(&msg)` -/
def Startup.finishMsg (u : Startup) (m : String) : Startup := { u with failMsg := some m }
/-- `Finish`, last atomic store: `s.done.Store(true)` -/
def Startup.finishDone (u : Startup) : Startup := { u with done := true }

/-- `Finish(err)` is two atomic stores, in the order the code has them: the failure
    message first, then `done` — so a ReadyChecker that observes `done` also observes
    the failure (Props.C33.C33_finish_err_never_passes). -/
def Startup.apply (u : Startup) : StartupEv → Startup
  | .addShard => { u with total := u.total + 1 }
  | .completedShard => { u with completed := u.completed + 1 }
  | .shardFailed id m => { u with errs := u.errs ++ [(id, m)] }
  | .finish none => u.finishDone
  | .finish (some m) => (u.finishMsg m).finishDone

open Influx.Generated.CheckConsts in
/-- StartupProgressLogger.checkReady, stamped with the logger's name (the shard
    percentage and the elapsed time are canonicalised to `?` by the harness) -/
def Startup.readyRes (u : Startup) : Res :=
  if u.done then
    match u.failMsg with
    | some m => ⟨u.name, fail, sprintf msgShardLoadingFailedFmt [m]⟩
    | none => ⟨u.name, pass, sprintf msgStartupReadyFmt [toString u.completed, "?"]⟩
  else if u.total = 0 then ⟨u.name, fail, msgWaitingForShardEnumeration⟩
  else ⟨u.name, fail, sprintf msgLoadingShardsFmt ["?", toString u.completed, toString u.total]⟩

open Influx.Generated.CheckConsts in
/-- StartupProgressLogger.checkHealth -/
def Startup.healthRes (u : Startup) : Res :=
  if u.errs.isEmpty then ⟨u.name, pass, ""⟩
  else ⟨u.name, fail, sprintf msgShardLoadFailedCountFmt
    [toString u.errs.length, "; ".intercalate (u.errs.map fun e => sprintf msgShardLoadEntryFmt [toString e.1, e.2])]⟩

/-- the states a SchedulerPulseCheck is driven into -/
inductive Pulse where
  | idle      -- When() is the zero time
  | future    -- next run in one hour
  | onTime    -- next run was due a second ago (threshold 30s)
  | stalled   -- next run was due an hour ago
deriving Repr, DecidableEq

open Influx.Generated.CheckConsts in
/-- SchedulerPulseCheck.Check -/
def pulseRes : Pulse → Status × String
  | .idle => (pass, msgSchedulerIdle)
  | .future => (pass, sprintf msgSchedulerNextRunFmt ["1h0m0s"])
  | .onTime => (pass, sprintf msgSchedulerOnTimeFmt ["1s"])
  | .stalled => (fail, sprintf msgSchedulerStalledFmt ["1h0m0s"])

/-- kit/check.Check (plus the startup loggers whose checkers are registered in it) -/
structure St where
  health : List Cell := []
  ready : List Cell := []
  readyNames : List String := []
  startups : List Startup := []
deriving Repr

def St.addReady (s : St) (c : Cell) : St :=
  { s with ready := s.ready ++ [c], readyNames := s.readyNames ++ [c.res.name] }
def St.addHealth (s : St) (c : Cell) : St := { s with health := s.health ++ [c] }

/-- the operations of a sequential case -/
inductive Op where
  | regGate (name : String)                             -- AddNamedReadyCheck(NewReadyGate(name))
  | regReady (name : String) (s : Status) (m : String)  -- AddNamedReadyCheck(Named(name, fixed answer))
  | regHealth (name : String) (s : Status) (m : String) -- AddNamedHealthCheck(Named(..)) / AddHealthCheck(CheckerFunc)
  | regFresh (name : String) (stale : Bool)             -- health check backed by a FreshnessResponse
  | signal (i : Nat) (ready : Bool)                     -- ready check i (a gate): Ready() / Unready()
  | setReady (i : Nat) (s : Status) (m : String)        -- ready check i (plain): new fixed answer
  | setHealth (i : Nat) (s : Status) (m : String)       -- health check i: new fixed answer / FreshnessResponse.Update
  | regStartup (name : String)                          -- a StartupProgressLogger: ReadyChecker on /ready, HealthChecker on /health
  | startupEv (k : Nat) (ev : StartupEv)                -- AddShard / CompletedShard / ShardLoadFailed / Finish on logger k
  | finishRace (k : Nat) (m : String) (n : Nat)         -- Finish(err) on logger k with n GET /ready while err.Error() is being rendered, then one after
  | ready | health | names                              -- GET /ready, GET /health, ReadyCheckNames()
deriving Repr

def updAt (l : List Cell) (i : Nat) (f : Cell → Option Cell) : Option (List Cell) :=
  match l[i]? with
  | none => none
  | some c => (f c).map fun c' => l.set i c'

/-- an event on startup logger `k`: its two checkers answer from the new state -/
def St.startupApply (s : St) (k : Nat) (ev : StartupEv) : Option St :=
  match s.startups[k]? with
  | none => none
  | some u =>
    let u' := u.apply ev
    some { s with startups := s.startups.set k u',
                  ready := s.ready.set u.readyIdx ⟨.startup, u'.readyRes⟩,
                  health := s.health.set u.healthIdx ⟨.startup, u'.healthRes⟩ }

/-- the effect of an op on the registered checkers (`none`: the op does not apply,
    e.g. Ready() on something that is not a gate — the harness answers `bad-op`) -/
def St.apply (s : St) : Op → Option St
  | .regGate n => some (s.addReady (newGate n))
  | .regReady n st m => some (s.addReady (newPlain n st m))
  | .regHealth n st m => some (s.addHealth (newPlain n st m))
  | .regFresh n stale => some (s.addHealth (newFresh n stale))
  | .signal i b => (updAt s.ready i (·.signal b)).map fun l => { s with ready := l }
  | .setReady i st m =>
    (updAt s.ready i fun c => if c.kind = .plain then c.set st m else none).map fun l => { s with ready := l }
  | .setHealth i st m => (updAt s.health i (·.set st m)).map fun l => { s with health := l }
  | .regStartup n =>
    let u : Startup := { name := n, readyIdx := s.ready.length, healthIdx := s.health.length }
    some { ((s.addReady ⟨.startup, u.readyRes⟩).addHealth ⟨.startup, u.healthRes⟩) with startups := s.startups ++ [u] }
  | .startupEv k ev => s.startupApply k ev
  | .finishRace k m _ => s.startupApply k (.finish (some m))
  | .ready | .health | .names => some s

/-- Responses.Less: failing before passing (string order of the status), then by name -/
def less (a b : Res) : Bool :=
  if a.status = b.status then decide (a.name < b.name) else decide (a.status < b.status)

def insertRes (x : Res) : List Res → List Res
  | [] => [x]
  | y :: ys => if less x y then x :: y :: ys else y :: insertRes x ys

/-- sort.Sort(results) — modelled as the stable insertion sort; pdqsort is not
    stable, so the order of entries with equal (status, name) is not predicted
    (the generator keeps such entries identical). -/
def sortRes (rs : List Res) : List Res := rs.foldl (fun acc r => insertRes r acc) []

/-- the aggregation loop of `evaluate` (repaired): a failing status is sticky -/
def overall (rs : List Res) : Status :=
  rs.foldl (fun o r => if r.status ≠ pass ∧ o ≠ fail then r.status else o) pass

/-- the aggregation loop before the repair: `if s != StatusPass { overall = s }` -/
def overallOld (rs : List Res) : Status :=
  rs.foldl (fun o r => if r.status ≠ pass then r.status else o) pass

/-- Check.evaluate: one Check call per snapshotted checker, aggregate, sort -/
def evaluate (old : Bool) (cs : List Cell) : Status × List Res :=
  let rs := cs.map (·.res)
  (if old then overallOld rs else overall rs, sortRes rs)

/-- firstFailureMessage -/
def firstFailureMessage : List Res → String
  | [] => statusStarting
  | r :: rs => if r.status = fail then (if r.msg ≠ "" then r.msg else fail) else firstFailureMessage rs

/-- failingChecks -/
def failingChecks (rs : List Res) : List Res := rs.filter (·.status = fail)

structure HealthResp where
  code : Nat
  status : Status
  message : String
  checks : List Res
deriving Repr

structure ReadyResp where
  code : Nat
  status : String
  checks : List Res
deriving Repr

/-- HealthReadyHandler.writeHealth -/
def health (old : Bool) (s : St) : HealthResp :=
  let (o, rs) := evaluate old s.health
  if o = fail then ⟨503, o, firstFailureMessage rs, rs⟩ else ⟨200, o, messageHealthy, rs⟩

/-- HealthReadyHandler.writeReady -/
def ready (old : Bool) (s : St) : ReadyResp :=
  let (o, rs) := evaluate old s.ready
  if o = fail then ⟨503, statusStarting, failingChecks rs⟩ else ⟨200, statusReady, []⟩

/-! ### interleaving model (ready gates only) -/

/-- the atomic steps -/
inductive Act where
  | register (name : String)            -- AddNamedReadyCheck(NewReadyGate(name)) under c.mu
  | signal (i : Nat) (ready : Bool)     -- gate i: ready.Store(b)
  | reqSnapshot (rid : Nat)             -- snapshotReady under c.mu.RLock
  | reqRead (rid : Nat)                 -- the next `ch.Check(ctx)` of request rid: one ready.Load()
  | reqRespond (rid : Nat)              -- aggregate, sort, write the response
deriving DecidableEq, Repr

/-- a request in flight: the gates snapshotted (indices), the answers read so far -/
structure Pending where
  rid : Nat
  todo : List Nat
  got : List Res
deriving Repr

structure CSt where
  gates : List (String × Bool) := []
  pending : List Pending := []
  /-- finished requests, newest first -/
  done : List (Nat × ReadyResp) := []
deriving Repr

def gateRes (g : String × Bool) : Res := if g.2 then ⟨g.1, pass, ""⟩ else ⟨g.1, fail, "not ready"⟩

def respond (got : List Res) : ReadyResp :=
  if overall got = fail then ⟨503, statusStarting, failingChecks (sortRes got)⟩ else ⟨200, statusReady, []⟩

def updPending (ps : List Pending) (rid : Nat) (f : Pending → Pending) : List Pending :=
  ps.map fun p => if p.rid = rid then f p else p

def CSt.step (s : CSt) : Act → CSt
  | .register n => { s with gates := s.gates ++ [(n, false)] }
  | .signal i b => { s with gates := s.gates.mapIdx fun j g => if j = i then (g.1, b) else g }
  | .reqSnapshot rid => { s with pending := ⟨rid, List.range s.gates.length, []⟩ :: s.pending }
  | .reqRead rid =>
    { s with pending := updPending s.pending rid fun p =>
        match p.todo with
        | [] => p
        | i :: rest =>
          match s.gates[i]? with
          | some g => { p with todo := rest, got := p.got ++ [gateRes g] }
          | none => { p with todo := rest } }
  | .reqRespond rid =>
    match s.pending.find? (·.rid = rid) with
    | some p => { s with pending := s.pending.filter (·.rid ≠ rid), done := (rid, respond p.got) :: s.done }
    | none => s

def CSt.run (s : CSt) (as : List Act) : CSt := as.foldl CSt.step s

end Influx.CheckM
