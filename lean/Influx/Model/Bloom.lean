/-
  Model.Bloom — pkg/bloom/bloom.go.

  `Filter.b []byte` ↦ `bits : List Bool` (bit `loc` is `b[loc>>3] & (1 << (loc&7))`), so
  `len(bits) = m = 8·len(b)`.  The two 64-bit hashes of a value (`xxhash(data)` and
  `xxhash(data with its last byte zeroed)`) are PARAMETERS: the harness sends them with every
  insert/contains.  `location(h, i) = (h[0] + h[1]*i) & mask` in uint64 arithmetic.
-/
namespace Influx.Bloom

structure Filter where
  k : Nat
  bits : List Bool
deriving Repr, DecidableEq

/-- `pow2`: the first of 8, 16, …, 2^61 that is ≥ v (`none` = panic). -/
def pow2 (v : Nat) : Option Nat :=
  ((List.range 59).map fun i => 2 ^ (i + 3)).find? (fun p => decide (v ≤ p))

/-- `NewFilter(m, k)`. -/
def new (m k : Nat) : Option Filter :=
  (pow2 m).map fun m' => { k := k, bits := List.replicate m' false }

/-- bits of one byte, least significant first -/
def byteBits (b : Nat) : List Bool := (List.range 8).map fun t => (b / 2 ^ t) % 2 == 1

def bitsToByte (bs : List Bool) : Nat :=
  (bs.zipIdx.map fun (b, t) => if b then 2 ^ t else 0).sum

def chunk8 : Nat → List Bool → List (List Bool)
  | 0, _ => []
  | _, [] => []
  | fuel + 1, bs => bs.take 8 :: chunk8 fuel (bs.drop 8)

/-- `Bytes()` -/
def Filter.bytes (f : Filter) : List Nat := (chunk8 f.bits.length f.bits).map bitsToByte

/-- `NewFilterBuffer(buf, k)`: the bit count must be one of `pow2`'s values. -/
def ofBuffer (buf : List Nat) (k : Nat) : Option Filter :=
  match pow2 (buf.length * 8) with
  | none => none
  | some m => if m ≠ buf.length * 8 then none else some { k := k, bits := buf.flatMap byteBits }

/-- `location(h, i)` -/
def location (m h0 h1 i : Nat) : Nat := ((h0 + h1 * i) % 2 ^ 64) % m

/-- the `k` positions probed for a value -/
def Filter.locations (f : Filter) (h0 h1 : Nat) : List Nat :=
  (List.range f.k).map fun i => location f.bits.length h0 h1 i

def setBits (bits : List Bool) : List Nat → List Bool
  | [] => bits
  | l :: ls => setBits (bits.set l true) ls

/-- `Insert(v)` -/
def Filter.insert (f : Filter) (h0 h1 : Nat) : Filter :=
  { f with bits := setBits f.bits (f.locations h0 h1) }

def testBits (bits : List Bool) (ls : List Nat) : Bool := ls.all fun l => bits[l]? == some true

/-- `Contains(v)` -/
def Filter.contains (f : Filter) (h0 h1 : Nat) : Bool := testBits f.bits (f.locations h0 h1)

inductive MergeErr | m | k
deriving Repr, DecidableEq

def orBits : List Bool → List Bool → List Bool
  | a :: as, b :: bs => (a || b) :: orBits as bs
  | as, [] => as
  | [], _ => []

/-- `Merge(other)` -/
def Filter.merge (f o : Filter) : Except MergeErr Filter :=
  if f.bits.length ≠ o.bits.length then .error .m
  else if f.k ≠ o.k then .error .k
  else .ok { f with bits := orBits f.bits o.bits }

end Influx.Bloom
