/-
  Influx.Model.FluxTable — the Flux storage reader's window-aggregate tables.

  Go sources:
    storage/flux/reader.go      windowAggregateIterator.Do / handleRead (which table kind),
                                isSelector, determineTableColsFor…
    storage/flux/table.gen.go   *{T}WindowTable.{createNextBufferTimes, getWindowBoundsFor, nextAt,
                                isInWindow, nextBuffer, appendValues, advance},
                                *{T}WindowSelectorTable.{advance, startTimes, stopTimes},
                                *{T}EmptyWindowSelectorTable.{advance, startStopTimes}
                                (as repaired by fixes/C41-a-selector-as-aggregate-window.patch + fixes/C41-b-empty-windows-after-last-point.patch)
    storage/flux/table.go       table.init / do (a table whose first advance fails is Empty and skipped),
                                {T}WindowTable.mergeValues (fillValue = 0 for count)
    storage/flux/window.go      splitWindows (no time column: one table per row, keyed by the row's
                                _start/_stop; an empty table for a null value of a selector —
                                the null test reads column 3, which is `_value` only for tables
                                that have a `_time` column)

  The storage cursor below the tables is the C20 model (`Influx.Model.WindowAgg`): its arrays,
  with their block boundaries, are the input of the table state machines.

  Only the columns `_start`, `_stop`, `_time`, `_value` are modelled (tag columns are constant
  per series).  Windows are nanosecond windows with `period = every` (`Model.Window`).
-/
import Influx.Model.WindowAggVal

namespace Influx.FluxTable
open Influx.WindowAgg
open Influx.Window (Window Bounds)

inductive TimeCol where | none | start | stop
deriving DecidableEq, Repr

/-- query.ReadWindowAggregateSpec, the fields that matter -/
structure Req where
  agg : Agg
  every : Int
  offset : Int
  bstart : Int
  bstop : Int
  createEmpty : Bool
  timeCol : TimeCol
  force : Bool            -- ForceAggregate
deriving Repr

/-- a cell of a column that may be missing from the table's schema -/
inductive Cell where
  | absent
  | null
  | val (t : Int)
deriving DecidableEq, Repr

structure Row where
  start : Int
  stop : Int
  time : Cell
  value : Option Val        -- `none` = null
deriving DecidableEq, Repr

structure Table where
  keyStart : Int
  keyStop : Int
  rows : List Row
deriving DecidableEq, Repr

/-- `isSelector(kind)` -/
def isSelector : Agg → Bool
  | .first | .last | .min | .max => true
  | _ => false

def Req.win (q : Req) : Window := ⟨q.every, q.every, q.offset⟩

/-- `getWindowBoundsFor`: the window clipped to the query bounds -/
def clip (q : Req) (b : Bounds) : Int × Int :=
  (if b.start < q.bstart then q.bstart else b.start, if b.stop > q.bstop then q.bstop else b.stop)

/-! ### {T}WindowTable (aggregates, and selectors under ForceAggregate) -/

structure WState where
  /-- `t.arr` (all of it; `[]` = nil) -/
  whole : List (Pt Val)
  /-- `t.arr[t.idxInArr:]` -/
  cur : List (Pt Val)
  /-- what the cursor will still return -/
  rest : List (List (Pt Val))
  /-- index of `t.windowBounds` (createEmpty) -/
  wb : Int
deriving Repr

/-- `nextBuffer`: `none` = false (nothing left to read) -/
def nextBuffer (s : WState) : Option WState :=
  if !s.cur.isEmpty then some s
  else match s.rest with
    | [] => none
    | a :: r => if a.isEmpty then none else some { s with whole := a, cur := a, rest := r }

/-- `isInWindow(stop, ts)` -/
def isInWindow (q : Req) (isAgg : Bool) (stop ts : Int) : Bool :=
  let b := q.win.getLatestBounds (stop - 1)
  if isAgg then decide (b.start < ts) && decide (ts ≤ b.stop)
  else decide (b.start ≤ ts) && decide (ts < b.stop)

/-- `nextAt(stop)` -/
def nextAt (q : Req) (isAgg : Bool) (s : WState) (stop : Int) : WState × Option Val :=
  match nextBuffer s with
  | none => ({ s with cur := [], rest := [] }, none)
  | some s1 =>
    match s1.cur with
    | [] => (s1, none)                      -- not reachable: nextBuffer returns a non-empty `cur`
    | p :: ps => if isInWindow q isAgg stop p.1 then ({ s1 with cur := ps }, some p.2) else (s1, none)

/-- `appendValues`: one value (or null) per interval stop -/
def mergeValues (q : Req) (isAgg : Bool) : WState → List Int → WState × List (Option Val)
  | s, [] => (s, [])
  | s, stop :: stops =>
    let (s1, v) := nextAt q isAgg s stop
    let (s2, vs) := mergeValues q isAgg s1 stops
    (s2, v :: vs)

/-- the createEmpty loop `for ; ; t.windowBounds = t.window.NextBounds(t.windowBounds)`:
    the clipped windows from index `i` on whose (clipped) start is before the query stop;
    returns them and the first index not taken.  `fuel` bounds the number of windows. -/
def enumWindows (q : Req) : Nat → Int → List (Int × Int) × Int
  | 0, i => ([], i)
  | fuel + 1, i =>
    let c := clip q (q.win.at i)
    if c.1 ≥ q.bstop then ([], i)
    else
      let (ws, j) := enumWindows q fuel (i + 1)
      (c :: ws, j)

/-- enough fuel for every window that can start before `bstop` -/
def windowFuel (q : Req) (i : Int) : Nat :=
  ((q.bstop - (q.win.at i).start) / q.every + 2).toNat

def mkRow (q : Req) (fill : Option Val) (t : Int × Int) (v : Option Val) : Row :=
  let v := match v with | none => fill | some x => some x
  match q.timeCol with
  | .none => { start := t.1, stop := t.2, time := .absent, value := v }
  | .start => { start := q.bstart, stop := q.bstop, time := .val t.1, value := v }
  | .stop => { start := q.bstart, stop := q.bstop, time := .val t.2, value := v }

/-- `advance`: one buffer of rows; `none` = false -/
def advanceW (q : Req) (isAgg : Bool) (fill : Option Val) (s : WState) : Option (WState × List Row) :=
  match nextBuffer s with
  | none => none
  | some s1 =>
    let times : Option (WState × List (Int × Int)) :=
      if q.createEmpty then
        if (q.win.at s1.wb).start ≥ q.bstop then none
        else
          let (ws, j) := enumWindows q (windowFuel q s1.wb) s1.wb
          some ({ s1 with wb := j }, ws)
      else
        some (s1, s1.whole.map fun p =>
          let b := q.win.getLatestBounds p.1
          clip q (if isAgg then q.win.prevBounds b else b))
    match times with
    | none => none
    | some (s2, ts) =>
      let (s3, vs) := mergeValues q isAgg s2 (ts.map (·.2))
      some (s3, (ts.zip vs).map fun (t, v) => mkRow q fill t v)

/-- all buffers of a table, `table.init` + `table.do` (at most `fuel` buffers) -/
def drainBuffers {σ : Type} (adv : σ → Option (σ × List Row)) : Nat → σ → List (List Row)
  | 0, _ => []
  | n + 1, s =>
    match adv s with
    | none => []
    | some (s', rows) => rows :: drainBuffers adv n s'

/-! ### {T}WindowSelectorTable (selectors; no empty windows) -/

def selectorRows (q : Req) (arr : List (Pt Val)) : List Row :=
  arr.map fun p =>
    let c := clip q (q.win.getLatestBounds p.1)
    match q.timeCol with
    | .start => { start := q.bstart, stop := q.bstop, time := .val c.1, value := some p.2 }
    | .stop => { start := q.bstart, stop := q.bstop, time := .val c.2, value := some p.2 }
    | .none => { start := c.1, stop := c.2, time := .val p.1, value := some p.2 }

/-! ### {T}EmptyWindowSelectorTable (selectors, createEmpty, no time column) -/

structure EState where
  cur : List (Pt Val)            -- `t.arr[t.idx:]`
  rest : List (List (Pt Val))
  wb : Int
deriving Repr

/-- the loop of `startStopTimes`: at most `n` more rows -/
def emptyLoop (q : Req) : Nat → EState → EState × List Row
  | 0, s => (s, [])
  | n + 1, s =>
    let b := q.win.at s.wb
    if b.start < q.bstop then
      let c := clip q b
      let (row, cur') : Row × List (Pt Val) :=
        match s.cur with
        | p :: ps =>
          if b.start ≤ p.1 ∧ p.1 < b.stop then
            ({ start := c.1, stop := c.2, time := .val p.1, value := some p.2 }, ps)
          else ({ start := c.1, stop := c.2, time := .null, value := none }, p :: ps)
        | [] => ({ start := c.1, stop := c.2, time := .null, value := none }, [])
      -- "if the current array is non-empty and has been read in its entirety, call Next()"
      let s' : EState :=
        if !s.cur.isEmpty && cur'.isEmpty then
          match s.rest with
          | [] => { cur := [], rest := [], wb := s.wb + 1 }
          | a :: r => { cur := a, rest := r, wb := s.wb + 1 }
        else { s with cur := cur', wb := s.wb + 1 }
      let (s'', rows) := emptyLoop q n s'
      (s'', row :: rows)
    else (s, [])

/-- `advance` (repaired): `none` = false -/
def advanceE (B : Nat) (q : Req) (s : EState) : Option (EState × List Row) :=
  let ws := (q.win.at s.wb).start
  if s.cur.isEmpty && (decide (ws ≤ q.bstart) || decide (ws ≥ q.bstop)) then none
  else some (emptyLoop q B s)

/-! ### handleRead for one series -/

/-- tables of one series, given the arrays its storage cursor returns -/
def seriesTables (B : Nat) (q : Req) (arrs : List (List (Pt Val))) : List Table :=
  let selector := isSelector q.agg
  let n := arrs.flatten.length + 2
  let wb0 := (q.win.getLatestBounds q.bstart).index
  -- buffers of the table, and whether its schema has a `_time` column next to `_start/_stop`
  let (buffers, hasTime) : List (List Row) × Bool :=
    if !selector || q.force then
      let fill := if q.agg = .count then some (Val.i 0) else none
      (drainBuffers (advanceW q (!selector) fill) n ⟨[], [], arrs, wb0⟩, false)
    else if q.createEmpty && q.timeCol = .none then
      let s0 : EState := match arrs with
        | [] => ⟨[], [], wb0⟩
        | a :: r => ⟨a, r, wb0⟩
      (drainBuffers (advanceE B q) (n + (windowFuel q wb0) / B + 1) s0, true)
    else (arrs.map (selectorRows q), true)
  match buffers with
  | [] => []                                   -- `table.Empty()`: skipped
  | _ =>
    let rows := buffers.flatten
    match q.timeCol with
    | .none =>
      -- splitWindows
      rows.map fun r =>
        if selector && hasTime && r.value.isNone then ⟨r.start, r.stop, []⟩ else ⟨r.start, r.stop, [r]⟩
    | _ => [⟨q.bstart, q.bstop, rows⟩]

end Influx.FluxTable
