/-
  Model.Authorizer — the authorization wrappers of /repo/authorizer as they are written,
  over the tenant store model (`Model.Tenant`) and a token store, with the permission
  check of C28 (`Influx.Generated.Authz.Matches`, regenerated from authz.go on every run):

    authorizer/authorize.go       authorize / isAllowed / AuthorizeRead* / AuthorizeWrite* / AuthorizeCreate,
                                  AuthorizeReadBucket (system buckets: read on the organization)
    authorizer/authorize_find.go  AuthorizeFindBuckets / Organizations / Users / Authorizations
    authorizer/bucket.go          BucketService (7 methods)
    authorizer/org.go             OrgService (6 methods; FindOrganizations narrows to the caller's user)
    authorizer/user.go            UserService (7 methods)
    authorizer/auth.go            AuthorizationService (6 methods) + VerifyPermissions
    authz.go                      PermissionAllowed, Permission.Valid (ids must be valid)
    auth.go                       Authorization.PermissionSet (inactive token: EUnauthorized), Authorization.Valid
    authorization/service.go, storage_authorization.go   the wrapped token service (raw, unhashed tokens)

  Every wrapper returns the state it leaves and the result; the wrapped services are the
  models of Model.Tenant (which keep partial effects of multi-transaction calls).
-/
import Influx.Model.Tenant
import Influx.Model.AuthorizerTypes
import Influx.Generated.Authz

namespace Influx.Authzr
open Influx Influx.Tenant Influx.Generated.Authz

structure St where
  t : Tenant.State := {}
  auths : List (Nat × AuthRec) := []          -- authorizationsv1
  tokIdx : List (String × Nat) := []          -- authorizationindexv1 (raw tokens)
  nextAuth : Nat := 5001                      -- the harness' id generator of the token store
deriving Repr

def init : St := {}

abbrev Res (α : Type) := St × Except Err α

/-! ### the permission check -/

/-- authz.go `PermissionAllowed` -/
def allowed (ps : List Permission) (p : Permission) : Bool :=
  ps.any fun q => Matches q p == some true

def mkPerm (a : Action) (rt : ResourceType) (rid oid : Option Nat) : Permission := ⟨a, ⟨rt, rid, oid⟩⟩

/-- authorize.go `authorize`: build the permission (`Valid`: ids must not be 0), fetch the
    authorizer, `isAllowed`. Only called with the two actions and valid resource types. -/
def authorize (c : Caller) (a : Action) (rt : ResourceType) (rid oid : Option Nat) : Except Err Unit :=
  if oid = some 0 then .error (.base .inv)
  else if rid = some 0 then .error (.base .inv)
  else if !c.present then .error (.base .int)
  else if !c.active then .error .unauth
  else if allowed c.perms (mkPerm a rt rid oid) then .ok () else .error .unauth

/-- authorize.go `AuthorizeReadBucket` -/
def authorizeReadBucket (c : Caller) (sys : Bool) (id org : Nat) : Except Err Unit :=
  if sys then authorize c ReadAction OrgsResourceType (some org) none
  else authorize c ReadAction BucketsResourceType (some id) (some org)

/-- the two checks every read of an authorization performs -/
def authorizeReadAuth (c : Caller) (id : Nat) (a : AuthRec) : Except Err Unit :=
  match authorize c ReadAction AuthorizationsResourceType (some id) (some a.org) with
  | .error e => .error e
  | .ok _ => authorize c ReadAction UsersResourceType (some a.user) none

def authorizeWriteAuth (c : Caller) (id : Nat) (a : AuthRec) : Except Err Unit :=
  match authorize c WriteAction AuthorizationsResourceType (some id) (some a.org) with
  | .error e => .error e
  | .ok _ => authorize c WriteAction UsersResourceType (some a.user) none

/-- authorize_find.go: keep what is authorized, skip EUnauthorized, fail on any other error -/
def filterAuthorized {α : Type} (f : α → Except Err Unit) : List α → Except Err (List α)
  | [] => .ok []
  | x :: xs =>
    match f x with
    | .ok _ => (filterAuthorized f xs).map (x :: ·)
    | .error .unauth => filterAuthorized f xs
    | .error e => .error e

/-- auth.go `VerifyPermissions`: any failure of `IsAllowed` is reported as EForbidden -/
def verifyPermissions (c : Caller) (ps : List Permission) : Except Err Unit :=
  if ps.all (fun p => c.present && c.active && allowed c.perms p) then .ok () else .error .forbidden

def liftT {α : Type} (s : St) (r : Tenant.State × Except Tenant.Err α) : Res α :=
  ({ s with t := r.1 }, match r.2 with | .ok a => .ok a | .error e => .error (.base e))

def liftE {α : Type} : Except Tenant.Err α → Except Err α
  | .ok a => .ok a
  | .error e => .error (.base e)

/-! ### the two shapes every mutating wrapper has -/

/-- authorize, then delegate: nothing is touched when the check fails -/
def guarded (g : Except Err Unit) (s : St) (k : Res Nat) : Res Nat :=
  match g with
  | .error e => (s, .error e)
  | .ok _ => k

/-- fetch the target, authorize on what was fetched, then delegate -/
def fetchGuard {β : Type} (fetch : Except Err β) (g : β → Except Err Unit) (s : St) (k : Res Nat) : Res Nat :=
  match fetch with
  | .error e => (s, .error e)
  | .ok b => guarded (g b) s k

/-! ### bucket.go -/

def getBucket (s : St) (id : Nat) : Except Err BucketRec :=
  if id = 0 then .error (.base .inv)
  else match KV.get s.t.bkts id with
    | none => .error (.base .nf)
    | some b => .ok b

/-- `FindBucketByID`: fetch, then AuthorizeReadBucket -/
def findBucketByID (c : Caller) (s : St) (id : Nat) : Except Err (Nat × BucketRec) :=
  match getBucket s id with
  | .error e => .error e
  | .ok b => match authorizeReadBucket c b.sys id b.org with
    | .error e => .error e
    | .ok _ => .ok (id, b)

/-- `FindBucketByName` / `FindBucket` (filter: organization id and name) -/
def findBucketByName (c : Caller) (s : St) (org : Nat) (name : String) : Except Err (Nat × BucketRec) :=
  match liftE (Tenant.findBucket s.t org name) with
  | .error e => .error e
  | .ok (id, b) => match authorizeReadBucket c b.sys id b.org with
    | .error e => .error e
    | .ok _ => .ok (id, b)

/-- `FindBuckets` (filter: an organization id, or nothing) then AuthorizeFindBuckets -/
def findBuckets (c : Caller) (s : St) (org : Option Nat) : Except Err (List (Nat × BucketRec)) :=
  let fetched : Except Err (List (Nat × BucketRec)) :=
    match org with
    | none => .ok s.t.bkts
    | some o => match liftE (Tenant.listBuckets s.t o) with
      | .error e => .error e
      | .ok ids => .ok (ids.filterMap fun id => (KV.get s.t.bkts id).map fun b => (id, b))
  match fetched with
  | .error e => .error e
  | .ok bs => filterAuthorized (fun e => authorizeReadBucket c e.2.sys e.1 e.2.org) bs

/-- `CreateBucket`: AuthorizeCreate(buckets, org) then delegate -/
def createBucket (c : Caller) (s : St) (org : Nat) (name : String) (sys : Bool) : Res Nat :=
  guarded (authorize c WriteAction BucketsResourceType none (some org)) s
    (liftT s (Tenant.createBucket s.t org name sys))

/-- `UpdateBucket`: fetch, AuthorizeWrite(buckets, id, org), delegate -/
def updateBucket (c : Caller) (s : St) (id : Nat) (name : Option String) : Res Nat :=
  fetchGuard (getBucket s id) (fun b => authorize c WriteAction BucketsResourceType (some id) (some b.org)) s
    (liftT s (Tenant.updateBucket s.t id name))

/-- `DeleteBucket` -/
def deleteBucket (c : Caller) (s : St) (id : Nat) : Res Nat :=
  fetchGuard (getBucket s id) (fun b => authorize c WriteAction BucketsResourceType (some id) (some b.org)) s
    (liftT s ((Tenant.deleteBucket s.t id false).1, (Tenant.deleteBucket s.t id false).2.map fun _ => id))

/-! ### org.go -/

def getOrg (s : St) (id : Nat) : Except Err String :=
  if id = 0 then .error (.base .inv)
  else match KV.get s.t.orgs id with
    | none => .error (.base .nf)
    | some n => .ok n

/-- `FindOrganizationByID`: AuthorizeReadOrg first, then fetch -/
def findOrgByID (c : Caller) (s : St) (id : Nat) : Except Err Nat :=
  match authorize c ReadAction OrgsResourceType (some id) none with
  | .error e => .error e
  | .ok _ => (getOrg s id).map fun _ => id

/-- `FindOrganization` (by name): fetch, then AuthorizeReadOrg -/
def findOrgByName (c : Caller) (s : St) (name : String) : Except Err Nat :=
  match liftE (Tenant.findOrg s.t name) with
  | .error e => .error e
  | .ok (id, _) => match authorize c ReadAction OrgsResourceType (some id) none with
    | .error e => .error e
    | .ok _ => .ok id

/-- the organizations tenant `FindOrganizations` returns for a user filter: resource ids of the
    user's org-type URMs that are existing organizations (user 0 is "no filter" in ListURMs) -/
def orgsOfUser (t : Tenant.State) (user : Nat) : List Nat :=
  let keys : List (Nat × Nat) :=
    if user = 0 then (t.urms.filter fun e => e.2.rtypeOrg).map (·.1)
    else (Tenant.urmsOfUser t user).filter fun k => match KV.get t.urms k with
      | some r => r.rtypeOrg
      | none => false
  (keys.map (·.1)).filter fun o => o ≠ 0 && KV.has t.orgs o

/-- `FindOrganizations` without filter: narrowed to the caller's user unless the caller may read
    all organizations; then AuthorizeFindOrganizations -/
def findOrgs (c : Caller) (s : St) : Except Err (List Nat) :=
  if !c.present then .error (.base .int)
  else
    let fetched : List Nat :=
      match authorize c ReadAction OrgsResourceType none none with
      | .ok _ => s.t.orgs.map (·.1)
      | .error _ => orgsOfUser s.t c.user
    filterAuthorized (fun o => authorize c ReadAction OrgsResourceType (some o) none) fetched

/-- `CreateOrganization`: AuthorizeWriteGlobal(orgs); the wrapped service sees the caller's user
    on the context and makes it the owner -/
def createOrg (c : Caller) (s : St) (name : String) : Res Nat :=
  guarded (authorize c WriteAction OrgsResourceType none none) s (liftT s (Tenant.createOrganization s.t name c.user))

def updateOrg (c : Caller) (s : St) (id : Nat) (name : Option String) : Res Nat :=
  guarded (authorize c WriteAction OrgsResourceType (some id) none) s (liftT s (Tenant.updateOrganization s.t id name))

def deleteOrg (c : Caller) (s : St) (id : Nat) : Res Nat :=
  guarded (authorize c WriteAction OrgsResourceType (some id) none) s (liftT s (Tenant.deleteOrganization s.t id))

/-! ### user.go -/

def findUserByID (c : Caller) (s : St) (id : Nat) : Except Err Nat :=
  match authorize c ReadAction UsersResourceType (some id) none with
  | .error e => .error e
  | .ok _ => match KV.get s.t.users id with
    | none => .error (.base .nf)
    | some _ => .ok id

def findUserByName (c : Caller) (s : St) (name : String) : Except Err Nat :=
  match liftE (Tenant.findUser s.t name) with
  | .error e => .error e
  | .ok (id, _) => match authorize c ReadAction UsersResourceType (some id) none with
    | .error e => .error e
    | .ok _ => .ok id

def findUsers (c : Caller) (s : St) : Except Err (List Nat) :=
  filterAuthorized (fun u => authorize c ReadAction UsersResourceType (some u) none) (s.t.users.map (·.1))

def createUser (c : Caller) (s : St) (name : String) (id : Nat) : Res Nat :=
  guarded (authorize c WriteAction UsersResourceType none none) s (liftT s (Tenant.createUser s.t name id))

def updateUser (c : Caller) (s : St) (id : Nat) (name : Option String) : Res Nat :=
  guarded (authorize c WriteAction UsersResourceType (some id) none) s (liftT s (Tenant.updateUser s.t id name))

def deleteUser (c : Caller) (s : St) (id : Nat) : Res Nat :=
  guarded (authorize c WriteAction UsersResourceType (some id) none) s (liftT s (Tenant.deleteUser s.t id))

/-! ### the wrapped token service (authorization/service.go, raw tokens) -/

def reservedIDs : Nat := 1000

/-- authorization/storage.go `generateSafeID`: ids below ReservedIDs are skipped -/
def genAuthID (used : Nat → Bool) : Nat → Nat → Option Nat × Nat
  | 0, next => (none, next)
  | fuel + 1, next =>
    if next < reservedIDs then genAuthID used fuel (next + 1)
    else if used next then genAuthID used fuel (next + 1)
    else (some next, next + 1)

def getAuth (s : St) (id : Nat) : Except Err AuthRec :=
  if id = 0 then .error (.base .inv)
  else match KV.get s.auths id with
    | none => .error (.base .nf)
    | some a => .ok a

/-- service.go `CreateAuthorization` (token given, id not given). When no id can be generated the
    store returns nil without writing anything (storage_authorization.go: `return nil`), so the
    call "succeeds" with id 0. -/
def createAuthSvc (s : St) (a : AuthRec) : Res Nat :=
  if !a.perms.all (fun p => p.Resource.OrgID = none || p.Resource.OrgID = some a.org) then (s, .error (.base .inv))
  else if a.user = 0 || !KV.has s.t.users a.user then (s, .error (.base .inv))
  else if a.org = 0 || !KV.has s.t.orgs a.org then (s, .error (.base .inv))
  else if KV.has s.tokIdx a.token then (s, .error (.base .cf))
  else
    let g := genAuthID (KV.has s.auths) 100 s.nextAuth
    let s := { s with nextAuth := g.2 }
    match g.1 with
    | none => (s, .ok 0)
    | some id =>
      -- commitAuthorization: json.Marshal fails on a permission naming the invalid resource id 0
      if a.perms.any (fun p => p.Resource.ID = some 0) then (s, .error (.base .inv))
      else ({ s with tokIdx := KV.put s.tokIdx a.token id, auths := KV.put s.auths id a }, .ok id)

/-- service.go `UpdateAuthorization` (status only) -/
def updateAuthSvc (s : St) (id : Nat) (active : Bool) : Res Nat :=
  match getAuth s id with
  | .error _ => (s, .error (.base .nf))
  | .ok a =>
    ({ s with tokIdx := KV.put s.tokIdx a.token id, auths := KV.put s.auths id { a with active := active } }, .ok id)

/-- service.go `DeleteAuthorization` -/
def deleteAuthSvc (s : St) (id : Nat) : Res Nat :=
  match getAuth s id with
  | .error e => (s, .error e)
  | .ok a => ({ s with tokIdx := KV.del s.tokIdx a.token, auths := KV.del s.auths id }, .ok id)

def getAuthByToken (s : St) (tok : String) : Except Err (Nat × AuthRec) :=
  match KV.get s.tokIdx tok with
  | none => .error (.base .nf)
  | some id => match KV.get s.auths id with
    | none => .error (.base .int)
    | some a => if a.token = tok then .ok (id, a) else .error .forbidden

/-! ### auth.go -/

def findAuthByID (c : Caller) (s : St) (id : Nat) : Except Err (Nat × AuthRec) :=
  match getAuth s id with
  | .error e => .error e
  | .ok a => match authorizeReadAuth c id a with
    | .error e => .error e
    | .ok _ => .ok (id, a)

def findAuthByToken (c : Caller) (s : St) (tok : String) : Except Err (Nat × AuthRec) :=
  match getAuthByToken s tok with
  | .error e => .error e
  | .ok (id, a) => match authorizeReadAuth c id a with
    | .error e => .error e
    | .ok _ => .ok (id, a)

def findAuths (c : Caller) (s : St) : Except Err (List (Nat × AuthRec)) :=
  filterAuthorized (fun e => authorizeReadAuth c e.1 e.2) s.auths

/-- `CreateAuthorization`: AuthorizeCreate(authorizations, org), AuthorizeWriteResource(users, user),
    VerifyPermissions, then delegate -/
def createAuth (c : Caller) (s : St) (a : AuthRec) : Res Nat :=
  guarded (authorize c WriteAction AuthorizationsResourceType none (some a.org)) s <|
  guarded (authorize c WriteAction UsersResourceType (some a.user) none) s <|
  guarded (verifyPermissions c a.perms) s (createAuthSvc s a)

/-- authorization/middleware_auth.go `AuthedAuthorizationService.CreateAuthorization`: the same three
    checks, then instance-type permissions are refused (a plain error: EInternal), then delegate.
    (Its other five methods are textually those of authorizer/auth.go.) -/
def createAuth2 (c : Caller) (s : St) (a : AuthRec) : Res Nat :=
  guarded (authorize c WriteAction AuthorizationsResourceType none (some a.org)) s <|
  guarded (authorize c WriteAction UsersResourceType (some a.user) none) s <|
  guarded (verifyPermissions c a.perms) s <|
  if a.perms.any (fun p => p.Resource.Type_ = InstanceResourceType) then (s, .error (.base .int))
  else createAuthSvc s a

def updateAuth (c : Caller) (s : St) (id : Nat) (active : Bool) : Res Nat :=
  fetchGuard (getAuth s id) (fun a => authorizeWriteAuth c id a) s (updateAuthSvc s id active)

def deleteAuth (c : Caller) (s : St) (id : Nat) : Res Nat :=
  fetchGuard (getAuth s id) (fun a => authorizeWriteAuth c id a) s (deleteAuthSvc s id)

/-! ### operations and observations -/

/-- everything that is stored (not the id generators) -/
def sameStore (a b : St) : Bool :=
  a.t.orgs == b.t.orgs && a.t.orgIdx == b.t.orgIdx && a.t.bkts == b.t.bkts && a.t.bktIdx == b.t.bktIdx &&
  a.t.users == b.t.users && a.t.userIdx == b.t.userIdx && a.t.urms == b.t.urms && a.t.urmIdx == b.t.urmIdx &&
  a.auths == b.auths && a.tokIdx == b.tokIdx

def bk (e : Nat × BucketRec) : Nat × Nat × Bool := (e.1, e.2.org, e.2.sys)
def au (e : Nat × AuthRec) : Nat × Nat × Nat := (e.1, e.2.org, e.2.user)

def ansRead {α : Type} (s : St) (r : Except Err α) (f : α → Ans) : St × Ans :=
  match r with
  | .ok a => (s, f a)
  | .error e => (s, .err e false)

def ansMut (s : St) (r : Res Nat) (pre : Option (Nat × Nat)) : St × Ans :=
  match r.2 with
  | .ok id => (r.1, .okMut id pre)
  | .error e => (r.1, .err e (!sameStore s r.1))

def preBucket (s : St) (id : Nat) : Option (Nat × Nat) := (KV.get s.t.bkts id).map fun b => (b.org, 0)
def preAuth (s : St) (id : Nat) : Option (Nat × Nat) := (KV.get s.auths id).map fun a => (a.org, a.user)

def wstep (c : Caller) (s : St) : WOp → St × Ans
  | .gb id => ansRead s (findBucketByID c s id) fun e => .bucket e.1 e.2.org e.2.sys
  | .fb o n => ansRead s (findBucketByName c s o n) fun e => .bucket e.1 e.2.org e.2.sys
  | .fB o n => ansRead s (findBucketByName c s o n) fun e => .bucket e.1 e.2.org e.2.sys
  | .lb o => ansRead s (findBuckets c s o) fun l => .buckets (l.map bk)
  | .cb o n sys => ansMut s (createBucket c s o n sys) none
  | .ub id n => ansMut s (updateBucket c s id n) (preBucket s id)
  | .db id => ansMut s (deleteBucket c s id) (preBucket s id)
  | .gO id => ansRead s (findOrgByID c s id) .org
  | .fo n => ansRead s (findOrgByName c s n) .org
  | .lo => ansRead s (findOrgs c s) .orgs
  | .co n => ansMut s (createOrg c s n) none
  | .uo id n => ansMut s (updateOrg c s id n) none
  | .dO id => ansMut s (deleteOrg c s id) none
  | .gu id => ansRead s (findUserByID c s id) .user
  | .fu n => ansRead s (findUserByName c s n) .user
  | .lu => ansRead s (findUsers c s) .users
  | .cu n id => ansMut s (createUser c s n id) none
  | .uu id n => ansMut s (updateUser c s id n) none
  | .du id => ansMut s (deleteUser c s id) none
  | .pu _ => (s, .err (.base .int) false)
  | .ga id => ansRead s (findAuthByID c s id) fun e => .auth e.1 e.2.org e.2.user
  | .ft t => ansRead s (findAuthByToken c s t) fun e => .auth e.1 e.2.org e.2.user
  | .la => ansRead s (findAuths c s) fun l => .auths (l.map au)
  | .ca a => ansMut s (createAuth c s a) none
  | .ca2 a => ansMut s (createAuth2 c s a) none
  | .ua id act => ansMut s (updateAuth c s id act) (preAuth s id)
  | .da id => ansMut s (deleteAuth c s id) (preAuth s id)

def step (s : St) : Op → St × Ans
  | .admin op => let r := Tenant.step s.t op; ({ s with t := r.1 }, .admin r.2)
  | .adminAuth a =>
    let r := createAuthSvc s a
    match r.2 with
    | .ok id => (r.1, .okMut id none)
    | .error e => (r.1, .err e (!sameStore s r.1))
  | .idgenAuth n => ({ s with nextAuth := n }, .admin .ok)
  | .w c op => wstep c s op
  | .dump => (s, .dump (Tenant.dumpOf s.t) s.auths s.tokIdx)

def run : St → List Op → List (Op × Ans)
  | _, [] => []
  | s, op :: ops => let r := step s op; (op, r.2) :: run r.1 ops

def exec (s : St) (ops : List Op) : St := ops.foldl (fun s op => (step s op).1) s

end Influx.Authzr
