/-
  Model.CacheConc — step-level model of two `tsm1.Cache` calls running
  concurrently on ONE key, written from cache.go / ring.go with the lock sections
  as the atomic steps:

    W = WriteMulti{k: vs} for a key whose entry may exist (partition.write + entry.add)
        w1  p.mu.RLock; e := p.store[k]; p.mu.RUnlock              (the entry POINTER is kept)
        w2  e.mu.Lock; e.values = append(e.values, vs…); e.mu.Unlock   (entry.add)
        (if w1 finds no entry: one step under p.mu.Lock creating it)
    D = DeleteRange([k], min, max) with a partial range, under c.mu.Lock — which W never takes
        d1  e := c.store.entry(k)
        d2  e.filter(min, max)                                       (under e.mu)
        d3  if e.count() == 0 { c.store.remove(k) }

  Entries are heap objects: the store maps a key to an entry id, the heap maps an id
  to its values.  An entry that `d3` removed from the store stays on the heap —
  reachable only through the pointer a concurrent `w1` already holds.
  Sizes are left out (the statement below is about content).
-/
import Influx.Model.Cache

namespace Influx.CacheConc
open Influx.Cache

structure Shared where
  store : List (Key × Nat)
  heap : List (Nat × List Value)
deriving Repr, DecidableEq

def Shared.vals (s : Shared) (id : Nat) : List Value := (s.heap.lookup id).getD []

def Shared.setVals (s : Shared) (id : Nat) (vs : List Value) : Shared :=
  { s with heap := (id, vs) :: s.heap.filter (fun x => x.1 ≠ id) }

/-- `Cache.Values(k)` at quiescence (no snapshot) -/
def Shared.read (s : Shared) (k : Key) : List Value :=
  match s.store.lookup k with
  | some id => dedup (s.vals id)
  | none => []

inductive WPc where
  | start
  | found (id : Nat)
  | done
deriving Repr, DecidableEq

inductive DPc where
  | start
  | got (id : Nat)
  | filtered (id : Nat)
  | done
deriving Repr, DecidableEq

structure Cfg where
  sh : Shared
  w : WPc
  d : DPc
deriving Repr, DecidableEq

inductive Tid where
  | w
  | d
deriving Repr, DecidableEq

/-- one atomic step of thread `t`; `none` if that thread has finished -/
def stepT (k : Key) (vs : List Value) (mn mx : Int) (c : Cfg) : Tid → Option Cfg
  | .w =>
    match c.w with
    | .start =>
      match c.sh.store.lookup k with
      | some id => some { c with w := .found id }
      | none =>
        -- p.mu.Lock: create the entry
        let id := c.sh.heap.length
        some { c with sh := { store := c.sh.store ++ [(k, id)], heap := (id, vs) :: c.sh.heap }, w := .done }
    | .found id => some { c with sh := c.sh.setVals id (c.sh.vals id ++ vs), w := .done }
    | .done => none
  | .d =>
    match c.d with
    | .start =>
      match c.sh.store.lookup k with
      | some id => some { c with d := .got id }
      | none => some { c with d := .done }
    | .got id =>
      let cur := c.sh.vals id
      let cur := if cur.length > 1 then dedup cur else cur
      some { c with sh := c.sh.setVals id (exclude cur mn mx), d := .filtered id }
    | .filtered id =>
      if (c.sh.vals id).isEmpty then
        some { c with sh := { c.sh with store := c.sh.store.filter (fun x => x.1 ≠ k) }, d := .done }
      else some { c with d := .done }
    | .done => none

/-- run a schedule; `none` if it schedules a finished thread -/
def runSched (k : Key) (vs : List Value) (mn mx : Int) : Cfg → List Tid → Option Cfg
  | c, [] => some c
  | c, t :: rest =>
    match stepT k vs mn mx c t with
    | some c' => runSched k vs mn mx c' rest
    | none => none

def finished (c : Cfg) : Bool := c.w == .done && c.d == .done

end Influx.CacheConc
