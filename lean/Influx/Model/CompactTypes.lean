/-
  Model.CompactTypes — the data the compaction iterator works on
  (tsdb/engine/tsm1/compact.go: `type block struct`), with the encoded bytes `b`
  replaced by the decoded points `pts` (abstract payload `V`).
-/
namespace Influx.Model.Compact

/-- `math.MaxInt64` / `math.MinInt64`: initial values of `readMin` / `readMax`. -/
def maxInt64 : Int := 9223372036854775807
def minInt64 : Int := -9223372036854775808
/-- Go conversion `int64(x)` of an untyped constant that fits. -/
@[inline] def int64 (x : Int) : Int := x

/-- compact.go `type block struct` (key kept outside: the model handles one key at a time). -/
structure Block (V : Type) where
  minTime : Int
  maxTime : Int
  /-- what `Decode<T>ArrayBlock(b)` yields: timestamps with values -/
  pts : List (Int × V)
  /-- `tombstones []TimeRange` (Min, Max) -/
  tombstones : List (Int × Int)
  readMin : Int := maxInt64
  readMax : Int := minInt64
deriving Repr, BEq, DecidableEq

instance {V : Type} : Inhabited (Block V) := ⟨⟨0, 0, [], [], maxInt64, minInt64⟩⟩

end Influx.Model.Compact
