/-
  Influx.Model.DurableQueueStep — typed core of the C26 model: `init`, `step`.
  The state is the open queue (`none`: not opened yet, or `Open` failed).
-/
import Influx.Model.DurableQueue
import Influx.Model.DurableQueueTypes

namespace Influx.DQ

/-- the harness (like the replication service) installs a verifyBlockFn that accepts everything -/
def verifyAll : Bytes → Bool := fun _ => true

abbrev State := Option Q

def init : State := none

def Q.statAns (q : Q) : Ans :=
  let n := q.segs.length
  let n' := match q.segs.getLast? with
    | some t => if t.empty then n - 1 else n
    | none => n
  .stat n' (q.segs.map Seg.size).sum
    (q.segs.map (fun s => (s.size : Int) - s.pos - 8)).sum
    (match q.segs with | h :: _ => h.pos | [] => 0)

def crashAns (openOk : Bool) : Option TornObs → Ans
  | some o => .crashed openOk o.size o.footer o.same
  | none => .crashed openOk 0 0 3

def reopenWith (q : Q) (files : List Bytes) (o : Option TornObs) : State × Ans :=
  match qOpen verifyAll q.maxSize q.maxSeg files with
  | some q' => (some q', crashAns true o)
  | none => (none, crashAns false o)

def step (s : State) (op : Op) : State × Ans :=
  match s with
  | none =>
    match op with
    | .openQ m g =>
      (match qOpen verifyAll m g [] with
       | some q => (some q, .ok)
       | none => (none, .err))
    | _ => (none, .notOpen)
  | some q =>
    match op with
    | .openQ _ _ => (some q, .err)
    | .append b =>
      let (q', r) := q.append b
      (some q', match r with | .ok => .ok | .full => .full | .err => .err)
    | .cur =>
      (some q, match q.current with
        | .ok b => .val b
        | .error .eof => .eof
        | .error .other => .err)
    | .adv => (some q.advance, .ok)
    | .scan n =>
      let (q', r) := q.scan n
      (some q', match r with | .eof => .eof | .got ys ok => .scanned ys ok)
    | .reopen =>
      (match qOpen verifyAll q.maxSize q.maxSeg q.files with
       | some q' => (some q', .ok)
       | none => (none, .err))
    | .crashAppend b k =>
      let (files, o) := q.crashAppendFiles b k
      reopenWith q files o
    | .crashAdv k =>
      let (files, o) := q.crashAdvFiles verifyAll k
      reopenWith q files o
    | .crashSeg b k =>
      let (files, o) := q.crashSegFiles b k
      reopenWith q files o
    | .stat => (some q, q.statAns)

/-- the answers of the model to a list of operations -/
def trace : State → List Op → List (Op × Ans)
  | _, [] => []
  | s, op :: ops => let (s', a) := step s op; (op, a) :: trace s' ops

end Influx.DQ
