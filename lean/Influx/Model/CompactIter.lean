/-
  Model.CompactIter — executable model of the TSM compaction iterators
  (tsdb/engine/tsm1/compact.go, compact.gen.go), for one value type with an
  abstract payload `V` (the five generated variants `mergeFloat/Integer/…` are
  textually identical up to the type).

  Written from the code as it is:
    * `vExclude/vInclude/vMerge`      tsdb/cursors/arrayvalues.gen.go `Exclude/Include/Merge`
                                       (on sorted, duplicate-free arrays — what decoding a
                                       well-formed block yields — the binary-search versions
                                       are these filters / this two-finger merge; the
                                       literal algorithms are the subject of C37)
    * `blkLess`                        compact.go `blocks.Less` (same key)
    * `mergeStep/combineDedup/combineNoDedup/chunk`
                                       compact.gen.go `merge<T>/combine<T>/chunk<T>`
    * `Iter.next/read`, `runIter`      compact.go `tsmBatchKeyIterator.Next/Read`
    * `splitFiles`                     compact.go `Compactor.write/writeNewFiles` (roll-over on
                                       `ErrMaxBlocksExceeded` / `MaxTSMFileSize`, abstract thresholds)
    * `cacheBlocks`                    compact.go `cacheKeyIterator.encode/Next/Read`
  `block.read/partiallyRead/overlapsTimeRange` are regenerated from compact.go
  by the translator (Influx.Generated.CompactBlock).

  Where Go would panic (index out of range on an empty decoded block, size 0)
  the model returns `Except.error`; a loop that would not terminate runs out of
  fuel and returns `Except.error "hang"`.
-/
import Influx.Model.CompactTypes
import Influx.Model.CompactSort
import Influx.Generated.CompactBlock

namespace Influx.Model.Compact
open Influx.Generated.CompactBlock

variable {V : Type}

abbrev Pts (V : Type) := List (Int × V)

/-! ### Values algebra (own copy) -/

/-- `Exclude(min, max)`: remove the values in `[min, max]`. -/
def vExclude (lo hi : Int) (a : Pts V) : Pts V :=
  a.filter fun p => !(decide (lo ≤ p.1) && decide (p.1 ≤ hi))

/-- `Include(min, max)`: keep the values in `[min, max]`. -/
def vInclude (lo hi : Int) (a : Pts V) : Pts V :=
  a.filter fun p => decide (lo ≤ p.1) && decide (p.1 ≤ hi)

/-- inner loop of `vMerge` for a fixed head `x :: a` of the left array
    (`recA` = merging the left tail `a`) -/
def mergeInner (x : Int × V) (a : Pts V) (recA : Pts V → Pts V) : Pts V → Pts V
  | [] => x :: a
  | y :: b =>
    if x.1 < y.1 then x :: recA (y :: b)
    else if x.1 = y.1 then y :: recA b
    else y :: mergeInner x a recA b

/-- `a.Merge(b)`: two-finger merge, `b` wins on equal timestamps
    (structural recursion on both arrays, so that it evaluates in the kernel). -/
def vMerge : Pts V → Pts V → Pts V
  | [], b => b
  | x :: a, b => mergeInner x a (vMerge a) b

/-- apply every tombstone range of the block -/
def applyTombs (ts : List (Int × Int)) (v : Pts V) : Pts V :=
  ts.foldl (fun v r => vExclude r.1 r.2 v) v

/-! ### blocks -/

/-- `blocks.Less` for two blocks of the same key. -/
def blkLess (a b : Block V) : Bool :=
  decide (a.minTime < b.minTime) && decide (a.maxTime < b.minTime)

/-- `markRead(min, max)`. -/
def markRead (b : Block V) (lo hi : Int) : Block V :=
  { b with readMin := if lo < b.readMin then lo else b.readMin,
           readMax := if hi > b.readMax then hi else b.readMax }

/-- an output block: index entry times and the encoded values -/
structure OBlk (V : Type) where
  minTime : Int
  maxTime : Int
  pts : Pts V
deriving Repr, BEq, DecidableEq

/-- a block of `k.blocks` appended to `k.merged` as is -/
def passThrough (b : Block V) : OBlk V := ⟨b.minTime, b.maxTime, b.pts⟩

structure Cfg where
  size : Nat
  fast : Bool
  /-- how `merge<T>()` orders `k.blocks`: the code calls `sort.Stable(k.blocks)` (the default).
      A parameter so that the theorems can say what they need from it. -/
  sort : (V : Type) → List (Block V) → List (Block V) := fun _ => Sort.stable blkLess

/-- per-key state of `tsmBatchKeyIterator`: `k.blocks`, `k.merged<T>Values`, `k.merged`. -/
structure KSt (V : Type) where
  blocks : List (Block V)
  mv : Pts V
  merged : List (OBlk V)

abbrev M := Except String

/-- first / last timestamp (`MinTime()` / `MaxTime()`): index panic on an empty array. -/
def ptsMin (v : Pts V) : M Int :=
  match v.head? with
  | some p => pure p.1
  | none => throw "panic:index-out-of-range"
def ptsMax (v : Pts V) : M Int :=
  match v.getLast? with
  | some p => pure p.1
  | none => throw "panic:index-out-of-range"

/-- `chunk<T>(dst)`. -/
def chunk (size : Nat) (dst : List (OBlk V)) (mv : Pts V) : M (List (OBlk V) × Pts V) :=
  if mv.length > size then do
    let vals := mv.take size
    let lo ← ptsMin vals
    let hi ← ptsMax vals
    pure (dst ++ [⟨lo, hi, vals⟩], mv.drop size)
  else if mv.length > 0 then do
    let lo ← ptsMin mv
    let hi ← ptsMax mv
    pure (dst ++ [⟨lo, hi, mv⟩], [])
  else pure (dst, mv)

/-- the window scan of `combine<T>(dedup = true)`:
    `for i … { if overlaps(minTime,maxTime) && !read { if b.minTime < minTime …; if b.maxTime > minTime && b.maxTime < maxTime … } }` -/
def windowScan : List (Block V) → Int → Int → Int × Int
  | [], lo, hi => (lo, hi)
  | b :: bs, lo, hi =>
    if overlapsTimeRange b lo hi && !read b then
      let lo' := if b.minTime < lo then b.minTime else lo
      let hi' := if b.maxTime > lo' ∧ b.maxTime < hi then b.maxTime else hi
      windowScan bs lo' hi'
    else windowScan bs lo hi

/-- the decode pass of `combine<T>(dedup = true)` over `k.blocks`:
    returns the updated blocks, the (possibly corrected) window end and the merged values. -/
def decodePass : List (Block V) → Int → Int → Pts V → M (List (Block V) × Int × Pts V)
  | [], _, hi, mv => pure ([], hi, mv)
  | b :: bs, lo, hi, mv =>
    if !overlapsTimeRange b lo hi || read b then do
      let (bs', hi', mv') ← decodePass bs lo hi mv
      pure (b :: bs', hi', mv')
    else do
      let v := b.pts
      let vmax ← ptsMax v
      -- Invariant: v.MaxTime() == k.blocks[i].maxTime
      let hi1 := if b.maxTime ≠ vmax ∧ hi = b.maxTime then vmax else hi
      let b1 : Block V := if b.maxTime ≠ vmax then { b with maxTime := vmax } else b
      let v1 := vExclude b1.readMin b1.readMax v
      let v2 := vInclude lo hi1 v1
      let b2 ← (if v2.length > 0 then do
                  let a ← ptsMin v2
                  let z ← ptsMax v2
                  pure (markRead b1 a z)
                else pure b1 : M (Block V))
      let v3 := applyTombs b2.tombstones v2
      let (bs', hi', mv') ← decodePass bs lo hi1 (vMerge mv v3)
      pure (b2 :: bs', hi', mv')

/-- the outer loop of `combine<T>(dedup = true)`. -/
def dedupLoop (size : Nat) : Nat → List (Block V) → Pts V → M (List (Block V) × Pts V)
  | 0, _, _ => throw "hang"
  | fuel + 1, blocks, mv =>
    if mv.length < size ∧ blocks.length > 0 then
      let blocks := blocks.dropWhile read
      match blocks with
      | [] => pure ([], mv)
      | first :: _ => do
        let (lo, hi) := windowScan blocks first.minTime first.maxTime
        let (blocks', _, mv') ← decodePass blocks lo hi mv
        dedupLoop size fuel blocks' mv'
    else pure (blocks, mv)

/-- first loop of `combine<T>(dedup = false)`: full blocks are forwarded as is.
    Returns (blocks appended to `k.merged`, `k.blocks[i:]`). -/
def passFull (size : Nat) : List (Block V) → List (OBlk V) × List (Block V)
  | [] => ([], [])
  | b :: bs =>
    if read b then passFull size bs
    else if b.pts.length < size then ([], b :: bs)
    else let (o, r) := passFull size bs; (passThrough b :: o, r)

/-- `if k.fast { … }`: every remaining unread block is forwarded. -/
def passFast (bs : List (Block V)) : List (OBlk V) :=
  (bs.filter (fun b => !read b)).map passThrough

/-- last loop of `combine<T>(dedup = false)`: decode and merge until `size` values are pending. -/
def decodeRest (size : Nat) : List (Block V) → Pts V → M (List (Block V) × Pts V)
  | [], mv => pure ([], mv)
  | b :: bs, mv =>
    if mv.length < size then
      if read b then decodeRest size bs mv
      else do
        let _ ← ptsMax b.pts
        let v := applyTombs b.tombstones b.pts
        decodeRest size bs (vMerge mv v)
    else pure (b :: bs, mv)

/-- `if k.fast { … }` as a step on (`k.merged` additions, `k.blocks[i:]`) -/
def passFastIf (fast : Bool) (rest : List (Block V)) : List (OBlk V) × List (Block V) :=
  if fast then (passFast rest, []) else ([], rest)

/-- `if i == len(k.blocks)-1 { if !k.blocks[i].read() { k.merged = append(k.merged, k.blocks[i]) }; i++ }` -/
def passLast : List (Block V) → List (OBlk V) × List (Block V)
  | [b] => (if !read b then [passThrough b] else [], [])
  | rest => ([], rest)

/-- `combine<T>(dedup)`; `k.merged` is empty on entry (see `Iter.next`). -/
def combine (cfg : Cfg) (dedup : Bool) (s : KSt V) : M (KSt V) :=
  if dedup then do
    let n := s.blocks.length + (s.blocks.map (·.pts.length)).sum + 2
    let (blocks, mv) ← dedupLoop cfg.size n s.blocks s.mv
    let (out, mv') ← chunk cfg.size [] mv
    pure ⟨blocks, mv', out⟩
  else do
    let (o1, rest) := passFull cfg.size s.blocks
    let (o2, rest) := passFastIf cfg.fast rest
    let (o3, rest) := passLast rest
    let (rest', mv) ← decodeRest cfg.size rest s.mv
    let (out, mv') ← chunk cfg.size (s.merged ++ o1 ++ o2 ++ o3) mv
    pure ⟨rest', mv', out⟩

/-- does some block (from the second on) force the slow path? -/
def needDedupTail : Block V → List (Block V) → Bool
  | _, [] => false
  | prev, b :: bs =>
    (partiallyRead b || overlapsTimeRange b prev.minTime prev.maxTime || decide (b.tombstones.length > 0))
      || needDedupTail b bs

/-- the `dedup` decision of `merge<T>()`: `dedup0` = "merged values are pending" -/
def needDedup (dedup0 : Bool) : List (Block V) → Bool
  | b0 :: bs =>
    if !dedup0 then
      (decide (b0.tombstones.length > 0) || partiallyRead b0) || needDedupTail b0 bs
    else dedup0
  | [] => dedup0

/-- `merge<T>()`. -/
def mergeStep (cfg : Cfg) (s : KSt V) : M (KSt V) :=
  if s.blocks.length = 0 ∧ s.merged.length = 0 ∧ s.mv.length = 0 then pure s
  else
    let blocks := cfg.sort V s.blocks
    combine cfg (needDedup (decide (s.mv.length ≠ 0)) blocks) { s with blocks := blocks }

/-! ### the whole iterator -/

abbrev Key := List Nat

/-- `bytes.Compare(a, b) < 0` -/
def keyLt : Key → Key → Bool
  | _, [] => false
  | [], _ :: _ => true
  | a :: as, b :: bs => decide (a < b) || (a == b && keyLt as bs)

/-- one TSM file as the `BlockIterator` sees it: keys in index order, each with its blocks. -/
abbrev FileRuns (V : Type) := List (Key × List (Block V))

structure Iter (V : Type) where
  /-- `k.iterators[i]`: what is left in file `i` -/
  its : List (FileRuns V)
  /-- `k.buf[i]`: blocks of file `i`'s current key (empty list = nothing buffered) -/
  buf : List (Key × List (Block V))
  key : Key
  st : KSt V

def Iter.init (files : List (FileRuns V)) : Iter V :=
  ⟨files, files.map (fun _ => ([], [])), [], ⟨[], [], []⟩⟩

/-- refill every empty `k.buf[i]` from its iterator (all blocks of the next key). -/
def refill : List (FileRuns V) → List (Key × List (Block V)) → List (FileRuns V) × List (Key × List (Block V))
  | it :: its, b :: bufs =>
    let (its', bufs') := refill its bufs
    if b.2.length ≠ 0 then (it :: its', b :: bufs')
    else match it with
      | [] => ([] :: its', b :: bufs')
      | run :: rest => (rest :: its', run :: bufs')
  | its, bufs => (its, bufs)

/-- the smallest buffered key (`len(minKey) == 0 || bytes.Compare(b[0].key, minKey) < 0`). -/
def minKey : List (Key × List (Block V)) → Key → Key
  | [], k => k
  | b :: bufs, k =>
    if b.2.length = 0 then minKey bufs k
    else if k.length = 0 || keyLt b.1 k then minKey bufs b.1 else minKey bufs k

/-- move the blocks of every buffer at `key` to `k.blocks`. -/
def takeKey (key : Key) : List (Key × List (Block V)) → List (Block V) × List (Key × List (Block V))
  | [] => ([], [])
  | b :: bufs =>
    let (bl, bufs') := takeKey key bufs
    if b.2.length ≠ 0 ∧ b.1 = key then (b.2 ++ bl, (b.1, []) :: bufs') else (bl, b :: bufs')

/-- "Read the next block from each TSM iterator … find all blocks that match the min key":
    returns the iterators, the buffers, `k.key` and the blocks appended to `k.blocks`. -/
def load (its : List (FileRuns V)) (buf : List (Key × List (Block V))) :
    List (FileRuns V) × List (Key × List (Block V)) × Key × List (Block V) :=
  let (its, buf) := refill its buf
  let key := minKey buf []
  let (bl, buf) := takeKey key buf
  (its, buf, key, bl)

/-- `if len(k.merged) > 0 { k.merged = k.merged[1:] }` -/
def popMerged (st : KSt V) : KSt V :=
  if st.merged.length > 0 then { st with merged := st.merged.tail } else st

/-- `if cond { k.merge() }` -/
def mergeIf (cfg : Cfg) (cond : Bool) (st : KSt V) : M (KSt V) :=
  if cond then mergeStep cfg st else pure st

/-- `tsmBatchKeyIterator.Next`. `fuel` bounds the `goto RETRY` loop. -/
def Iter.next (cfg : Cfg) : Nat → Iter V → M (Bool × Iter V)
  | 0, _ => throw "hang"
  | fuel + 1, k => do
    -- Any merged blocks pending?
    let st := popMerged k.st
    if st.merged.length > 0 then return (true, { k with st := st })
    -- Any merged values pending?
    let hadMv := decide (st.mv.length > 0)
    let st ← mergeIf cfg hadMv st
    if hadMv ∧ (st.merged.length > 0 ∨ st.mv.length > 0) then return (true, { k with st := st })
    -- If we still have blocks from the last read, merge them
    let hadBlocks := decide (st.blocks.length > 0)
    let st ← mergeIf cfg hadBlocks st
    if hadBlocks ∧ (st.merged.length > 0 ∨ st.mv.length > 0) then return (true, { k with st := st })
    -- Read the next block from each TSM iterator
    let (its, buf, key, bl) := load k.its k.buf
    let st := { st with blocks := st.blocks ++ bl }
    if st.blocks.length = 0 then return (false, { its := its, buf := buf, key := key, st := st })
    let st ← mergeStep cfg st
    let k : Iter V := { its := its, buf := buf, key := key, st := st }
    if st.merged.length = 0 then Iter.next cfg fuel k
    else return (true, k)

/-- `for iter.Next() { key, min, max, block := iter.Read(); w.WriteBlock(…) }`: the emitted blocks.
    `rf` = fuel of each `Next` call (its RETRY loop runs at most once per key). -/
def runIter (cfg : Cfg) (rf : Nat) : Nat → Iter V → M (List (Key × OBlk V))
  | 0, _ => throw "hang"
  | fuel + 1, k => do
    let (more, k) ← Iter.next cfg rf k
    if !more then return []
    let rest ← runIter cfg rf fuel k
    match k.st.merged with
    | [] => return rest          -- Read() returns an empty block: WriteBlock writes nothing
    | b :: _ => return (k.key, b) :: rest

def totalFuel (files : List (FileRuns V)) : Nat :=
  let runs := files.flatten
  4 * (runs.length + (runs.map (fun r => r.2.length + (r.2.map (·.pts.length)).sum)).sum) + 16

/-- the block sequence a compaction of `files` writes -/
def compactSeq (cfg : Cfg) (files : List (FileRuns V)) : M (List (Key × OBlk V)) :=
  runIter cfg (totalFuel files) (totalFuel files) (Iter.init files)

/-! ### `Compactor.write` / `writeNewFiles`: rolling over to a new file -/

structure Limits where
  /-- `maxIndexEntries` -/
  maxBlocks : Nat
  /-- `tsdb.MaxTSMFileSize`, in abstract size units; `none` = never reached -/
  maxSize : Option Nat

/-- index entries of key `k` in the current file after one more block of `k` -/
def nextKeyCount (cur : List (Key × OBlk V)) (k : Key) (nkey : Nat) : Nat :=
  match cur with
  | (k', _) :: _ => if k' = k then nkey + 1 else 1
  | [] => 1

/-- one call of `Compactor.write`: consume the sequence until it is exhausted or the file
    is full.  `cur` = blocks already in this file (reversed), `nkey` = index entries of the
    current key in this file, `sz` = abstract size so far.  Returns (file, remaining, rollToNext). -/
def writeOne (lim : Limits) (bsz : OBlk V → Nat) :
    List (Key × OBlk V) → List (Key × OBlk V) → Nat → Nat → List (Key × OBlk V) × List (Key × OBlk V) × Bool
  | [], cur, _, _ => (cur.reverse, [], false)
  | (k, b) :: rest, cur, nkey, sz =>
    -- ErrMaxBlocksExceeded: the block is written, then the file is closed
    if nextKeyCount cur k nkey ≥ lim.maxBlocks then (((k, b) :: cur).reverse, rest, true)
    else match lim.maxSize with
      | some mx =>
        if sz + bsz b > mx then (((k, b) :: cur).reverse, rest, true)
        else writeOne lim bsz rest ((k, b) :: cur) (nextKeyCount cur k nkey) (sz + bsz b)
      | none => writeOne lim bsz rest ((k, b) :: cur) (nextKeyCount cur k nkey) (sz + bsz b)

/-- `writeNewFiles`: files in order; an empty last file (`ErrNoValues`) is dropped. -/
def splitFiles (lim : Limits) (bsz : OBlk V → Nat) : Nat → List (Key × OBlk V) → List (List (Key × OBlk V))
  | 0, _ => []
  | fuel + 1, seq =>
    let (f, rest, roll) := writeOne lim bsz seq [] 0 0
    if roll then f :: splitFiles lim bsz fuel rest
    else if f.isEmpty then [] else [f]

/-! ### cache snapshots -/

/-- `Cache.Deduplicate` + `values(key)`: last write wins, ascending time. -/
def upsert (p : Int × V) : Pts V → Pts V
  | [] => [p]
  | q :: qs => if p.1 < q.1 then p :: q :: qs else if p.1 = q.1 then p :: qs else q :: upsert p qs

def dedupValues (vs : Pts V) : Pts V := vs.foldl (fun acc p => upsert p acc) []

/-- `cacheKeyIterator.encode` for one key: blocks of at most `size` values. -/
def chunksOf (size : Nat) : Nat → Pts V → List (OBlk V)
  | 0, _ => []
  | fuel + 1, vs =>
    match vs with
    | [] => []
    | p :: _ =>
      let c := vs.take size
      ⟨p.1, (c.getLast?.map (·.1)).getD p.1, c⟩ :: chunksOf size fuel (vs.drop size)

/-- insert a key into the sorted key list of the cache (`Cache.Keys()` is sorted) -/
def insertKey (k : Key) (vs : Pts V) : List (Key × Pts V) → List (Key × Pts V)
  | [] => [(k, vs)]
  | (k', vs') :: rest =>
    if k = k' then (k', vs' ++ vs) :: rest
    else if keyLt k k' then (k, vs) :: (k', vs') :: rest
    else (k', vs') :: insertKey k vs rest

/-- the block sequence `WriteSnapshot` writes for a (deduplicated) cache -/
def snapshotSeq (size : Nat) (cache : List (Key × Pts V)) : M (List (Key × OBlk V)) :=
  if size = 0 then
    if cache.all (fun kv => kv.2.isEmpty) then pure [] else throw "hang"
  else pure <| cache.flatMap fun kv =>
    let vs := dedupValues kv.2
    (chunksOf size (vs.length + 1) vs).map fun b => (kv.1, b)

end Influx.Model.Compact
