/-
  Influx.Model.MetaTypes — types of `v1/services/meta/data.go` as the generated
  `Influx.Generated.Meta` and the hand-written `Influx.Model.Meta*` use them.

  Go `time.Time` (always UTC here) is an *unbounded* `Int`: nanoseconds since the
  Unix epoch.  (`time.Time` stores int64 seconds since year 1 plus nanoseconds, a
  range of ±292e9 years; every value computed by the modelled code lies within a
  few hundred years of 1970, so no Go-side overflow is reachable.)  The zero
  `time.Time` (January 1, year 1) is `zeroTime`.  `time.Duration` is an `Int`
  (the theorems hold for every `Int`, in particular every int64).
  `Time.UnixNano` is the one place where Go computes in int64: it wraps
  (`BitVec 64`), exactly as `(sec*1e9 + nsec)` does in Go.
-/
namespace Influx.Meta


/-- `time.Time{}`: 0001-01-01T00:00:00Z = −62135596800 s before the Unix epoch. -/
def zeroTime : Int := -62135596800000000000

/-- two's-complement wrap of an integer into int64 -/
def wrap64 (x : Int) : Int := (BitVec.ofInt 64 x).toInt

namespace Time
/-- `t.Before(u)` -/
def Before (t u : Int) : Bool := decide (t < u)
/-- `t.After(u)` -/
def After (t u : Int) : Bool := decide (t > u)
/-- `t.IsZero()` -/
def IsZero (t : Int) : Bool := t == zeroTime
/-- `t.UnixNano()` (int64 arithmetic: wraps outside 1677-09-21 … 2262-04-11) -/
def UnixNano (t : Int) : Int := wrap64 t
/-- `t.Add(d)` -/
def Add (t : Int) (d : Int) : Int := t + d
/-- `t.Truncate(d)`: round down to a multiple of `d` since the zero time; `d ≤ 0` returns `t`. -/
def Truncate (t : Int) (d : Int) : Int :=
  if d ≤ 0 then t else t - (t - zeroTime) % d
/-- `time.Unix(0, v)` -/
def Unix (v : Int) : Int := v
end Time

/-- `meta.ShardInfo`: id and the node ids of its owners -/
structure ShardInfo where
  ID : Nat
  Owners : List Nat
deriving Repr, DecidableEq, Inhabited

/-- `meta.ShardGroupInfo` (field names as in Go: the generated predicates select them) -/
structure ShardGroupInfo where
  ID : Nat
  StartTime : Int
  EndTime : Int
  DeletedAt : Int
  Shards : List ShardInfo
  TruncatedAt : Int
deriving Repr, DecidableEq, Inhabited

/-- `meta.RetentionPolicyInfo` (subscriptions omitted) -/
structure RetentionPolicyInfo where
  Name : String
  ReplicaN : Int
  Duration : Int
  ShardGroupDuration : Int
  ShardGroups : List ShardGroupInfo
deriving Repr, DecidableEq, Inhabited

/-- `meta.DatabaseInfo` (continuous queries omitted) -/
structure DatabaseInfo where
  Name : String
  DefaultRetentionPolicy : String
  RetentionPolicies : List RetentionPolicyInfo
deriving Repr, DecidableEq, Inhabited

/-- `meta.Data` restricted to what shard-group placement and retention read/write -/
structure Data where
  Databases : List DatabaseInfo
  MaxShardGroupID : Nat
  MaxShardID : Nat
deriving Repr, DecidableEq, Inhabited

end Influx.Meta
