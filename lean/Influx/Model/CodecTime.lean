/-
  Influx.Model.CodecTime — timestamp codec.

  Go: tsdb/engine/tsm1/timestamp.go (encoder / TimeDecoder: scalar, streaming jwilder simple8b),
      tsdb/engine/tsm1/batch_timestamp.go (TimeArrayEncodeAll / DecodeAll, influxdb simple8b).
  Timestamps are 64-bit patterns (`Nat < W`); deltas wrap.
  `byte(math.Log10(float64(div)))` / `math.Pow10(b[0] & 0xF)` are modelled as exact on the
  thirteen divisors 10^0 … 10^12 that can occur (checked by correspondence on each of them).
-/
import Influx.Model.CodecS8b

namespace Influx.Codec
open Influx.Generated.Codec

/-- wrapped differences; the first element stays -/
def tsDeltas : List Nat → List Nat
  | [] => []
  | v :: vs =>
    let rec go : Nat → List Nat → List Nat
      | _, [] => []
      | prev, x :: xs => ((x + W - prev) % W) :: go x xs
    v :: go v vs

/-- `for divisor > 1 && v%divisor != 0 { divisor /= 10 }` -/
def reduceDiv (d v : Nat) : Nat :=
  if h : d > 1 ∧ v % d ≠ 0 then reduceDiv (d / 10) v else d
decreasing_by omega

/-- `math.Log10` on a power of ten: number of divisions by ten down to 1 -/
def log10 (d : Nat) : Nat :=
  if h : d ≥ 10 then log10 (d / 10) + 1 else 0
decreasing_by omega

def timeRleBytes (first delta div n : Nat) : Bytes :=
  (timeCompressedRLE * 16 + log10 div) :: (putU64 first ++ putUvarint (delta / div) ++ putUvarint n)

def timeRawBytes (dts : List Nat) : Bytes := (timeUncompressed * 16) :: dts.flatMap putU64

def timePackedBytes (div first : Nat) (ws : List Nat) : Bytes :=
  (timeCompressedPackedSimple * 16 + log10 div) :: (putU64 first ++ wordsToBytes ws)

def listMax (l : List Nat) : Nat := l.foldl max 0

/-- all elements from index 1 on are equal -/
def allEqTail' : List Nat → Bool
  | _ :: d :: rest => rest.all (· == d)
  | _ => true

/-- scalar `encoder.Bytes()` after `Write` of every timestamp -/
def timeEncodeS (ts : List Nat) : Option Bytes :=
  match tsDeltas ts with
  | [] => some []
  | first :: ds =>
    -- reduce(): from the last delta down to the first
    let div := ds.reverse.foldl reduceDiv 1000000000000
    let mx := listMax ds
    match ds with
    | d1 :: _ =>
      if allEqTail' (first :: ds) then some (timeRleBytes first d1 div (ds.length + 1))
      else if mx > MaxValue then some (timeRawBytes (first :: ds))
      else match encodeStream (if div > 1 then ds.map (· / div) else ds) with
        | none => none
        | some ws => some (timePackedBytes div first ws)
    | [] => some (timePackedBytes div first [])

/-- batch `TimeArrayEncodeAll(src, nil)` -/
def timeEncodeB (ts : List Nat) : Option Bytes :=
  match tsDeltas ts with
  | [] => some []
  | first :: ds =>
    let mx := listMax ds
    match ds with
    | d1 :: _ =>
      if allEqTail' (first :: ds) then
        let div := reduceDiv 1000000000000 d1
        some (timeRleBytes first d1 div (ds.length + 1))
      else if mx > MaxValue then some (timeRawBytes (first :: ds))
      else
        let div := ds.foldl reduceDiv 1000000000000
        match encodeAllI ds.length (if div > 1 then ds.map (· / div) else ds) with
        | none => none
        | some ws => some (timePackedBytes div first ws)
    | [] =>
      match encodeAllI 0 [] with
      | none => none
      | some ws => some (timePackedBytes 1000000000000 first ws)

/-- running sums (mod 2^64) of `delta * div` -/
def unTsDeltas (div : Nat) : Nat → List Nat → List Nat
  | _, [] => []
  | last, d :: ds => let v := (last + d * div % W) % W; v :: unTsDeltas div v ds

def rleTimes (first delta : Nat) : (n : Nat) → List Nat
  | 0 => []
  | n + 1 => first :: rleTimes ((first + delta) % W) delta n

/-- both decoders on well-formed input; `none` = an error is reported. -/
def timeDecode (b : Bytes) : Option (List Nat) :=
  match b with
  | [] => some []
  | h :: body =>
    let enc := h / 16
    let div := 10 ^ (h % 16)
    if enc = timeUncompressed then
      let (ws, _) := words body          -- scalar ignores a trailing partial word; batch rejects it
      match ws with
      | [] => some []
      | w :: rest => some (w :: unTsDeltas 1 w rest)
    else if enc = timeCompressedPackedSimple then
      match getU64 body with
      | none => none
      | some (first, body') =>
        let (ws, _) := words body'
        some (first :: unTsDeltas div first (decodeWords ws))
    else if enc = timeCompressedRLE then
      match getU64 body with
      | none => none
      | some (first, r1) =>
        match getUvarint r1 with
        | none => none
        | some (v, r2) =>
          match getUvarint r2 with
          | none => none
          | some (cnt, _) => some (rleTimes first (v * div % W) cnt)
    else none

end Influx.Codec
