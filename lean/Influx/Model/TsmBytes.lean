/-
  Model.TsmBytes — byte-level helpers of the TSM / tombstone file model:
  big-endian integers (`encoding/binary.BigEndian`), int64 two's complement,
  `bytes.Compare` on keys, and IEEE CRC-32 (`hash/crc32.ChecksumIEEE`, used by the
  driver only: every theorem is stated for an arbitrary checksum function).
-/
import Influx.Model.TsmTypes

namespace Influx.Tsm

/-- `n` bytes, big-endian, of `v` (taken modulo `256^n`): `binary.BigEndian.PutUintN` -/
def be : Nat → Nat → Bytes
  | 0, _ => []
  | n + 1, v => (v / 256 ^ n % 256) :: be n v

/-- `binary.BigEndian.UintN` of a byte string -/
def unbe (bs : Bytes) : Nat := bs.foldl (fun a b => a * 256 + b) 0

def minInt64 : Int := -9223372036854775808
def maxInt64 : Int := 9223372036854775807

def inInt64 (t : Int) : Prop := minInt64 ≤ t ∧ t ≤ maxInt64
instance (t : Int) : Decidable (inInt64 t) := by unfold inInt64; exact inferInstance

/-- `uint64(t)` for an int64 `t` -/
def u64 (t : Int) : Nat := (t % 18446744073709551616).toNat

/-- `int64(n)` for a uint64 `n` -/
def i64 (n : Nat) : Int :=
  if n < 9223372036854775808 then (n : Int) else (n : Int) - 18446744073709551616

/-- `bytes.Compare` -/
def kcmp : Key → Key → Ordering
  | [], [] => .eq
  | [], _ :: _ => .lt
  | _ :: _, [] => .gt
  | a :: as, b :: bs => if a < b then .lt else if b < a then .gt else kcmp as bs

def klt (a b : Key) : Bool := kcmp a b == .lt
def kle (a b : Key) : Bool := kcmp a b != .gt

/-- one byte of the reflected CRC-32 (polynomial 0xEDB88320) -/
def crcByte (c b : Nat) : Nat :=
  let rec go : Nat → Nat → Nat
    | 0, c => c
    | k + 1, c => go k (if c % 2 = 1 then (c / 2) ^^^ 0xEDB88320 else c / 2)
  go 8 (c ^^^ b)

/-- `crc32.ChecksumIEEE` -/
def crc32 (bs : Bytes) : Nat :=
  (bs.foldl crcByte 0xFFFFFFFF) ^^^ 0xFFFFFFFF

end Influx.Tsm
