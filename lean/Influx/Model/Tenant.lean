/-
  Model.Tenant — the tenant store of /repo/tenant as it is written, over kv
  buckets modelled as association lists (finite maps):

    storage_org.go     CreateOrg / UpdateOrg / DeleteOrg / GetOrgByName, organizationIndexKey
    storage_bucket.go  CreateBucket / UpdateBucket / DeleteBucket / GetBucketByName, bucketIndexKey,
                       listBucketsByOrg
    storage_user.go    CreateUser / UpdateUser / DeleteUser / GetUserByName
    storage_urm.go     CreateURM / DeleteURM / ListURMs (+ kv/index.go for the by-user index)
    storage.go         generateSafeID / uniqueID
    service_org.go     CreateOrganization (org, `_tasks`, `_monitoring`, owner URM),
                       DeleteOrganization (cascade), service_bucket.go CreateBucket / DeleteBucket
                       (system-bucket guard, removeResourceRelations), validBucketName

  The inmem kv store is NOT transactional (inmem/kv.go: "TODO: make transactions
  actually transactional"), and several service calls span several transactions:
  every function therefore returns the state it leaves behind also when it fails.
  Only the fields the property talks about are kept (ids, names, org of a bucket,
  bucket type, URM keys); descriptions, retention, timestamps are not modelled.
-/
import Influx.Model.TenantTypes

namespace Influx.Tenant

/-! ### kv buckets as association lists -/
namespace KV
variable {κ ν : Type} [DecidableEq κ]

def get : List (κ × ν) → κ → Option ν
  | [], _ => none
  | (k', v) :: r, k => if k' = k then some v else get r k

def del (m : List (κ × ν)) (k : κ) : List (κ × ν) := m.filter (fun p => decide (p.1 ≠ k))

/-- `Put`: replace or insert (the entry moves to the front; order is not observable) -/
def put (m : List (κ × ν)) (k : κ) (v : ν) : List (κ × ν) := (k, v) :: del m k

def has (m : List (κ × ν)) (k : κ) : Bool := (get m k).isSome

end KV

/-! ### names -/

/-- ASCII members of Go's `unicode.IsSpace` (names are ASCII here). -/
def isSpace (c : Char) : Bool :=
  c = ' ' || c = '\t' || c = '\n' || c = '\r' || c.toNat = 11 || c.toNat = 12

/-- `strings.TrimSpace` on ASCII strings. -/
def trimSpace (s : String) : String :=
  String.ofList ((s.toList.dropWhile isSpace).reverse.dropWhile isSpace).reverse

/-- storage_org.go `organizationIndexKey` -/
def orgKey (n : String) : String := trimSpace n

/-- service_bucket.go `validBucketName` -/
def validBucketName (name : String) (sys : Bool) : Bool :=
  !((name.toList.head? == some '_' && !sys) || name.toList.contains '"')

structure State where
  orgs : List (Nat × String) := []                      -- organizationsv1: id ↦ name
  orgIdx : List (String × Nat) := []                    -- organizationindexv1: orgKey name ↦ id
  bkts : List (Nat × BucketRec) := []                   -- bucketsv1
  bktIdx : List ((Nat × String) × Nat) := []            -- bucketindexv1: orgID ‖ name ↦ id
  users : List (Nat × String) := []                     -- usersv1
  userIdx : List (String × Nat) := []                   -- userindexv1
  urms : List ((Nat × Nat) × UrmRec) := []              -- userresourcemappingsv1: res ‖ user
  urmIdx : List ((Nat × Nat × Nat) × (Nat × Nat)) := [] -- …byuserindexv1: user / (res ‖ user) ↦ res ‖ user
  nextOrg : Nat := 1                                    -- the harness' deterministic id generators
  nextBkt : Nat := 1001
  nextUser : Nat := 2001
deriving Repr

def init : State := {}

abbrev Res (α : Type) := State × Except Err α

/-- storage.go `generateSafeID` with `MaxIDGenerationN` = fuel: the first generated id that is
    not in use; the invalid id 0 makes `uniqueID` fail with EInvalid. Returns the generator's
    next value as well (ids are consumed also on failure). -/
def genSafe (used : Nat → Bool) : Nat → Nat → Except Err Nat × Nat
  | 0, next => (.error .int, next)
  | fuel + 1, next =>
    if next = 0 then (.error .inv, next + 1)
    else if used next then genSafe used fuel (next + 1)
    else (.ok next, next + 1)

def maxIDGenerationN : Nat := 100

/-! ### user resource mappings -/

/-- storage_urm.go `CreateURM` -/
def createURM (s : State) (res user : Nat) (r : UrmRec) : Res Unit :=
  if user = 0 then (s, .error .inv)
  else if !KV.has s.users user then (s, .error .nf)
  else if res = 0 then (s, .error .inv)
  else if KV.has s.urms (res, user) then (s, .error .int)
  else ({ s with urms := KV.put s.urms (res, user) r,
                 urmIdx := KV.put s.urmIdx (user, res, user) (res, user) }, .ok ())

/-- storage_urm.go `DeleteURM` (no existence check) -/
def deleteURMRaw (s : State) (k : Nat × Nat) : State :=
  { s with urmIdx := KV.del s.urmIdx (k.2, k.1, k.2), urms := KV.del s.urms k }

/-- service_urm.go `DeleteUserResourceMapping` -/
def deleteURM (s : State) (res user : Nat) : Res Unit :=
  if res = 0 || user = 0 then (s, .error .nf)
  else if !KV.has s.urms (res, user) then (s, .error .nf)
  else (deleteURMRaw s (res, user), .ok ())

/-- `removeResourceRelations`: every mapping whose key starts with the resource id is
    deleted through `DeleteUserResourceMapping` (which cannot fail for a listed mapping). -/
def removeResourceRelations (s : State) (res : Nat) : State :=
  ((s.urms.filter (fun e => e.1.1 = res)).map (·.1)).foldl deleteURMRaw s

/-- storage_urm.go `ListURMs` with a user filter: walk of the by-user index, then the
    source bucket, then the filter on the record's user. -/
def urmsOfUser (s : State) (user : Nat) : List (Nat × Nat) :=
  ((s.urmIdx.filter (fun e => e.1.1 = user)).map (·.2)).filter
    (fun k => KV.has s.urms k && k.2 = user)

/-! ### organizations -/

/-- storage_org.go `CreateOrg` -/
def createOrgStore (s : State) (name : String) : Res Nat :=
  let g := genSafe (KV.has s.orgs) maxIDGenerationN s.nextOrg
  let s := { s with nextOrg := g.2 }
  match g.1 with
  | .error e => (s, .error e)
  | .ok id =>
    if orgKey name = "" then (s, .error .inv)
    else if KV.has s.orgIdx (orgKey name) then (s, .error .cf)
    else ({ s with orgIdx := KV.put s.orgIdx (orgKey name) id, orgs := KV.put s.orgs id name }, .ok id)

/-- storage_bucket.go `CreateBucket` -/
def createBucketStore (s : State) (org : Nat) (name : String) (sys : Bool) : Res Nat :=
  let g := genSafe (KV.has s.bkts) maxIDGenerationN s.nextBkt
  let s := { s with nextBkt := g.2 }
  match g.1 with
  | .error e => (s, .error e)
  | .ok id =>
    if KV.has s.bktIdx (org, name) then (s, .error .cf)
    else ({ s with bktIdx := KV.put s.bktIdx (org, name) id,
                   bkts := KV.put s.bkts id ⟨org, name, sys⟩ }, .ok id)

/-- service_bucket.go `CreateBucket` -/
def createBucket (s : State) (org : Nat) (name : String) (sys : Bool) : Res Nat :=
  if org = 0 then (s, .error .nf)
  else if !validBucketName name sys then (s, .error .inv)
  else if !KV.has s.orgs org then (s, .error .nf)
  else createBucketStore s org name sys

/-- service_org.go `CreateOrganization`: four separate transactions. -/
def createOrganization (s : State) (name : String) (ctxUser : Nat) : Res Nat :=
  match createOrgStore s name with
  | (s, .error e) => (s, .error e)
  | (s, .ok id) =>
    match createBucket s id "_tasks" true with
    | (s, .error e) => (s, .error e)
    | (s, .ok _) =>
      match createBucket s id "_monitoring" true with
      | (s, .error e) => (s, .error e)
      | (s, .ok _) =>
        if ctxUser = 0 then (s, .ok id)
        else match createURM s id ctxUser ⟨true, true⟩ with
          | (s, .error e) => (s, .error e)
          | (s, .ok _) => (s, .ok id)

/-- storage_org.go `UpdateOrg` (a description-only update leaves the modelled fields alone) -/
def updateOrganization (s : State) (id : Nat) (name : Option String) : Res Nat :=
  if id = 0 then (s, .error .inv)
  else match KV.get s.orgs id with
    | none => (s, .error .nf)
    | some old =>
      match name with
      | none => (s, .ok id)
      | some n =>
        if old = n then (s, .ok id)
        else if orgKey n = "" then (s, .error .inv)
        else if KV.has s.orgIdx (orgKey n) then (s, .error .cf)
        else ({ s with orgIdx := KV.put (KV.del s.orgIdx (orgKey old)) (orgKey n) id,
                       orgs := KV.put s.orgs id n }, .ok id)

/-- storage_org.go `DeleteOrg` — as repaired by fixes/C30-delete-org-index-key.patch: the index
    entry is removed under `organizationIndexKey(u.Name)`, the key it was stored under. -/
def deleteOrgStore (s : State) (id : Nat) : Res Unit :=
  match KV.get s.orgs id with
  | none => (s, .error .nf)
  | some n => ({ s with orgIdx := KV.del s.orgIdx (orgKey n), orgs := KV.del s.orgs id }, .ok ())

/-! ### buckets -/

/-- service_bucket.go `DeleteBucket` (`internal` = the context of DeleteOrganization) -/
def deleteBucket (s : State) (id : Nat) (internal : Bool) : Res Unit :=
  if id = 0 then (s, .error .inv)
  else match KV.get s.bkts id with
    | none => (s, .error .nf)
    | some b =>
      if b.sys && !internal then (s, .error .inv)
      else
        let s := { s with bktIdx := KV.del s.bktIdx (b.org, b.name), bkts := KV.del s.bkts id }
        (removeResourceRelations s id, .ok ())

/-- storage_bucket.go `UpdateBucket` -/
def updateBucket (s : State) (id : Nat) (name : Option String) : Res Nat :=
  if id = 0 then (s, .error .inv)
  else match KV.get s.bkts id with
    | none => (s, .error .nf)
    | some b =>
      match name with
      | none => (s, .ok id)
      | some n =>
        if b.name = n then (s, .ok id)
        else if b.sys then (s, .error .inv)
        else if !validBucketName n b.sys then (s, .error .inv)
        else if KV.has s.bktIdx (b.org, n) then (s, .error .cf)
        else ({ s with bktIdx := KV.put (KV.del s.bktIdx (b.org, b.name)) (b.org, n) id,
                       bkts := KV.put s.bkts id { b with name := n } }, .ok id)

/-- the bucket ids `listBucketsByOrg` reads from the index (prefix scan over orgID ‖ name) -/
def bucketIdsOfOrg (s : State) (org : Nat) : List Nat :=
  (s.bktIdx.filter (fun e => e.1.1 = org)).map (·.2)

/-- the delete loop of `DeleteOrganization`: stops at the first failure -/
def deleteBuckets : State → List Nat → Res Unit
  | s, [] => (s, .ok ())
  | s, b :: bs =>
    match deleteBucket s b true with
    | (s, .error e) => (s, .error e)
    | (s, .ok _) => deleteBuckets s bs

/-- service_org.go `DeleteOrganization` (with a task service that holds no tasks) -/
def deleteOrganization (s : State) (id : Nat) : Res Nat :=
  if id = 0 then (s, .error .inv)
  else
    let ids := bucketIdsOfOrg s id
    -- FindBuckets: every listed id is fetched with GetBucket
    if ids.any (fun b => !KV.has s.bkts b) then (s, .error .nf)
    else match deleteBuckets s ids with
      | (s, .error e) => (s, .error e)
      | (s, .ok _) =>
        match deleteOrgStore s id with
        | (s, .error e) => (s, .error e)
        | (s, .ok _) => (removeResourceRelations s id, .ok id)

/-! ### users -/

/-- storage_user.go `CreateUser` -/
def createUser (s : State) (name : String) (id : Nat) : Res Nat :=
  let (id, s) := if id = 0 then (s.nextUser, { s with nextUser := s.nextUser + 1 }) else (id, s)
  if id = 0 then (s, .error .inv)
  else if KV.has s.userIdx name then (s, .error .cf)
  else if KV.has s.users id then (s, .error .cf)
  else ({ s with userIdx := KV.put s.userIdx name id, users := KV.put s.users id name }, .ok id)

/-- storage_user.go `UpdateUser` -/
def updateUser (s : State) (id : Nat) (name : Option String) : Res Nat :=
  if id = 0 then (s, .error .inv)
  else match KV.get s.users id with
    | none => (s, .error .nf)
    | some old =>
      match name with
      | none => (s, .ok id)
      | some n =>
        if n = old then (s, .ok id)
        else if KV.has s.userIdx n then (s, .error .cf)
        else ({ s with userIdx := KV.put (KV.del s.userIdx old) n id, users := KV.put s.users id n }, .ok id)

/-- service_user.go `DeleteUser` + storage_user.go `DeleteUser` (passwords are not modelled here) -/
def deleteUser (s : State) (id : Nat) : Res Nat :=
  if id = 0 then (s, .error .inv)
  else match KV.get s.users id with
    | none => (s, .error .nf)
    | some n =>
      let s := { s with userIdx := KV.del s.userIdx n, users := KV.del s.users id }
      ((urmsOfUser s id).foldl deleteURMRaw s, .ok id)

/-! ### lookups -/

def findOrg (s : State) (name : String) : Except Err (Nat × String) :=
  match KV.get s.orgIdx (orgKey name) with
  | none => .error .nf
  | some id => match KV.get s.orgs id with
    | none => .error .nf
    | some n => .ok (id, n)

def findBucket (s : State) (org : Nat) (name : String) : Except Err (Nat × BucketRec) :=
  if org = 0 then .error .inv
  else match KV.get s.bktIdx (org, name) with
    | none => .error .nf
    | some id => match KV.get s.bkts id with
      | none => .error .nf
      | some b => .ok (id, b)

def findUser (s : State) (name : String) : Except Err (Nat × String) :=
  match KV.get s.userIdx name with
  | none => .error .nf
  | some id => match KV.get s.users id with
    | none => .error .nf
    | some n => .ok (id, n)

def listBuckets (s : State) (org : Nat) : Except Err (List Nat) :=
  if org = 0 then .error .inv
  else
    let ids := bucketIdsOfOrg s org
    if ids.any (fun b => !KV.has s.bkts b) then .error .nf else .ok ids

/-! ### dump and step -/

def dumpOf (s : State) : Dump :=
  { orgs := s.orgs.map fun (k, n) => (k, k, n)
    orgIdx := s.orgIdx
    bkts := s.bkts.map fun (k, b) => (k, k, b)
    bktIdx := s.bktIdx
    users := s.users.map fun (k, n) => (k, k, n)
    userIdx := s.userIdx
    urms := s.urms.map fun (k, r) => (k, k, r)
    urmIdx := s.urmIdx
    pws := [] }

def ansId : Except Err Nat → Ans
  | .ok id => .okId id
  | .error e => .err e

def ansUnit : Except Err Unit → Ans
  | .ok _ => .ok
  | .error e => .err e

def step (s : State) : Op → State × Ans
  | .co n u => let r := createOrganization s n u; (r.1, ansId r.2)
  | .uo id n => let r := updateOrganization s id n; (r.1, ansId r.2)
  | .dO id => let r := deleteOrganization s id; (r.1, ansId r.2)
  | .cb o n sys => let r := createBucket s o n sys; (r.1, ansId r.2)
  | .ub id n => let r := updateBucket s id n; (r.1, ansId r.2)
  | .db id => let r := deleteBucket s id false; (r.1, ansId (r.2.map fun _ => id))
  | .cu n id => let r := createUser s n id; (r.1, ansId r.2)
  | .uu id n => let r := updateUser s id n; (r.1, ansId r.2)
  | .du id => let r := deleteUser s id; (r.1, ansId r.2)
  | .cm res u rt ow => let r := createURM s res u ⟨rt, ow⟩; (r.1, ansUnit r.2)
  | .dm res u => let r := deleteURM s res u; (r.1, ansUnit r.2)
  | .fo n => (s, match findOrg s n with | .ok (id, nm) => .foundOrg id nm | .error e => .err e)
  | .fb o n => (s, match findBucket s o n with | .ok (id, b) => .foundBkt id b.org b.name | .error e => .err e)
  | .fu n => (s, match findUser s n with | .ok (id, nm) => .foundUser id nm | .error e => .err e)
  | .lb o => (s, match listBuckets s o with | .ok ids => .ids ids | .error e => .err e)
  | .idgen .org n => ({ s with nextOrg := n }, .ok)
  | .idgen .bkt n => ({ s with nextBkt := n }, .ok)
  | .idgen .user n => ({ s with nextUser := n }, .ok)
  | .dump => (s, .dump (dumpOf s))

/-- the trace of the model on an op sequence -/
def run : State → List Op → List (Op × Ans)
  | _, [] => []
  | s, op :: ops => let r := step s op; (op, r.2) :: run r.1 ops

def exec (s : State) (ops : List Op) : State := ops.foldl (fun s op => (step s op).1) s

end Influx.Tenant
