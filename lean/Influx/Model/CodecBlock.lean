/-
  Influx.Model.CodecBlock — block framing and the per-type dispatch.
  Go: tsdb/engine/tsm1/encoding.go (packBlock / unpackBlock, encode*Block, Decode*Block),
      encoding.gen.go (encode*ValuesBlock, Encode*ArrayBlock), array_encoding.go (Decode*ArrayBlock).
  block = type byte, uvarint(len(ts bytes)), ts bytes, value bytes.
-/
import Influx.Model.CodecInt
import Influx.Model.CodecTime
import Influx.Model.CodecBool
import Influx.Model.CodecFloat
import Influx.Model.CodecString
import Influx.Spec.C07

namespace Influx.Codec
open Influx.Generated.Codec
open Influx.Spec.C07 (Vals)

def _root_.Influx.Spec.C07.Vals.blockType : Vals → Nat
  | .f _ => BlockFloat64 | .i _ => BlockInteger | .u _ => BlockUnsigned | .b _ => BlockBoolean | .s _ => BlockString

/-- scalar bool encoder: `flush()` appends a (zero) byte even when nothing was written -/
def boolEncodeS (vs : List Bool) : Bytes :=
  if vs.isEmpty then [booleanCompressedBitPacked * 16, 0, 0] else boolEncode vs

/-- value section, scalar encoders (`venc.Write*; venc.Flush; venc.Bytes`) -/
def valsEncodeS (c : Compressor) : Vals → Option Bytes
  | .f l => floatEncode l
  | .i l | .u l => intEncodeS l
  | .b l => some (boolEncodeS l)
  | .s l => some (strEncode c l)

/-- value section, batch encoders (`*ArrayEncodeAll`) -/
def valsEncodeB (c : Compressor) : Vals → Option Bytes
  | .f l => floatEncode l
  | .i l | .u l => intEncodeB l
  | .b l => some (boolEncode l)
  | .s l => some (strEncode c l)

/-- value section decoders (scalar and batch agree on well-formed input); the shape of the
    answer follows the shape of `like` -/
def valsDecode (c : Compressor) (like : Vals) (b : Bytes) : Option Vals :=
  match like with
  | .f _ => (floatDecode b).map .f
  | .i _ => (intDecode b).map .i
  | .u _ => (intDecode b).map .u
  | .b _ => (boolDecode b).map .b
  | .s _ => (strDecode c b).map .s

def packBlock (typ : Nat) (tb vb : Bytes) : Bytes := typ :: (putUvarint tb.length ++ tb ++ vb)

/-- `unpackBlock(block[1:])` -/
def unpackBlock (b : Bytes) : Option (Bytes × Bytes) :=
  match getUvarint b with
  | none => none
  | some (n, rest) => if n > rest.length then none else some (rest.take n, rest.drop n)

/-- `Values.Encode` / `encode<T>ValuesBlock`: no block for no values -/
def blockEncodeS (c : Compressor) (ts : List Nat) (vs : Vals) : Option Bytes :=
  if ts.isEmpty then some []
  else match timeEncodeS ts, valsEncodeS c vs with
    | some tb, some vb => some (packBlock vs.blockType tb vb)
    | _, _ => none

/-- `Encode<T>ArrayBlock` -/
def blockEncodeB (c : Compressor) (ts : List Nat) (vs : Vals) : Option Bytes :=
  if ts.isEmpty then some []
  else match valsEncodeB c vs, timeEncodeB ts with
    | some vb, some tb => some (packBlock vs.blockType tb vb)
    | _, _ => none

/-- `Decode<T>Block` / `Decode<T>ArrayBlock` on a well-formed block of the expected type -/
def blockDecode (c : Compressor) (like : Vals) (b : Bytes) : Option (List Nat × Vals) :=
  match b with
  | [] => none                       -- Go indexes block[0]: panic / "short block"
  | typ :: rest =>
    if typ ≠ like.blockType then none
    else match unpackBlock rest with
      | none => none
      | some (tb, vb) =>
        match timeDecode tb, valsDecode c like vb with
        | some ts, some vs => some (ts, vs)
        | _, _ => none

end Influx.Codec
