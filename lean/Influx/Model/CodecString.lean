/-
  Influx.Model.CodecString — string codec over an ABSTRACT compressor.
  Go: tsdb/engine/tsm1/string.go, batch_string.go.  Payload = for each string a uvarint
  length followed by its bytes; the payload is snappy-compressed behind a header byte.
  snappy is not modelled: `compress`/`decompress` are parameters, theorems assume
  `decompress (compress x) = some x`; the harness runs the real snappy on both sides.
-/
import Influx.Model.CodecBase
import Influx.Generated.Codec

namespace Influx.Codec
open Influx.Generated.Codec

structure Compressor where
  compress : Bytes → Bytes
  decompress : Bytes → Option Bytes

def strPayload (vs : List Bytes) : Bytes := vs.flatMap fun s => putUvarint s.length ++ s

/-- scalar `StringEncoder` and batch `StringArrayEncodeAll` (identical output) -/
def strEncode (c : Compressor) (vs : List Bytes) : Bytes :=
  (stringCompressedSnappy * 16) :: c.compress (strPayload vs)

def strParse : (fuel : Nat) → Bytes → Option (List Bytes)
  | 0, b => if b.isEmpty then some [] else none
  | fuel + 1, b =>
    if b.isEmpty then some []
    else match getUvarint b with
      | none => none
      | some (len, rest) =>
        if rest.length < len then none
        else match strParse fuel (rest.drop len) with
          | none => none
          | some ss => some (rest.take len :: ss)

def strDecode (c : Compressor) (b : Bytes) : Option (List Bytes) :=
  match b with
  | [] => some []
  | _ :: body =>
    match c.decompress body with
    | none => none
    | some p => strParse p.length p

end Influx.Codec
