/-
  Model.Planner — `tsm1.DefaultPlanner` written from the code as it is
  (/repo/tsdb/engine/tsm1/compact.go, `DefaultPlanner` and `TsmGenerations`),
  quirks included.  Core Lean only.

  What is literal:   FindGenerations, generationsFullyCompacted/FullyCompacted,
                     ForceFull, PlanLevel, groupAdjacentGenerations, PlanOptimize,
                     Plan (full path and level-4 path), isInUse, acquire, Release,
                     TsmGenerations.level/hasTombstones/chunk, tsmGeneration.size/hasTombstones.
  What is generated: tsmGeneration.level and the tsdb constants
                     (`Influx.Generated.Planner`, regenerated from /repo on every run).
  Time:              enters only as booleans — `cold` (time.Since(lastWrite) >
                     compactFullWriteColdDuration; `¬cold` means `<`), `durPos`
                     (compactFullWriteColdDuration > 0), `lpcSet` (lastPlanCheck has
                     been set by an earlier Plan), `modFuture` (FileStore.LastModified()
                     is later than every lastPlanCheck; otherwise earlier than every
                     non-zero lastPlanCheck).
  Integers:          Go `int` as `Int`, `uint32`/`uint64` sizes as `Nat`
                     (assumption: a generation's total size is below 2^63, so that
                     `g.size()*2` does not wrap).
  The environment (a fake `fileStore`, the client that holds and releases the
  groups, and "a compaction finished": `done`) is part of the state machine so
  that op sequences are closed; see `step`.
-/
import Influx.Generated.Planner

namespace Influx.Planner
open Influx.Generated.Planner

/-! ### tsmGeneration / TsmGenerations helpers -/

/-- `tsmGeneration.size` -/
def Gen.size (g : Gen) : Nat := (g.files.map (·.size)).sum
/-- `tsmGeneration.hasTombstones` -/
def Gen.hasTombstones (g : Gen) : Bool := g.files.any (·.tomb)
def Gen.paths (g : Gen) : List String := g.files.map (·.path)

/-- `TsmGenerations.hasTombstones` -/
def gensHasTombstones (a : List Gen) : Bool := a.any Gen.hasTombstones
/-- `TsmGenerations.level`: the maximum level, 0 for the empty list -/
def gensLevel (a : List Gen) : Int :=
  a.foldl (fun lv g => if level g > lv then level g else lv) 0
def gensPaths (a : List Gen) : List String := a.flatMap Gen.paths

/-- `TsmGenerations.chunk(size)` with `size = k+1`: the chunk starting at the
    current position is `take (k+1)`; the next `k` positions belong to it
    (`skip` counts them down). -/
def chunkAux (k : Nat) : Nat → List Gen → List (List Gen)
  | _, [] => []
  | skip + 1, _ :: rest => chunkAux k skip rest
  | 0, g :: rest => (g :: rest).take (k + 1) :: chunkAux k k rest

def chunk (k : Nat) (a : List Gen) : List (List Gen) := chunkAux k 0 a

/-- `sort.Strings`: the result of sorting by a total order is unique, so any
    correct sort is a model of it; insertion sort, structurally recursive. -/
def insertSorted (x : String) : List String → List String
  | [] => [x]
  | y :: ys => if x ≤ y then x :: y :: ys else y :: insertSorted x ys

def sortStrings (l : List String) : List String := l.foldr insertSorted []

/-! ### FindGenerations -/

/-- one iteration of the `for _, f := range tsmStats` loop followed by the final
    sort: generations are kept ordered by id; files keep the order of `Stats()` -/
def insertFile (f : File) : List Gen → List Gen
  | [] => [⟨f.gen, f, []⟩]
  | g :: rest =>
    if f.gen = g.id then ⟨g.id, g.first, g.rest ++ [f]⟩ :: rest
    else if f.gen < g.id then ⟨f.gen, f, []⟩ :: g :: rest
    else g :: insertFile f rest

/-- `DefaultPlanner.FindGenerations` on `FileStore.Stats() = stats` -/
def findGenerations (stats : List File) : List Gen :=
  stats.foldl (fun gs f => insertFile f gs) []

/-! ### planner state -/

/-- `DefaultPlanner.isInUse` -/
def isInUse (inUse : List String) (g : Gen) : Bool := g.files.any (fun f => inUse.contains f.path)

/-- `DefaultPlanner.acquire`: `none` = returned false (nothing changed) -/
def acquire (inUse : List String) (groups : List (List String)) : Option (List String) :=
  if groups.isEmpty then some inUse
  else if groups.any (fun g => g.any inUse.contains) then none
  else some (inUse ++ groups.flatten)

/-- `DefaultPlanner.Release` of one group -/
def releaseFiles (inUse : List String) (g : List String) : List String :=
  inUse.filter (fun f => !g.contains f)

/-- `generationsFullyCompacted`; the reason string as a small code:
    0 "", 1 more than one generation, 2 tombstones, 3 all files at aggressive
    points per block, 4 `tsdb.SingleGenerationReasonText` -/
def fullyCompacted (gens : List Gen) : Bool × Nat :=
  if gens.length > 1 then (false, 1)
  else if gensHasTombstones gens then (false, 2)
  else
    match gens with
    | [g] =>
      if g.files.length > 1 then
        let aggr := (g.files.filter (fun f => f.fbc > DefaultMaxPointsPerBlock)).length
        let under := (g.files.filter (fun f => f.size < MaxTSMFileSize)).length
        if aggr = g.files.length then (true, 3)
        else if under > 1 && aggr < g.files.length then (false, 4)
        else (true, 0)
      else (true, 0)
    | _ => (true, 0)

/-! ### groupAdjacentGenerations -/

/-- `moveToNextGroup` -/
def flush (cur : List Gen) (groups : List (List Gen)) : List (List Gen) :=
  if cur.isEmpty then groups else groups ++ [cur]

/-- "pick up orphaned TSM files": `i < len(generations)-1 && generations[i].level() < generations[i+1].level()` -/
def orphan (g : Gen) : List Gen → Bool
  | [] => false
  | nx :: _ => level g < level nx

/-- the `for i` loop of `groupAdjacentGenerations` (`cur` = currentGen) -/
def gaLoop (inUse : List String) (test : Int → Int → Bool) :
    List Gen → List Gen → List (List Gen) → List (List Gen)
  | [], cur, groups => flush cur groups
  | g :: rest, cur, groups =>
    if isInUse inUse g then gaLoop inUse test rest [] (flush cur groups)
    else if cur.isEmpty || (test (gensLevel cur) (level g) || orphan g rest) then
      gaLoop inUse test rest (cur ++ [g]) groups
    else gaLoop inUse test rest [g] (flush cur groups)

def groupAdjacent (inUse : List String) (test : Int → Int → Bool) (gens : List Gen) : List (List Gen) :=
  gaLoop inUse test gens [] []

/-! ### PlanLevel -/

/-- "there are later generations of higher level": `groups[j].level() >= level` for some later group -/
def laterHigher (lvl : Int) (later : List (List Gen)) : Bool := later.any (fun g => gensLevel g ≥ lvl)

/-- the chunks of one level group that are planned -/
def levelChunks (lvl : Int) (k : Nat) (later : List (List Gen)) (group : List Gen) : List (List Gen) :=
  (chunk k group).filter fun c =>
    if c.length < k + 1 && !gensHasTombstones c then laterHigher lvl later else true

/-- the generation groups of `PlanLevel`, walking `groups` with the groups after the current one -/
def levelWalk (lvl : Int) (k : Nat) : List (List Gen) → List (List Gen)
  | [] => []
  | g :: later =>
    (if gensLevel g = lvl then levelChunks lvl k later g else []) ++ levelWalk lvl k later

def levelGens (inUse : List String) (gens : List Gen) (lvl : Int) : List (List Gen) :=
  let groups := groupAdjacent inUse (fun cur cand => cur == cand) gens
  let k := if lvl = 1 then 7 else 3     -- minGenerations - 1
  levelWalk lvl k groups

/-! ### PlanOptimize -/

def optGens (inUse : List String) (gens : List Gen) : List (List Gen) :=
  let groups := groupAdjacent inUse (fun cur cand => decide (cur ≥ cand)) gens
  groups.filter fun g => (gensLevel g = 4 || gens.length = 1) && !(gensPaths g).isEmpty

/-! ### Plan, full path -/

/-- `skip` for generation `g` followed by `rest` in the full path; `n = len(generations)` -/
def fullSkip (n : Nat) (g : Gen) : List Gen → Bool
  | [] => n > 2 && g.size > MaxTSMFileSize && g.first.fbc ≥ DefaultMaxPointsPerBlock && !g.hasTombstones
  | nx :: _ =>
    if level nx ≤ 3 then false
    else n > 2 && g.size > MaxTSMFileSize && g.first.fbc ≥ DefaultMaxPointsPerBlock && !g.hasTombstones

/-- the loop over `generations` of the full path -/
def fullLoop (inUse : List String) (n : Nat) : List Gen → List Gen
  | [] => []
  | g :: rest =>
    if isInUse inUse g then fullLoop inUse n rest
    else if fullSkip n g rest then fullLoop inUse n rest
    else g :: fullLoop inUse n rest

/-- the selected generations of the full path, `[]` when "not more than 1 file and more than 1 generation" -/
def fullGens (inUse : List String) (gens : List Gen) : List (List Gen) :=
  let sel := fullLoop inUse gens.length gens
  if (gensPaths sel).length ≤ 1 || sel.length ≤ 1 then [] else [sel]

/-! ### Plan, level-4 path -/

/-- `end`: one past the last generation of level ≥ 4 (0 if none) -/
def l4End : List Gen → Nat
  | [] => 0
  | g :: rest =>
    let e := l4End rest
    if e > 0 then e + 1 else if level g ≥ 4 then 1 else 0

/-- the `for i, g := range generations[:end]` loop computing `start` -/
def l4Start : Nat → Option Gen → List Gen → Nat → Bool → Nat
  | _, _, [], start, _ => start
  | i, prev, g :: rest, start, ht =>
    let ht := ht || g.hasTombstones
    if ht then l4Start (i + 1) (some g) rest start ht
    else
      let start := if g.size > MaxTSMFileSize && g.first.fbc ≥ DefaultMaxPointsPerBlock then i + 1 else start
      match prev with
      | some p => if g.size * 2 < p.size then i else l4Start (i + 1) (some g) rest start ht
      | none => l4Start (i + 1) (some g) rest start ht

/-- may `gen` be appended to `currentGroup`? -/
def l4Ok (inUse : List String) (g : Gen) : Bool :=
  !isInUse inUse g &&
    !(g.size ≥ MaxTSMFileSize && g.first.fbc ≥ DefaultMaxPointsPerBlock && !g.hasTombstones)

/-- the `for i := 0; i < len(generations);` grouping loop (step = 4): at a
    position that is not inside the current group (`skip = 0`) the group is the
    longest acceptable prefix of the next 4 generations; if it is empty `i++`,
    otherwise `i += len(currentGroup)` (`skip` counts the positions to pass). -/
def l4GroupAux (inUse : List String) : Nat → List Gen → List (List Gen)
  | _, [] => []
  | skip + 1, _ :: rest => l4GroupAux inUse skip rest
  | 0, g :: rest =>
    let cur := ((g :: rest).take 4).takeWhile (l4Ok inUse)
    if cur.isEmpty then l4GroupAux inUse 0 rest
    else cur :: l4GroupAux inUse (cur.length - 1) rest

def l4Group (inUse : List String) (gens : List Gen) : List (List Gen) := l4GroupAux inUse 0 gens

def l4Gens (inUse : List String) (gens : List Gen) : List (List Gen) :=
  let e := l4End gens
  let s := l4Start 0 none (gens.take e) 0 false
  let groups := l4Group inUse ((gens.take e).drop s)
  groups.filter fun g => !(g.length < 4 && !gensHasTombstones g)

/-! ### the state machine: planner + fake file store + client -/

structure State where
  /-- `compactFullWriteColdDuration > 0` (fixed per planner) -/
  durPos : Bool := true
  forceFull : Bool := false
  /-- `lastPlanCheck` is non-zero -/
  lpcSet : Bool := false
  /-- `filesInUse` -/
  inUse : List String := []
  /-- the fake file store: `Stats()` and whether `LastModified()` is in the future -/
  stats : List File := []
  modFuture : Bool := true
  /-- the result of the client's last `FindGenerations()` (the `generations` argument of Plan*) -/
  gens : List Gen := []
  /-- every group handed out so far, with "still held by the client" -/
  handed : List (List String × Bool) := []

inductive Op where
  | new (durPos : Bool)
  | setfs (modFuture : Bool) (files : List File)
  | add (f : File)
  | find
  | plan (cold : Bool)
  | level (lvl : Int)
  | opt (cold : Bool)
  | force
  | fully
  | release (k : Nat)
  | done (k : Nat) (size : Nat) (fbc : Int)
  | inuse
deriving Repr

inductive Obs where
  | ok
  | rejected
  | gens (gs : List (Int × List String))
  | plan (groups : List (List String)) (n : Nat) (genCount : Nat)
  | fully (b : Bool) (why : Nat)
  | released
  | notHeld
  | done (path : String) (gen seq : Int)
  | inuse (files : List String)
deriving Repr, DecidableEq

/-- common tail of the three planning calls: `acquire`, then hand the groups to the client -/
def finishPlan (s : State) (groups : List (List String)) (genCount : Nat) : State × Obs :=
  match acquire s.inUse groups with
  | none => (s, .plan [] groups.length genCount)
  | some iu =>
    ({ s with inUse := iu, handed := s.handed ++ groups.map (·, true) }, .plan groups groups.length genCount)

def toFiles (gs : List (List Gen)) : List (List String) := gs.map gensPaths

/-- is this `Plan` call on the full path? -/
def isFullPlan (s : State) (cold : Bool) : Bool :=
  s.forceFull || (s.durPos && cold && s.gens.length > 1)

/-- `DefaultPlanner.Plan(s.gens, lastWrite)` -/
def plan (s : State) (cold : Bool) : State × Obs :=
  if isFullPlan s cold then
    let s := { s with forceFull := false }
    match fullGens s.inUse s.gens with
    | [] => (s, .plan [] 0 0)
    | gs => finishPlan s (gs.map fun g => sortStrings (gensPaths g)) 0
  else if (s.lpcSet && !s.modFuture) && !gensHasTombstones s.gens then (s, .plan [] 0 0)
  else
    let s := { s with lpcSet := true }
    if s.gens.length ≤ 1 && !gensHasTombstones s.gens then (s, .plan [] 0 0)
    else
      -- `if len(groups) == 0 { return nil, 0 }` is subsumed: no groups ⇒ no compactable groups ⇒ acquire(∅)
      finishPlan s ((l4Gens s.inUse s.gens).map fun g => sortStrings (gensPaths g)) 0

/-- `DefaultPlanner.PlanLevel(s.gens, lvl)` -/
def planLevel (s : State) (lvl : Int) : State × Obs :=
  if s.forceFull then (s, .plan [] 0 0)
  else if s.gens.length ≤ 1 && !gensHasTombstones s.gens then (s, .plan [] 0 0)
  else finishPlan s (toFiles (levelGens s.inUse s.gens lvl)) 0

/-- `DefaultPlanner.PlanOptimize(s.gens, lastWrite)` -/
def planOptimize (s : State) (cold : Bool) : State × Obs :=
  if s.forceFull then (s, .plan [] 0 0)
  else if (fullyCompacted s.gens).1 || !cold then (s, .plan [] 0 0)
  else finishPlan s (toFiles (optGens s.inUse s.gens)) s.gens.length

/-- zero-padded decimal, `%09d` for a non-negative int -/
def pad9 (n : Nat) : String :=
  let d := toString n
  String.ofList (List.replicate (9 - d.length) '0') ++ d

/-- `DefaultFormatFileName` -/
def fileName (gen seq : Int) : String := pad9 gen.toNat ++ "-" ++ pad9 seq.toNat ++ ".tsm"

/-- `Compactor.compact`: the generation and sequence the output is written to
    (`maxGeneration`, `maxSequence` start at 0) -/
def maxGenSeq (fs : List File) : Int × Int :=
  fs.foldl (fun (mg, ms) f =>
    let (mg, ms) := if f.gen > mg then (f.gen, f.seq) else (mg, ms)
    if f.gen = mg && f.seq > ms then (mg, f.seq) else (mg, ms)) (0, 0)

/-- the file a finished compaction of the files `old` leaves behind -/
def compactedFile (old : List File) (size : Nat) (fbc : Int) : File :=
  let m := maxGenSeq old
  ⟨fileName m.1 (m.2 + 1), m.1, m.2 + 1, size, fbc, false⟩

def step (s : State) : Op → State × Obs
  | .new d => ({ durPos := d }, .ok)
  | .setfs mf files =>
    if (files.map (·.path)).Nodup then ({ s with stats := files, modFuture := mf }, .ok) else (s, .rejected)
  | .add f =>
    if (s.stats.map (·.path)).contains f.path then (s, .rejected) else ({ s with stats := s.stats ++ [f] }, .ok)
  | .find =>
    let gs := findGenerations s.stats
    ({ s with gens := gs }, .gens (gs.map fun g => (g.id, g.paths)))
  | .plan cold => plan s cold
  | .level lvl => planLevel s lvl
  | .opt cold => planOptimize s cold
  | .force => ({ s with forceFull := true }, .ok)
  | .fully => let r := fullyCompacted (findGenerations s.stats); (s, .fully r.1 r.2)
  | .release k =>
    match s.handed[k]? with
    | some (g, true) =>
      ({ s with inUse := releaseFiles s.inUse g, handed := s.handed.set k (g, false) }, .released)
    | _ => (s, .notHeld)
  | .done k size fbc =>
    -- the compaction of group k finished: its files are replaced by one new file, then Release
    match s.handed[k]? with
    | some (g, true) =>
      let old := s.stats.filter (fun f => g.contains f.path)
      let keep := s.stats.filter (fun f => !g.contains f.path)
      let nf := compactedFile old size fbc
      if old.isEmpty || decide (nf.seq ≤ 0) || (keep.map (·.path)).contains nf.path then (s, .rejected)
      else
        ({ s with stats := keep ++ [nf], inUse := releaseFiles s.inUse g,
                  handed := s.handed.set k (g, false) }, .done nf.path nf.gen nf.seq)
    | _ => (s, .notHeld)
  | .inuse => (s, .inuse (sortStrings s.inUse.eraseDups))

/-- the trace of the model on an op sequence, from a state -/
def runFrom (s : State) : List Op → List (Op × Obs)
  | [] => []
  | op :: rest => let (s', o) := step s op; (op, o) :: runFrom s' rest

def run (ops : List Op) : List (Op × Obs) := runFrom {} ops

end Influx.Planner
