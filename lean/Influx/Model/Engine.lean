/-
  Model.Engine — the tsm1 engine as a state machine (DESIGN §4 L4), written from
  /repo/tsdb/engine/tsm1/{engine.go, cache.go, compact.go, file_store.go, wal.go}.

  State = cache (hot store + in-flight snapshot store) × ordered TSM files (data + tombstones)
          × WAL segments (records are durable once the op that appended them has returned:
            `WAL.writeToLog` waits for the fsync) × the phase of the in-flight snapshot.

  Sub-steps of `Engine.WriteSnapshot` (engine.go doWriteSnapshot / writeSnapshotAndCommit):
    snapBegin   WAL.CloseSegment; closed := WAL.ClosedSegments; Cache.Snapshot (hot ↦ snapshot store)
    snapStep    begun    → written  : Compactor.WriteSnapshot writes `<gen>-01.tsm.tmp` from the snapshot store
                                       (empty snapshot store: `snapshot.Size()==0` ⇒ ClearSnapshot, done)
                written  → replaced : FileStore.Replace(nil, newFiles)   (rename, file becomes visible)
                replaced → cleared  : Cache.ClearSnapshot(true)
                cleared  → idle     : WAL.Remove(closedFiles)
  Compaction of a group of files (compactionStrategy.Apply): one new file = newest-wins merge of
  the group with tombstones applied (tsmBatchKeyIterator), named (max generation, max sequence+1),
  i.e. it takes the place of the LAST member of the group; the group's files are removed.
  Delete (Engine.deleteSeriesRange): tombstones on every current TSM file, `Cache.DeleteRange` on
  the HOT store only, and a WAL DeleteRange entry naming the hot-store keys of those series.
  Crash + Open: `*.tmp` removed (Engine.cleanup), TSM files and their tombstones reloaded,
  all WAL segments replayed in order into an empty cache (CacheLoader.Load).
-/
import Influx.Model.EngineLog

namespace Influx.Model.Engine

/-- a range tombstone for all fields of some series -/
structure Tomb where
  series : List Nat
  lo : Int
  hi : Int
deriving Repr, DecidableEq

/-- `series ∈ ss ∧ lo ≤ t ≤ hi` -/
def covered (ss : List Nat) (lo hi : Int) (k : Key) (t : Int) : Bool :=
  ss.contains k.series && decide (lo ≤ t) && decide (t ≤ hi)

def Tomb.covers (tb : Tomb) (k : Key) (t : Int) : Bool := covered tb.series tb.lo tb.hi k t

structure TsmFile where
  data : Log
  tombs : List Tomb := []
  /-- the generation in the file name `<generation>-<sequence>.tsm`.  Only equality matters: two
      files share a generation exactly when a crash inside FileStore.replace left the output of a
      compaction (max generation of its group, sequence+1) next to not-yet-removed members of
      the group; the planner always takes whole generations. -/
  gen : Nat := 0
deriving Repr, DecidableEq

/-- what a reader sees of a file: data minus tombstoned ranges (file_store.gen.go / reader.go) -/
def TsmFile.live (f : TsmFile) : Log :=
  f.data.filter fun e => !(f.tombs.any fun tb => tb.covers e.key e.ts)

inductive WalEntry where
  | write (es : Log)
  | delRange (keys : List Key) (lo hi : Int)
deriving Repr, DecidableEq

structure Segment where
  id : Nat
  recs : List WalEntry
deriving Repr, DecidableEq

inductive Phase where
  | idle | begun | written | replaced | cleared
  /-- a WriteSnapshot attempt failed after Cache.Snapshot (`ClearSnapshot(false)`): the snapshot
      store keeps its content for the retry, nothing is in flight -/
  | failed
deriving Repr, DecidableEq

structure State where
  hot : Log := []
  snap : Log := []
  phase : Phase := .idle
  /-- the `.tsm.tmp` written by Compactor.WriteSnapshot, not yet renamed -/
  snapTmp : Option TsmFile := none
  /-- ids of the WAL segments that were closed when the in-flight snapshot began -/
  snapClosed : List Nat := []
  /-- oldest → newest (FileStore.files sorted by name = generation, sequence) -/
  files : List TsmFile := []
  /-- closed WAL segment files, ascending ids -/
  walClosed : List Segment := []
  /-- the current segment (`WAL.currentSegmentWriter`), if any -/
  walCur : Option Segment := none
  nextSeg : Nat := 1
  /-- `FileStore.NextGeneration` -/
  nextGen : Nat := 1
  /-- the previous op appended a WAL record (the one a torn crash may lose) -/
  lastRec : Bool := false
deriving Repr

def init : State := {}

/-- any op that is not a write/delete: the previous op's WAL record is no longer "the last thing that happened" -/
def State.touch (s : State) : State := { s with lastRec := false }

/-! ### cache and file views -/

def filesLog (fs : List TsmFile) : Log := fs.flatMap TsmFile.live

/-- everything a reader can see, oldest → newest: files, snapshot store, hot store -/
def State.allLog (s : State) : Log := filesLog s.files ++ s.snap ++ s.hot

/-- the abstraction: what the shard holds at (key, time) -/
def State.abs (s : State) (k : Key) (t : Int) : Option Int := s.allLog.get k t

/-- `Cache.Values(key)`: Deduplicate(snapshot values ++ hot values) -/
def State.cacheValues (s : State) (k : Key) : List Pt := Log.values (s.snap ++ s.hot) k

/-- the KeyCursor stream of a key: files merged, newest wins, tombstones excluded -/
def State.fileValues (s : State) (k : Key) : List Pt := Log.values (filesLog s.files) k

def inRange (lo hi : Int) (p : Pt) : Bool := decide (lo ≤ p.1) && decide (p.1 ≤ hi)

/-- array cursor: cache values merged over the file stream (cache wins), restricted to
    [lo, hi], ascending or descending (array_cursor.gen.go) -/
def State.read (s : State) (k : Key) (lo hi : Int) (asc : Bool) : List Pt :=
  let rows := (mergeOver (s.fileValues k) (s.cacheValues k)).filter (inRange lo hi)
  if asc then rows else rows.reverse

/-! ### WAL -/

/-- all segment files, ascending ids -/
def State.wal (s : State) : List Segment := s.walClosed ++ s.walCur.toList

/-- current segment and next id after appending a record (`WAL.writeToLog`: rollSegment opens
    a new segment when there is no current writer) -/
def appendCur (cur : Option Segment) (next : Nat) (r : WalEntry) : Segment × Nat :=
  match cur with
  | some c => (⟨c.id, c.recs ++ [r]⟩, next)
  | none => (⟨next, [r]⟩, next + 1)

def walAppend (s : State) (r : WalEntry) : State :=
  { s with walCur := some (appendCur s.walCur s.nextSeg r).1, nextSeg := (appendCur s.walCur s.nextSeg r).2 }

/-- does `WAL.CloseSegment` roll?  (not when the current segment is empty) -/
def rolls (cur : Option Segment) : Bool :=
  match cur with
  | some c => !c.recs.isEmpty
  | none => true

/-- `WAL.CloseSegment`: close the current segment and open a new (empty) one — unless the
    current one is empty -/
def walCloseSegment (s : State) : State :=
  { s with walClosed := if rolls s.walCur then s.walClosed ++ s.walCur.toList else s.walClosed,
           walCur := if rolls s.walCur then some ⟨s.nextSeg, []⟩ else s.walCur,
           nextSeg := if rolls s.walCur then s.nextSeg + 1 else s.nextSeg }

/-- `WAL.ClosedSegments`: every segment file except the current one -/
def walClosedIds (s : State) : List Nat := s.walClosed.map (·.id)

def applyWalEntry (c : Log) : WalEntry → Log
  | .write es => c ++ es
  | .delRange keys lo hi => c.filter fun e => !(keys.contains e.key && decide (lo ≤ e.ts) && decide (e.ts ≤ hi))

/-- `CacheLoader.Load`: all records of all segments, in order, into an empty cache -/
def replay (segs : List Segment) : Log :=
  (segs.flatMap (·.recs)).foldl applyWalEntry []

/-- lose the last record of the current segment (torn tail dropped by the loader) -/
def dropLastRec : Option Segment → Option Segment
  | some c => some ⟨c.id, c.recs.dropLast⟩
  | none => none

/-! ### steps -/

inductive CPoint where
  | afterWriteFiles | afterRename | afterRemoveOld
deriving Repr, DecidableEq

inductive Op where
  | write (es : Log)
  | delete (ss : List Nat) (lo hi : Int)
  | snapBegin
  /-- a whole `WriteSnapshot` call while the compactor refuses snapshots
      (`Compactor.WriteSnapshot` returns an error after `Cache.Snapshot`) -/
  | snapFail
  | snapStep
  /-- let the in-flight snapshot run until it has reached phase `p` (`idle` = until it returns) -/
  | snapTo (p : Phase)
  | compact (i j : Nat)
  /-- an arbitrary (possibly non-contiguous) group of file positions — what the planner must never produce -/
  | compactSet (idxs : List Nat)
  | read (k : Key) (lo hi : Int) (asc : Bool)
  | files
  | crash (tear : Bool)
  | compactCrash (i j : Nat) (pt : CPoint) (n : Nat)
  | deleteCrash (ss : List Nat) (lo hi : Int)
deriving Repr, DecidableEq

inductive Obs where
  | ok
  | blocked
  | inProgress
  | badGroup
  | rows (r : List Pt)
  | nfiles (n : Nat)
  /-- WriteSnapshot returned the compactor's error -/
  | failed
  /-- not attempted: a stepped snapshot is in flight -/
  | busy
  /-- any other answer of the implementation (an error) -/
  | err
deriving Repr, DecidableEq

def hotKeys (hot : Log) (ss : List Nat) : List Key :=
  Log.keys (hot.filter fun e => ss.contains e.key.series)

def addTomb (ss : List Nat) (lo hi : Int) (f : TsmFile) : TsmFile :=
  if f.live.any (fun e => covered ss lo hi e.key e.ts) then { f with tombs := f.tombs ++ [⟨ss, lo, hi⟩] } else f

def stepWrite (s : State) (es : Log) : State :=
  { walAppend { s with hot := s.hot ++ es } (.write es) with lastRec := true }

/-- the durable + cache part of a delete; `wal` says whether the WAL entry is written too -/
def stepDelete (s : State) (ss : List Nat) (lo hi : Int) : State :=
  let keys := hotKeys s.hot ss
  let s1 := { s with files := s.files.map (addTomb ss lo hi),
                     hot := s.hot.filter fun e => !covered ss lo hi e.key e.ts }
  if keys.isEmpty then { s1 with lastRec := false }
  else { walAppend s1 (.delRange keys lo hi) with lastRec := true }

def stepSnapBegin (s : State) : State × Obs :=
  match s.phase with
  | .replaced | .cleared => (s.touch, .blocked)     -- e.mu.Lock() waits for the committing snapshot
  | .begun | .written => ({ walCloseSegment s with lastRec := false }, .inProgress)
  | .idle =>
    let s1 := walCloseSegment s
    ({ s1 with snap := s1.hot, hot := [], phase := .begun, snapClosed := walClosedIds s1, lastRec := false }, .ok)
  | .failed =>
    -- retry of a failed attempt: `Cache.Snapshot` returns the EXISTING snapshot store as it is
    -- (`if c.snapshot.Size() > 0 { return c.snapshot, nil }`), the hot store is not swapped, yet
    -- `WAL.ClosedSegments` now lists every closed segment, including those holding what was
    -- written since the failed attempt (they are removed once the stale snapshot is on disk)
    let s1 := walCloseSegment s
    ({ s1 with phase := .begun, snapClosed := walClosedIds s1, lastRec := false }, .ok)

/-- `WriteSnapshot` with the compactor refusing: Cache.Snapshot happens, then
    writeSnapshotAndCommit fails and runs `ClearSnapshot(false)`; an empty snapshot returns
    before (`snapshot.Size() == 0`) -/
def stepSnapFail (s : State) : State × Obs :=
  match s.phase with
  | .idle | .failed =>
    let s1 := (stepSnapBegin s).1
    if s1.snap.isEmpty then ({ s1 with phase := .idle, snapClosed := [] }, .ok)
    else ({ s1 with phase := .failed }, .failed)
  | _ => (s.touch, .busy)

def stepSnapStep (s : State) : State :=
  match s.phase with
  | .idle => s
  | .begun =>
    if s.snap.isEmpty then { s with phase := .idle, snapClosed := [], lastRec := false }
    else { s with phase := .written, snapTmp := some ⟨s.snap.canon, [], s.nextGen⟩, nextGen := s.nextGen + 1,
                  lastRec := false }
  | .written =>
    { s with phase := .replaced, files := s.files ++ s.snapTmp.toList, snapTmp := none, lastRec := false }
  | .replaced => { s with phase := .cleared, snap := [], lastRec := false }
  | .failed => s
  | .cleared =>
    { s with phase := .idle, walClosed := s.walClosed.filter (fun g => !s.snapClosed.contains g.id),
             snapClosed := [], lastRec := false }

def Phase.rank : Phase → Nat
  | .idle => 0 | .begun => 1 | .written => 2 | .replaced => 3 | .cleared => 4 | .failed => 0

/-- a WriteSnapshot call is between its sub-steps -/
def Phase.inFlight : Phase → Bool
  | .begun | .written | .replaced | .cleared => true
  | _ => false

/-- how far `snapTo p` runs: `idle` means "to the end" -/
def Phase.target : Phase → Nat
  | .idle => 5
  | p => p.rank

def advance1 (tgt : Nat) (s : State) : State :=
  if s.phase.inFlight ∧ s.phase.rank < tgt then stepSnapStep s else s

def stepSnapTo (s : State) (p : Phase) : State :=
  advance1 p.target (advance1 p.target (advance1 p.target (advance1 p.target s)))

/-- the output of compacting a group: nothing when every point is tombstoned -/
def lastGen (grp : List TsmFile) : Nat := (grp.getLast?.map (·.gen)).getD 0

def compactOut (grp : List TsmFile) : List TsmFile :=
  let merged := (filesLog grp).canon
  if merged.isEmpty then [] else [⟨merged, [], lastGen grp⟩]

def groupOf (fs : List TsmFile) (i j : Nat) : List TsmFile := (fs.drop i).take (j + 1 - i)

def compactFiles (fs : List TsmFile) (i j : Nat) : List TsmFile :=
  fs.take i ++ compactOut (groupOf fs i j) ++ fs.drop (j + 1)

/-- general group: output takes the place of the last member -/
def compactSetFiles (fs : List TsmFile) (idxs : List Nat) : List TsmFile :=
  let en := fs.zipIdx
  let grp := (en.filter fun p => idxs.contains p.2).map (·.1)
  let last := idxs.foldl max 0
  en.flatMap fun p => if p.2 = last then compactOut grp else if idxs.contains p.2 then [] else [p.1]

/-- positions `i..j` exist and the group consists of whole generations (what the planner plans:
    `tsmGeneration`s; splitting one would make the output's name collide with a live file) -/
def validGroup (fs : List TsmFile) (i j : Nat) : Bool :=
  decide (i ≤ j) && decide (j < fs.length) &&
  (i == 0 || (fs[i - 1]?.map (·.gen)) != (fs[i]?.map (·.gen))) &&
  ((fs[j + 1]?.map (·.gen)) != (fs[j]?.map (·.gen)))

/-- `Engine.Open` on the durable image of `s`, the WAL segment files being `segs`:
    WAL.Open (an empty last segment is removed; otherwise the last segment becomes the current
    one), FileStore.Open, CacheLoader.Load -/
def openWith (s : State) (fs : List TsmFile) (segs : List Segment) : State :=
  let segs' := segs.filter fun g => !g.recs.isEmpty
  { hot := replay segs', snap := [], phase := .idle, snapTmp := none, snapClosed := [],
    files := fs, walClosed := segs'.dropLast, walCur := segs'.getLast?, nextSeg := s.nextSeg,
    nextGen := s.nextGen, lastRec := false }

def stepCrash (s : State) (tear : Bool) : State :=
  openWith s s.files (s.walClosed ++ (if tear && s.lastRec then dropLastRec s.walCur else s.walCur).toList)

/-- the directory image at the n-th hit of a point inside compaction + FileStore.replace -/
def compactCrashFiles (fs : List TsmFile) (i j : Nat) (pt : CPoint) (n : Nat) : List TsmFile :=
  let grp := groupOf fs i j
  let out := compactOut grp
  match pt with
  | .afterWriteFiles => if n = 1 then fs else compactFiles fs i j
  | .afterRename => if n = 1 && !out.isEmpty then fs.take i ++ grp ++ out ++ fs.drop (j + 1) else compactFiles fs i j
  | .afterRemoveOld =>
    if 1 ≤ n && n ≤ grp.length then fs.take i ++ grp.drop n ++ out ++ fs.drop (j + 1) else compactFiles fs i j

/-- writeSnapshotAndCommit holds e.mu.RLock() from FileStore.Replace to its return -/
def commitLocked : Phase → Bool
  | .replaced | .cleared => true
  | _ => false

def step (s : State) : Op → State × Obs
  | .write es => (stepWrite s es, .ok)
  | .delete ss lo hi =>
    -- DeleteSeriesRange takes e.mu.Lock() (disableLevelCompactions): it waits while the
    -- committing snapshot holds e.mu.RLock()
    if commitLocked s.phase then (s.touch, .blocked) else (stepDelete s ss lo hi, .ok)
  | .snapBegin => stepSnapBegin s
  | .snapFail => stepSnapFail s
  | .snapStep => ((stepSnapStep s).touch, .ok)
  | .snapTo p => ((stepSnapTo s p).touch, .ok)
  | .compact i j =>
    if validGroup s.files i j then
      let fs := compactFiles s.files i j
      ({ s with files := fs, lastRec := false }, .nfiles fs.length)
    else (s.touch, .badGroup)
  | .compactSet idxs =>
    let fs := compactSetFiles s.files idxs
    ({ s with files := fs, lastRec := false }, .nfiles fs.length)
  | .read k lo hi asc => (s.touch, .rows (s.read k lo hi asc))
  | .files => (s.touch, .nfiles s.files.length)
  | .crash tear => (stepCrash s tear, .ok)
  | .compactCrash i j pt n =>
    -- an invalid group compacts nothing: the image is the current state
    (openWith s (if validGroup s.files i j then compactCrashFiles s.files i j pt n else s.files) s.wal, .ok)
  | .deleteCrash ss lo hi =>
    if commitLocked s.phase then (s.touch, .blocked)
    else (openWith s (s.files.map (addTomb ss lo hi)) s.wal, .ok)

/-- run a list of ops, collecting (op, observation) -/
def runFrom (s : State) : List Op → State × List (Op × Obs)
  | [] => (s, [])
  | op :: ops =>
    let (s1, o) := step s op
    let (s2, tr) := runFrom s1 ops
    (s2, (op, o) :: tr)

def run (ops : List Op) : State := (runFrom init ops).1
def trace (ops : List Op) : List (Op × Obs) := (runFrom init ops).2

end Influx.Model.Engine
