/-
  Model.ReducersTypes — points and the arithmetic parameters shared by the
  reducer model (Model.Reducers) and the statement (Spec.C23).  Core Lean only.
-/
namespace Influx.Reducers

/-- a point as far as the reducers look at it: `Time`, `Value` -/
structure Pt (V : Type) where
  t : Int
  v : V
deriving Repr, BEq, DecidableEq

/-- `query.ZeroTime = math.MinInt64` (point.go) -/
def zeroTime : Int := -9223372036854775808

/-- Go `float64` operations used by the reducers (no laws assumed). -/
structure FOps (F : Type) where
  add : F → F → F
  sub : F → F → F
  mul : F → F → F
  div : F → F → F
  lt  : F → F → Bool
  ofInt : Int → F
  sqrt : F → F
  nan : F
  half : F          -- the literal 0.5

/-- Operations on the input value type (`int64` or `float64`). -/
structure VOps (V F : Type) where
  add : V → V → V
  sub : V → V → V
  lt  : V → V → Bool
  /-- Go `==` on the value type (false on NaN) -/
  eq  : V → V → Bool
  zero : V
  /-- `float64(v)` -/
  toF : V → F
  /-- `math.IsNaN` (always false for integers) -/
  isNaN : V → Bool
  /-- what `Spread.Aggregate` does to the running minimum / maximum -/
  minStep : V → V → V
  maxStep : V → V → V
  spreadInitMin : V
  spreadInitMax : V
  /-- `FloatMedianReduceSlice`/`FloatModeReduceSlice`… return the input slice itself when it
      holds one point (own timestamp); `IntegerMedianReduceSlice` builds a new point -/
  medianSingleKeepsTime : Bool

/-! ## The integer instance (exact) -/

def intOps {F : Type} (fo : FOps F) : VOps Int F where
  add := (· + ·)
  sub := (· - ·)
  lt := fun a b => decide (a < b)
  eq := fun a b => decide (a = b)
  zero := 0
  toF := fo.ofInt
  isNaN := fun _ => false
  minStep := fun m v => if v < m then v else m
  maxStep := fun m v => if v > m then v else m
  spreadInitMin := 9223372036854775807
  spreadInitMax := -9223372036854775808
  medianSingleKeepsTime := false


/-- Everything the model / statement need about the two value types, plus the
    equality used to compare observations (bit equality for floats). -/
structure Arith (V F : Type) where
  vo : VOps V F
  fo : FOps F
  eqvV : V → V → Bool
  eqvF : F → F → Bool
  eqvV_refl : ∀ x, eqvV x x = true
  eqvF_refl : ∀ x, eqvF x x = true

def intArith {F : Type} (fo : FOps F) (eqvF : F → F → Bool) (h : ∀ x, eqvF x x = true) : Arith Int F where
  vo := intOps fo
  fo := fo
  eqvV := fun a b => decide (a = b)
  eqvF := eqvF
  eqvV_refl := by simp
  eqvF_refl := h

/-- which function, with its parameters -/
inductive Fn
  | derivative (unit : Int) (nonNeg asc : Bool)
  | difference (nonNeg : Bool)
  | elapsed (unit : Int)
  | cumulativeSum
  | movingAverage (n : Nat)
  | percentile (pn : Int) (pd : Nat)
  | median
  | mode
  | spread
  | stddev
  | distinct
  | top (n : Nat)
  | bottom (n : Nat)
  | integral (unit dur off startTime endTime : Int) (asc : Bool)
deriving Repr, DecidableEq

/-- what a reducer emitted: points of the input value type, float points, or
    integer points (elapsed) -/
inductive Out (V F : Type)
  | v (l : List (Pt V))
  | f (l : List (Pt F))
  | i (l : List (Pt Int))

/-- one observation; `out = none`: the call panicked -/
structure Obs (V F : Type) where
  fn : Fn
  xs : List (Pt V)
  out : Option (Out V F)

end Influx.Reducers
