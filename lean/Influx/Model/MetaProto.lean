/-
  Influx.Model.MetaProto — line protocol of the C18/C19 harnesses: op lines → `Op`,
  `Obs` → answer line, answer line → `Obs` (for the statement checkers, which are
  evaluated on the real implementation's answers).
-/
import Influx.Proto
import Influx.Model.MetaSM

namespace Influx.Meta
open Influx.Proto

/-! ### rendering -/

def showShards (ss : List ShardInfo) : String :=
  if ss.isEmpty then "n" else "+".intercalate (ss.map fun s => toString s.ID)

/-- `id/start/end/del/trunc/shards` -/
def showGroup (g : ShardGroupInfo) : String :=
  "/".intercalate [toString g.ID, toString g.StartTime, toString g.EndTime,
    boolStr (Influx.Generated.Meta.Deleted g),
    (if Influx.Generated.Meta.Truncated g then toString g.TruncatedAt else "n"),
    showShards g.Shards]

/-- canonical order of a dump: `(effEnd, StartTime, ID)` (refines `ShardGroupInfos.Less`) -/
def groupBefore (a b : ShardGroupInfo) : Bool :=
  if effEnd a != effEnd b then decide (effEnd a < effEnd b)
  else if a.StartTime != b.StartTime then decide (a.StartTime < b.StartTime)
  else decide (a.ID ≤ b.ID)

def canonGroups (gs : List ShardGroupInfo) : List ShardGroupInfo :=
  gs.foldl (fun acc g =>
    let rec ins : List ShardGroupInfo → List ShardGroupInfo
      | [] => [g]
      | y :: ys => if groupBefore g y then g :: y :: ys else y :: ins ys
    ins acc) []

def showGroups (gs : List ShardGroupInfo) : String :=
  joinComma ((canonGroups gs).map showGroup)

def showFull (f : List (String × String × List ShardGroupInfo)) : String :=
  if f.isEmpty then "-" else
  ";".intercalate (f.map fun (db, rp, gs) => db ++ "|" ++ rp ++ "|" ++ showGroups gs)

def showPlacement : Placement → String
  | .dropped => "d"
  | .mapped sh g => toString sh.ID ++ "@" ++ toString g.ID ++ "/" ++ toString g.StartTime ++ "/" ++ toString g.EndTime

def showEv : Ev → String
  | .dsg db rp id ok => s!"dsg/{db}/{rp}/{id}/{boolStr ok}"
  | .block id ok => s!"blk/{id}/{boolStr ok}"
  | .unblock id => s!"unb/{id}"
  | .inUse id ok used => s!"use/{id}/{boolStr ok}/{boolStr used}"
  | .delete id res => s!"rm/{id}/{res}"
  | .dropRef id ok ph => s!"ref/{id}/{boolStr ok}/{boolStr ph}"
  | .prune => "prune"

def sortedNats (xs : List Nat) : List Nat := sortNat xs

def render : Obs → String
  | .ok => "ok"
  | .err e => e.str
  | .group none => "nil"
  | .group (some g) => s!"g={g.ID}/{g.StartTime}/{g.EndTime}"
  | .mapping m => s!"drop={m.retentionDropped} " ++ joinComma (m.placements.map showPlacement)
  | .groups gs => "gs=" ++ showGroups gs
  | .restarted b a => "before=" ++ showFull b ++ " after=" ++ showFull a
  | .ids ids => "ids=" ++ showNats (sortedNats ids)
  | .expired ids gs => "ids=" ++ showNats (sortedNats ids) ++ " gs=" ++ showGroups gs
  | .dc log pre loc => "log=" ++ joinComma (log.map showEv) ++ " pre=" ++ showFull pre ++ " local=" ++ showNats loc

/-! ### parsing op lines -/

/-- a decimal int64 (Go: `strconv.ParseInt(s, 10, 64)`; a leading `+` is accepted there too) -/
def toI64? (s : String) : Option Int :=
  match (if s.startsWith "+" then (s.drop 1).toString else s).toInt? with
  | some v => if -9223372036854775808 ≤ v ∧ v ≤ 9223372036854775807 then some v else none
  | none => none

/-- a decimal id below 2^63 -/
def toId? (s : String) : Option Nat :=
  match s.toNat? with
  | some v => if v < 9223372036854775808 then some v else none
  | none => none

def parseI64s (s : String) : Option (List Int) := (splitComma s).mapM toI64?
def parseIds (s : String) : Option (List Nat) := (splitComma s).mapM toId?

def parseField : String → Option StoreField
  | "local" => some .shards
  | "inuse" => some .inUse
  | "blockfail" => some .blockFail
  | "inusefail" => some .inUseFail
  | "delfail" => some .deleteFail
  | "delnf" => some .deleteNotFound
  | "dsgfail" => some .dsgFail
  | "dropfail" => some .dropFail
  | _ => none

/-- a cutoff `now − Duration`: must lie before 2023-11-14T22:13:20Z, i.e. before the wall clock of
    any run of the harness (and before the model's clock), else the op line is rejected -/
def toCutoff? (s : String) : Option Int :=
  match toI64? s with
  | some a => if a ≤ 1700000000000000000 then some a else none
  | none => none

def parseCutoffs (s : String) : Option (List (String × String × Int)) :=
  (splitComma s).mapM fun e =>
    match e.splitOn ":" with
    | [db, rp, a] => (toCutoff? a).map fun a => (db, rp, a)
    | _ => none

def validName (s : String) : Bool :=
  !s.isEmpty && s.all fun c => c.isAlphanum

def parseOp : List String → Option Op
  | ["rp", db, rp, sgd, raw] =>
    if validName db && validName rp then do
      let sgd ← toI64? sgd
      let raw ← parseBool raw
      some (.rp db rp sgd raw)
    else none
  | ["sgd", db, rp, d] => (toI64? d).map (.sgd db rp ·)
  | ["csg", db, rp, t] => (toI64? t).map (.csg db rp ·)
  | ["ms", db, rp, c, ts] => do
    let c ← if c = "-" then some none else (toCutoff? c).map some
    let ts ← parseI64s ts
    some (.ms db rp c ts)
  | ["dump", db, rp] => some (.dump db rp)
  | ["restart"] => some .restart
  | ["find", db, rp, t] => (toI64? t).map (.find db rp ·)
  | ["range", db, rp, a, b] => do
    let a ← toI64? a
    let b ← toI64? b
    some (.range db rp a b)
  | ["del", db, rp, id] => (toId? id).map (.del db rp ·)
  | ["exp", db, rp, D, t] => do
    let D ← toI64? D
    let t ← toI64? t
    some (.exp db rp D t)
  | ["store", f, ids] => do
    let f ← parseField f
    let ids ← parseIds ids
    some (.store f ids)
  | ["dc", cs] => (parseCutoffs cs).map .dc
  | ["setdel", db, rp, id, a] => do
    let id ← toId? id
    let a ← toI64? a
    some (.setdel db rp id a)
  | ["dropshard", id] => (toId? id).map .dropshard
  | ["pre", a, b] => do some (.pre (← toI64? a) (← toI64? b))
  | ["trunc", t] => (toI64? t).map .trunc
  | _ => none

/-! ### parsing answers -/

def parseErr : String → Option Err
  | "err:db-not-found" => some .dbNotFound
  | "err:rp-not-found" => some .rpNotFound
  | "err:sg-not-found" => some .sgNotFound
  | "err:nil-shard-group" => some .nilShardGroup
  | "err:no-shards" => some .noShards
  | "err:rp-exists" => some .rpExists
  | "err:replica-low" => some .replicaLow
  | "err:incompatible-durations" => some .incompatible
  | _ => none

def parseShards (s : String) : Option (List ShardInfo) :=
  if s = "n" then some [] else
  (s.splitOn "+").mapM fun x => x.toNat?.map fun id => { ID := id, Owners := [] }

/-- a dumped group: the deleted flag becomes `DeletedAt = 0 (Unix epoch) / zeroTime` — only
    `Deleted` is observable -/
def parseGroup (s : String) : Option ShardGroupInfo :=
  match s.splitOn "/" with
  | [id, st, en, del, tr, sh] => do
    let id ← id.toNat?
    let st ← st.toInt?
    let en ← en.toInt?
    let del ← parseBool del
    let tr ← if tr = "n" then some zeroTime else tr.toInt?
    let sh ← parseShards sh
    some { ID := id, StartTime := st, EndTime := en, DeletedAt := if del then 0 else zeroTime,
           Shards := sh, TruncatedAt := tr }
  | _ => none

def parseGroups (s : String) : Option (List ShardGroupInfo) :=
  (splitComma s).mapM parseGroup

def parseFull (s : String) : Option (List (String × String × List ShardGroupInfo)) :=
  if s = "-" then some [] else
  (s.splitOn ";").mapM fun e =>
    match e.splitOn "|" with
    | [db, rp, gs] => (parseGroups gs).map fun gs => (db, rp, gs)
    | _ => none

def parsePlacement (s : String) : Option Placement :=
  if s = "d" then some .dropped else
  match s.splitOn "@" with
  | [sh, g] =>
    match g.splitOn "/" with
    | [gid, st, en] => do
      let sh ← sh.toNat?
      let gid ← gid.toNat?
      let st ← st.toInt?
      let en ← en.toInt?
      some (.mapped { ID := sh, Owners := [] }
        { ID := gid, StartTime := st, EndTime := en, DeletedAt := zeroTime, Shards := [{ ID := sh, Owners := [] }],
          TruncatedAt := zeroTime })
    | _ => none
  | _ => none

def parseEv (s : String) : Option Ev :=
  match s.splitOn "/" with
  | ["dsg", db, rp, id, ok] => do some (.dsg db rp (← id.toNat?) (← parseBool ok))
  | ["blk", id, ok] => do some (.block (← id.toNat?) (← parseBool ok))
  | ["unb", id] => do some (.unblock (← id.toNat?))
  | ["use", id, ok, u] => do some (.inUse (← id.toNat?) (← parseBool ok) (← parseBool u))
  | ["rm", id, r] => do some (.delete (← id.toNat?) (← r.toNat?))
  | ["ref", id, ok, ph] => do some (.dropRef (← id.toNat?) (← parseBool ok) (← parseBool ph))
  | ["prune"] => some .prune
  | _ => none

/-- strip `key=` -/
def kv (key s : String) : Option String :=
  if s.startsWith (key ++ "=") then some (s.drop (key.length + 1)).toString else none

/-- parse the answer to `op` -/
def parseObs (op : Op) (ans : String) : Option Obs :=
  if ans = "ok" then some .ok else
  if ans.startsWith "err:" then (parseErr ans).map .err else
  let toks := tokens ans
  match op, toks with
  | .csg .., ["nil"] => some (.group none)
  | .find .., ["nil"] => some (.group none)
  | .csg .., [g] | .find .., [g] => do
    let g ← kv "g" g
    match g.splitOn "/" with
    | [id, st, en] => do
      some (.group (some { ID := (← id.toNat?), StartTime := (← st.toInt?), EndTime := (← en.toInt?),
                           DeletedAt := zeroTime, Shards := [], TruncatedAt := zeroTime }))
    | _ => none
  | .ms .., [d, ps] => do
    let d ← (← kv "drop" d).toNat?
    let ps ← (splitComma ps).mapM parsePlacement
    some (.mapping { placements := ps, retentionDropped := d })
  | .dump .., [gs] => do some (.groups (← parseGroups (← kv "gs" gs)))
  | .restart, [b, a] => do some (.restarted (← parseFull (← kv "before" b)) (← parseFull (← kv "after" a)))
  | .range .., [ids] => do some (.ids (← parseNats (← kv "ids" ids)))
  | .exp .., [ids, gs] => do some (.expired (← parseNats (← kv "ids" ids)) (← parseGroups (← kv "gs" gs)))
  | .dc .., [lg, pre, loc] => do
    let lg ← (splitComma (← kv "log" lg)).mapM parseEv
    some (.dc lg (← parseFull (← kv "pre" pre)) (← parseNats (← kv "local" loc)))
  | _, _ => none

end Influx.Meta
