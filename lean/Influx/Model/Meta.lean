/-
  Influx.Model.Meta — shard-group placement, persistence and retention selection
  of `v1/services/meta/data.go` / `client.go`, written from the code as it is.
  Leaf predicates (`Contains`, `Overlaps`, `Deleted`, `Truncated`, `MarshalTime`,
  `NormalisedShardDuration`, `MinNanoTime`, `MaxNanoTime`) are the translator's
  output (`Influx.Generated.Meta`), regenerated from /repo on every run.
-/
import Influx.Model.MetaTypes
import Influx.Generated.Meta

namespace Influx.Meta
open Influx.Generated.Meta

/-- errors of the modelled entry points (small enum, as the harness canonicalises them) -/
inductive Err where
  | dbNotFound | rpNotFound | sgNotFound | nilShardGroup | noShards | rpExists | replicaLow | incompatible
deriving Repr, DecidableEq, Inhabited

def Err.str : Err → String
  | .dbNotFound => "err:db-not-found"
  | .rpNotFound => "err:rp-not-found"
  | .sgNotFound => "err:sg-not-found"
  | .nilShardGroup => "err:nil-shard-group"
  | .noShards => "err:no-shards"
  | .rpExists => "err:rp-exists"
  | .replicaLow => "err:replica-low"
  | .incompatible => "err:incompatible-durations"

/-! ### lookups (`Data.Database`, `Data.RetentionPolicy`) -/

def findDB (d : Data) (db : String) : Option DatabaseInfo :=
  d.Databases.find? (·.Name == db)

def DatabaseInfo.findRP (di : DatabaseInfo) (rp : String) : Option RetentionPolicyInfo :=
  di.RetentionPolicies.find? (·.Name == rp)

/-- `Data.RetentionPolicy`: error when the database is missing, `none` when the policy is. -/
def retentionPolicy (d : Data) (db rp : String) : Except Err (Option RetentionPolicyInfo) :=
  match findDB d db with
  | none => .error .dbNotFound
  | some di => .ok (di.findRP rp)

/-- the policy, with the `rpi == nil → ErrRetentionPolicyNotFound` step every caller performs -/
def getRP (d : Data) (db rp : String) : Except Err RetentionPolicyInfo :=
  match retentionPolicy d db rp with
  | .error e => .error e
  | .ok none => .error .rpNotFound
  | .ok (some r) => .ok r

/-- replace the first policy named `rp` of the first database named `db` (pointer update in Go) -/
def setRP (d : Data) (db rp : String) (r : RetentionPolicyInfo) : Data :=
  let rec goRP : List RetentionPolicyInfo → List RetentionPolicyInfo
    | [] => []
    | x :: xs => if x.Name == rp then r :: xs else x :: goRP xs
  let rec goDB : List DatabaseInfo → List DatabaseInfo
    | [] => []
    | x :: xs => if x.Name == db then { x with RetentionPolicies := goRP x.RetentionPolicies } :: xs
                 else x :: goDB xs
  { d with Databases := goDB d.Databases }

/-! ### `RetentionPolicyInfo.ShardGroupByTimestamp` -/

/-- the condition of the loop body -/
def sgMatches (g : ShardGroupInfo) (t : Int) : Bool :=
  Contains g t && !Deleted g && (!Truncated g || Time.Before t g.TruncatedAt)

def shardGroupByTimestamp (gs : List ShardGroupInfo) (t : Int) : Option ShardGroupInfo :=
  gs.find? (sgMatches · t)

/-! ### `ShardGroupInfos.Less` and `sort.Sort` -/

/-- end of the range a group still accepts writes for (`TruncatedAt` if truncated) -/
def effEnd (g : ShardGroupInfo) : Int :=
  if Truncated g then g.TruncatedAt else g.EndTime

/-- `ShardGroupInfos.Less` -/
def sgLess (a b : ShardGroupInfo) : Bool :=
  if effEnd a == effEnd b then Time.Before a.StartTime b.StartTime
  else Time.Before (effEnd a) (effEnd b)

/-- insertion behind every element that is not greater (stable) -/
def sgInsert (g : ShardGroupInfo) : List ShardGroupInfo → List ShardGroupInfo
  | [] => [g]
  | x :: xs => if sgLess g x then g :: x :: xs else x :: sgInsert g xs

/-- `sort.Sort(ShardGroupInfos(…))` as a stable insertion sort.  `sort.Sort` is pdqsort:
    the result is *the* sorted permutation whenever no two elements are equivalent under
    `Less`; equivalent elements (a deleted group and its replacement with identical bounds)
    may come out in either order, which no modelled observation depends on (the harness
    prints groups ordered by `(effEnd, StartTime, ID)`). -/
def sgSort (gs : List ShardGroupInfo) : List ShardGroupInfo :=
  gs.foldl (fun acc g => sgInsert g acc) []

/-! ### `Data.CreateShardGroup` -/

/-- one iteration of the clipping loop: `(startTime, endTime)` against group `g` -/
def clipStep (ts : Int) (acc : Int × Int) (g : ShardGroupInfo) : Int × Int :=
  if Deleted g then acc else
  let startI := g.StartTime
  let endI := if Truncated g then g.TruncatedAt else g.EndTime
  let s := if !Time.Before ts endI && Time.After endI acc.1 then endI else acc.1
  let e := if Time.After startI ts && Time.Before startI acc.2 then startI else acc.2
  (s, e)

/-- initial `[startTime, endTime)` before clipping.  The end is clamped at `MaxNanoTime+1`;
    with `fixes/C18-clamp-start-min-nanotime.patch` the start is clamped at `MinNanoTime`
    (before the patch a `Truncate`d start below the int64 nanosecond range wrapped in
    `MarshalTime`, DESIGN §6 F7). -/
def initialBounds (sgd : Int) (ts : Int) : Int × Int :=
  let startTime := Time.Truncate ts sgd
  let endTime := Time.Add startTime sgd
  let endTime := if Time.After endTime (Time.Unix MaxNanoTime) then Time.Unix (MaxNanoTime + 1) else endTime
  let startTime := if Time.Before startTime (Time.Unix MinNanoTime) then Time.Unix MinNanoTime else startTime
  (startTime, endTime)

/-- bounds of the group `CreateShardGroup` creates for `ts` -/
def newBounds (rp : RetentionPolicyInfo) (ts : Int) : Int × Int :=
  rp.ShardGroups.foldl (clipStep ts) (initialBounds rp.ShardGroupDuration ts)

/-- `Data.CreateShardGroup(database, policy, timestamp)` (no explicit shards: one new shard) -/
def createShardGroup (d : Data) (db rp : String) (ts : Int) : Except Err Data :=
  match getRP d db rp with
  | .error e => .error e
  | .ok r =>
    if (shardGroupByTimestamp r.ShardGroups ts).isSome then .ok d else
    let b := newBounds r ts
    let sgi : ShardGroupInfo :=
      { ID := d.MaxShardGroupID + 1, StartTime := b.1, EndTime := b.2, DeletedAt := zeroTime,
        Shards := [{ ID := d.MaxShardID + 1, Owners := [] }], TruncatedAt := zeroTime }
    let r' := { r with ShardGroups := sgSort (r.ShardGroups ++ [sgi]) }
    .ok { setRP d db rp r' with MaxShardGroupID := d.MaxShardGroupID + 1, MaxShardID := d.MaxShardID + 1 }

/-- `Client.CreateShardGroup`: returns the existing group for the timestamp, else
    `createShardGroup` (which re-reads the group by timestamp: it may be `nil`). -/
def clientCreateShardGroup (d : Data) (db rp : String) (ts : Int) :
    Except Err (Data × Option ShardGroupInfo) :=
  -- (`ShardGroupByTimestamp`'s error is ignored by the client; `CreateShardGroup` reports the same one)
  match getRP d db rp with
  | .error e => .error e
  | .ok r =>
    match shardGroupByTimestamp r.ShardGroups ts with
    | some g => .ok (d, some g)
    | none =>
      match createShardGroup d db rp ts with
      | .error e => .error e
      | .ok d' =>
        match getRP d' db rp with
        | .error e => .error e
        | .ok r' => .ok (d', shardGroupByTimestamp r'.ShardGroups ts)

/-! ### `Client.PrecreateShardGroups` -/

/-- body of the loop for one policy of the snapshot: the last group in list order decides -/
def precreateRP (from_ to : Int) (db : String) (d : Data) (r : RetentionPolicyInfo) : Data :=
  match r.ShardGroups.getLast? with
  | none => d
  | some g =>
    if !Deleted g && Time.Before g.EndTime to && Time.After g.EndTime from_ then
      let next := Time.Add g.EndTime 1
      match getRP d db r.Name with
      | .error _ =>
        -- `ShardGroupByTimestamp` fails, `createShardGroup` fails the same way: logged, skipped
        d
      | .ok r' =>
        if (shardGroupByTimestamp r'.ShardGroups next).isSome then d
        else match createShardGroup d db r.Name next with
          | .ok d' => d'
          | .error _ => d
    else d

/-- `Client.PrecreateShardGroups(from, to)`: walks the databases and policies of the data as it was
    at the start, creating the successor of each policy's last group on the live data -/
def precreateShardGroups (d : Data) (from_ to : Int) : Data :=
  d.Databases.foldl (fun acc di => di.RetentionPolicies.foldl (precreateRP from_ to di.Name) acc) d

/-! ### `Data.DeleteShardGroup`, `Data.DropShard`, `Data.PruneShardGroups` -/

/-- `Data.DeleteShardGroup`: sets `DeletedAt = now` on the first group with that id
    (also when it is already deleted). -/
def deleteShardGroup (d : Data) (db rp : String) (id : Nat) (now : Int) : Except Err Data :=
  match getRP d db rp with
  | .error e => .error e
  | .ok r =>
    if r.ShardGroups.any (·.ID == id) then
      let rec go : List ShardGroupInfo → List ShardGroupInfo
        | [] => []
        | g :: gs => if g.ID == id then { g with DeletedAt := now } :: gs else g :: go gs
      .ok (setRP d db rp { r with ShardGroups := go r.ShardGroups })
    else .error .sgNotFound

/-- `Data.DropShard` on the groups of one policy: `some` when the shard was found there -/
def dropShardGroups (id : Nat) (now : Int) : List ShardGroupInfo → Option (List ShardGroupInfo)
  | [] => none
  | g :: gs =>
    if g.Shards.any (·.ID == id) then
      let shards := g.Shards.eraseP (·.ID == id)
      let g' := { g with Shards := shards }
      let g' := if g.Shards.length == 1 && !Deleted g then { g' with DeletedAt := now } else g'
      some (g' :: gs)
    else (dropShardGroups id now gs).map (g :: ·)

def dropShardRPs (id : Nat) (now : Int) : List RetentionPolicyInfo → Option (List RetentionPolicyInfo)
  | [] => none
  | r :: rs =>
    match dropShardGroups id now r.ShardGroups with
    | some gs => some ({ r with ShardGroups := gs } :: rs)
    | none => (dropShardRPs id now rs).map (r :: ·)

def dropShardDBs (id : Nat) (now : Int) : List DatabaseInfo → Option (List DatabaseInfo)
  | [] => none
  | di :: ds =>
    match dropShardRPs id now di.RetentionPolicies with
    | some rs => some ({ di with RetentionPolicies := rs } :: ds)
    | none => (dropShardDBs id now ds).map (di :: ·)

/-- `Data.DropShard(id)`: removes the first shard with that id; no error when absent -/
def dropShard (d : Data) (id : Nat) (now : Int) : Data :=
  match dropShardDBs id now d.Databases with
  | some ds => { d with Databases := ds }
  | none => d

/-- `Data.PruneShardGroups(expiration)` -/
def pruneShardGroups (d : Data) (expiration : Int) : Data :=
  { d with Databases := d.Databases.map fun di =>
      { di with RetentionPolicies := di.RetentionPolicies.map fun r =>
          { r with ShardGroups := r.ShardGroups.filter fun g =>
              Time.IsZero g.DeletedAt || !Time.After expiration g.DeletedAt || decide (g.Shards.length > 0) } } }

/-! ### `Data.TruncateShardGroups` -/

/-- one group under `TruncateShardGroups(t)` -/
def truncateSG (t : Int) (g : ShardGroupInfo) : ShardGroupInfo :=
  if !Time.Before t g.EndTime || Deleted g || (Truncated g && Time.Before g.TruncatedAt t) then g
  else if !Time.After t g.StartTime then { g with TruncatedAt := g.StartTime }
  else { g with TruncatedAt := t }

/-- `Data.TruncateShardGroups(t)`: every group that could hold timestamps beyond `t` (the list is
    not re-sorted) -/
def truncateShardGroups (d : Data) (t : Int) : Data :=
  { d with Databases := d.Databases.map fun di =>
      { di with RetentionPolicies := di.RetentionPolicies.map fun r =>
          { r with ShardGroups := r.ShardGroups.map (truncateSG t) } } }

/-! ### retention selection (`ExpiredShardGroups`, `DeletedShardGroups`) -/

/-- `RetentionPolicyInfo.ExpiredShardGroups(t)`: tested on `EndTime`, also for a truncated group
    (its range `[StartTime, EndTime)` may hold points stored before the truncation) -/
def expiredShardGroups (r : RetentionPolicyInfo) (t : Int) : List ShardGroupInfo :=
  r.ShardGroups.filter fun g =>
    !Deleted g && (r.Duration != 0 && Time.Before (Time.Add g.EndTime r.Duration) t)

/-- `RetentionPolicyInfo.DeletedShardGroups()` -/
def deletedShardGroups (r : RetentionPolicyInfo) : List ShardGroupInfo :=
  r.ShardGroups.filter Deleted

/-! ### queries -/

/-- `Data.ShardGroupsByTimeRange` / `Client.ShardGroupsByTimeRange` -/
def shardGroupsByTimeRange (d : Data) (db rp : String) (tmin tmax : Int) : Except Err (List ShardGroupInfo) :=
  match getRP d db rp with
  | .error e => .error e
  | .ok r => .ok (r.ShardGroups.filter fun g => !(Deleted g || !Overlaps g tmin tmax))

/-! ### persistence (`marshal` / `unmarshal` through protobuf int64 fields) -/

/-- the int64 fields of `internal.ShardGroupInfo` (`TruncatedAt` is optional) -/
structure PBShardGroup where
  ID : Nat
  StartTime : Int
  EndTime : Int
  DeletedAt : Int
  TruncatedAt : Option Int
  Shards : List ShardInfo
deriving Repr, DecidableEq

/-- `UnmarshalTime` -/
def UnmarshalTime (v : Int) : Int := if v == 0 then zeroTime else Time.Unix v

/-- `ShardGroupInfo.marshal` -/
def marshalSG (g : ShardGroupInfo) : PBShardGroup :=
  { ID := g.ID, StartTime := MarshalTime g.StartTime, EndTime := MarshalTime g.EndTime,
    DeletedAt := MarshalTime g.DeletedAt,
    TruncatedAt := if !Time.IsZero g.TruncatedAt then some (MarshalTime g.TruncatedAt) else none,
    Shards := g.Shards }

/-- `ShardGroupInfo.unmarshal` (note the `0 ⇒ Unix epoch` special case for the bounds only) -/
def unmarshalSG (pb : PBShardGroup) : ShardGroupInfo :=
  { ID := pb.ID,
    StartTime := if pb.StartTime == 0 then Time.Unix 0 else UnmarshalTime pb.StartTime,
    EndTime := if pb.EndTime == 0 then Time.Unix 0 else UnmarshalTime pb.EndTime,
    DeletedAt := UnmarshalTime pb.DeletedAt,
    TruncatedAt := match pb.TruncatedAt with
      | some v => UnmarshalTime v
      | none => zeroTime,
    Shards := pb.Shards }

/-- one group through `MarshalBinary`/`UnmarshalBinary` (protobuf itself: identity on int64) -/
def reloadSG (g : ShardGroupInfo) : ShardGroupInfo := unmarshalSG (marshalSG g)

/-- `Data` through snapshot + load (`Client.commit` … `Client.Open`) -/
def reload (d : Data) : Data :=
  { d with Databases := d.Databases.map fun di =>
      { di with RetentionPolicies := di.RetentionPolicies.map fun r =>
          { r with ShardGroups := r.ShardGroups.map reloadSG } } }

end Influx.Meta
