/-
  Model.Float — the part of IEEE-754 binary64 arithmetic that `humanize.ParseBytes`
  and `time.ParseDuration` use: correctly rounded (nearest, ties to even)
  conversion of a non-negative rational to a `float64`, product and quotient of
  two such values, comparison and truncation to an integer.

  A finite non-negative float64 is represented by its exact value `m * 2^e`
  (`m : Nat`, `e : Int`); `none` stands for `+Inf`.  Go's `strconv.ParseFloat`,
  `float64(uint64)`, `*` and `/` are all correctly rounded, so each is
  "exact result, then `roundQ`".
-/
namespace Influx.Model.Float

/-- exact value `m * 2^e` -/
structure F where
  m : Nat
  e : Int
deriving Repr, DecidableEq

/-- `2^k` for `k : Int`, as numerator/denominator contribution -/
def pow2 (k : Nat) : Nat := 2 ^ k

/-- floor(log2 (p/q)) for p, q > 0 -/
def floorLog2Q (p q : Nat) : Int :=
  let l : Int := (Nat.log2 p : Int) - (Nat.log2 q : Int)
  -- the true value is `l` or `l - 1`
  let ge : Bool :=
    if l ≥ 0 then decide (p ≥ q * 2 ^ l.toNat) else decide (p * 2 ^ (-l).toNat ≥ q)
  if ge then l else l - 1

/-- round-half-even of `num/den` (den > 0) to an integer -/
def roundHalfEven (num den : Nat) : Nat :=
  let q := num / den
  let r := num % den
  if 2 * r > den then q + 1
  else if 2 * r = den then (if q % 2 = 1 then q + 1 else q)
  else q

/-- nearest-even binary64 of the non-negative rational `p/q` (`q > 0`); `none` = overflow (+Inf).
    Subnormals are handled by the exponent floor `-1074`. -/
def roundQ (p q : Nat) : Option F :=
  if p = 0 then some ⟨0, 0⟩
  else
    let L := floorLog2Q p q
    let u : Int := if L - 52 < -1074 then -1074 else L - 52
    let M := if u ≥ 0 then roundHalfEven p (q * 2 ^ u.toNat) else roundHalfEven (p * 2 ^ (-u).toNat) q
    -- overflow: the rounded value reaches 2^1024
    if u + 53 > 1024 ∨ (u + 53 = 1024 ∧ M ≥ 2 ^ 53) then none else some ⟨M, u⟩

/-- `float64(n)` for an unsigned integer -/
def ofNat (n : Nat) : Option F := roundQ n 1

/-- the exact value as a fraction -/
def F.num (f : F) : Nat := if f.e ≥ 0 then f.m * 2 ^ f.e.toNat else f.m
def F.den (f : F) : Nat := if f.e ≥ 0 then 1 else 2 ^ (-f.e).toNat

/-- `a * b`, correctly rounded -/
def mul (a b : F) : Option F := roundQ (a.num * b.num) (a.den * b.den)

/-- `a / b` for `b ≠ 0`, correctly rounded -/
def div (a b : F) : Option F :=
  if b.m = 0 then none else roundQ (a.num * b.den) (a.den * b.num)

/-- `a >= n` for an integer `n` -/
def geNat (a : F) (n : Nat) : Bool := a.num ≥ n * a.den

/-- `uint64(a)`: truncation (the callers guarantee `a < 2^64`) -/
def trunc (a : F) : Nat := a.num / a.den

end Influx.Model.Float
