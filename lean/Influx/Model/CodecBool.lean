/-
  Influx.Model.CodecBool — boolean codec.
  Go: tsdb/engine/tsm1/bool.go (BooleanEncoder/Decoder), batch_boolean.go (BooleanArrayEncodeAll/DecodeAll).
  Both encoders emit: header byte, uvarint count, bits MSB-first padded with zero bits.
-/
import Influx.Model.CodecBase
import Influx.Generated.Codec

namespace Influx.Codec
open Influx.Generated.Codec

/-- scalar and batch encoders (identical output) -/
def boolEncode (vs : List Bool) : Bytes :=
  (booleanCompressedBitPacked * 16) :: (putUvarint vs.length ++ packBits vs)

/-- both decoders: `count` capped by the bits present; `none` = invalid count varint -/
def boolDecode (b : Bytes) : Option (List Bool) :=
  match b with
  | [] => some []
  | _ :: body =>
    match getUvarint body with
    | none => none
    | some (cnt, rest) => some ((bitsOfBytes rest).take cnt)

end Influx.Codec
