/-
  Model.LockOrderExtracted — the nested-acquisition relation of the named mutexes of
  tsdb and tsdb/engine/tsm1, as printed by `go/cmd/c39` (lockorder.go) from /repo's
  source.  This is a COMMITTED COPY for the kernel-checked theorem
  `C39_extracted_acyclic`; the check itself re-extracts the relation from the
  current tree on every run, decides it with the same verified function
  (`LockOrder.isAcyclic`) and reports whether it still equals this copy.
  To refresh: `go run ./cmd/c39 lockorder-lean > lean/Influx/Model/LockOrderExtracted.lean`.
-/
import Influx.Model.LockOrder

namespace Influx.LockOrder

/-- (held, acquired) — witness function in the comment -/
def extractedEdges : List (Lock × Lock) := [
  ("tsdb.MeasurementFieldSet.mu", "tsm1.Cache.mu"),
  ("tsdb.MeasurementFieldSet.mu", "tsm1.FileStore.slowMu"),
  ("tsdb.MeasurementFieldSet.mu", "tsm1.indirectIndex.mu"),
  ("tsdb.SeriesFile.refs", "tsdb.SeriesPartition.mu"),
  ("tsdb.SeriesIDSet.RWMutex", "tsdb.SeriesPartition.mu"),
  ("tsdb.Shard.mu", "tsdb.MeasurementFieldSet.mu"),
  ("tsdb.Shard.mu", "tsdb.measurementFieldSetChangeMgr.mu"),
  ("tsdb.Shard.mu", "tsm1.Cache.mu"),
  ("tsdb.Shard.mu", "tsm1.Compactor.mu"),
  ("tsdb.Shard.mu", "tsm1.DefaultPlanner.mu"),
  ("tsdb.Shard.mu", "tsm1.Engine.mu"),
  ("tsdb.Shard.mu", "tsm1.FileStore.fastMu"),
  ("tsdb.Shard.mu", "tsm1.FileStore.slowMu"),
  ("tsdb.Shard.mu", "tsm1.TSMReader.mu"),
  ("tsdb.Shard.mu", "tsm1.Tombstoner.mu"),
  ("tsdb.Shard.mu", "tsm1.WAL.mu"),
  ("tsdb.Shard.mu", "tsm1.indirectIndex.mu"),
  ("tsdb.Shard.mu", "tsm1.mmapAccessor.mu"),
  ("tsdb.Shard.mu", "tsm1.purger.mu"),
  ("tsdb.Store.mu", "tsdb.MeasurementFieldSet.mu"),
  ("tsdb.Store.mu", "tsdb.SeriesFile.refs"),
  ("tsdb.Store.mu", "tsdb.SeriesIDSet.RWMutex"),
  ("tsdb.Store.mu", "tsdb.SeriesPartition.mu"),
  ("tsdb.Store.mu", "tsdb.Shard.mu"),
  ("tsdb.Store.mu", "tsdb.measurementFieldSetChangeMgr.mu"),
  ("tsdb.Store.mu", "tsdb.shardErrorMap.mu"),
  ("tsdb.Store.mu", "tsm1.Cache.mu"),
  ("tsdb.Store.mu", "tsm1.Compactor.mu"),
  ("tsdb.Store.mu", "tsm1.DefaultPlanner.mu"),
  ("tsdb.Store.mu", "tsm1.Engine.mu"),
  ("tsdb.Store.mu", "tsm1.FileStore.fastMu"),
  ("tsdb.Store.mu", "tsm1.FileStore.slowMu"),
  ("tsdb.Store.mu", "tsm1.TSMReader.mu"),
  ("tsdb.Store.mu", "tsm1.Tombstoner.mu"),
  ("tsdb.Store.mu", "tsm1.WAL.mu"),
  ("tsdb.Store.mu", "tsm1.indirectIndex.mu"),
  ("tsdb.Store.mu", "tsm1.mmapAccessor.mu"),
  ("tsdb.Store.mu", "tsm1.purger.mu"),
  ("tsm1.DefaultPlanner.mu", "tsm1.FileStore.fastMu"),
  ("tsm1.DefaultPlanner.mu", "tsm1.FileStore.slowMu"),
  ("tsm1.DefaultPlanner.mu", "tsm1.TSMReader.mu"),
  ("tsm1.DefaultPlanner.mu", "tsm1.Tombstoner.mu"),
  ("tsm1.DefaultPlanner.mu", "tsm1.indirectIndex.mu"),
  ("tsm1.DefaultPlanner.mu", "tsm1.mmapAccessor.mu"),
  ("tsm1.Engine.mu", "tsdb.MeasurementFieldSet.mu"),
  ("tsm1.Engine.mu", "tsm1.Cache.mu"),
  ("tsm1.Engine.mu", "tsm1.Compactor.mu"),
  ("tsm1.Engine.mu", "tsm1.FileStore.fastMu"),
  ("tsm1.Engine.mu", "tsm1.FileStore.slowMu"),
  ("tsm1.Engine.mu", "tsm1.TSMReader.mu"),
  ("tsm1.Engine.mu", "tsm1.Tombstoner.mu"),
  ("tsm1.Engine.mu", "tsm1.WAL.mu"),
  ("tsm1.Engine.mu", "tsm1.indirectIndex.mu"),
  ("tsm1.Engine.mu", "tsm1.mmapAccessor.mu"),
  ("tsm1.Engine.mu", "tsm1.purger.mu"),
  ("tsm1.Engine.muDigest", "tsm1.FileStore.fastMu"),
  ("tsm1.Engine.muDigest", "tsm1.TSMReader.mu"),
  ("tsm1.Engine.muDigest", "tsm1.Tombstoner.mu"),
  ("tsm1.Engine.muDigest", "tsm1.WAL.mu"),
  ("tsm1.Engine.muDigest", "tsm1.indirectIndex.mu"),
  ("tsm1.Engine.muDigest", "tsm1.mmapAccessor.mu"),
  ("tsm1.FileStore.fastMu", "tsm1.TSMReader.mu"),
  ("tsm1.FileStore.fastMu", "tsm1.Tombstoner.mu"),
  ("tsm1.FileStore.fastMu", "tsm1.indirectIndex.mu"),
  ("tsm1.FileStore.fastMu", "tsm1.mmapAccessor.mu"),
  ("tsm1.FileStore.fastMu", "tsm1.purger.mu"),
  ("tsm1.FileStore.slowMu", "tsm1.FileStore.fastMu"),
  ("tsm1.FileStore.slowMu", "tsm1.TSMReader.deleteMu"),
  ("tsm1.FileStore.slowMu", "tsm1.TSMReader.mu"),
  ("tsm1.FileStore.slowMu", "tsm1.Tombstoner.mu"),
  ("tsm1.FileStore.slowMu", "tsm1.indirectIndex.mu"),
  ("tsm1.FileStore.slowMu", "tsm1.mmapAccessor.mu"),
  ("tsm1.FileStore.slowMu", "tsm1.purger.mu"),
  ("tsm1.TSMReader.deleteMu", "tsm1.Tombstoner.mu"),
  ("tsm1.TSMReader.deleteMu", "tsm1.indirectIndex.mu"),
  ("tsm1.TSMReader.mu", "tsm1.Tombstoner.mu"),
  ("tsm1.TSMReader.mu", "tsm1.indirectIndex.mu"),
  ("tsm1.TSMReader.mu", "tsm1.mmapAccessor.mu"),
  ("tsm1.mmapAccessor.mu", "tsm1.indirectIndex.mu"),
  ("tsm1.partition.mu", "tsm1.entry.mu"),
  ("tsm1.purger.mu", "tsm1.TSMReader.mu"),
  ("tsm1.purger.mu", "tsm1.Tombstoner.mu"),
  ("tsm1.purger.mu", "tsm1.mmapAccessor.mu")
]

/-- a topological order of `extractedEdges` (certificate checked by `checkOrder`) -/
def extractedOrder : List Lock := [
  "tsdb.Store.mu", "tsdb.SeriesFile.refs", "tsdb.SeriesIDSet.RWMutex", "tsdb.SeriesPartition.mu", "tsdb.Shard.mu",
  "tsdb.measurementFieldSetChangeMgr.mu", "tsm1.DefaultPlanner.mu", "tsm1.Engine.mu", "tsdb.MeasurementFieldSet.mu",
  "tsm1.Cache.mu", "tsm1.FileStore.slowMu", "tsm1.Compactor.mu", "tsdb.shardErrorMap.mu", "tsm1.Engine.muDigest",
  "tsm1.FileStore.fastMu", "tsm1.WAL.mu", "tsm1.purger.mu", "tsm1.TSMReader.mu", "tsm1.mmapAccessor.mu",
  "tsm1.TSMReader.deleteMu", "tsm1.indirectIndex.mu", "tsm1.Tombstoner.mu", "tsm1.partition.mu", "tsm1.entry.mu"
]

end Influx.LockOrder
