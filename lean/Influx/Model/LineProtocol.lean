/-
  Influx.Model.LineProtocol — bytes, escaping and series keys of the line protocol.

  Written from /repo/models/points.go and /repo/pkg/escape/{bytes,strings}.go as
  they are.  A byte is a `Nat` (the drivers only ever produce values < 256; no
  theorem needs the bound), a byte string is a `List Nat`.  All functions are
  total and structurally recursive, so `decide` can evaluate them in the kernel.

  Index-based Go loops (`buf[i]`, `buf[i-1]`) are written as recursion over the
  remaining suffix with the look-behind byte carried as an argument.
-/
import Influx.Generated.LineProto

namespace Influx.LP

abbrev Bytes := List Nat

/-! ### byte constants (ASCII) -/
abbrev cBS : Nat := 92      -- '\\'
abbrev cComma : Nat := 44   -- ','
abbrev cSpace : Nat := 32   -- ' '
abbrev cEq : Nat := 61      -- '='
abbrev cQuote : Nat := 34   -- '"'
abbrev cNL : Nat := 10      -- '\n'

/-- the bytes of an ASCII string literal (used for messages and constants only;
    `String.toList` reduces in the kernel, `toUTF8` does not) -/
def str (s : String) : Bytes := s.toList.map (·.toNat)

/-- `bytes.Compare` -/
def cmpBytes : Bytes → Bytes → Ordering
  | [], [] => .eq
  | [], _ :: _ => .lt
  | _ :: _, [] => .gt
  | a :: as, b :: bs => if a < b then .lt else if b < a then .gt else cmpBytes as bs

/-! ### `bytes.Replace` chains of points.go -/

/-- `bytes.Replace(in, []byte{k}, []byte{e1,e2}, -1)` -/
def replace12 (k e1 e2 : Nat) : Bytes → Bytes
  | [] => []
  | b :: rest => if b = k then e1 :: e2 :: replace12 k e1 e2 rest else b :: replace12 k e1 e2 rest

/-- `bytes.Replace(in, []byte{e1,e2}, []byte{k}, -1)`: non-overlapping, left to right -/
def replace21 (e1 e2 k : Nat) : Bytes → Bytes
  | [] => []
  | [b] => [b]
  | a :: b :: rest =>
    if a = e1 ∧ b = e2 then k :: replace21 e1 e2 k rest else a :: replace21 e1 e2 k (b :: rest)

/-- an `escapeSet{k, esc}` row: (k, esc[0], esc[1]) -/
abbrev EscRow := Nat × Nat × Nat

/-- `measurementEscapeCodes` (points.go:54) -/
def measurementEscapeCodes : List EscRow := [(cComma, cBS, cComma), (cSpace, cBS, cSpace)]
/-- `tagEscapeCodes` (points.go:59) -/
def tagEscapeCodes : List EscRow := [(cComma, cBS, cComma), (cSpace, cBS, cSpace), (cEq, cBS, cEq)]

/-- the loop shared by `EscapeMeasurement` / `escapeTag` -/
def escapeWith (codes : List EscRow) (s : Bytes) : Bytes :=
  codes.foldl (fun s c => if s.contains c.1 then replace12 c.1 c.2.1 c.2.2 s else s) s

/-- the loop shared by `unescapeMeasurement` / `unescapeTag` -/
def unescapeWith (codes : List EscRow) (s : Bytes) : Bytes :=
  if !s.contains cBS then s else
  codes.foldl (fun s c => if s.contains c.1 then replace21 c.2.1 c.2.2 c.1 s else s) s

def escapeMeasurement := escapeWith measurementEscapeCodes
def unescapeMeasurement := unescapeWith measurementEscapeCodes
def escapeTag := escapeWith tagEscapeCodes
def unescapeTag := unescapeWith tagEscapeCodes

/-! ### pkg/escape -/

/-- `escapeChars = ," =` -/
def isEscapeChar (c : Nat) : Bool := c == cComma || c == cQuote || c == cSpace || c == cEq

/-- `escape.String` (strings.NewReplacer, one pass) -/
def escapeString : Bytes → Bytes
  | [] => []
  | b :: rest => if isEscapeChar b then cBS :: b :: escapeString rest else b :: escapeString rest

/-- `escape.Unescape` / `escape.AppendUnescaped` (same function; `Unescape` returns nil for empty) -/
def unescape : Bytes → Bytes
  | [] => []
  | [b] => [b]
  | a :: b :: rest =>
    if a = cBS ∧ isEscapeChar b then b :: unescape rest else a :: unescape (b :: rest)

/-- `escape.IsEscaped` -/
def isEscaped : Bytes → Bool
  | [] => false
  | [_] => false
  | a :: b :: rest => (a == cBS && isEscapeChar b) || isEscaped (b :: rest)

/-- `EscapeStringField` -/
def escapeStringField : Bytes → Bytes
  | [] => []
  | b :: rest =>
    if b = cQuote ∨ b = cBS then cBS :: b :: escapeStringField rest else b :: escapeStringField rest

/-- `unescapeStringField` -/
def unescapeStringField : Bytes → Bytes
  | [] => []
  | [b] => [b]
  | a :: b :: rest =>
    if a = cBS ∧ (b = cBS ∨ b = cQuote) then b :: unescapeStringField rest
    else a :: unescapeStringField (b :: rest)

/-! ### tags and `MakeKey` -/

structure Tag where
  key : Bytes
  value : Bytes
deriving DecidableEq, Repr, Inhabited

/-- `Tags.needsEscape` -/
def needsEscape (tags : List Tag) : Bool :=
  tags.any fun t => tagEscapeCodes.any fun c => t.key.contains c.1 || t.value.contains c.1

/-- `Tags.AppendHashKey(dst, true)` -/
def appendHashKey (tags : List Tag) : Bytes :=
  let escaped := if needsEscape tags then tags.map (fun t => ⟨escapeTag t.key, escapeTag t.value⟩) else tags
  escaped.flatMap fun t => if t.value.isEmpty then [] else cComma :: t.key ++ cEq :: t.value

/-- `MakeKey` -/
def makeKey (name : Bytes) (tags : List Tag) : Bytes :=
  escapeMeasurement (unescapeMeasurement name) ++ appendHashKey tags

/-! ### scanners used on keys -/

/-- `scanTo(buf, i, stop)`: bytes up to the first `stop` not preceded by a backslash
    (`pbs` = "i ≠ 0 and buf[i-1] is a backslash" at the start); returns (taken, rest). -/
def scanTo (stop : Nat) : Bool → Bytes → Bytes × Bytes
  | _, [] => ([], [])
  | pbs, b :: rest =>
    if b = stop ∧ pbs = false then ([], b :: rest)
    else ((b :: (scanTo stop (b == cBS) rest).1), (scanTo stop (b == cBS) rest).2)

/-- `scanTagValue(buf, i)` (walkTags): up to the first unescaped comma -/
def scanTagValue : Bool → Bytes → Bytes × Bytes
  | _, [] => ([], [])
  | pbs, b :: rest =>
    if b = cComma ∧ pbs = false then ([], b :: rest)
    else ((b :: (scanTagValue (b == cBS) rest).1), (scanTagValue (b == cBS) rest).2)

inductive MeasEnd
  | tags (rest : Bytes)      -- unescaped comma seen; `rest` starts after it (tagKeyState, i+1)
  | fields (rest : Bytes)    -- unescaped space seen; `rest` starts at it (fieldsState, i)
  | eof                      -- "missing fields": ran off the end (state -1, i = len)
  | noname                   -- "missing measurement" (state -1, i unchanged)
deriving DecidableEq, Repr

/-- loop of `scanMeasurement`: `prev` = buf[i-1] -/
def scanMeasAux : Nat → Bytes → Bytes × MeasEnd
  | _, [] => ([], .eof)
  | prev, b :: rest =>
    if prev ≠ cBS ∧ b = cComma then ([], .tags rest)
    else if prev ≠ cBS ∧ b = cSpace then ([], .fields (b :: rest))
    else (b :: (scanMeasAux b rest).1, (scanMeasAux b rest).2)

/-- `scanMeasurement(buf, 0)`: (buf[:i] without the delimiter, how it ended) -/
def scanMeasurement : Bytes → Bytes × MeasEnd
  | [] => ([], .noname)
  | b :: rest =>
    if b = cComma then ([], .noname)
    else (b :: (scanMeasAux b rest).1, (scanMeasAux b rest).2)

/-- the loop of `walkTags` after the measurement name; `fuel` bounds the iterations
    (every iteration consumes at least one byte; `walkTags` passes the length). -/
def walkTagsLoop (hasEscape : Bool) : Nat → Bytes → List Tag
  | 0, _ => []
  | _, [] => []
  | fuel + 1, b :: r =>
    let s1 := scanTo cEq false (b :: r)
    -- `scanTagValue(buf, i+1)`: skips the '=' (or starts beyond the end)
    let s2 := scanTagValue false (s1.2.drop 1)
    if s2.1.isEmpty then
      -- `continue` without `i++`
      walkTagsLoop hasEscape fuel s2.2
    else
      (if hasEscape then ⟨unescapeTag s1.1, unescapeTag s2.1⟩ else ⟨s1.1, s2.1⟩) ::
        walkTagsLoop hasEscape fuel (s2.2.drop 1)

/-- `walkTags(buf, fn)` collecting the pairs handed to `fn` -/
def walkTags (buf : Bytes) : List Tag :=
  if buf.isEmpty then [] else
  let s := scanTo cComma false buf
  if s.1.isEmpty then [] else
  walkTagsLoop (buf.contains cBS) buf.length (s.2.drop 1)

/-- `parseTags(buf, nil)`; `none` = index out of range on `dst[i]` -/
def parseTags (buf : Bytes) : Option (List Tag) :=
  let tags := walkTags buf
  if tags.length ≤ buf.count cComma then some tags else none

/-- `ParseKeyBytes(buf)`; `none` = panic -/
def parseKeyBytes (buf : Bytes) : Option (Bytes × List Tag) :=
  match scanMeasurement buf with
  | (name, .tags _) => (parseTags buf).map fun tags => (unescapeMeasurement name, tags)
  | (name, _) => some (unescapeMeasurement name, [])

end Influx.LP
