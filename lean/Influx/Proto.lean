/-
  Influx.Proto — the line protocol shared by every model driver.

  A *case file* is a sequence of lines.  A line starting with `#case <id>`
  starts a new case (the model state is reset to `init`); every other
  non-empty line is one operation, tokens separated by single spaces.
  Byte strings are hex-encoded (`-` is the empty string), integers are
  decimal, floats are 16 hex digits of their IEEE-754 bit pattern.

  Modes of a driver executable:
    model   : stdin = case file; stdout = `#case <id>` echoed, then one answer
              line per operation (what the MODEL answers).
    oracle  : stdin = case file in which every operation line carries the
              IMPLEMENTATION's answer after a TAB; stdout = one verdict line
              per case: `ok <id> nt=<0|1> <tags…>` or `fail <id> <reason>`.
              The verdict is computed by the property's `holdsOn`, the same
              definition the property theorem is about.

  Core-only (no Mathlib) so that drivers can be compiled with `lean_exe`.
-/

namespace Influx.Proto

/-- Split a line into space-separated tokens, dropping empty tokens. -/
def tokens (line : String) : List String :=
  (line.splitOn " ").filter (· ≠ "")

def hexDigit (n : Nat) : Char :=
  if n < 10 then Char.ofNat (48 + n) else Char.ofNat (87 + n)

def hexVal (c : Char) : Option Nat :=
  let n := c.toNat
  if 48 ≤ n ∧ n ≤ 57 then some (n - 48)
  else if 97 ≤ n ∧ n ≤ 102 then some (n - 87)
  else if 65 ≤ n ∧ n ≤ 70 then some (n - 55)
  else none

/-- hex string → bytes (as `Nat`s below 256); `-` is the empty byte string. -/
def hexDecode (s : String) : Option (List Nat) :=
  if s = "-" then some [] else
  let rec go : List Char → Option (List Nat)
    | [] => some []
    | [_] => none
    | a :: b :: rest =>
      match hexVal a, hexVal b, go rest with
      | some x, some y, some r => some ((16 * x + y) :: r)
      | _, _, _ => none
  go s.toList

def hexEncode (bs : List Nat) : String :=
  if bs.isEmpty then "-" else
  String.ofList (bs.flatMap fun b => [hexDigit ((b / 16) % 16), hexDigit (b % 16)])

/-- hex string → `String` of those bytes, for ASCII-only payloads. -/
def hexToString (s : String) : Option String :=
  (hexDecode s).map fun bs => String.ofList (bs.map Char.ofNat)

def stringToHex (s : String) : String :=
  hexEncode (s.toUTF8.toList.map UInt8.toNat)

/-- exactly 16 hex digits → the 64-bit pattern as a `Nat`. -/
def hex64 (s : String) : Option Nat :=
  if s.length ≠ 16 then none else
  s.toList.foldl (fun acc c => match acc, hexVal c with
    | some a, some v => some (16 * a + v)
    | _, _ => none) (some 0)

def toHex64 (n : Nat) : String :=
  String.ofList ((List.range 16).reverse.map fun i => hexDigit ((n / 16 ^ i) % 16))

def boolStr (b : Bool) : String := if b then "1" else "0"

def parseBool (s : String) : Option Bool :=
  if s = "1" then some true else if s = "0" then some false else none

/-- `[a,b,c]` ↦ `a,b,c` (`-` for the empty list): one token. -/
def joinComma (xs : List String) : String :=
  if xs.isEmpty then "-" else ",".intercalate xs

def splitComma (s : String) : List String :=
  if s = "-" then [] else s.splitOn ","

def parseInts (s : String) : Option (List Int) :=
  (splitComma s).mapM String.toInt?

def parseNats (s : String) : Option (List Nat) :=
  (splitComma s).mapM String.toNat?

def showInts (xs : List Int) : String := joinComma (xs.map toString)
def showNats (xs : List Nat) : String := joinComma (xs.map toString)

/-- Verdict of a property's statement checker on one case. -/
structure Verdict where
  ok : Bool
  /-- the case exercised at least one non-trivial branch by the property's rule -/
  nontrivial : Bool := false
  /-- branch / feature labels for the evidence histogram -/
  tags : List String := []
  /-- why it failed (one token-ish phrase, no newlines) -/
  reason : String := ""
deriving Repr

def Verdict.pass (nt : Bool := true) (tags : List String := []) : Verdict :=
  { ok := true, nontrivial := nt, tags := tags }
def Verdict.fail (reason : String) (tags : List String := []) : Verdict :=
  { ok := false, nontrivial := true, tags := tags, reason := reason }

/-- Conjunction of verdicts over the ops of a case. -/
def Verdict.and (a b : Verdict) : Verdict :=
  { ok := a.ok && b.ok, nontrivial := a.nontrivial || b.nontrivial,
    tags := a.tags ++ b.tags.filter (fun t => !a.tags.contains t),
    reason := if a.ok then b.reason else a.reason }

/--
  A driver: the model (`init`, `step` on token lists, answers rendered to one
  line) and the statement checker `oracle` applied to a list of
  (operation tokens, observed answer) pairs of one case.
-/
structure Driver (σ : Type) where
  init : σ
  step : σ → List String → σ × String
  oracle : List (List String × String) → Verdict

private def flushCase (out : IO.FS.Stream) (d : Driver σ) (id : String)
    (acc : List (List String × String)) : IO Unit := do
  if id = "" && acc.isEmpty then return ()
  let v := d.oracle acc.reverse
  if v.ok then
    out.putStrLn s!"ok {id} nt={boolStr v.nontrivial} {" ".intercalate v.tags}"
  else
    out.putStrLn s!"fail {id} {v.reason} {" ".intercalate v.tags}"

private def stripNL (s : String) : String :=
  let cs := s.toList
  let cs := if cs.getLast? = some '\n' then cs.dropLast else cs
  let cs := if cs.getLast? = some '\r' then cs.dropLast else cs
  String.ofList cs

partial def modelLoop (inp out : IO.FS.Stream) (d : Driver σ) (s : σ) : IO Unit := do
  let raw ← inp.getLine
  if raw.isEmpty then return ()
  let line := stripNL raw
  if line.startsWith "#case" then
    out.putStrLn line
    modelLoop inp out d d.init
  else if line = "" then
    modelLoop inp out d s
  else
    let opPart := (line.splitOn "\t").headD ""
    let (s', ans) := d.step s (tokens opPart)
    out.putStrLn ans
    modelLoop inp out d s'

partial def oracleLoop (inp out : IO.FS.Stream) (d : Driver σ) (id : String)
    (acc : List (List String × String)) : IO Unit := do
  let raw ← inp.getLine
  if raw.isEmpty then
    flushCase out d id acc
    return ()
  let line := stripNL raw
  if line.startsWith "#case" then
    flushCase out d id acc
    let id' := ((tokens line).drop 1).headD "?"
    oracleLoop inp out d id' []
  else if line = "" then
    oracleLoop inp out d id acc
  else
    match line.splitOn "\t" with
    | [op, ans] => oracleLoop inp out d id ((tokens op, ans) :: acc)
    | _ => oracleLoop inp out d id ((tokens line, "<no-answer>") :: acc)

def Driver.main (d : Driver σ) (args : List String) : IO UInt32 := do
  let inp ← IO.getStdin
  let out ← IO.getStdout
  match args with
  | ["model"] => modelLoop inp out d d.init; return 0
  | ["oracle"] => oracleLoop inp out d "" []; return 0
  | _ => IO.eprintln "usage: drv (model|oracle) < cases"; return 2

end Influx.Proto
