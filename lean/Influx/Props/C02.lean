/-
  Props.C02 — Acknowledged writes and deletes survive a crash at any point.

  Model: `Influx.Model.Engine` with its WAL (closed segments + current segment; a record is
  durable when the op that appended it has returned), TSM files with durable tombstones, and
  `Engine.Open` = reload files, replay every WAL segment in order into an empty cache.
  Crash images: any step boundary (also between the sub-steps of a snapshot commit and inside
  FileStore.replace of a compaction), the WAL record of the op in flight torn off, a delete
  interrupted after its tombstones.

  `C02_partial` carries the hypothesis `safeFrom` (no delete covers a point of the in-flight
  snapshot store): without it the statement is false — DESIGN §6 F1 (`C02_full_fails`).
  WAL framing (a torn tail is dropped, everything before it is kept): `Props.C02.wal_*` below,
  over the byte-level reader of `Model.EngineWal`.
-/
import Influx.Lemmas.EngineC02
import Influx.Lemmas.EngineWal
import Influx.Lemmas.EngineSrc

namespace Influx.Props.C02
open Influx.Model.Engine Influx.Spec.C03 Influx.Spec.C02

/-- the hypothesis of `C02_partial` (`opSafe`, decidable on the history): no delete covers a point
    of the in-flight / pending snapshot store (F1), and no failed snapshot attempt is retried after
    further writes (F18) -/
def safeFrom (s : State) : List Op → Bool
  | [] => true
  | op :: ops => opSafe s op && safeFrom (step s op).1 ops

/-- every operation of the model except the deliberately wrong non-contiguous compaction -/
def inScope' : Op → Bool
  | .compactSet _ => false
  | _ => true

/-- **Recovery at any step boundary** (also between the sub-steps of a snapshot commit): the
    reopened shard holds exactly what the running one held. -/
theorem C02_clean_crash {s : State} (h : Good s) (k : Key) (t : Int) :
    (step s (.crash false)).1.abs k t = s.abs k t := by
  have : (step s (.crash false)).1 = openWith s s.files s.wal := by
    simp [step, stepCrash, State.wal]
  rw [this]; exact abs_openWith_same h.inv h.wal s.files (fun _ _ => rfl) k t

/-- **A torn WAL tail loses exactly the write that was in flight.** -/
theorem C02_torn_write {s : State} (h : Good s) (es : Log) (k : Key) (t : Int) :
    (step (step s (.write es)).1 (.crash true)).1.abs k t = s.abs k t := abs_tornWrite h es k t

/-- **A crash inside FileStore.replace of a compaction** (after the new file is renamed, after
    any number of old files are removed) loses nothing and resurrects nothing. -/
theorem C02_compaction_crash {s : State} (h : Good s) (i j : Nat) (pt : CPoint) (n : Nat) (k : Key) (t : Int) :
    (step s (.compactCrash i j pt n)).1.abs k t = s.abs k t := by
  simp only [step]
  apply abs_openWith_same h.inv h.wal
  intro k t
  by_cases hv : validGroup s.files i j = true
  · simp only [hv, if_true]; exact get_compactCrashFiles _ _ _ (validGroup_le hv) _ _ k t
  · simp [hv]

/-- the reopened shard satisfies the engine invariants again: further operations are covered -/
theorem C02_reopen_good {s : State} (h : Good s) (tear : Bool) : Good (step s (.crash tear)).1 :=
  good_stepCrash h.wal tear

/-! ### nothing that was never written appears — unconditionally -/

/-- every point of every write operation of a history (acknowledged or torn by a crash) -/
def allWrites : List Op → Log
  | [] => []
  | .write es :: ops => es ++ allWrites ops
  | _ :: ops => allWrites ops

theorem allWrites_cons (op : Op) (ops : List Op) :
    allWrites (op :: ops) = (match op with | .write es => es | _ => []) ++ allWrites ops := by
  cases op <;> simp [allWrites]

theorem rows_from_writes (ops : List Op) : ∀ (s : State) (W : Log), Src s W →
    ∀ k lo hi asc r, (Op.read k lo hi asc, Obs.rows r) ∈ (runFrom s ops).2 →
    ∀ p ∈ r, (⟨k, p.1, p.2⟩ : Entry) ∈ W ++ allWrites ops := by
  induction ops with
  | nil => intro s W _ k lo hi asc r h; simp [runFrom] at h
  | cons op ops ih =>
    intro s W hs k lo hi asc r h p hp
    simp only [runFrom, List.mem_cons] at h
    rw [allWrites_cons, ← List.append_assoc]
    rcases h with h | h
    · -- this very read
      have hop : op = .read k lo hi asc := (Prod.mk.inj h).1.symm
      subst hop
      have hr : r = s.read k lo hi asc := by
        have := (Prod.mk.inj h).2
        simp only [step, Obs.rows.injEq] at this
        exact this
      subst hr
      exact List.mem_append.mpr (Or.inl (List.mem_append.mpr (Or.inl (hs _ (read_row_stored s k lo hi asc p hp)))))
    · exact ih _ _ (src_step hs op) k lo hi asc r h p hp

/-- **Nothing that was never written appears** — for EVERY history of the model (no hypothesis:
    also F1/F18 histories, torn WAL tails, crashes inside commits, non-contiguous compactions):
    every row any read ever returns carries a value that some write operation of the history
    wrote to that series/field/timestamp. -/
theorem C02_no_phantom (ops : List Op) (k : Key) (lo hi : Int) (asc : Bool) (r : List Pt)
    (h : (Op.read k lo hi asc, Obs.rows r) ∈ trace ops) (p : Pt) (hp : p ∈ r) :
    (⟨k, p.1, p.2⟩ : Entry) ∈ allWrites ops := by
  have := rows_from_writes ops init [] (fun e he => by simp [State.entries, init, filesData, walEntries, segRecs, State.wal] at he)
    k lo hi asc r h p hp
  simpa using this

/-! ### the statement checker accepts the model -/

structure J (s : State) (st : St) : Prop where
  good : Good s
  approx : Approx s st.worlds
  torn : s.lastRec = true → ∃ p, st.prev = some p ∧ Approx (stepCrash s true) (st.worlds ++ p)

theorem mkJ {s : State} {ws : Worlds} (hg : Good s) (ha : Approx s ws) (hl : s.lastRec = false)
    (prev : Option Worlds) (win : Window) : J s ⟨ws, prev, win⟩ :=
  ⟨hg, ha, fun h => by rw [hl] at h; cases h⟩

theorem J_write {s : State} {st : St} (h : J s st) (es : Log) (win : Window) :
    J (stepWrite s es) ⟨st.worlds.map (· ++ es.map .put), some st.worlds, win⟩ := by
  have ha : Approx (stepWrite s es) (st.worlds.map (· ++ es.map .put)) := by
    intro k t
    obtain ⟨w, hw, he⟩ := h.approx k t
    exact ⟨w ++ es.map .put, List.mem_map.mpr ⟨w, hw, rfl⟩, by rw [abs_stepWrite, cell_puts, he]⟩
  refine ⟨⟨inv_stepWrite h.good.inv es, walinv_stepWrite h.good.wal es⟩, ha, fun _ => ⟨st.worlds, rfl, ?_⟩⟩
  apply Approx.mono (ws := st.worlds)
  · exact h.approx.congr (fun k t => abs_tornWrite h.good es k t)
  · intro w hw; exact List.mem_append.mpr (Or.inr hw)

theorem J_delete {s : State} {st : St} (h : J s st) {ss : List Nat} {lo hi : Int}
    (hc : SnapClear s ss lo hi) (hl : commitLocked s.phase = false) (win : Window) :
    J (stepDelete s ss lo hi) ⟨st.worlds.map (· ++ [.del ss lo hi]), some st.worlds, win⟩ := by
  have hp : s.phase ≠ .replaced := by intro h'; rw [h'] at hl; cases hl
  have ha : Approx (stepDelete s ss lo hi) (st.worlds.map (· ++ [.del ss lo hi])) := by
    intro k t
    obtain ⟨w, hw, he⟩ := h.approx k t
    exact ⟨w ++ [.del ss lo hi], List.mem_map.mpr ⟨w, hw, rfl⟩, by rw [abs_stepDelete hc, cell_del, he]⟩
  refine ⟨⟨inv_stepDelete h.good.inv _ _ _ hp, walinv_stepDelete h.good.wal hc hl⟩, ha, fun hlr => ⟨st.worlds, rfl, ?_⟩⟩
  have hk : (hotKeys s.hot ss).isEmpty = false := by
    cases hke : (hotKeys s.hot ss).isEmpty
    · rfl
    · rw [stepDelete_eq_noKeys hke] at hlr; cases hlr
  intro k t
  rw [abs_tornDelete hk]
  rcases abs_deleteCrash h.good (ss := ss) (lo := lo) (hi := hi) hl k t with he | ⟨hcv, hn⟩
  · obtain ⟨w, hw, hw'⟩ := h.approx k t
    exact ⟨w, List.mem_append.mpr (Or.inr hw), by rw [he, hw']⟩
  · obtain ⟨w, hw, _⟩ := h.approx k t
    refine ⟨w ++ [.del ss lo hi], List.mem_append.mpr (Or.inl (List.mem_map.mpr ⟨w, hw, rfl⟩)), ?_⟩
    rw [hn, cell_del, hcv]; rfl

theorem J_crash {s : State} {st : St} (h : J s st) (tear : Bool) (win : Window) :
    J (stepCrash s tear)
      ⟨if tear then (match st.prev with | some p => st.worlds ++ p | none => st.worlds) else st.worlds, none, win⟩ := by
  apply mkJ (good_stepCrash h.good.wal tear) _ rfl
  have hclean : Approx (stepCrash s false) st.worlds := by
    apply h.approx.congr
    intro k t
    have : stepCrash s false = openWith s s.files s.wal := by simp [stepCrash, State.wal]
    rw [this]; exact abs_openWith_same h.good.inv h.good.wal s.files (fun _ _ => rfl) k t
  cases tear
  · simpa using hclean
  · simp only [if_true]
    by_cases hl : s.lastRec = true
    · obtain ⟨p, hp, hap⟩ := h.torn hl
      rw [hp]; exact hap
    · have hl' : s.lastRec = false := by simpa using hl
      have : stepCrash s true = stepCrash s false := by simp [stepCrash, hl']
      rw [this]
      apply hclean.mono
      intro w hw
      cases st.prev with
      | none => exact hw
      | some p => exact List.mem_append.mpr (Or.inl hw)

theorem safeFrom_cons {s : State} {op : Op} {ops : List Op} (h : safeFrom s (op :: ops) = true) :
    safeFrom s [op] = true ∧ safeFrom (step s op).1 ops = true := by
  simp only [safeFrom, Bool.and_eq_true, Bool.and_true] at h ⊢
  exact h

/-- one step: the new model state and the checker's new state are again related, and the
    checker accepts the observation -/
theorem step_J {s : State} {st : St} (hj : J s st) (op : Op) (hop : inScope' op = true)
    (hsafe : safeFrom s [op] = true) (tr : List (Op × Obs)) :
    ∃ st', J (step s op).1 st' ∧
      Spec.C02.checkFrom st ((op, (step s op).2) :: tr) = Spec.C02.checkFrom st' tr := by
  have hquiet : ∀ {s' : State}, Good s' → (∀ k t, s'.abs k t = s.abs k t) → s'.lastRec = false →
      ∀ prev win, J s' ⟨st.worlds, prev, win⟩ :=
    fun hg he hl prev win => mkJ hg (hj.approx.congr he) hl prev win
  cases op with
  | write es =>
    exact ⟨_, J_write hj es _, by simp only [Spec.C02.checkFrom, step, if_true]; rfl⟩
  | delete ss lo hi =>
    simp only [safeFrom, opSafe, Bool.and_true, decide_eq_true_eq] at hsafe
    by_cases hb : commitLocked s.phase = true
    · have hstep : step s (.delete ss lo hi) = (s.touch, .blocked) := by simp [step, hb]
      rw [hstep]
      exact ⟨⟨st.worlds, none, st.win⟩, hquiet (good_touch hj.good) (fun _ _ => rfl) rfl _ _,
        by simp only [Spec.C02.checkFrom, reduceCtorEq, if_false, if_true]⟩
    · have hb' : commitLocked s.phase = false := by simpa using hb
      have hstep : step s (.delete ss lo hi) = (stepDelete s ss lo hi, .ok) := by simp [step, hb']
      rw [hstep]
      exact ⟨_, J_delete hj hsafe hb' _, by simp only [Spec.C02.checkFrom, if_true]; rfl⟩
  | snapBegin =>
    simp only [safeFrom, opSafe, Bool.and_true, decide_eq_true_eq] at hsafe
    have hj' : ∀ prev win, J (step s .snapBegin).1 ⟨st.worlds, prev, win⟩ := fun prev win =>
      hquiet (good_snapBegin hj.good hsafe) (fun k t => abs_stepSnapBegin hj.good.inv k t) (lastRec_snapBegin s) prev win
    by_cases ho : (step s .snapBegin).2 = .ok
    · exact ⟨_, hj' none _, by simp only [Spec.C02.checkFrom, ho, if_true]; rfl⟩
    · exact ⟨_, hj' none _, by simp only [Spec.C02.checkFrom, ho, if_false]; rfl⟩
  | snapFail =>
    simp only [safeFrom, opSafe, Bool.and_true, decide_eq_true_eq] at hsafe
    have hj' : ∀ prev win, J (step s .snapFail).1 ⟨st.worlds, prev, win⟩ := fun prev win =>
      hquiet (good_snapFail hj.good hsafe) (fun k t => abs_stepSnapFail hj.good.inv k t) (lastRec_snapFail s) prev win
    by_cases ho : (step s .snapFail).2 = .failed
    · exact ⟨_, hj' none _, by simp only [Spec.C02.checkFrom, ho, if_true]; rfl⟩
    · exact ⟨_, hj' none _, by simp only [Spec.C02.checkFrom, ho, if_false]; rfl⟩
  | snapStep =>
    exact ⟨⟨st.worlds, none, st.win⟩,
      hquiet (good_snapStep hj.good) (fun k t => abs_stepSnapStep hj.good.inv k t) rfl _ _,
      by simp only [Spec.C02.checkFrom]⟩
  | snapTo p =>
    exact ⟨⟨st.worlds, none, st.win.snapTo p⟩,
      hquiet (good_snapTo hj.good p) (fun k t => abs_stepSnapTo hj.good.inv p k t) rfl _ _,
      by simp only [Spec.C02.checkFrom]⟩
  | compact i j =>
    refine ⟨⟨st.worlds, none, st.win⟩, ?_, by simp only [Spec.C02.checkFrom]⟩
    by_cases hv : validGroup s.files i j = true
    · have hstep : (step s (.compact i j)).1 =
          ({ s with files := compactFiles s.files i j, lastRec := false } : State) := by simp [step, hv]
      rw [hstep]
      exact hquiet (good_compact hj.good hv) (fun k t => abs_compact s i j (validGroup_le hv) k t) rfl _ _
    · have hstep : (step s (.compact i j)).1 = s.touch := by simp [step, hv]
      rw [hstep]
      exact hquiet (good_touch hj.good) (fun _ _ => rfl) rfl _ _
  | compactSet idxs => simp [inScope'] at hop
  | read k lo hi asc =>
    exact ⟨⟨st.worlds, none, st.win⟩, hquiet (good_touch hj.good) (fun _ _ => rfl) rfl _ _,
      by simp only [Spec.C02.checkFrom, step, rowsOK2_read hj.approx, if_true]⟩
  | files =>
    exact ⟨⟨st.worlds, none, st.win⟩, hquiet (good_touch hj.good) (fun _ _ => rfl) rfl _ _,
      by simp only [Spec.C02.checkFrom]⟩
  | crash tear =>
    exact ⟨_, J_crash hj tear _, by simp only [Spec.C02.checkFrom, step, if_true]; rfl⟩
  | compactCrash i j pt n =>
    refine ⟨⟨st.worlds, none, closeWin st.win⟩, ?_, by simp only [Spec.C02.checkFrom, step, if_true]⟩
    have hget : ∀ k t, Log.get (filesLog (if validGroup s.files i j then compactCrashFiles s.files i j pt n
        else s.files)) k t = Log.get (filesLog s.files) k t := by
      intro k t
      by_cases hv : validGroup s.files i j = true
      · simp only [hv, if_true]; exact get_compactCrashFiles _ _ _ (validGroup_le hv) _ _ k t
      · simp [hv]
    exact hquiet (good_deleteCrash hj.good _)
      (fun k t => abs_openWith_same hj.good.inv hj.good.wal _ hget k t) rfl _ _
  | deleteCrash ss lo hi =>
    by_cases hb : commitLocked s.phase = true
    · have hstep : step s (.deleteCrash ss lo hi) = (s.touch, .blocked) := by simp [step, hb]
      rw [hstep]
      exact ⟨⟨st.worlds, none, st.win⟩, hquiet (good_touch hj.good) (fun _ _ => rfl) rfl _ _,
        by simp only [Spec.C02.checkFrom, reduceCtorEq, if_false, if_true]⟩
    · have hb' : commitLocked s.phase = false := by simpa using hb
      have hstep : step s (.deleteCrash ss lo hi) =
          (openWith s (s.files.map (addTomb ss lo hi)) s.wal, .ok) := by simp [step, hb']
      rw [hstep]
      refine ⟨⟨st.worlds ++ st.worlds.map (· ++ [.del ss lo hi]), none, closeWin st.win⟩, ?_,
        by simp only [Spec.C02.checkFrom, if_true]⟩
      apply mkJ (good_deleteCrash hj.good _) _ rfl
      intro k t
      rcases abs_deleteCrash hj.good (ss := ss) (lo := lo) (hi := hi) hb' k t with he | ⟨hcv, hn⟩
      · obtain ⟨w, hw, hw'⟩ := hj.approx k t
        exact ⟨w, List.mem_append.mpr (Or.inl hw), by rw [he, hw']⟩
      · obtain ⟨w, hw, _⟩ := hj.approx k t
        refine ⟨w ++ [.del ss lo hi], List.mem_append.mpr (Or.inr (List.mem_map.mpr ⟨w, hw, rfl⟩)), ?_⟩
        rw [hn, cell_del, hcv]; rfl

theorem checkFrom_runFrom (ops : List Op) : ∀ (s : State) (st : St), J s st →
    (∀ op ∈ ops, inScope' op = true) → safeFrom s ops = true →
    Spec.C02.checkFrom st (runFrom s ops).2 = none := by
  induction ops with
  | nil => intro s st _ _ _; rfl
  | cons op ops ih =>
    intro s st hj hs hsafe
    have hsf := safeFrom_cons hsafe
    obtain ⟨st', hj', hc⟩ := step_J hj op (hs op List.mem_cons_self) hsf.1 (runFrom (step s op).1 ops).2
    simp only [runFrom]
    rw [hc]
    exact ih _ _ hj' (fun o ho => hs o (List.mem_cons_of_mem _ ho)) hsf.2

theorem J_init : J init {} :=
  ⟨good_init, fun k t => ⟨[], List.mem_singleton.mpr rfl, rfl⟩, fun h => by cases h⟩

/-- **C02, partial** — for every history of writes, deletes, snapshot sub-steps, compactions,
    reads and CRASHES (clean at any step boundary incl. inside a snapshot commit, with the WAL
    record of the in-flight write/delete torn off, inside FileStore.replace of a compaction,
    inside a delete after its tombstones), each followed by `Engine.Open` and arbitrary further
    operations, in which no delete covers a point held by the in-flight snapshot store: every
    read returns only values that an acknowledged (or in-flight) write put there and no
    acknowledged delete removed, and returns every cell that all acknowledged operations
    leave alive.  Missing for the full statement: exactly the excluded histories (F1). -/
theorem C02_partial (ops : List Op) (hs : ∀ op ∈ ops, inScope' op = true)
    (hsafe : safeFrom init ops = true) : Spec.C02.holdsOn (trace ops) = true := by
  simp only [Spec.C02.holdsOn, Spec.C02.check, trace, checkFrom_runFrom ops init {} J_init hs hsafe]
  rfl

/-- every state reached by such a history satisfies the engine + WAL invariants -/
theorem C02_reachable_good (ops : List Op) : ∀ (s : State) (st : St), J s st →
    (∀ op ∈ ops, inScope' op = true) → safeFrom s ops = true → Good (runFrom s ops).1 := by
  induction ops with
  | nil => intro s st h _ _; exact h.good
  | cons op ops ih =>
    intro s st hj hs hsafe
    have hsf := safeFrom_cons hsafe
    obtain ⟨st', hj', _⟩ := step_J hj op (hs op List.mem_cons_self) hsf.1 []
    exact ih _ st' hj' (fun o ho => hs o (List.mem_cons_of_mem _ ho)) hsf.2

/-! ### WAL framing (bytes) -/

/-- **A torn WAL tail is discarded without losing earlier entries**: a segment file holding the
    durable records followed by ANY strict prefix of the bytes of the record in flight is loaded
    (`WALSegmentReader` + `CacheLoader`) as exactly the durable records, and truncated exactly at
    their end — for every entry codec (snappy ∘ marshal) that round-trips. -/
theorem wal_torn_tail (c : Wal.Codec) (recs : List WalEntry) (e : WalEntry) (n : Nat)
    (hn : n < (c.enc e).encode.length) :
    c.load (c.segBytes recs ++ (c.enc e).encode.take n) = recs.map some ∧
    (Wal.loadSegment c.valid (c.segBytes recs ++ (c.enc e).encode.take n)).2 = (c.segBytes recs).length :=
  c.load_torn recs e n hn

/-- an untorn segment loads completely and is not truncated -/
theorem wal_clean (c : Wal.Codec) (recs : List WalEntry) :
    c.load (c.segBytes recs) = recs.map some ∧
    (Wal.loadSegment c.valid (c.segBytes recs)).2 = (c.segBytes recs).length := c.load_clean recs

/-- F1 seen through a crash: write, begin a snapshot, delete the point (acknowledged; the hot
    store is empty, so not even a WAL delete entry is written), crash, reopen, read -/
def f1CrashOps : List Op :=
  [.write [⟨⟨0,0⟩,100,1⟩], .snapBegin, .delete [0] 100 100, .crash false, .read ⟨0,0⟩ 0 1000 true]

/-- **C02 at full strength fails** (the acknowledged delete of the F1 history is lost by the
    crash: the point is replayed from the WAL) -/
theorem C02_full_fails :
    (∀ op ∈ f1CrashOps, inScope' op = true) ∧ Spec.C02.holdsOn (trace f1CrashOps) = false ∧
    Spec.C02.check (trace f1CrashOps) = some "delete-overlaps-inflight-snapshot:s0f0t100" ∧
    safeFrom init f1CrashOps = false := by decide

/-- F18: a snapshot attempt fails after `Cache.Snapshot`, a write is acknowledged, the retry
    commits the OLD snapshot store and removes every closed WAL segment, crash, reopen, read -/
def f18Ops : List Op :=
  [.write [⟨⟨0,0⟩,1,1⟩], .snapFail, .write [⟨⟨0,0⟩,2,2⟩], .snapBegin, .snapTo .idle, .crash false,
   .read ⟨0,0⟩ 0 1000 true]

/-- **C02 at full strength fails, second witness** (found by this model, reproduced on the real
    engine by the check): the write acknowledged between a failed snapshot attempt and its retry
    is lost by a crash after the retry — `Cache.Snapshot` returns the stale snapshot store for the
    retry while `WAL.ClosedSegments` already lists the segment holding the newer write, and
    `writeSnapshotAndCommit` removes it. -/
theorem C02_full_fails_retry :
    (∀ op ∈ f18Ops, inScope' op = true) ∧ Spec.C02.holdsOn (trace f18Ops) = false ∧
    Spec.C02.check (trace f18Ops) = some "write-after-failed-snapshot-lost:s0f0t2" ∧
    (trace f18Ops).getLast? = some (.read ⟨0,0⟩ 0 1000 true, .rows [(1, 1)]) ∧
    safeFrom init f18Ops = false := by decide

/-- the hypotheses of C02_partial are met by a history with a torn write, a crash inside a
    snapshot commit, a crash inside a compaction's replace, a delete interrupted after its
    tombstones, and writes after every reopen -/
def okOps : List Op :=
  [.write [⟨⟨0,0⟩,1,1⟩], .write [⟨⟨0,0⟩,2,2⟩], .crash true, .read ⟨0,0⟩ 0 10 true,
   .write [⟨⟨0,0⟩,3,3⟩], .snapBegin, .snapTo .replaced, .crash false, .read ⟨0,0⟩ 0 10 true,
   .write [⟨⟨0,0⟩,1,5⟩], .snapBegin, .snapTo .idle, .compactCrash 0 1 .afterRemoveOld 1, .read ⟨0,0⟩ 0 10 true,
   .delete [0] 3 3, .crash false, .deleteCrash [0] 1 1, .read ⟨0,0⟩ 0 10 true, .write [⟨⟨0,0⟩,7,7⟩],
   .snapFail, .snapBegin, .snapTo .idle, .crash false, .read ⟨0,0⟩ 0 10 false]

example : (∀ op ∈ okOps, inScope' op = true) ∧ safeFrom init okOps = true ∧
    (trace okOps)[3]? = some (.read ⟨0,0⟩ 0 10 true, .rows [(1, 1)]) ∧
    (trace okOps)[8]? = some (.read ⟨0,0⟩ 0 10 true, .rows [(1, 1), (3, 3)]) ∧
    (trace okOps)[13]? = some (.read ⟨0,0⟩ 0 10 true, .rows [(1, 5), (3, 3)]) ∧
    (trace okOps).getLast? = some (.read ⟨0,0⟩ 0 10 false, .rows [(7, 7)]) := by decide

end Influx.Props.C02
