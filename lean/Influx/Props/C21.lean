/-
  Props.C21 — Storage read requests return exactly the stored series and points.

  Subject: `Influx.Model.Reads` (written from storage/reads, compared with the real
  package on every run).  All theorems are for every block size `B ≥ 1`, every number of
  rows, shards, arrays and points.
-/
import Influx.Lemmas.Reads

namespace Influx.Props.C21
open Influx.Reads Influx.Spec.C21
open Influx.WindowAgg (Val Typ Pt)

/-- the points a read of `[start, stop)` must deliver for row `r`: the stored points, shard
    after shard, in range and passing the row's value condition (as the code evaluates it) -/
def wanted (start stop : Int) (r : Row) : List (Pt Val) :=
  ((stored r).filter fun p => decide (start ≤ p.1) && decide (p.1 < stop)).filter (condOK r.cond)

theorem inRange_eq (start stop : Int) :
    inRange start (stop - 1) = fun p => decide (start ≤ p.1) && decide (p.1 < stop) := by
  funext p
  simp only [inRange]
  congr 1
  simp only [decide_eq_decide]
  omega

theorem takeWhile_all {β : Type} (p : β → Bool) (l : List β) (h : l.all p = true) : l.takeWhile p = l := by
  induction l with
  | nil => rfl
  | cons x xs ih =>
    simp only [List.all_cons, Bool.and_eq_true] at h
    simp [h.1, ih h.2]

/-- **One series, any number of shards.**  If the shards of the row hold one field type, the
    arrays of its cursor concatenate to exactly the stored points in `[start, stop)` that pass
    the value condition — whatever the shard and array boundaries, without error; a row no
    shard knows has no cursor and stores nothing. -/
theorem C21_row (B : Nat) (hB : 1 ≤ B) (start stop : Int) (r : Row) (hty : sameType r = true) :
    match readRow B start stop r with
    | none => stored r = []
    | some rr => rr.typeErr = false ∧ rr.arrays.flatten = wanted start stop r := by
  unfold readRow sameType stored wanted at *
  cases hsh : r.shards.filter (·.hasCursor) with
  | nil => simp
  | cons s0 rest =>
    rw [hsh] at hty
    simp only at hty ⊢
    rw [takeWhile_all _ _ hty]
    refine ⟨by simp, ?_⟩
    simp only [stored, hsh]
    rw [flatMap_flatten, filter_flatMap', filter_flatMap']
    congr 1
    funext sh
    rw [shardArrays_flatten B hB, inRange_eq]

/-- **Filter read**: every row of the series cursor exactly once, in order. -/
theorem C21_filter (B : Nat) (start stop : Int) (rows : List Row) :
    (readFilter B start stop rows).map (·.1) = rows.map (·.tags) ∧
    (readFilter B start stop rows).map (·.2) = rows.map (readRow B start stop) := by
  simp [readFilter, List.map_map, Function.comp_def]

theorem ascending_pairwise : ∀ (l : List (Pt Val)), strictlyAscending l = true → l.Pairwise (fun a b => a.1 < b.1)
  | [] , _ => List.Pairwise.nil
  | [_], _ => by simp
  | a :: b :: rest, h => by
    simp only [strictlyAscending, Bool.and_eq_true, decide_eq_true_eq] at h
    have ih := ascending_pairwise (b :: rest) h.2
    rw [List.pairwise_cons] at ih ⊢
    refine ⟨?_, List.pairwise_cons.mpr ih⟩
    intro c hc
    rcases List.mem_cons.mp hc with rfl | hc
    · exact h.1
    · exact Int.lt_trans h.1 (ih.1 c hc)

/-- **Reads spanning several shards neither drop nor duplicate points.**  When the shards hold
    ascending, disjoint time ranges (the stored points, shard after shard, are strictly
    ascending), what the cursor returns is strictly ascending in time — so no point occurs
    twice — and (by `C21_row`) it is the full set of stored points in range. -/
theorem C21_no_drop_no_dup (B : Nat) (hB : 1 ≤ B) (start stop : Int) (r : Row) (hty : sameType r = true)
    (hasc : strictlyAscending (stored r) = true) (rr : RowRead) (h : readRow B start stop r = some rr) :
    rr.arrays.flatten.Pairwise (fun a b => a.1 < b.1) ∧
    (∀ p, p ∈ rr.arrays.flatten ↔ (p ∈ stored r ∧ start ≤ p.1 ∧ p.1 < stop ∧ condOK r.cond p = true)) := by
  have hr := C21_row B hB start stop r hty
  rw [h] at hr
  simp only at hr
  rw [hr.2]
  constructor
  · exact ((ascending_pairwise _ hasc).sublist List.filter_sublist).sublist List.filter_sublist
  · intro p
    simp only [wanted, List.mem_filter, Bool.and_eq_true, decide_eq_true_eq]
    constructor
    · rintro ⟨⟨h1, h2, h3⟩, h4⟩; exact ⟨h1, h2, h3, h4⟩
    · rintro ⟨h1, h2, h3, h4⟩; exact ⟨⟨h1, h2, h3⟩, h4⟩

/-- **Group read = partition ordered by group key.**  With `k` the sort key of the request and
    `live` the series that have a point in range (all series with the all-time hint), the
    groups are the runs of the sorted `live`: together a permutation of `live` (every series
    in exactly one group, none invented), every group non-empty with one key, and the groups
    strictly ascending by key (so different groups have different keys). -/
theorem C21_group_partition (B : Nat) (q : GroupReq) (hby : q.by_ = true) (rows : List Row) :
    let k := fun r : Row => sortKey q.keys q.nilLo r.tags
    let live := rows.filter fun r => q.allTime || hasPoints B q.start q.stop r
    let G := runs k (sortBy k live)
    (readGroup B q rows).map (fun g => g.series.map (·.1)) = G.map (·.map (·.tags)) ∧
    G.flatten.Perm live ∧
    (∀ g ∈ G, g ≠ [] ∧ ∀ a ∈ g, ∀ b ∈ g, k a = k b) ∧
    G.Pairwise (fun g1 g2 => ∀ a ∈ g1, ∀ b ∈ g2, k a < k b) := by
  intro k live G
  have hsorted := sortBy_sorted stringSTO k live
  have hruns := runs_spec stringSTO k (sortBy k live) hsorted
  refine ⟨?_, ?_, hruns.1, hruns.2⟩
  · unfold readGroup
    by_cases hl : live.isEmpty = true
    · have hl' : live = [] := List.isEmpty_iff.mp hl
      have : G = [] := by simp [G, hl', sortBy, runs]
      simp only [this, List.map_nil]
      simp only [show (rows.filter fun r => q.allTime || hasPoints B q.start q.stop r) = live from rfl, hl]
      simp
    · simp only [show (rows.filter fun r => q.allTime || hasPoints B q.start q.stop r) = live from rfl, hl, hby]
      simp [readFilter, List.map_map, Function.comp_def, G, k]
  · rw [runs_flatten]; exact sortBy_perm k live


/-- no value condition on unsigned data (the known finding `unsigned-value-predicate`) -/
def NoUnsignedCond (r : Row) : Prop := r.cond = none ∨ ∀ p ∈ stored r, ∀ x, p.2 ≠ Val.u x

theorem zip_map_all {β γ : Type} (l : List β) (f : β → γ) (P : β × γ → Bool) :
    (l.zip (l.map f)).all P = l.all (fun x => P (x, f x)) := by
  induction l with
  | nil => rfl
  | cons x xs ih => simp [ih]

theorem meaning_eq_eval (c : Cond) (v : Val) (hu : ∀ x, v ≠ Val.u x) (hs : (condMeaning c v).isSome = true) :
    (condMeaning c v == some true) = c.eval v := by
  unfold condMeaning Cond.eval at *
  cases v <;> cases hl : c.lit <;> simp_all

/-- **C21 on the model, filter reads** (partial: rows with a value condition on unsigned
    data are excluded — there the code is wrong, see `C21_unsigned_fails`).  The statement
    checker accepts what the model returns for every filter read. -/
theorem C21_holdsOn_filter_partial (B : Nat) (hB : 1 ≤ B) (start stop : Int) (rows : List Row)
    (hu : ∀ r ∈ rows, NoUnsignedCond r) :
    holdsFilter start stop rows ((readFilter B start stop rows).map fun x => ⟨x.1, x.2⟩) = true := by
  unfold holdsFilter holdsFilterX readFilter
  simp only [List.map_map, List.length_map, beq_self_eq_true, Bool.true_and, Function.comp_def]
  rw [zip_map_all, List.all_eq_true]
  intro r hr
  simp only [decide_true, Bool.true_and, pointsOK, Bool.false_eq_true, ↓reduceIte]
  cases hexp : expected start stop r with
  | none => rfl
  | some pts =>
    simp only
    unfold expected at hexp
    by_cases hpre : (sameType r && strictlyAscending (stored r)) = true
    · simp only [hpre, Bool.not_true, Bool.false_eq_true, ↓reduceIte] at hexp
      have hty : sameType r = true := by simp only [Bool.and_eq_true] at hpre; exact hpre.1
      have hrow := C21_row B hB start stop r hty
      have hpts : pts = wanted start stop r := by
        unfold wanted
        cases hc : r.cond with
        | none =>
          rw [hc] at hexp
          simp only [Option.some.injEq] at hexp
          rw [← hexp]
          exact (List.filter_eq_self.mpr (fun _ _ => rfl)).symm
        | some c =>
          rw [hc] at hexp
          simp only at hexp
          split at hexp
          · next hall =>
            simp only [Option.some.injEq] at hexp
            rw [← hexp]
            apply List.filter_congr
            intro p hp
            have hps : p ∈ stored r := (List.mem_filter.mp hp).1
            have hnu : ∀ x, p.2 ≠ Val.u x := by
              rcases hu r hr with h | h
              · rw [hc] at h; cases h
              · exact h p hps
            exact meaning_eq_eval c p.2 hnu (List.all_eq_true.mp hall p hp)
          · cases hexp
      cases hrd : readRow B start stop r with
      | none =>
        rw [hrd] at hrow
        simp only at hrow
        simp only [hpts, wanted, hrow, List.filter_nil, List.isEmpty_nil]
      | some rr =>
        rw [hrd] at hrow
        simp only at hrow
        simp [hpts, hrow.1, hrow.2]
    · simp only [hpre, Bool.not_false, ↓reduceIte] at hexp
      cases hexp


/-! ### where the full statement fails (both reproduced on the real code: checks/corpus/C21) -/

def rowA : Row := ⟨[("6b", "ff")], none, [⟨.f, true, [[(1, .f 0)]]⟩]⟩      -- tag k = 0xff
def rowB : Row := ⟨[("6c", "61")], none, [⟨.f, true, [[(2, .f 0)]]⟩]⟩      -- no tag k
def qAB : GroupReq := ⟨true, ["6b"], false, false, 0, 10⟩                   -- group by k

/-- the observations the model produces for a group read -/
def groupObs (B : Nat) (q : GroupReq) (rows : List Row) : List GroupObs :=
  (readGroup B q rows).map fun g => ⟨g.vals, g.series.map fun x => ⟨x.1, x.2⟩⟩

/-- **The full group statement is false** (known finding `group-sortkey-collision`): a tag value
    0xff and a missing tag have the same sort key; the two series come back as one group. -/
theorem C21_full_fails : holdsGroup qAB [rowA, rowB] (groupObs 1000 qAB [rowA, rowB]) = false := by decide

theorem C21_collision_witness :
    sortKey ["6b"] false rowA.tags = sortKey ["6b"] false rowB.tags ∧
    tuple ["6b"] rowA.tags ≠ tuple ["6b"] rowB.tags := by decide

def rowU : Row := ⟨[("61", "61")], some ⟨.gt, .i 0⟩, [⟨.u, true, [[(1, .u 5), (2, .u 0), (3, .u 7)]]⟩]⟩

/-- **A value condition on unsigned data returns nothing** (known finding
    `unsigned-value-predicate`): `$ > 0` over the values 5, 0, 7. -/
theorem C21_unsigned_fails :
    expected 0 100 rowU = some [(1, .u 5), (3, .u 7)] ∧ wanted 0 100 rowU = [] := by decide

-- non-vacuity of the hypotheses of `C21_holdsOn_filter_partial` / `C21_no_drop_no_dup`
def rowOK : Row := ⟨[("61", "61")], some ⟨.ge, .i 0⟩,
  [⟨.i, true, [[(1, .i 5), (2, .i (-1))], [(7, .i 0)]]⟩, ⟨.i, false, []⟩, ⟨.i, true, [[(9, .i 3)]]⟩]⟩
example : sameType rowOK = true ∧ strictlyAscending (stored rowOK) = true := by decide
example : NoUnsignedCond rowOK := Or.inr (by
  have : stored rowOK = [(1, .i 5), (2, .i (-1)), (7, .i 0), (9, .i 3)] := by decide
  rw [this]; intro p hp x
  simp only [List.mem_cons, List.not_mem_nil, or_false] at hp
  rcases hp with rfl | rfl | rfl | rfl <;> simp)
example : wanted 2 10 rowOK = [(7, .i 0), (9, .i 3)] := by decide

end Influx.Props.C21
