import Influx.Lemmas.Check
namespace Influx.Props.C33
open Influx.CheckM Influx.Spec.C33

theorem overall_pass_of_all_pass (rs : List Res) (h : ∀ r ∈ rs, r.status = pass) : overall rs = pass := by
  unfold overall
  suffices ∀ o, o = pass → rs.foldl (fun o r => if r.status ≠ pass ∧ o ≠ fail then r.status else o) o = pass from
    this pass rfl
  induction rs with
  | nil => intro o ho; simpa using ho
  | cons r rs ih =>
    intro o ho
    simp only [List.foldl_cons]
    apply ih (fun x hx => h x (List.mem_cons_of_mem _ hx))
    simp [h r (List.mem_cons_self), ho]

theorem filter_fail_eq (rs : List Res) :
    rs.filter (fun r => decide (r.status = fail)) = rs.filter (fun r => r.status == fail) := by
  congr 1


theorem ready_of_fail (s : St) (ho : overall (answers s.ready) = fail) :
    ready false s = ⟨503, "starting", failingChecks (sortRes (answers s.ready))⟩ := by
  simp only [answers] at ho
  simp [ready, evaluate, ho, answers]
theorem ready_of_not_fail (s : St) (ho : overall (answers s.ready) ≠ fail) :
    ready false s = ⟨200, "ready", []⟩ := by
  simp only [answers] at ho
  simp [ready, evaluate, ho]
theorem health_of_fail (s : St) (ho : overall (answers s.health) = fail) :
    health false s = ⟨503, fail, firstFailureMessage (sortRes (answers s.health)), sortRes (answers s.health)⟩ := by
  simp only [answers] at ho
  simp [health, evaluate, ho, answers]
theorem health_of_not_fail (s : St) (ho : overall (answers s.health) ≠ fail) :
    health false s = ⟨200, overall (answers s.health), "healthy", sortRes (answers s.health)⟩ := by
  simp only [answers] at ho
  simp [health, evaluate, ho, answers]

theorem overall_answers_fail (cs : List Cell) (h : ∃ c ∈ cs, c.res.status = fail) : overall (answers cs) = fail := by
  rw [overall_fail_iff]
  obtain ⟨c, hc, hs⟩ := h
  exact ⟨c.res, List.mem_map_of_mem hc, hs⟩
theorem overall_answers_pass (cs : List Cell) (h : ∀ c ∈ cs, c.res.status = pass) : overall (answers cs) = pass := by
  apply overall_pass_of_all_pass
  intro r hr
  obtain ⟨c, hc, rfl⟩ := List.mem_map.1 hr
  exact h c hc

/-- **/ready, failing side**: if some registered ready check answers "fail", /ready is 503
    and its body lists exactly the failing checks (each once, with its current message). -/
theorem C33_ready_503 (s : St) (h : ∃ c ∈ s.ready, c.res.status = fail) :
    (ready false s).code = 503 ∧ (ready false s).status = "starting" ∧
    (ready false s).checks.Perm ((answers s.ready).filter (·.status == fail)) := by
  rw [ready_of_fail s (overall_answers_fail _ h)]
  refine ⟨rfl, rfl, ?_⟩
  show (failingChecks _).Perm _
  unfold failingChecks
  rw [filter_fail_eq]
  exact (sortRes_perm _).filter _

/-- **/ready, passing side**: if every registered ready check answers "pass", /ready is 200
    "ready" with no checks listed. -/
theorem C33_ready_200 (s : St) (h : ∀ c ∈ s.ready, c.res.status = pass) :
    (ready false s).code = 200 ∧ (ready false s).status = "ready" ∧ (ready false s).checks = [] := by
  rw [ready_of_not_fail s (by rw [overall_answers_pass _ h]; exact pass_ne_fail)]
  exact ⟨rfl, rfl, rfl⟩

/-- **/ready = 200 ↔ all gates ready** — for checks that answer one of the two
    declared statuses (every ReadyGate does). -/
theorem C33_ready_200_iff (s : St)
    (hpf : ∀ c ∈ s.ready, c.res.status = pass ∨ c.res.status = fail) :
    (ready false s).code = 200 ↔ ∀ c ∈ s.ready, c.res.status = pass := by
  constructor
  · intro h c hc
    rcases hpf c hc with hp | hf
    · exact hp
    · have := (C33_ready_503 s ⟨c, hc, hf⟩).1
      rw [this] at h; cases h
  · intro h; exact (C33_ready_200 s h).1

/-- **/health, failing side**: if some health check answers "fail", /health is 503, reports
    every registered check, and its message is the message of the first failing check in
    the reported order ("fail" if that check has none). -/
theorem C33_health_503 (s : St) (h : ∃ c ∈ s.health, c.res.status = fail) :
    (health false s).code = 503 ∧ (health false s).status = fail ∧
    (health false s).checks.Perm (answers s.health) ∧
    firstFailing (health false s).checks = some (health false s).message := by
  rw [health_of_fail s (overall_answers_fail _ h)]
  refine ⟨rfl, rfl, sortRes_perm _, ?_⟩
  apply firstFailing_eq
  obtain ⟨c, hc, hs⟩ := h
  exact ⟨c.res, (sortRes_perm _).mem_iff.2 (List.mem_map_of_mem hc), hs⟩

/-- **/health, passing side**. -/
theorem C33_health_200 (s : St) (h : ∀ c ∈ s.health, c.res.status = pass) :
    (health false s).code = 200 ∧ (health false s).status = pass ∧ (health false s).message = "healthy" ∧
    (health false s).checks.Perm (answers s.health) := by
  have hp := overall_answers_pass _ h
  rw [health_of_not_fail s (by rw [hp]; exact pass_ne_fail), hp]
  exact ⟨rfl, rfl, rfl, sortRes_perm _⟩

theorem C33_health_200_iff (s : St)
    (hpf : ∀ c ∈ s.health, c.res.status = pass ∨ c.res.status = fail) :
    (health false s).code = 200 ↔ ∀ c ∈ s.health, c.res.status = pass := by
  constructor
  · intro h c hc
    rcases hpf c hc with hp | hf
    · exact hp
    · have := (C33_health_503 s ⟨c, hc, hf⟩).1
      rw [this] at h; cases h
  · intro h; exact (C33_health_200 s h).1

/-- /health always reports exactly the registered checks with their current answers -/
theorem C33_health_reports_all (s : St) : (health false s).checks.Perm (answers s.health) := by
  by_cases ho : overall (answers s.health) = fail
  · rw [health_of_fail s ho]; exact sortRes_perm _
  · rw [health_of_not_fail s ho]; exact sortRes_perm _
end Influx.Props.C33
