/-
  Props.C14 — Index metadata queries stay correct across compaction and restart.

  Subject: the model of tsdb/index/tsi1 in `Influx.Model.TSI` (written from the code, tied
  to the real package by the correspondence run of `bin/check C14`).
-/
import Influx.Model.TSI
import Influx.Spec.C14

namespace Influx.Props.C14
open Influx.Model.TSI Influx.Spec.C14

/-! ### the full statement is false of the code -/

/-- two series of `m` share tag key `k1`; one is dropped (engine flow); the values of `k1`
    are listed. -/
def staleWitness : List Op :=
  [ .create 1 0 "m" [("k1", "a")], .create 2 0 "m" [("k1", "b")], .dropSeries 1,
    .tagValues "m" "k1" ]

/-- **C14 fails as stated**: after dropping one of two series, `TagValueIterator(m, k1)`
    still lists the dropped series' value `a` (tag keys / values are only tombstoned when the
    whole measurement is dropped). Reproduced on the real tsi1 by `bin/check C14`
    (signature `stale-tag-listing`). -/
theorem C14_full_fails : ¬ ∀ ops : List Op, holdsOn (run {} ops) = true := by
  intro h
  have := h staleWitness
  revert this
  decide

/-- the stale answer itself. -/
theorem C14_stale_answer :
    ((run {} staleWitness).map (·.2)).getLast? = some (.names ["a", "b"]) := by decide

/-- the same history with and without a log roll between creation and drop. -/
def rollWitness (withRoll : Bool) : List Op :=
  [ .create 1 0 "m" [("k1", "a")] ] ++ (if withRoll then [.roll 0] else []) ++
  [ .dropSeries 1, .create 2 0 "m" [("k2", "b")], .tagKeys "m" ]

/-- **The answer depends on where the log was rolled**: a measurement is dropped entirely
    and re-created with another tag key. If the log file was rolled (or compacted) between
    the first creation and the drop, the old tag key `k1` comes back; otherwise it does not.
    (`DropMeasurement` writes tag-key tombstones into the active log file and then wipes that
    file's in-memory tag set with the measurement tombstone, so older files' keys are no
    longer shadowed.) -/
theorem C14_roll_dependence :
    ((run {} (rollWitness true)).map (·.2)).getLast? = some (.names ["k1", "k2"]) ∧
    ((run {} (rollWitness false)).map (·.2)).getLast? = some (.names ["k2"]) := by
  constructor <;> decide

end Influx.Props.C14
