/-
  Props.C14 — Index metadata queries stay correct across compaction and restart.

  Subject: the model of tsdb/index/tsi1 in `Influx.Model.TSI` (written from the code, tied
  to the real package by the correspondence run of `bin/check C14`).
-/
import Influx.Lemmas.TSIFinal
import Influx.Lemmas.TSILog
import Influx.Lemmas.TSIVarint

namespace Influx.Props.C14
open Influx.Model.TSI Influx.Spec.C14

/-! ### the full statement is false of the code -/

/-- two series of `m` share tag key `k1`; one is dropped (engine flow); the values of `k1`
    are listed. -/
def staleWitness : List Op :=
  [ .create 1 0 "m" [("k1", "a")], .create 2 0 "m" [("k1", "b")], .dropSeries 1,
    .tagValues "m" "k1" ]

/-- **C14 fails as stated**: after dropping one of two series, `TagValueIterator(m, k1)`
    still lists the dropped series' value `a` (tag keys / values are only tombstoned when the
    whole measurement is dropped). Reproduced on the real tsi1 by `bin/check C14`
    (signature `stale-tag-listing`). -/
theorem C14_full_fails : ¬ ∀ ops : List Op, holdsOn (run {} ops) = true := by
  intro h
  have := h staleWitness
  revert this
  decide

/-- the stale answer itself. -/
theorem C14_stale_answer :
    ((run {} staleWitness).map (·.2)).getLast? = some (.names ["a", "b"]) := by decide

/-- the same history with and without a log roll between creation and drop. -/
def rollWitness (withRoll : Bool) : List Op :=
  [ .create 1 0 "m" [("k1", "a")] ] ++ (if withRoll then [.roll 0] else []) ++
  [ .dropSeries 1, .create 2 0 "m" [("k2", "b")], .tagKeys "m" ]

/-- **The answer depends on where the log was rolled**: a measurement is dropped entirely
    and re-created with another tag key. If the log file was rolled (or compacted) between
    the first creation and the drop, the old tag key `k1` comes back; otherwise it does not.
    (`DropMeasurement` writes tag-key tombstones into the active log file and then wipes that
    file's in-memory tag set with the measurement tombstone, so older files' keys are no
    longer shadowed.) -/
theorem C14_roll_dependence :
    ((run {} (rollWitness true)).map (·.2)).getLast? = some (.names ["k1", "k2"]) ∧
    ((run {} (rollWitness false)).map (·.2)).getLast? = some (.names ["k2"]) := by
  constructor <;> decide

/-! ### what does hold, for every history of the engine's flows -/

/-- **C14 (partial: stale tag listings tolerated; no index-only drop, no crash).**
    For EVERY history of series creations, series drops and measurement drops done the way
    the engine does them (`Index.DropSeries`, `DropMeasurementIfSeriesNotExist`,
    `SeriesFile.DeleteSeriesID`), interleaved in any way with log rolls, log-file compactions,
    index-file merges and reopen (log replay, rebuild of the series-id set, background
    compaction to its fixpoint), on 1 or 8 partitions:
    * the measurement names are exactly those of the live series,
    * the measurement / tag-key / tag-value series-id sets (through the series-file filter and the
      tag-value cache) are exactly those of the live series,
    * the tag-key and tag-value listings contain at least the keys / values of the live series.
    What is missing from the full statement: equality of the two listings (`C14_full_fails`);
    shard-local drops and crashes (findings `phantom-in-view`, fix `C14-undelete-tag-on-series-add`)
    are judged on the real code by the checker only. -/
theorem C14_partial (ops : List Op) (h : ops.all Allowed = true) :
    holdsWeakly (run {} ops) = true := by
  obtain ⟨k, hk, hr⟩ := sim_run ops h {} {} sim_init
  unfold holdsWeakly gradeOf
  have : finalCands {} (run {} ops) = ⟨[k]⟩ := hk
  rw [this]
  simp only [List.foldl_cons, List.foldl_nil]
  split
  · simpa using hr
  · next hlt =>
    have h1 : k.worst.rank ≤ 1 := hr
    have h3 : Grade.missing.rank = 3 := rfl
    rw [h3] at hlt
    omega

/-- the invariant behind `C14_partial` holds in every state reached by such a history
    (`GInv`: soundness and completeness of every file's series sets, no live series
    tombstoned, no tombstone flags left on tag keys / values, measurement flags agree with
    the live series, the partition's id set and the files' id sets name the live series, every
    log file's in-memory index is the replay of its entries, the tag-value cache holds exactly
    supersets the series file filters). -/
theorem C14_invariant (ops : List Op) (h : ops.all Allowed = true) :
    ∃ live, GInv (ops.foldl (fun s op => (step s op).1) {}) live := by
  have : ∀ (ops : List Op) (st : State) (k : Spec.C14.Cand), ops.all Allowed = true → Sim k st →
      ∃ k' live, GInv (ops.foldl (fun s op => (step s op).1) st) live ∧ Sim k' (ops.foldl (fun s op => (step s op).1) st) := by
    intro ops
    induction ops with
    | nil => intro st k _ hs; obtain ⟨live, hg, hw, hr⟩ := hs; exact ⟨k, live, hg, live, hg, hw, hr⟩
    | cons op rest ih =>
      intro st k hall hs
      simp only [List.all_cons, Bool.and_eq_true] at hall
      obtain ⟨k', _, hs'⟩ := sim_step k st hs op hall.1
      exact ih _ k' hall.2 hs'
  obtain ⟨_, live, hg, _⟩ := this ops {} {} h sim_init
  exact ⟨live, hg⟩

/-- **reopen** (restart): replaying the logs, rebuilding the id set and letting the background
    compaction run preserves the invariant for the same live set — so every answer
    characterised by it stays the same. -/
theorem C14_reopen {st : State} {live : List Nat} (h : GInv st live) : GInv (step st .reopen).1 live :=
  ginv_reopen h

/-- **compaction**: a log-file compaction or an index-file merge preserves the invariant for
    the same live set. -/
theorem C14_compaction {st : State} {live : List Nat} (h : GInv st live) (p level : Nat) :
    GInv (step st (.compactLog p)).1 live ∧ GInv (step st (.compactLevel p level)).1 live :=
  ⟨ginv_compactLog h p, ginv_compactLevel h p level⟩

/-- **open = fold of the log**: in every reachable state the in-memory index of each log file
    is the replay of its entries (so reopening a log file changes nothing), and opening a log
    truncated to `n` entries yields the fold of those `n` entries (`replay` of the prefix —
    this is how the model's `crash` is defined; that a strict prefix of an entry's bytes never
    passes the checksum is the hypothesis under which bytes and entries correspond, checked on
    the real decoder by the correspondence run at every byte offset generated). -/
theorem C14_log_is_replay {st : State} {live : List Nat} (h : GInv st live) :
    ∀ p ∈ st.parts, ∀ f ∈ p.files, f.isLog = true → f.data = replay st.sf f.entries := by
  intro p hp f hf hl
  obtain ⟨i, hpi⟩ := pinv_of_mem h hp
  exact hpi.loginv f hf hl

/-- **log truncated at any byte**: for any entry codec in which a complete entry decodes and a
    strict prefix of an entry never does (short buffer / checksum mismatch — the hypothesis
    `LogCodec.torn`), `LogFile.open`'s loop over a log cut anywhere inside entry `e` reads back
    exactly the whole entries before the cut. -/
theorem C14_truncated_log (c : LogCodec) (es : List Entry) (e : Entry) (p : List Nat)
    (hp : p.length < (c.encode e).length) (hpre : p = (c.encode e).take p.length) :
    parseLog c ((es.flatMap c.encode ++ p).length + 1) (es.flatMap c.encode ++ p) = es :=
  parseLog_truncated c es e p hp hpre _ (Nat.lt_succ_self _)

/-- **a log entry cut at any byte is a short buffer**, over the real entry framing
    (`appendLogEntry` / `LogEntry.UnmarshalBinary`: flag, uvarint id, three uvarint-length-prefixed
    strings, 4 checksum bytes; `binary.PutUvarint` / `binary.Uvarint` with its 10-byte rule; tsi1's
    `uvarint()` helper): for every entry whose id and lengths fit 64 bits, every checksum
    function and every cut strictly inside the entry — also inside a multi-byte varint —
    decoding answers `io.ErrShortBuffer`, the error `LogFile.open` recovers from; never a parse
    error (which would make `Index.Open` fail) and never a checksum mismatch. This discharges
    `LogCodec.torn` of `C14_truncated_log` for the real framing without any assumption on CRC-32. -/
theorem C14_torn_entry_is_short_buffer (crc : List Nat → List Nat) (hcrc : ∀ b, (crc b).length = 4)
    (e : RawEntry) (hf : e.fits) (m : Nat) (hm : m < (encodeEntry crc e).length) :
    decodeEntry crc ((encodeEntry crc e).take m) = .shortBuffer :=
  decodeEntry_torn crc hcrc e hf m hm

/-- the varint layer alone: a torn varint is `io.ErrShortBuffer`, a whole one round-trips. -/
theorem C14_torn_varint (x m : Nat) (hf : fitsUv 0 x = true) (hm : m < (putUvarint x).length) :
    uvarintHelper ((putUvarint x).take m) = .shortBuffer ∧
    ∀ rest, uvarintHelper (putUvarint x ++ rest) = .ok x (putUvarint x).length :=
  ⟨uvarintHelper_torn x m hf hm, fun rest => uvarintHelper_put x rest hf⟩

-- non-vacuity of the framing hypotheses: ids / lengths up to 2^64-1 fit, 2^64 does not;
-- a series id of 130 takes two bytes and its first byte alone is a short buffer
example : fitsUv 0 (2^64 - 1) = true := by simp [fitsUv]
example : fitsUv 0 (2^64) = false := by simp [fitsUv]
example : putUvarint 130 = [130, 1] := by simp [putUvarint]
example : uvarintHelper [130] = .shortBuffer := by simp [uvarintHelper, readUv]

-- non-vacuity: a history with every kind of allowed operation
def exampleOps : List Op :=
  [ .cfg 8, .create 6 3 "m" [("k1", "a")], .create 14 5 "m" [("k1", "b")], .roll 3, .compactLog 3,
    .dropSeries 6, .tagValues "m" "k1", .reopen, .compactLevel 3 1, .dropMeasurement "m",
    .create 22 3 "m" [("k1", "a")], .tagValueSeries "m" "k1" "a", .measurements ]

example : exampleOps.all Allowed = true := by decide

end Influx.Props.C14
