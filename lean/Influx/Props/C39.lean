/-
  Props.C39 — Concurrent shard operations stay consistent (PARTIAL by nature).

  What is decided here, for every interleaving of the atomic steps of
  Model.EngineSteps (unbounded executions, arbitrary states):

    C39_maintenance_invisible  cache snapshots (begin / replace / clear) and compaction
                               commits never change the abstract content of the shard —
                               under the invariant `Inv`, which every execution keeps as
                               long as no delete step runs between a snapshot's Replace
                               and its Clear (`C39_inv_run`);
    C39_write                  a write step changes exactly its point;
    C39_read_point             a read (phase 1 = Cache.Values, later phase 2 = KeyCursor)
                               returns for every point a value the shard abstractly had at
                               some instant between its two phases — whatever steps
                               (writes, snapshots, compactions, deletes of other points)
                               are interleaved: reads are linearizable per point;
    C39_read_order_matters     with the two phases in the other order a snapshot racing
                               the read makes a present point vanish: the order the code
                               uses is necessary;
    C39_commit_order_matters   likewise for Replace-before-ClearSnapshot;
    C39_delete_window          the hypothesis of `C39_inv_run` is necessary: a delete
                               between Replace and Clear resurrects… loses the invariant
                               (C03's known window, recorded there, not here);
    C39_no_deadlock            generic: an acquisition relation with a rank (acyclic)
                               admits no deadlock state of the lock model;
    C39_isAcyclic_sound        the executable check run on the relation extracted from
                               the Go source on every run is sound for that;
    C39_extracted_acyclic      the extracted relation (committed copy) passes it.

  What is NOT decided (DESIGN §7): Go-memory-model data races, panics, deadlocks
  through channels / WaitGroups / condition variables, instance-level lock order
  (two locks of the same field of different objects).
-/
import Influx.Lemmas.EngineInv
import Influx.Lemmas.EngineTrace2
import Influx.Model.EngineBatch
import Influx.Model.LockOrder
import Influx.Model.LockOrderExtracted

namespace Influx.Props.C39
open Influx.Conc

/-! ## consistency -/

/-- **C39 (writes)**: a write step sets its point and nothing else. -/
theorem C39_write (s : St) (k : Key) (t : TS) (v : Val) (k' : Key) (t' : TS) :
    (step s (.wr k t v)).abs k' t' = if k' = k ∧ t' = t then some v else s.abs k' t' :=
  abs_write s k t v k' t'

/-- **C39 (maintenance is invisible)**: no snapshot or compaction step changes
    what the shard abstractly contains. -/
theorem C39_maintenance_invisible (s : St) (hi : Inv s) (σ : Step) (hm : maintenance σ = true)
    (k : Key) (t : TS) : (step s σ).abs k t = s.abs k t :=
  maintenance_invisible s hi σ hm k t

/-- every step of the execution is admissible where it runs -/
def Admissible : St → List Step → Prop
  | _, [] => True
  | s, σ :: rest => admissible s σ = true ∧ Admissible (step s σ) rest

/-- **the invariant holds along every admissible execution** -/
theorem C39_inv_run (s : St) (hi : Inv s) (σs : List Step) (ha : Admissible s σs) : Inv (run s σs) := by
  induction σs generalizing s with
  | nil => exact hi
  | cons σ rest ih => exact ih _ (Inv_step s hi σ ha.1) ha.2

/-- … hence maintenance-only executions leave the content untouched, at any length. -/
theorem C39_maintenance_run (s : St) (hi : Inv s) (σs : List Step) (hm : ∀ σ ∈ σs, maintenance σ = true)
    (k : Key) (t : TS) : (run s σs).abs k t = s.abs k t := by
  induction σs generalizing s with
  | nil => rfl
  | cons σ rest ih =>
    have hσ := hm σ (by simp)
    have hadm : admissible s σ = true := by
      cases σ <;> simp_all [admissible, Step.isDelete, maintenance]
    simp only [run]
    rw [ih _ (Inv_step s hi σ hadm) (fun τ hτ => hm τ (by simp [hτ])),
      C39_maintenance_invisible s hi σ hσ]

/-! ### reads -/

/-- what the files read at (k,t) after a step: unchanged, unless the step is a
    snapshot Replace (then the snapshot store's value is added on top) or a delete of (k,t) -/
theorem filesView_step (s : St) (σ : Step) (k : Key) (t : TS) (hd : σ.deletes k t = false) :
    (step s σ).filesView k t = s.filesView k t ∨
    (σ = .snapReplace ∧ s.phase = .begun ∧ ∃ v, s.snap.get k t = some v ∧ (step s σ).filesView k t = some v) := by
  cases σ with
  | wr => left; rfl
  | snapBegin => left; simp only [step]; split <;> rfl
  | snapClear => left; simp only [step]; split <;> rfl
  | delCache => left; rfl
  | compact n =>
    left; simp only [step]
    split
    · rfl
    · simp only [St.filesView]; rw [filesGet_compact]
  | delFile i k' lo hi =>
    left
    simp only [step, St.filesView]
    exact filesGet_addTomb_other _ i s.files k t (by simpa [Step.deletes, Tomb.covers] using hd)
  | snapReplace =>
    simp only [step]
    split
    · next hp =>
      split
      · left; rfl
      · cases hs : s.snap.get k t with
        | none =>
          left
          simp only [St.filesView]
          rw [filesGet_append]
          simp [filesGet, CFile.get, hs]
        | some v =>
          right
          refine ⟨trivial, hp, v, rfl, ?_⟩
          simp only [St.filesView]
          rw [filesGet_append]
          simp [filesGet, CFile.get, hs]
    · left; rfl

/-- the snapshot store only changes at an effective snapBegin (where the hot store is
    moved into it, so the point is then abstractly visible) or at snapClear -/
theorem snap_step (s : St) (σ : Step) (k : Key) (t : TS) (v : Val)
    (h : (step s σ).snap.get k t = some v) :
    s.snap.get k t = some v ∨ (σ = .snapBegin ∧ (step s σ).abs k t = some v) := by
  cases σ with
  | wr => left; exact h
  | snapReplace => left; simp only [step] at h; split at h <;> (try split at h) <;> exact h
  | snapClear =>
    simp only [step] at h
    split at h
    · simp [get_nil] at h
    · left; exact h
  | compact n => left; simp only [step] at h; split at h <;> exact h
  | delFile => left; exact h
  | delCache => left; exact h
  | snapBegin =>
    simp only [step] at h ⊢
    split at h
    · right
      refine ⟨trivial, ?_⟩
      simp only [] at h
      simp [St.abs, St.cacheView, get_nil, h]
    · left; exact h

/-- if the snapshot store holds (k,t)=v after some steps, it held it before them, or
    an effective snapBegin in between made v the abstract value at that instant -/
theorem snap_run (σs : List Step) (s : St) (k : Key) (t : TS) (v : Val)
    (h : (run s σs).snap.get k t = some v) :
    s.snap.get k t = some v ∨
    ∃ pre post, σs = pre ++ post ∧ pre ≠ [] ∧ (run s pre).abs k t = some v := by
  induction σs generalizing s with
  | nil => left; exact h
  | cons σ rest ih =>
    rcases ih (step s σ) h with h1 | ⟨pre, post, hpp, _, habs⟩
    · rcases snap_step s σ k t v h1 with h2 | ⟨_, habs⟩
      · left; exact h2
      · right; exact ⟨[σ], rest, rfl, by simp, habs⟩
    · right
      exact ⟨σ :: pre, post, by simp [hpp], by simp, habs⟩

/-- what the files read at (k,t) after any steps that do not delete (k,t): the same as
    before, or a value v that the snapshot store held before them, or that was the
    abstract value at some instant in between -/
theorem files_run (σs : List Step) (s : St) (k : Key) (t : TS)
    (hd : ∀ σ ∈ σs, σ.deletes k t = false) :
    (run s σs).filesView k t = s.filesView k t ∨
    ∃ v, (run s σs).filesView k t = some v ∧
      (s.snap.get k t = some v ∨
       ∃ pre post, σs = pre ++ post ∧ pre ≠ [] ∧ (run s pre).abs k t = some v) := by
  induction σs generalizing s with
  | nil => left; rfl
  | cons σ rest ih =>
    have hdσ := hd σ (by simp)
    have hdrest : ∀ τ ∈ rest, τ.deletes k t = false := fun τ hτ => hd τ (by simp [hτ])
    rcases ih (step s σ) hdrest with h1 | ⟨v, hv, h2⟩
    · -- the tail did not change the files' answer: look at the first step
      rcases filesView_step s σ k t hdσ with h3 | ⟨_, _, v, hs, hv⟩
      · left; simp only [run]; rw [h1, h3]
      · right; exact ⟨v, by simp only [run]; rw [h1, hv], Or.inl hs⟩
    · right
      refine ⟨v, hv, ?_⟩
      rcases h2 with h2 | ⟨pre, post, hpp, _, habs⟩
      · rcases snap_step s σ k t v h2 with h3 | ⟨_, habs⟩
        · exact Or.inl h3
        · exact Or.inr ⟨[σ], rest, rfl, by simp, habs⟩
      · exact Or.inr ⟨σ :: pre, post, by simp [hpp], by simp, habs⟩

/-- **C39 (reads are linearizable per point)**: a read that takes the cache values
    in state `s` and, after ANY interleaved steps `σs` that do not delete (k,t),
    the file values, returns for (k,t) exactly the abstract value of the shard at
    some instant between its two phases. -/
theorem C39_read_point (s : St) (σs : List Step) (k : Key) (t : TS)
    (hd : ∀ σ ∈ σs, σ.deletes k t = false) :
    ∃ pre post, σs = pre ++ post ∧ readPoint s (run s σs) k t = (run s pre).abs k t := by
  unfold readPoint
  cases hc : s.cacheView k t with
  | some v =>
    refine ⟨[], σs, rfl, ?_⟩
    simp [run, St.abs, hc]
  | none =>
    have hsnap : s.snap.get k t = none := by
      unfold St.cacheView at hc
      cases h1 : s.cache.get k t <;> cases h2 : s.snap.get k t <;> simp_all
    simp only [Option.none_or]
    rcases files_run σs s k t hd with h | ⟨v, hv, h⟩
    · exact ⟨[], σs, rfl, by simp [run, St.abs, hc, h]⟩
    · rcases h with h | ⟨pre, post, hpp, _, habs⟩
      · rw [hsnap] at h; simp at h
      · exact ⟨pre, post, hpp, by rw [hv, habs]⟩

/-! ### the orders the code uses are necessary -/

/-- a point in the hot cache, nothing else -/
def w0 : St := { cache := [(0, 1, 7)], snap := [], phase := .idle, files := [] }

/-- **Reading files first and the cache second would lose data**: during a whole
    snapshot the point (0,1) is abstractly present at every instant, yet the
    swapped read returns nothing. -/
theorem C39_read_order_matters :
    (∀ pre post, [Step.snapBegin, .snapReplace, .snapClear] = pre ++ post → (run w0 pre).abs 0 1 = some 7) ∧
    readPointSwapped w0 (run w0 [.snapBegin, .snapReplace, .snapClear]) 0 1 = none ∧
    readPoint w0 (run w0 [.snapBegin, .snapReplace, .snapClear]) 0 1 = some 7 := by
  refine ⟨?_, by decide, by decide⟩
  intro pre post h
  have : pre = [] ∨ pre = [.snapBegin] ∨ pre = [.snapBegin, .snapReplace] ∨
      pre = [.snapBegin, .snapReplace, .snapClear] := by
    match pre, h with
    | [], _ => simp
    | [a], h => simp at h; simp [h.1]
    | [a, b], h => simp at h; simp [h.1, h.2.1]
    | [a, b, c], h => simp at h; simp [h.1, h.2.1, h.2.2.1]
    | a :: b :: c :: d :: rest, h => simp at h
  rcases this with rfl | rfl | rfl | rfl <;> decide

/-- the snapshot commit with its two steps swapped (ClearSnapshot before Replace) -/
def clearThenReplace (s : St) : List St :=
  let s1 : St := { s with snap := [], phase := .idle }                       -- ClearSnapshot first
  let s2 : St := { s1 with files := s.files ++ [{ pts := s.snap, tombs := [] }] } -- then Replace
  [s1, s2]

/-- **Clearing the snapshot store before the file is in the FileStore would make
    data vanish** for a reader in between (the code does Replace first: `abs_snapReplace`,
    `abs_snapClear`). -/
theorem C39_commit_order_matters :
    let s := step w0 .snapBegin
    s.abs 0 1 = some 7 ∧ (clearThenReplace s).map (fun x => x.abs 0 1) = [none, some 7] := by
  decide

/-- **The hypothesis of `C39_inv_run` is necessary** (C03's window, recorded under
    C03): a delete that runs between Replace and Clear — file tombstoned, hot cache
    filtered, snapshot store untouched — leaves the point visible until Clear, and
    breaks the invariant. -/
theorem C39_delete_window :
    let s := run w0 [.snapBegin, .snapReplace, .delFile 0 0 1 1, .delCache 0 1 1]
    s.abs 0 1 = some 7 ∧ (step s .snapClear).abs 0 1 = none := by
  decide

/-! ### the statement checker on the model's own schedules -/

/-- **C39_holdsOn (partial)**: on every schedule of the model's operation machine that
    does not split a read into its two phases — any sequence of writes, snapshot
    begin / replace / clear, compaction begin / commit, whole deletes, deletes held
    between their tombstones and their cache step (with writes racing them), and
    atomic reads at every intermediate state — the statement checker `Spec.C39` (the
    one evaluated on the REAL engine's answers) finds every read explained by a serial
    order of the completed operations.  Missing: schedules with two-phase reads; for
    those the per-point theorem `C39_read_point` holds at state level and the
    correspondence run compares every answer with the real engine. -/
theorem C39_holdsOn_partial (ops : List Op) (hops : ∀ op ∈ ops, op.twoPhase = false) :
    Spec.C39.holdsOn (sysRun Sys.init ops) = true := by
  unfold Spec.C39.holdsOn
  rw [failures_sys ops Sys.init Spec.C39.SpecSt.init Rel_init hops]
  rfl

example : ∀ op ∈ [Op.write 0 1 7, .snapBegin, .read 0, .write 0 1 8, .snapReplace, .compactBegin, .read 0,
    .snapClear, .compactCommit, .delBegin 0 1 1, .write 0 1 5, .read 0, .delEnd, .read 0], op.twoPhase = false := by
  decide

/-! ### why `wr` and `snapBegin` may be treated as atomic: exclusive vs shared Engine.mu -/

theorem run_append (s : St) (a b : List Step) : run s (a ++ b) = run (run s a) b := by
  induction a generalizing s with
  | nil => rfl
  | cons σ a ih => simp [run, ih]

/-- every batch in flight captured the CURRENT hot store -/
def WInv (s : FSt) : Prop := ∀ w ∈ s.writers, w.2 = s.gen

theorem find_writer_mem {ws : List (Nat × Nat)} {i : Nat} {w : Nat × Nat}
    (h : ws.find? (fun w => w.1 == i) = some w) : w ∈ ws := List.mem_of_find?_eq_some h

theorem fstep_exclusive (s s' : FSt) (hinv : WInv s) (σ : FStep) (hx : σ ≠ .snapBegin false)
    (hs : fstep s σ = some s') : WInv s' ∧ s'.st = run s.st (coarsen σ) := by
  cases σ with
  | wBegin i =>
    simp only [fstep] at hs
    split at hs
    · simp at hs
    · simp at hs; subst hs
      refine ⟨?_, rfl⟩
      intro w hw
      rcases List.mem_cons.mp hw with rfl | hw
      · rfl
      · exact hinv w hw
  | wKey i k t v =>
    simp only [fstep] at hs
    cases hf : s.writers.find? (fun w => w.1 == i) with
    | none => simp [hf] at hs
    | some w =>
      obtain ⟨wi, g⟩ := w
      have hg : g = s.gen := hinv (wi, g) (find_writer_mem hf)
      simp only [hf, hg, if_true] at hs
      simp at hs; subst hs
      exact ⟨hinv, rfl⟩
  | wEnd i =>
    simp only [fstep] at hs
    split at hs
    · simp at hs; subst hs
      exact ⟨fun w hw => hinv w (List.mem_filter.mp hw).1, rfl⟩
    · simp at hs
  | snapBegin e =>
    cases e with
    | false => exact absurd rfl hx
    | true =>
      simp only [fstep, Bool.true_and] at hs
      split at hs
      · simp at hs
      · next hne =>
        have hw : s.writers = [] := by simpa using hne
        split at hs
        · simp at hs; subst hs
          exact ⟨by intro w hw'; simp [hw] at hw', rfl⟩
        · next hph =>
          simp at hs; subst hs
          refine ⟨hinv, ?_⟩
          simp only [coarsen, run, step]
          cases hp : s.st.phase with
          | idle => simp [hp] at hph
          | begun => rfl
          | replaced => rfl
  | other τ =>
    cases τ with
    | wr k t v => simp [fstep] at hs
    | snapBegin => simp [fstep] at hs
    | snapReplace => simp [fstep] at hs; subst hs; exact ⟨hinv, rfl⟩
    | snapClear => simp [fstep] at hs; subst hs; exact ⟨hinv, rfl⟩
    | compact n => simp [fstep] at hs; subst hs; exact ⟨hinv, rfl⟩
    | delFile i k lo hi => simp [fstep] at hs; subst hs; exact ⟨hinv, rfl⟩
    | delCache k lo hi => simp [fstep] at hs; subst hs; exact ⟨hinv, rfl⟩

/-- **C39 (batch atomicity from the lock modes)**: in the finer model where a write
    batch captures the hot store once and then writes its keys one by one while
    holding Engine.mu SHARED, if every Cache.Snapshot runs under Engine.mu EXCLUSIVE
    (`snapshot=W write=R`, re-extracted from the source on every run), then every
    execution the lock admits is an execution of the coarse step model with each
    key write as an atomic `wr` step: no batch ever writes into a store that has
    become the snapshot.  All theorems about `run` (reads, maintenance) therefore
    apply to batches. -/
theorem C39_batch_atomicity (σs : List FStep) (s s' : FSt) (hinv : WInv s)
    (hex : allExclusive σs = true) (hr : frun s σs = some s') :
    s'.st = run s.st (σs.flatMap coarsen) ∧ WInv s' := by
  induction σs generalizing s with
  | nil => simp [frun] at hr; subst hr; exact ⟨rfl, hinv⟩
  | cons σ rest ih =>
    simp only [frun] at hr
    cases hs : fstep s σ with
    | none => simp [hs] at hr
    | some s1 =>
      simp only [hs] at hr
      have hx : σ ≠ .snapBegin false := by
        intro hc; subst hc; simp [allExclusive] at hex
      have hrest : allExclusive rest = true := by
        cases σ with
        | snapBegin e => simp [allExclusive] at hex; exact hex.2
        | wBegin i => simpa [allExclusive] using hex
        | wKey i k t v => simpa [allExclusive] using hex
        | wEnd i => simpa [allExclusive] using hex
        | other τ => simpa [allExclusive] using hex
      obtain ⟨hinv1, hst1⟩ := fstep_exclusive s s1 hinv σ hx hs
      obtain ⟨h1, h2⟩ := ih s1 hinv1 hrest hr
      refine ⟨?_, h2⟩
      rw [List.flatMap_cons, run_append, ← hst1]; exact h1

/-- **With a SHARED lock around Cache.Snapshot an acknowledged write is lost**: batch 1
    writes (0,1), a snapshot begins and its file is written while the batch is still
    in flight, the batch then writes (0,2) into the store that has become the
    snapshot, ends (acknowledged), ClearSnapshot drops that store: (0,2) is not
    readable, and no coarse execution of the two writes explains that. -/
theorem C39_shared_snapshot_loses_write :
    (frun FSt.init [.wBegin 1, .wKey 1 0 1 7, .snapBegin false, .other .snapReplace,
        .wKey 1 0 2 8, .wEnd 1, .other .snapClear]).map (fun s => (s.st.abs 0 1, s.st.abs 0 2, s.writers))
      = some (some 7, none, []) ∧
    frun FSt.init [.wBegin 1, .wKey 1 0 1 7, .snapBegin true] = none := by
  decide

/-! ## lock order -/

open Influx.LockOrder

theorem exists_max_of_ne_nil {α : Type} (f : α → Nat) (l : List α) (h : l ≠ []) :
    ∃ x ∈ l, ∀ y ∈ l, f y ≤ f x := by
  induction l with
  | nil => exact absurd rfl h
  | cons a l ih =>
    by_cases hl : l = []
    · subst hl; exact ⟨a, by simp, by simp⟩
    · obtain ⟨x, hx, hmax⟩ := ih hl
      by_cases hax : f x ≤ f a
      · refine ⟨a, by simp, ?_⟩
        intro y hy
        rcases List.mem_cons.mp hy with rfl | hy
        · exact Nat.le_refl _
        · exact Nat.le_trans (hmax y hy) hax
      · refine ⟨x, by simp [hx], ?_⟩
        intro y hy
        rcases List.mem_cons.mp hy with rfl | hy
        · omega
        · exact hmax y hy

/-- **C39 (no deadlock state under an acyclic acquisition order)**: if the
    acquisition relation E has a rank (every pair goes strictly up — i.e. E is
    acyclic), then no set of threads that respect E is deadlocked. -/
theorem C39_no_deadlock (E : Lock → Lock → Prop) (rank : Lock → Nat)
    (hE : ∀ a b, E a b → rank a < rank b)
    (ts : List Thread) (hr : ∀ t ∈ ts, Respects E t) : ¬ Deadlocked ts := by
  intro ⟨hne, hdl⟩
  let f : Thread → Nat := fun t => match t.waiting with | some b => rank b | none => 0
  obtain ⟨x, hx, hmax⟩ := exists_max_of_ne_nil f ts hne
  obtain ⟨b, hwb, t', ht', hheld⟩ := hdl x hx
  obtain ⟨b', hwb', _⟩ := hdl t' ht'
  have hlt : rank b < rank b' := hE b b' (hr t' ht' b hheld b' hwb')
  have h1 : f x = rank b := by simp [f, hwb]
  have h2 : f t' = rank b' := by simp [f, hwb']
  have := hmax t' ht'
  omega

theorem checkOrder_sound (order : List Lock) (E : List (Lock × Lock)) (h : checkOrder order E = true) :
    ∀ a b, (a, b) ∈ E → rankIn order a < rankIn order b := by
  intro a b hab
  unfold checkOrder at h
  rw [List.all_eq_true] at h
  simpa using h (a, b) hab

/-- **the executable check is sound**: when `isAcyclic` accepts a relation, the
    relation has a rank. -/
theorem C39_isAcyclic_sound (E : List (Lock × Lock)) (h : isAcyclic E = true) :
    ∃ rank : Lock → Nat, ∀ a b, (a, b) ∈ E → rank a < rank b :=
  ⟨rankIn (topoOrder E), checkOrder_sound _ E h⟩

/-- … hence no deadlock state among threads that nest locks only as extracted. -/
theorem C39_lock_order (E : List (Lock × Lock)) (h : isAcyclic E = true)
    (ts : List Thread) (hr : ∀ t ∈ ts, Respects (fun a b => (a, b) ∈ E) t) : ¬ Deadlocked ts := by
  obtain ⟨rank, hrank⟩ := C39_isAcyclic_sound E h
  exact C39_no_deadlock _ rank hrank ts hr

set_option maxRecDepth 1000000 in
/-- **the relation extracted from the current source (committed copy) is acyclic** -/
theorem C39_extracted_acyclic : checkOrder extractedOrder extractedEdges = true := by decide

theorem C39_extracted_no_deadlock (ts : List Thread)
    (hr : ∀ t ∈ ts, Respects (fun a b => (a, b) ∈ extractedEdges) t) : ¬ Deadlocked ts :=
  C39_no_deadlock _ (rankIn extractedOrder) (checkOrder_sound _ _ C39_extracted_acyclic) ts hr

-- non-vacuity
example : Inv w0 := ⟨fun _ => rfl, fun h => by simp [w0] at h⟩
example : Admissible w0 [.snapBegin, .wr 1 2 3, .snapReplace, .compact 1, .snapClear, .delFile 0 0 1 1, .delCache 0 1 1] := by
  simp [Admissible, admissible, Step.isDelete, step, w0]
example : Respects (fun a b => (a, b) ∈ extractedEdges)
    { held := ["tsm1.Engine.mu"], waiting := some "tsm1.Cache.mu" } := by
  intro a ha b hb
  simp at ha hb; subst ha hb
  decide

end Influx.Props.C39
