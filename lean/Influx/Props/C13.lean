/-
  Props.C13 — series IDs are unique, stable and never reused (tsdb series file).
-/
import Influx.Lemmas.C13Torn
import Influx.Model.C13
import Influx.Spec.C13

namespace Influx.Props.C13
open Influx.SF Influx.C13 Influx.Spec.C13

/-! ## The segment, byte level -/

/-- **Round trip**: what `AppendSeriesEntry` appended (insert entries with a key of at most 127
    bytes after its length prefix, tombstones) is exactly what `ForEachEntry` reads back, for
    any number of entries: ids, keys and offsets. -/
theorem segment_roundtrip (es : List Entry) (h : Chain hdrSize es) : entries (fileOf es) = es :=
  entries_fileOf es h

/-- **Crash during a create (DESIGN §6 F5), decided**: the segment holds `es`; the append of
    the insert entry `e` is cut after `c` bytes, the rest reads as zero (pre-allocated file).
    For EVERY cut:
    * up to 9 bytes (flag and a possibly incomplete id, no key): the segment reads back as `es`
      — the torn entry is invisible, in particular no entry with a garbage id appears (this
      is what fixes/C13-torn-entry-empty-key.patch establishes; before it a valid-looking
      entry with id `id & ~(2^(8·(9-c)) - 1)` and key "\x00" was indexed);
    * more than 9 bytes: `es` unchanged, plus ONE entry with the new id `e.id`, the right
      offset and a key of the right length (the zero-padded prefix; the key itself when
      nothing was lost).
    So no acknowledged (key, id) entry of the segment is ever altered by a torn create. -/
theorem C13_crash_segment (es : List Entry) (e : Entry) (hch : Chain hdrSize (es ++ [e]))
    (hf : e.flag = insertFlag) (c : Nat) :
    let g := tear (fileOf es ++ e.bytes) ((fileOf es).length + c) ((fileOf es).length + e.bytes.length)
    (c ≤ 9 → entries g = es) ∧
    (9 < c → ∃ key', key'.length = e.key.length ∧ (e.bytes.length ≤ c → key' = e.key) ∧
      entries g = es ++ [{ e with key := key' }]) :=
  entries_torn es e hch hf c

-- the hypotheses are met by a non-trivial segment
example : Chain hdrSize ([⟨1, 1, [3, 0, 1, 97], 5⟩, ⟨2, 1, [], 18⟩] ++ [⟨1, 9, [3, 0, 1, 98], 27⟩]) := by
  refine ⟨rfl, ⟨by decide, Or.inl ⟨rfl, [0, 1, 97], rfl, by decide, by decide⟩⟩, rfl,
    ⟨by decide, Or.inr ⟨rfl, rfl⟩⟩, rfl, ⟨by decide, Or.inl ⟨rfl, [0, 1, 98], rfl, by decide, by decide⟩⟩, trivial⟩

end Influx.Props.C13
