/-
  Props.C13 — series IDs are unique, stable and never reused (tsdb series file).
-/
import Influx.Lemmas.C13Torn
import Influx.Lemmas.C13Sim3
import Influx.Model.C13
import Influx.Spec.C13

namespace Influx.Props.C13
open Influx.SF Influx.C13 Influx.Spec.C13

/-! ## The segment, byte level -/

/-- **Round trip**: what `AppendSeriesEntry` appended (insert entries with a key of at most 127
    bytes after its length prefix, tombstones) is exactly what `ForEachEntry` reads back, for
    any number of entries: ids, keys and offsets. -/
theorem segment_roundtrip (es : List Entry) (h : Chain hdrSize es) : entries (fileOf es) = es :=
  entries_fileOf es h

/-- **Crash during a create (DESIGN §6 F5), decided**: the segment holds `es`; the append of
    the insert entry `e` is cut after `c` bytes, the rest reads as zero (pre-allocated file).
    For EVERY cut:
    * up to 9 bytes (flag and a possibly incomplete id, no key): the segment reads back as `es`
      — the torn entry is invisible, in particular no entry with a garbage id appears (this
      is what fixes/C13-torn-entry-empty-key.patch establishes; before it a valid-looking
      entry with id `id & ~(2^(8·(9-c)) - 1)` and key "\x00" was indexed);
    * more than 9 bytes: `es` unchanged, plus ONE entry with the new id `e.id`, the right
      offset and a key of the right length (the zero-padded prefix; the key itself when
      nothing was lost).
    So no acknowledged (key, id) entry of the segment is ever altered by a torn create. -/
theorem C13_crash_segment (es : List Entry) (e : Entry) (hch : Chain hdrSize (es ++ [e]))
    (hf : e.flag = insertFlag) (c : Nat) :
    let g := tear (fileOf es ++ e.bytes) ((fileOf es).length + c) ((fileOf es).length + e.bytes.length)
    (c ≤ 9 → entries g = es) ∧
    (9 < c → ∃ key', key'.length = e.key.length ∧ (e.bytes.length ≤ c → key' = e.key) ∧
      entries g = es ++ [{ e with key := key' }]) :=
  entries_torn es e hch hf c

-- the hypotheses are met by a non-trivial segment
example : Chain hdrSize ([⟨1, 1, [3, 0, 1, 97], 5⟩, ⟨2, 1, [], 18⟩] ++ [⟨1, 9, [3, 0, 1, 98], 27⟩]) := by
  refine ⟨rfl, ⟨by decide, Or.inl ⟨rfl, [0, 1, 97], rfl, by decide, by decide⟩⟩, rfl,
    ⟨by decide, Or.inr ⟨rfl, rfl⟩⟩, rfl, ⟨by decide, Or.inl ⟨rfl, [0, 1, 98], rfl, by decide, by decide⟩⟩, trivial⟩

/-! ## One partition: what the index lookups mean (in memory and in the compacted index file)

`PInv2 p es`: the partition `p` holds exactly the entries `es` in its segment; ids of insert
entries grow, are ≡ pid+1 (mod 8) and below `seq`; `seq` is what `openSegments` would
recompute; a key is re-created only after its previous series was tombstoned; the in-memory
maps are the replay of what lies behind the index file's `maxOffset`; the index file holds the
insert entries that were live when it was written. -/

/-- `FindIDBySeriesKey` returns the id of THE live series with that key (across the in-memory
    map and the on-disk map of a compacted index), and `SeriesKey` of that id is the key. -/
theorem partition_lookup (p : Part) (es : List Entry) (h : PInv2 p es) (e : Entry) (hl : Live es e) :
    p.findID e.key = e.id ∧ p.seriesKey e.id = some e.key ∧ p.isDeleted e.id = false :=
  ⟨findID_live h.toPInv hl, seriesKey_live h.toPInv hl, live_not_deleted h.toPInv hl⟩

/-- a key without a live series is not found -/
theorem partition_lookup_absent (p : Part) (es : List Entry) (h : PInv2 p es) (key : Bytes)
    (hno : ∀ e, Live es e → e.key ≠ key) : p.findID key = 0 :=
  findID_none h.toPInv key hno

/-- **create is idempotent** and hands out a fresh id otherwise: an existing live series keeps
    its id and nothing is written; a new one gets `seq`, which exceeds every id ever written
    to the partition (deleted ones included), and `seq` advances by 8. -/
theorem partition_create (p : Part) (es : List Entry) (h : PInv2 p es) (key : Bytes) (hk : shortKey key)
    (hseq : p.seq < 2 ^ 64) :
    (∀ e, Live es e → e.key = key → p.createOne key = (p, e.id)) ∧
    ((∀ e, Live es e → e.key ≠ key) →
      (p.createOne key).2 = p.seq ∧ (∀ e ∈ es, e.flag = insertFlag → e.id < p.seq) ∧
      PInv2 (p.createOne key).1 (es ++ [newEntry p key]) ∧ (p.createOne key).1.seq = p.seq + 8) := by
  refine ⟨fun e hl hke => by rw [← hke]; exact createOne_live h hl, fun hno => ?_⟩
  obtain ⟨h1, h2, h3, _, _⟩ := createOne_new h key hk hno hseq
  exact ⟨h1, fun e he hf => (h.idPos e he hf).2.1, h2, h3⟩

/-- **reopen and index compaction change nothing**: same entries, same `seq`, invariant kept
    (hence, by `partition_lookup`, the same answers to every lookup). -/
theorem partition_reopen_compact (p : Part) (es : List Entry) (h : PInv2 p es) (thr : Nat) :
    (PInv2 (p.load thr) es ∧ (p.load thr).seq = p.seq) ∧ (PInv2 p.compact es ∧ p.compact.seq = p.seq) :=
  ⟨⟨(load_inv h thr).1, (load_inv h thr).2.1⟩, ⟨(compact_inv h).1, (compact_inv h).2.1⟩⟩

/-! ## The statement on the model's own traces -/

theorem fresh_inv (i : Nat) : PInv2 (Part.fresh i) [] := by
  have hp : PInv (Part.fresh i) [] :=
    { file := rfl
      chain := trivial
      idPos := fun e he => by cases he
      idInc := List.Pairwise.nil
      seqMod := rfl
      keys := List.Pairwise.nil
      tombAfter := fun t ht => by cases ht
      memKeyID := rfl
      memIDOff := rfl
      tomb := rfl
      maxOffset := rfl
      disk := fun d hd => by cases hd }
  refine ⟨hp, ?_, ?_⟩
  · simp [Part.fresh, nextSeq, SF.maxSeriesID]
  · simp [Part.fresh, Part.bound, hdr]

theorem init_rel (pf : Bytes → Nat) : Rel pf (fun _ => []) init {} := by
  refine ⟨⟨by simp [init, partN], ?_, fun _ _ => rfl⟩, ⟨?_, ?_, rfl, rfl, rfl, rfl⟩, ?_⟩
  · intro i p hp
    simp only [init] at hp
    rw [List.getElem?_map] at hp
    cases hr : (List.range partN)[i]? with
    | none => simp [hr] at hp
    | some j =>
      simp only [hr, Option.map_some, Option.some.injEq] at hp
      have := List.getElem?_eq_some_iff.mp hr
      obtain ⟨hl, hj⟩ := this
      simp at hj
      subst hj; subst hp
      refine ⟨rfl, fresh_inv i, ?_⟩
      simp at hl
      simp only [Part.fresh, partN] at hl ⊢
      omega
  · intro k id
    constructor
    · intro h; cases h
    · rintro ⟨e, hl, _⟩; exact absurd hl.1 (by simp)
  · intro id h; cases h
  · intro k h; cases h

theorem firstFailure_run (pf : Bytes → Nat) (ops : List Op) : ∀ (ess : Nat → List Entry) (s : State) (sp : SpecState),
    Rel pf ess s sp → (∀ op ∈ ops, Op.WF pf op) → (∀ x ∈ run s ops, Obs.small x.2) →
    firstFailure sp (run s ops) = none := by
  induction ops with
  | nil => intros; rfl
  | cons op ops ih =>
    intro ess s sp hR hwf hsm
    have hsm1 : Obs.small (step s op).2 := hsm (op, (step s op).2) (by simp [run])
    obtain ⟨ess', hnone, hR'⟩ := step_sim pf ess s sp op hR (hwf op (by simp)) hsm1
    simp only [run, firstFailure]
    cases hc : check sp op (step s op).2 with
    | mk sp' c =>
      rw [hc] at hnone hR'
      simp only at hnone hR'
      subst hnone
      exact ih ess' _ _ hR' (fun o ho => hwf o (by simp [ho])) (fun x hx => hsm x (by simp [run, hx]))

/-- **C13 on the model (partial)**: for EVERY partition function `pf` (the hash of the key) and
    every history of create / delete / lookup / reopen / index-compaction / threshold ops over
    well-formed keys, the statement checker accepts the model's trace: the same id for the same
    key every time, distinct ids for distinct keys, a never-used id after a delete, unchanged
    across reopen and index compaction (also the background one triggered by the threshold).
    PARTIAL: (1) crash ops are not part of this theorem — the crash clause is
    `C13_crash_segment` at the segment level and, for keys that are zero-padded prefixes of
    other keys, is FALSE (`C13_crash_full_fails`); (2) the offline segment compaction is
    excluded (known finding: it makes ids reusable); (3) keys have a one-byte length prefix;
    (4) ids stay below 2^63. -/
theorem C13_holdsOn_partial (pf : Bytes → Nat) (ops : List Op) (hwf : ∀ op ∈ ops, Op.WF pf op)
    (hsm : ∀ x ∈ run init ops, Obs.small x.2) : holdsOn (run init ops) = true := by
  simp [holdsOn, firstFailure_run pf ops _ init {} (init_rel pf) hwf hsm]

-- the hypotheses are met by a non-trivial history
example : ∀ op ∈ [Op.create [([3, 0, 1, 97], 2)], .delKey ([3, 0, 1, 97], 2), .reopen, .compact 2,
    .create [([3, 0, 1, 97], 2)], .allIDs], Op.WF (fun _ => 2) op := by
  intro op h; simp at h
  have hk : KeyOK (fun _ => 2) ([3, 0, 1, 97], 2) := ⟨rfl, by decide, [0, 1, 97], rfl, by decide, by decide⟩
  rcases h with rfl | rfl | rfl | rfl | rfl | rfl <;> simp [Op.WF] <;> exact hk

/-! ## Several segments: `openSegments` after a roll-over, and the model the driver runs -/

theorem openSeqGo_gt (seq : Nat) (hseq : 0 < seq) : ∀ (l : List (List Entry)),
    (∀ es ∈ l, ∀ e ∈ es, e.flag = insertFlag → seq ≤ e.id) →
    l.Pairwise (fun newer older => ∀ a ∈ newer, ∀ b ∈ older, a.flag = insertFlag → b.flag = insertFlag → b.id < a.id) →
    seq ≤ openSeqGo seq l ∧ ∀ es ∈ l, ∀ e ∈ es, e.flag = insertFlag → e.id < openSeqGo seq l
  | [], _, _ => ⟨Nat.le_refl _, fun es hes => by cases hes⟩
  | es :: rest, hpos, hord => by
    have hp := List.pairwise_cons.mp hord
    simp only [openSeqGo]
    by_cases hm : SF.maxSeriesID es ≥ seq
    · simp only [hm, if_true]
      refine ⟨by simp only [partN]; omega, ?_⟩
      intro es' hes' e he hf
      rcases List.mem_cons.mp hes' with rfl | hr
      · have := maxSeriesID_ge es' e he hf
        simp only [partN]; omega
      · -- an older segment: below the insert entry of `es` that carries the maximum
        rcases maxSeriesID_mem es with h0 | ⟨x, hx, hfx, hidx⟩
        · omega
        · have := hp.1 es' hr x hx e he hfx hf
          simp only [partN]; omega
    · simp only [hm, if_false]
      have hnone : ∀ e ∈ es, e.flag = insertFlag → False := by
        intro e he hf
        have h1 := maxSeriesID_ge es e he hf
        have h2 := hpos es (by simp) e he hf
        omega
      obtain ⟨i1, i2⟩ := openSeqGo_gt seq hseq rest (fun es' hes' => hpos es' (by simp [hes'])) hp.2
      refine ⟨i1, ?_⟩
      intro es' hes' e he hf
      rcases List.mem_cons.mp hes' with rfl | hr
      · exact absurd (hnone e he hf) id
      · exact i2 es' hr e he hf

/-- **`openSegments` after any number of roll-overs**: the id sequence recomputed at open (reverse
    search for the last segment that holds an insert entry) exceeds EVERY id in EVERY segment —
    also when the newest segments hold no insert entry at all (a tombstone rolled the log over,
    or a create died right after `createSegment`).  `segs`: the entries of the segments, oldest
    first; ids grow from older to newer segments and are at least `pid + 1`. -/
theorem openSeq_gt (pid : Nat) (segs : List (List Entry))
    (hpos : ∀ es ∈ segs, ∀ e ∈ es, e.flag = insertFlag → pid + 1 ≤ e.id)
    (hord : segs.Pairwise (fun older newer => ∀ a ∈ older, ∀ b ∈ newer, a.flag = insertFlag →
      b.flag = insertFlag → a.id < b.id)) :
    pid + 1 ≤ openSeq pid segs ∧ ∀ es ∈ segs, ∀ e ∈ es, e.flag = insertFlag → e.id < openSeq pid segs := by
  have := openSeqGo_gt (pid + 1) (by omega) segs.reverse
    (fun es hes => hpos es (by simpa using hes))
    (List.pairwise_reverse.mpr (hord.imp (fun h a ha b hb hfa hfb => h b hb a ha hfb hfa)))
  exact ⟨this.1, fun es hes => this.2 es (by simpa using hes)⟩

-- e.g. ids 1, 9 in segment fff0, a tombstone alone in segment fff1: the sequence continues at 17
example : openSeq 0 [[⟨1, 1, [3, 0, 1, 97], 5⟩, ⟨1, 9, [3, 0, 1, 98], 18⟩], [⟨2, 9, [], 5⟩]] = 17 := by decide

/-- while no roll-over is possible the driver's model IS the single-segment model -/
theorem runM_eq_run : ∀ (ops : List Op) (s : State),
    (∀ x ∈ statesM s ops, plainFor x.1 x.2 = true) → runM s ops = run s ops
  | [], _, _ => rfl
  | o :: os, s, h => by
    have h1 : plainFor s o = true := h (s, o) (by simp [statesM])
    have hs : stepM s o = step s o := by simp [stepM, h1]
    simp only [runM, run, hs]
    congr 1
    exact runM_eq_run os _ (fun x hx => h x (by simp [statesM, hs, hx]))

/-- **C13 on the model the driver runs** (`stepM`: single-segment model while no partition can
    roll over, general multi-segment model otherwise).  Same statement as `C13_holdsOn_partial`,
    with the extra explicit hypothesis `plainFor`: every partition still has the single segment
    0000 and the op cannot fill it (4 MB).  Histories WITH roll-over are covered by
    `openSeq_gt` (the sequence recomputed at open), by the correspondence run (tiny segments
    `fff0`…, tombstone- and crash-induced roll-overs) and by the statement checker on the real
    code; the whole-history theorem for them is not proved. -/
theorem C13_holdsOnM_partial (pf : Bytes → Nat) (ops : List Op) (hwf : ∀ op ∈ ops, Op.WF pf op)
    (hplain : ∀ x ∈ statesM init ops, plainFor x.1 x.2 = true)
    (hsm : ∀ x ∈ runM init ops, Obs.small x.2) : holdsOn (runM init ops) = true := by
  rw [runM_eq_run ops init hplain] at hsm ⊢
  exact C13_holdsOn_partial pf ops hwf hsm

example : ∀ x ∈ statesM init [Op.create [([3, 0, 1, 97], 2)], .delKey ([3, 0, 1, 97], 2), .reopen, .compact 2],
    plainFor x.1 x.2 = true := by decide

/-! ## Where the full statement fails (both reproduced on the real code by the check) -/

/-- **The crash clause at full strength is false**: a series whose name ends in NUL exists
    (key `06 0003 6e3000 00`, id 2, partition 1); a create of `n0p` in the same partition is torn
    after 14 bytes (flag, id, length prefix and `00 03 6e 30` on disk, the rest zero): the
    recovered entry carries the bytes of the FIRST key with the new id 10, and `SeriesID` of the
    acknowledged series changes from 2 to 10.  The statement checker rejects the model's trace
    (and the real code's: known finding `id-not-stable-after-tear-in-key`). -/
theorem C13_crash_full_fails :
    holdsOn (run init [.create [([6, 0, 3, 110, 48, 0, 0], 1)], .torn ([6, 0, 3, 110, 48, 112, 0], 1) 14,
      .id ([6, 0, 3, 110, 48, 0, 0], 1)]) = false := by decide

/-- **Segment compaction makes ids reusable**: create (id 1), delete, compact the segments as
    `build-tsi --compact-series-file` does, create another key of the partition: id 1 again
    (known finding `id-reused-after-segment-compaction`). -/
theorem C13_segcompact_reuses_id :
    holdsOn (run init [.create [([3, 0, 1, 97], 0)], .delKey ([3, 0, 1, 97], 0), .segCompact,
      .create [([3, 0, 1, 98], 0)]]) = false := by decide

end Influx.Props.C13
