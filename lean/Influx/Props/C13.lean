import Influx.Model.C13
import Influx.Spec.C13

namespace Influx.Props.C13

end Influx.Props.C13
