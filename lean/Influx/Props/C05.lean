/-
  Props.C05 — Compaction plans never reorder data or double-book files.

  The planner is `Influx.Planner` (Model/Planner.lean, written from
  tsdb/engine/tsm1/compact.go; `tsmGeneration.level` and the tsdb constants are
  regenerated from /repo on every run).  The statement is `Spec.C05.holdsOn`.

  Result.
  * `C05_partial` (unconditional): for EVERY sequence of
    fs/add/find/Plan/PlanLevel/PlanOptimize/ForceFull/FullyCompacted/Release/
    "compaction finished" operations, every group handed out is disjoint from
    every group still held and from the other groups of the same answer
    (no double booking, all paths), and every group handed out by PlanLevel,
    PlanOptimize and the level-4 path of Plan consists of generations that are
    contiguous in generation order.
  * `C05_full_fails`: the FULL statement is false of the code: on the full
    path of `Plan` (ForceFull pending, or a cold shard) generations that are in
    use — or maxed out — are skipped and the rest is still handed out as ONE group.
  * `C05_holdsOn_partial`: the full statement for all op sequences without
    `ForceFull` and without a cold `Plan`.
-/
import Influx.Lemmas.PlannerStep

namespace Influx.Props.C05
open Influx.Planner Influx.Spec.C05

/-- whatever the statement checker reports on a model trace is a non-contiguous
    group from a `Plan` call on the full path -/
theorem check_runFrom (ops : List Op) : ∀ (s : State) (st : St) (i : Nat), Inv s st →
    OnlyFull (checkFrom st i (runFrom s ops)) := by
  induction ops with
  | nil => intro s st i _ f hf; simp [runFrom, checkFrom] at hf
  | cons op rest ih =>
    intro s st i inv f hf
    have ok := step_ok inv i op
    simp only [runFrom, checkFrom, List.mem_append] at hf
    rcases hf with hf | hf
    · exact ok.onlyFull f hf
    · exact ih _ _ _ ok.inv f hf

/-- no `ForceFull`, no `Plan` with a cold last-write time -/
def noFullPlan (ops : List Op) : Bool :=
  ops.all fun op => match op with
    | .force => false
    | .plan true => false
    | _ => true

theorem check_runFrom_noFull (ops : List Op) (h : noFullPlan ops = true) :
    ∀ (s : State) (st : St) (i : Nat), Inv s st → st.forcePending = false →
    checkFrom st i (runFrom s ops) = [] := by
  induction ops with
  | nil => intro s st i _ _; rfl
  | cons op rest ih =>
    intro s st i inv hfp
    have ok := step_ok inv i op
    simp only [noFullPlan, List.all_cons, Bool.and_eq_true] at h
    have hop : (∀ c, op = .plan c → st.forcePending = false ∧ c = false) := by
      intro c hc; subst hc
      refine ⟨hfp, ?_⟩
      cases c
      · rfl
      · simp at h
    have hnf : op ≠ .force := by
      intro hc; subst hc; simp at h
    simp only [runFrom, checkFrom]
    rw [ok.none hop, ih h.2 _ _ _ ok.inv (ok.force hnf hfp)]
    rfl

/-- **C05, the part that holds for every call sequence**: no double booking on
    any path; contiguity on every path but the full one. -/
theorem C05_partial (ops : List Op) : holdsOnExceptFull (run ops) = true := by
  simp only [holdsOnExceptFull, List.all_eq_true]
  exact check_runFrom ops {} {} 0 Inv.init

/-- *Disjoint*, for every call sequence and every path (also the full one):
    a group handed out never shares a file with a held group, with another
    group of the same answer, or lists a file twice. -/
theorem C05_disjoint (ops : List Op) (i : Nat) : Fail.doubleBooked i ∉ check (run ops) := by
  intro h
  have := check_runFrom ops {} {} 0 Inv.init _ h
  simp [Fail.isFullNoncontiguous] at this

/-- *Contiguous*, for every call sequence, for PlanLevel, PlanOptimize and the
    level-4 path of Plan. -/
theorem C05_contiguous_nonfull (ops : List Op) (i : Nat) : Fail.noncontiguous i false ∉ check (run ops) := by
  intro h
  have := check_runFrom ops {} {} 0 Inv.init _ h
  simp [Fail.isFullNoncontiguous] at this

/-- the model never gives an answer of the wrong shape -/
theorem C05_answers (ops : List Op) (i : Nat) : Fail.badAnswer i ∉ check (run ops) := by
  intro h
  have := check_runFrom ops {} {} 0 Inv.init _ h
  simp [Fail.isFullNoncontiguous] at this

/-- **C05 under an explicit hypothesis**: the full statement for all call
    sequences that never take the full path (no `ForceFull`, no cold `Plan`).
    What is missing for the unconditional statement is exactly `C05_full_fails`. -/
theorem C05_holdsOn_partial (ops : List Op) (h : noFullPlan ops = true) : holdsOn (run ops) = true := by
  simp only [holdsOn, check, run, List.isEmpty_iff]
  exact check_runFrom_noFull ops h {} {} 0 Inv.init rfl

/-! ### the planning functions themselves (any `generations`, any `filesInUse`) -/

/-- PlanLevel: every group is a block of consecutive generations, groups do not overlap -/
theorem planLevel_groups (inUse : List String) (gens : List Gen) (lvl : Int) :
    (∀ gs ∈ levelGens inUse gens lvl, gs <:+: gens) ∧ (levelGens inUse gens lvl).flatten.Sublist gens :=
  ⟨levelGens_contig inUse gens lvl, levelGens_sub inUse gens lvl⟩

/-- PlanOptimize: the same -/
theorem planOptimize_groups (inUse : List String) (gens : List Gen) :
    (∀ gs ∈ optGens inUse gens, gs <:+: gens) ∧ (optGens inUse gens).flatten.Sublist gens :=
  ⟨optGens_contig inUse gens, optGens_sub inUse gens⟩

/-- Plan, level-4 path: the same -/
theorem planL4_groups (inUse : List String) (gens : List Gen) :
    (∀ gs ∈ l4Gens inUse gens, gs <:+: gens) ∧ (l4Gens inUse gens).flatten.Sublist gens :=
  ⟨l4Gens_contig inUse gens, l4Gens_sub inUse gens⟩

/-- Plan, full path: the single group is a sub-list of the generations — and no more than that -/
theorem planFull_groups (inUse : List String) (gens : List Gen) :
    (fullGens inUse gens).flatten.Sublist gens := fullGens_sub inUse gens

/-- Plan, full path, when nothing stands in the way (no generation in use, none above
    the maximum file size): the group is ALL generations — contiguous.  The full path
    is non-contiguous only through its two skip rules (`C05_full_fails`). -/
theorem planFull_all_when_nothing_skipped (inUse : List String) (gens : List Gen)
    (hu : ∀ g ∈ gens, isInUse inUse g = false)
    (hs : ∀ g ∈ gens, g.size ≤ Influx.Generated.Planner.MaxTSMFileSize) :
    ∀ gs ∈ fullGens inUse gens, gs = gens := by
  have key : ∀ (n : Nat) (l : List Gen), (∀ g ∈ l, isInUse inUse g = false) →
      (∀ g ∈ l, g.size ≤ Influx.Generated.Planner.MaxTSMFileSize) → fullLoop inUse n l = l := by
    intro n l
    induction l with
    | nil => intro _ _; rfl
    | cons g rest ih =>
      intro h1 h2
      have hg1 := h1 g (by simp)
      have hg2 := h2 g (by simp)
      have hskip : fullSkip n g rest = false := by
        have hle : ¬ (g.size > Influx.Generated.Planner.MaxTSMFileSize) := by omega
        cases rest with
        | nil => simp [fullSkip, hle]
        | cons nx _ => simp only [fullSkip]; split <;> simp [hle]
      simp only [fullLoop, hg1, hskip, Bool.false_eq_true, if_false]
      rw [ih (fun x hx => h1 x (by simp [hx])) (fun x hx => h2 x (by simp [hx]))]
  intro gs hgs
  unfold fullGens at hgs
  simp only at hgs
  split at hgs
  · simp at hgs
  · rw [key gens.length gens hu hs] at hgs
    simpa using hgs

/-- `FindGenerations`: ascending distinct ids, every file under its own generation, all files -/
theorem findGenerations_spec (fs : List File) :
    (findGenerations fs).Pairwise (fun a b => a.id < b.id) ∧
    (∀ g ∈ findGenerations fs, ∀ f ∈ g.files, f.gen = g.id) ∧
    ((findGenerations fs).flatMap Gen.files).Perm fs :=
  let h := findGenerations_ok fs; ⟨h.sorted, h.genOf, h.perm⟩

/-! ### the full statement fails (DESIGN §6 F2), two witnesses -/

private def fl (p : String) (g s : Int) (size : Nat := 100) (fbc : Int := 10) (tomb := false) : File :=
  ⟨p, g, s, size, fbc, tomb⟩

/-- generations 1..5; PlanLevel(2) takes {2,3}; `ForceFull; Plan` then hands out {1,4,5} -/
def witnessInUse : List Op :=
  [.setfs true [fl "a" 1 4, fl "b" 2 2 100 10 true, fl "c" 3 2, fl "d" 4 1, fl "e" 5 1],
   .find, .level 2, .force, .plan false]

/-- nothing is in use: a cold shard whose middle generation is maxed out (3 GB, full
    blocks); `Plan` hands out {1,3} -/
def witnessMaxedOut : List Op :=
  [.setfs true [fl "a" 1 4, fl "b" 2 4 3000000000 1000, fl "c" 3 4], .find, .plan true]

set_option maxRecDepth 100000 in
theorem witnessInUse_trace :
    (run witnessInUse).map (·.2) =
      [.ok, .gens [(1, ["a"]), (2, ["b"]), (3, ["c"]), (4, ["d"]), (5, ["e"])],
       .plan [["b", "c"]] 1 0, .ok, .plan [["a", "d", "e"]] 1 0] := by decide

set_option maxRecDepth 100000 in
theorem witnessMaxedOut_trace :
    (run witnessMaxedOut).map (·.2) =
      [.ok, .gens [(1, ["a"]), (2, ["b"]), (3, ["c"])], .plan [["a", "c"]] 1 0] := by decide

set_option maxRecDepth 100000 in
/-- **the full statement of C05 is false of the planner** -/
theorem C05_full_fails : ¬ ∀ ops : List Op, holdsOn (run ops) = true := by
  intro h
  have := h witnessInUse
  revert this
  decide

set_option maxRecDepth 100000 in
/-- … and also without any file in use -/
theorem C05_full_fails_maxedOut : holdsOn (run witnessMaxedOut) = false := by decide

/-! ### non-vacuity of the hypothesis of `C05_holdsOn_partial` -/

/-- eight level-1 snapshots and a level-2 pair with a tombstone: PlanLevel and the
    level-4 planner both hand out groups, and the hypothesis holds -/
def sampleOps : List Op :=
  [.setfs true ((List.range 8).map fun (n : Nat) => fl (toString n) ((n : Int) + 1) 1) , .find, .level 1, .plan false,
   .release 0, .level 1, .done 1 10 10, .find, .opt true]

example : noFullPlan sampleOps = true := by decide

end Influx.Props.C05
