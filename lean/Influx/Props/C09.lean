/-
  Props.C09 — Cache is a size-bounded newest-wins map (work in progress: witness first).
-/
import Influx.Spec.C09

namespace Influx.Props.C09
open Influx.Cache Influx.Spec.C09
open Influx.Generated.CacheConsts

private def fv (t : Int) (p : String) : Value := ⟨t, valueTypeFloat64, p, 0⟩

/-- DESIGN §6 F4: two writes at one timestamp, a read, then `Size()` -/
def witnessStale : List Op :=
  [.write [([107], [fv 1 "a"])], .write [([107], [fv 1 "b"])], .size, .values [107], .size]

set_option maxRecDepth 100000 in
theorem witnessStale_trace :
    (run witnessStale).map (·.2) = [.ok, .ok, .num 33, .vals [fv 1 "b"], .num 33] := by decide

set_option maxRecDepth 100000 in
/-- **the full statement of C09 is false of the cache**: after the read one value
    (16 bytes) and the key (1 byte) are held, 33 is reported -/
theorem C09_full_fails : ¬ ∀ ops : List Op, holdsOn (run ops) = true := by
  intro h
  have := h witnessStale
  revert this
  decide

end Influx.Props.C09
