/-
  Props.C09 — Cache is a size-bounded newest-wins map.

  The cache is `Influx.Cache` (Model/Cache.lean, written from tsdb/engine/tsm1/cache.go,
  ring.go, encoding.gen.go; valueType constants and `Value.Size()` regenerated from
  /repo on every run).  The statement is `Spec.C09.holdsOn` (sequential histories) and
  `Spec.C09.holdsOnConc` (recorded concurrent histories, decided by linearizability
  against the same checker).

  Result (sequential model, every history, unbounded):
  * `C09_partial`: reads return the deduplicated union of snapshot and hot values,
    newest wins (hot over snapshot, later write over earlier); a write over the limit
    stores nothing; a type conflict rejects that key only; Snapshot / ClearSnapshot
    follow the protocol; and the reported size equals the accounted size of the keys
    and values held — EXCEPT that after a read (or `Deduplicate`) has compacted a
    held list with superseded values the reported size may be too LARGE
    (`Fail.sizeStaleAfterDedup`, DESIGN §6 F4).
  * `C09_full_fails`: that exception is real: the full statement is false.
  * `C09_holdsOn_partial`: the full statement for all histories in which no read
    compacts superseded values.
  Hypotheses of both: every batch entry carries at least one value of a defined
  type (`validOps`), and the bytes ever written stay below 2^64 (`fits`).
  * `linearizable_sound`: the run-time linearizability decision is sound.
-/
import Influx.Lemmas.CacheStep
import Influx.Model.CacheConc

namespace Influx.Props.C09
open Influx.Cache Influx.Spec.C09
open Influx.Generated.CacheConsts

/-! ### hypotheses, decidable -/

def validBatch (b : List (Key × List Value)) : Bool :=
  b.all fun kv => !kv.2.isEmpty && kv.2.all (fun v => v.ty != 0)

/-- every key of every write comes with at least one value, every value has a type -/
def validOps (ops : List Op) : Bool :=
  ops.all fun op => match op with
    | .write b => validBatch b
    | _ => true

def opsBytes (ops : List Op) : Nat := (ops.map opBytes).sum

/-- the bytes ever handed to the cache stay below 2^64 (no uint64 wrap) -/
def fits (ops : List Op) : Bool := decide (opsBytes ops < W)

/-- has a read / `Deduplicate` compacted superseded values anywhere along the trace? -/
def compactedAlong (st : St) (i : Nat) : List (Op × Obs) → Bool
  | [] => st.compacted
  | x :: rest => st.compacted || compactedAlong (stepSt st i x).1 (i + 1) rest

theorem validBatch_iff (b : List (Key × List Value)) : validBatch b = true → ValidBatch b := by
  intro h kv hkv
  simp only [validBatch, List.all_eq_true, Bool.and_eq_true, Bool.not_eq_true', bne_iff_ne, ne_eq] at h
  have := h kv hkv
  refine ⟨?_, this.2⟩
  intro he; simp [he] at this

/-! ### the main induction -/

theorem check_runFrom (ops : List Op) : ∀ (c : Cache) (st : St) (B i : Nat), Inv c st B →
    validOps ops = true → B + opsBytes ops < W →
    (checkFrom st i (runFrom c ops)).all Fail.isStale = true ∧
    (compactedAlong st i (runFrom c ops) = false → checkFrom st i (runFrom c ops) = []) := by
  induction ops with
  | nil => intro c st B i _ _ _; exact ⟨rfl, fun _ => rfl⟩
  | cons op rest ih =>
    intro c st B i inv hv hB
    simp only [validOps, List.all_cons, Bool.and_eq_true] at hv
    simp only [opsBytes, List.map_cons, List.sum_cons] at hB
    have hvop : ValidOp op := by
      cases op <;> simp only [ValidOp] <;> try trivial
      exact validBatch_iff _ hv.1
    have ok := step_ok inv i op hvop (by omega)
    have ih' := ih (step c op).1 (stepSt st i (op, (step c op).2)).1 (B + opBytes op) (i + 1) ok.inv
      (by simpa [validOps] using hv.2) (by simp only [opsBytes]; omega)
    simp only [runFrom, checkFrom, compactedAlong]
    rw [if_pos ok.fails.1]
    refine ⟨?_, ?_⟩
    · rw [List.all_append, ok.fails.1, ih'.1]; rfl
    · intro hc
      simp only [Bool.or_eq_false_iff] at hc
      rw [ok.fails.2 hc.1, ih'.2 hc.2]; rfl

/-- **C09, the part that holds for every history**: everything but the size clause
    after a compacting read. -/
theorem C09_partial (ops : List Op) (hv : validOps ops = true) (hf : fits ops = true) :
    holdsOnExceptStale (run ops) = true := by
  have := check_runFrom ops {} {} 0 0 (Inv.init 0 0) hv (by simpa [fits] using hf)
  exact this.1

/-- **C09 under explicit hypotheses**: the full statement for every history along
    which no read or `Deduplicate` compacts superseded values.  What is missing for
    the unconditional statement is exactly `C09_full_fails`. -/
theorem C09_holdsOn_partial (ops : List Op) (hv : validOps ops = true) (hf : fits ops = true)
    (hc : compactedAlong {} 0 (run ops) = false) : holdsOn (run ops) = true := by
  have := check_runFrom ops {} {} 0 0 (Inv.init 0 0) hv (by simpa [fits] using hf)
  simp only [holdsOn, check, run, List.isEmpty_iff]
  exact this.2 hc

/-- no failure other than the stale size is ever reported on a model trace -/
theorem C09_no_other_failure (ops : List Op) (hv : validOps ops = true) (hf : fits ops = true)
    (f : Fail) (hm : f ∈ check (run ops)) : ∃ i, f = .sizeStaleAfterDedup i := by
  have := C09_partial ops hv hf
  simp only [holdsOnExceptStale, List.all_eq_true] at this
  have hs := this f hm
  cases f <;> simp [Fail.isStale] at hs
  exact ⟨_, rfl⟩

/-! ### the clauses, stated on the model directly -/

/-- `Values.Deduplicate` is the newest-wins canonical form: strictly ascending
    timestamps, and for every timestamp the value that arrived last -/
theorem C09_dedup_newest_wins (a : List Value) :
    dedup a = canon a ∧ (dedup a).Pairwise (fun x y => x.t < y.t) ∧ ∀ t, lastAt (dedup a) t = lastAt a t :=
  ⟨dedup_eq_canon a, dedup_sorted a, lastAt_dedup a⟩

/-- a read merges snapshot and hot values; the hot value wins at a shared timestamp -/
theorem C09_read_hot_wins (s h : List Value) (t : Int) :
    lastAt (dedup (dedup s ++ dedup h)) t = (lastAt h t).or (lastAt s t) := by
  rw [dedup_union, lastAt_canon, lastAt_append]

/-- a write that would exceed the limit stores nothing and changes nothing -/
theorem C09_over_limit_stores_nothing (c : Cache) (batch : List (Key × List Value)) (n : Nat)
    (h : (c.writeMulti batch).2 = some (.limit n)) : (c.writeMulti batch).1 = c := by
  unfold Cache.writeMulti at h ⊢
  simp only at h ⊢
  split
  · rfl
  · rename_i hn
    rw [if_neg hn] at h
    split at h <;> simp at h

/-- a type conflict rejects that key only: the store after the per-key loop of
    `WriteMulti` is the checker's `storeBatch` (conflicting keys skipped, all others
    appended), the error flag is "some key conflicted", and the size is accounted -/
theorem C09_conflict_that_key_only (batch : List (Key × List Value)) (s : Store) (size r : Nat)
    (ok : StoreOK s) (hv : ValidBatch batch) (hs : size = acct (toHeld s) + r + batchSize batch)
    (hW : size + keyBytes batch < W) :
    toHeld (writeLoop batch s size false).1 = storeBatch batch (toHeld s) ∧
    (writeLoop batch s size false).2.2 = anyConflict batch (toHeld s) ∧
    (writeLoop batch s size false).2.1 = acct (storeBatch batch (toHeld s)) + r := by
  have := writeLoop_spec batch s size false r ok hv hs hW
  exact ⟨this.1, by simpa using this.2.2.2.1, this.2.2.1⟩

/-! ### the full statement fails (DESIGN §6 F4) -/

private def fv (t : Int) (p : String) : Value := ⟨t, valueTypeFloat64, p, 0⟩

/-- two writes at one timestamp, a read, then `Size()` -/
def witnessStale : List Op :=
  [.write [([107], [fv 1 "a"])], .write [([107], [fv 1 "b"])], .size, .values [107], .size]

set_option maxRecDepth 100000 in
theorem witnessStale_trace :
    (run witnessStale).map (·.2) = [.ok, .ok, .num 33, .vals [fv 1 "b"], .num 33] := by decide

set_option maxRecDepth 100000 in
/-- **the full statement of C09 is false of the cache**: after the read one value
    (16 bytes) and the key (1 byte) are held, 33 is reported -/
theorem C09_full_fails : ¬ ∀ ops : List Op, holdsOn (run ops) = true := by
  intro h
  have := h witnessStale
  revert this
  decide

set_option maxRecDepth 100000 in
/-- the witness satisfies the hypotheses of `C09_partial` (it is not excluded by them) -/
example : validOps witnessStale = true ∧ fits witnessStale = true := by decide

/-! ### non-vacuity of the hypotheses of `C09_holdsOn_partial` -/

/-- out-of-order writes to two keys, a snapshot, an overwrite in the hot store, reads,
    a range delete, a failed and a successful clear -/
def sampleOps : List Op :=
  [.write [([107], [fv 3 "a", fv 1 "b"]), ([109], [⟨1, valueTypeInteger, "5", 0⟩])], .size, .snapshot,
   .write [([107], [fv 2 "c"])], .values [107], .size, .delrange [[107]] 0 1, .clear false, .snapshot,
   .clear true, .values [107], .size, .count]

set_option maxRecDepth 100000 in
example : validOps sampleOps = true ∧ fits sampleOps = true ∧ compactedAlong {} 0 (run sampleOps) = false := by
  decide

/-! ### soundness of the linearizability decision used on recorded histories -/

theorem Call.same_comm (a b : Call) : a.same b = b.same a := by
  unfold Call.same
  rw [BEq.comm (a := a.thread), BEq.comm (a := a.index), BEq.comm (a := a.sub)]

/-- a sequence of calls is accepted by the sequential statement from `st` (inside a
    concurrent block the size clause is not applied, see `Spec.C09.linearizable`) -/
def accepted (st : St) : List Call → Bool
  | [] => true
  | c :: rest =>
    let r := stepSt st 0 (c.op, c.obs)
    r.2.all Fail.sizeOnly && accepted r.1 rest

/-- if the decision procedure says "linearizable", there is an order of the calls that
    is a permutation of them, never puts a call before one that had already responded
    when it was invoked, and on which the sequential statement holds -/
theorem linearizable_sound : ∀ (fuel : Nat) (st : St) (calls : List Call),
    calls.Pairwise (fun a b => a.same b = false) →
    linearizable fuel st calls = true →
    ∃ order : List Call, order.Perm calls ∧ order.Pairwise (fun a b => ¬ b.ret < a.inv) ∧
      accepted st order = true := by
  intro fuel
  induction fuel with
  | zero =>
    intro st calls _ h
    simp only [linearizable, linearizableWith, List.isEmpty_iff] at h
    subst h
    exact ⟨[], List.Perm.refl _, List.Pairwise.nil, rfl⟩
  | succ fuel ih =>
    intro st calls hd h
    simp only [linearizable, linearizableWith, Bool.or_eq_true, List.isEmpty_iff, List.any_eq_true, Bool.and_eq_true] at h
    rcases h with h | ⟨c, hc, hmin, hfs, hrest⟩
    · subst h; exact ⟨[], List.Perm.refl _, List.Pairwise.nil, rfl⟩
    · have hd' : (calls.filter fun p => !p.same c).Pairwise (fun a b => a.same b = false) :=
        hd.sublist List.filter_sublist
      obtain ⟨order, hp, hrt, hacc⟩ := ih _ _ hd' hrest
      refine ⟨c :: order, ?_, ?_, ?_⟩
      · -- `c` is the only call with its identity
        have hsplit : calls.Perm (c :: calls.filter fun p => !p.same c) := by
          clear hrest hmin hfs ih hp hrt hacc hd'
          induction calls with
          | nil => simp at hc
          | cons x xs ihx =>
            have hpx := List.pairwise_cons.mp hd
            rcases List.mem_cons.mp hc with rfl | hcx
            · have hself : c.same c = true := by simp [Call.same]
              have hxs : xs.filter (fun p => !p.same c) = xs := by
                rw [List.filter_eq_self]
                intro p hp
                have := hpx.1 p hp
                have hsym : p.same c = c.same p := Call.same_comm p c
                simp [hsym, this]
              simp [List.filter_cons, hself, hxs]
            · have hne : x.same c = false := hpx.1 c hcx
              have := ihx hpx.2 hcx
              simp only [List.filter_cons, hne, Bool.not_false, if_true]
              exact (List.Perm.cons x this).trans (List.Perm.swap c x _)
        exact (List.Perm.cons c hp).trans hsplit.symm
      · refine List.pairwise_cons.mpr ⟨?_, hrt⟩
        intro b hb
        have hbm := (List.mem_filter.mp (hp.subset hb))
        have := (List.all_eq_true.mp hmin) b hbm.1
        simp only [Bool.or_eq_true, Bool.not_eq_true', decide_eq_false_iff_not] at this
        rcases this with h | h
        · simp [h] at hbm
        · exact h
      · simp only [accepted, Bool.and_eq_true]
        exact ⟨hfs, hacc⟩

/-! ### concurrency: an acknowledged write racing a range delete of the same key can be lost

  Step-level model `Influx.CacheConc` (lock sections of `partition.write`/`entry.add`
  and of `DeleteRange` as atomic steps).  The key holds one value at t=10; `W` writes a
  value at t=100; `D` deletes the range [0,50] — which does not contain t=100. -/

open Influx.CacheConc in
private def cv (t : Int) : Value := ⟨t, valueTypeFloat64, "x", 0⟩

open Influx.CacheConc in
/-- the store before the two calls: key `k` ↦ entry 0 holding the value at t=10 -/
def concStart : Cfg := ⟨⟨[([107], 0)], [(0, [cv 10])]⟩, .start, .start⟩

open Influx.CacheConc in
/-- what a read of `k` returns once both calls have returned, for a schedule -/
def concOutcome (sched : List Tid) : Option (Bool × List Value) :=
  (runSched [107] [cv 100] 0 50 concStart sched).map fun c => (finished c, c.sh.read [107])

open Influx.CacheConc in
set_option maxRecDepth 100000 in
/-- both sequential orders leave the acknowledged value readable … -/
theorem conc_sequential_orders :
    concOutcome [.w, .w, .d, .d, .d] = some (true, [cv 100]) ∧
    concOutcome [.d, .d, .d, .w] = some (true, [cv 100]) := by decide

open Influx.CacheConc in
set_option maxRecDepth 100000 in
/-- … **but the interleaving w1 d1 d2 d3 w2 loses it**: `W` fetched the entry pointer,
    `D` emptied the entry and removed it from the store, `W` appended to the orphan.
    Both calls returned normally; the key reads empty. -/
theorem C09_conc_lost_write : concOutcome [.w, .d, .d, .d, .w] = some (true, []) := by decide

open Influx.CacheConc in
set_option maxRecDepth 100000 in
/-- all ten interleavings of the two calls: the value is lost exactly when `w1` comes
    before `d3` and `w2` after it -/
theorem conc_all_interleavings :
    ([[Tid.w, .w, .d, .d, .d], [.w, .d, .w, .d, .d], [.w, .d, .d, .w, .d], [.w, .d, .d, .d, .w],
      [.d, .w, .w, .d, .d], [.d, .w, .d, .w, .d], [.d, .w, .d, .d, .w],
      [.d, .d, .w, .w, .d], [.d, .d, .w, .d, .w], [.d, .d, .d, .w]].map fun s => (concOutcome s).map (·.2)) =
     [some [cv 100], some [cv 100], some [cv 100], some [],
      some [cv 100], some [cv 100], some [],
      some [cv 100], some [], some [cv 100]] := by decide

/-- the recorded history of that run — `W` and `D` overlap, then a read returns nothing —
    is rejected by the linearizability decision, and carries the signature of the
    known finding -/
def lostWriteHistory : List Call :=
  [{ thread := 0, index := 0, op := .write [([107], [cv 100])], inv := 0, ret := 3, obs := .ok },
   { thread := 1, index := 0, op := .delrange [[107]] 0 50, inv := 1, ret := 2, obs := .ok },
   { thread := 2, index := 0, op := .values [107], inv := 4, ret := 5, obs := .vals [] }]

set_option maxRecDepth 100000 in
theorem C09_conc_full_fails :
    holdsOnConc [(.write [([107], [cv 10])], .ok)] lostWriteHistory = false ∧
    lostWriteRacingDelete [(.write [([107], [cv 10])], .ok)] lostWriteHistory = true := by decide

/-- a recorded history of the shape observed on the real cache (corpus case `w-vs-d-size`):
    a write races a range delete of its key, the contents are linearizable, but the
    `Snapshot` that follows reports 49 bytes for 33 held.  The oracle accepts the
    CONTENT and reports the size under the known-finding signature. -/
def sizeResidueHistory : List Call :=
  [{ thread := 0, index := 0, op := .write [([107], [cv 100])], inv := 0, ret := 3, obs := .ok },
   { thread := 1, index := 0, op := .delrange [[107]] 50 60, inv := 1, ret := 2, obs := .ok },
   { thread := 2, index := 0, op := .snapshot, inv := 4, ret := 5, obs := .snap 49 1 }]

set_option maxRecDepth 100000 in
theorem C09_conc_size_residue :
    holdsOnConc [(.write [([107], [cv 10])], .ok)] sizeResidueHistory = true ∧
    sizeResidueRacingDelete [(.write [([107], [cv 10])], .ok)] sizeResidueHistory = true ∧
    lostWriteRacingDelete [(.write [([107], [cv 10])], .ok)] sizeResidueHistory = false := by decide

end Influx.Props.C09
