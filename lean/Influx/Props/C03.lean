/-
  Props.C03 — Deleted points never reappear.

  The full statement is FALSE of the engine as it stands (DESIGN §6 F1, reproduced on the real
  tsm1.Engine by the check): `Engine.deleteSeriesRange` filters the HOT cache store and tombstones
  the current TSM files, but not the snapshot store of an in-flight `WriteSnapshot`; the points
  stay readable (`Cache.Values` merges the snapshot store), are written to the new TSM file
  without a tombstone and survive restarts.  `C03_full_fails` is the witness;
  `C03_partial` proves the statement for every history in which no delete covers a point held
  by the in-flight snapshot store (`safeFrom`, decidable on the history).
-/
import Influx.Lemmas.EngineC02

namespace Influx.Props.C03
open Influx.Model.Engine Influx.Spec.C03

/-- the hypothesis of `C03_partial` (`opSafe`, decidable on the history):
    **NoDeleteInsideSnapshot** — at every delete, the in-flight (or failed, pending) snapshot store
    holds no point of the deleted series/range (trivially true when no snapshot is pending); and,
    because restarts are in scope, no retry of a failed snapshot attempt after further writes
    (that is C02's second known finding: those writes are lost by the next restart). -/
def safeFrom (s : State) : List Op → Bool
  | [] => true
  | op :: ops => opSafe s op && safeFrom (step s op).1 ops

/-- operations covered by the theorems of this module: everything C03 speaks about, including
    restarts (a crash at any step boundary, also inside a snapshot commit or inside
    FileStore.replace of a compaction, followed by Engine.Open).  Crashes that tear the
    operation in flight are C02's. -/
def inScope' : Op → Bool
  | .write _ | .read .. | .delete .. | .snapBegin | .snapFail | .snapStep | .snapTo _ | .compact .. | .files
  | .crash false | .compactCrash .. => true
  | _ => false

/-- the events the model acknowledges for one op in state `s` -/
def evsOf (s : State) : Op → List Ev
  | .write es => es.map .put
  | .delete ss lo hi => if (step s (.delete ss lo hi)).2 = .ok then [.del ss lo hi] else []
  | _ => []

/-- **A returned delete removes exactly its range** (and nothing else), whenever the snapshot
    store holds none of it. -/
theorem C03_delete_exact {s : State} {ss : List Nat} {lo hi : Int} (hc : SnapClear s ss lo hi)
    (hok : (step s (.delete ss lo hi)).2 = .ok) (k : Key) (t : Int) :
    (step s (.delete ss lo hi)).1.abs k t = if covered ss lo hi k t then none else s.abs k t := by
  simp only [step] at hok ⊢
  by_cases hb : commitLocked s.phase = true
  · simp [hb] at hok
  · simp only [hb, Bool.false_eq_true, if_false]; exact abs_stepDelete hc k t

theorem step_refines {s : State} {h : List Ev} (hg : Good s) (ha : AbsIs3 s h) (op : Op)
    (hop : inScope' op = true) (hs : safeFrom s [op] = true) :
    Good (step s op).1 ∧ AbsIs3 (step s op).1 (h ++ evsOf s op) := by
  cases op with
  | write es =>
    refine ⟨good_write hg es, fun k t => ?_⟩
    simp only [step, evsOf, abs_stepWrite, cell_puts, ha k t]
  | delete ss lo hi =>
    simp only [safeFrom, opSafe, Bool.and_true, decide_eq_true_eq] at hs
    simp only [evsOf]
    by_cases hb : commitLocked s.phase = true
    · have hstep : step s (.delete ss lo hi) = (s.touch, .blocked) := by simp [step, hb]
      rw [hstep]
      simp only [reduceCtorEq, if_false, List.append_nil]
      exact ⟨good_touch hg, ha⟩
    · have hb' : commitLocked s.phase = false := by simpa using hb
      have hstep : step s (.delete ss lo hi) = (stepDelete s ss lo hi, .ok) := by simp [step, hb']
      rw [hstep]
      simp only [if_true]
      exact ⟨good_delete hg hs hb', fun k t => by rw [abs_stepDelete hs, cell_del, ha]⟩
  | snapBegin =>
    simp only [safeFrom, opSafe, Bool.and_true, decide_eq_true_eq] at hs
    exact ⟨good_snapBegin hg hs, fun k t => by
      simp only [evsOf, List.append_nil]; rw [← ha k t]; exact abs_stepSnapBegin hg.inv k t⟩
  | snapFail =>
    simp only [safeFrom, opSafe, Bool.and_true, decide_eq_true_eq] at hs
    exact ⟨good_snapFail hg hs, fun k t => by
      simp only [evsOf, List.append_nil]; rw [← ha k t]; exact abs_stepSnapFail hg.inv k t⟩
  | snapStep =>
    exact ⟨good_snapStep hg, fun k t => by
      simp only [evsOf, List.append_nil]; rw [← ha k t]; exact abs_stepSnapStep hg.inv k t⟩
  | snapTo p =>
    exact ⟨good_snapTo hg p, fun k t => by
      simp only [evsOf, List.append_nil]; rw [← ha k t]; exact abs_stepSnapTo hg.inv p k t⟩
  | compact i j =>
    simp only [evsOf, List.append_nil]
    by_cases hv : validGroup s.files i j = true
    · have hstep : (step s (.compact i j)).1 =
          ({ s with files := compactFiles s.files i j, lastRec := false } : State) := by simp [step, hv]
      rw [hstep]
      exact ⟨good_compact hg hv, fun k t => by
        rw [← ha k t]; exact abs_compact s i j (validGroup_le hv) k t⟩
    · have hstep : (step s (.compact i j)).1 = s.touch := by simp [step, hv]
      rw [hstep]; exact ⟨good_touch hg, ha⟩
  | compactSet idxs => simp [inScope'] at hop
  | read k lo hi asc => exact ⟨good_touch hg, fun k t => by simpa [evsOf, step] using ha k t⟩
  | files => exact ⟨good_touch hg, fun k t => by simpa [evsOf, step] using ha k t⟩
  | crash tear =>
    cases tear with
    | true => simp [inScope'] at hop
    | false =>
      refine ⟨good_stepCrash hg.wal false, fun k t => ?_⟩
      simp only [evsOf, List.append_nil]
      rw [← ha k t]
      have : (step s (.crash false)).1 = openWith s s.files s.wal := by simp [step, stepCrash, State.wal]
      rw [this]; exact abs_openWith_same hg.inv hg.wal s.files (fun _ _ => rfl) k t
  | compactCrash i j pt n =>
    simp only [evsOf, List.append_nil, step]
    have hget : ∀ k t, Log.get (filesLog (if validGroup s.files i j then compactCrashFiles s.files i j pt n
        else s.files)) k t = Log.get (filesLog s.files) k t := by
      intro k t
      by_cases hv : validGroup s.files i j = true
      · simp only [hv, if_true]; exact get_compactCrashFiles _ _ _ (validGroup_le hv) _ _ k t
      · simp [hv]
    exact ⟨good_deleteCrash hg _, fun k t => by
      rw [← ha k t]; exact abs_openWith_same hg.inv hg.wal _ hget k t⟩
  | deleteCrash ss lo hi => simp [inScope'] at hop

theorem safeFrom_cons {s : State} {op : Op} {ops : List Op} (h : safeFrom s (op :: ops) = true) :
    safeFrom s [op] = true ∧ safeFrom (step s op).1 ops = true := by
  simp only [safeFrom, Bool.and_eq_true, Bool.and_true] at h ⊢
  exact h

theorem checkFrom_runFrom (ops : List Op) : ∀ (s : State) (h : List Ev) (w : Window), Good s → AbsIs3 s h →
    (∀ op ∈ ops, inScope' op = true) → safeFrom s ops = true →
    checkFrom h w (runFrom s ops).2 = none := by
  induction ops with
  | nil => intro s h w _ _ _ _; rfl
  | cons op ops ih =>
    intro s h w hg ha hs hsafe
    have hop := hs op List.mem_cons_self
    have hsf := safeFrom_cons hsafe
    have h1 := step_refines hg ha op hop hsf.1
    have hrest := fun h' w' (hw : h' = h ++ evsOf s op) =>
      ih (step s op).1 h' w' h1.1 (hw ▸ h1.2) (fun o ho => hs o (List.mem_cons_of_mem _ ho)) hsf.2
    simp only [runFrom]
    cases op with
    | write es =>
      simp only [checkFrom, step, if_true]
      exact hrest _ _ (by simp [evsOf])
    | delete ss lo hi =>
      simp only [checkFrom]
      by_cases hok : (step s (.delete ss lo hi)).2 = .ok
      · simp only [hok, if_true]
        exact hrest _ _ (by simp [evsOf, hok])
      · have hb : (step s (.delete ss lo hi)).2 = .blocked := by
          simp only [step] at hok ⊢
          by_cases hbl : commitLocked s.phase = true
          · simp [hbl]
          · simp [hbl] at hok
        simp only [hb, reduceCtorEq, if_false, if_true]
        exact hrest _ _ (by simp [evsOf, hb])
    | snapBegin =>
      simp only [checkFrom]
      split <;> exact hrest _ _ (by simp [evsOf])
    | snapFail =>
      simp only [checkFrom]
      split <;> exact hrest _ _ (by simp [evsOf])
    | snapStep => simp only [checkFrom, Spec.C03.inScope, if_true]; exact hrest _ _ (by simp [evsOf])
    | snapTo p => simp only [checkFrom]; exact hrest _ _ (by simp [evsOf])
    | compact i j => simp only [checkFrom, Spec.C03.inScope, if_true]; exact hrest _ _ (by simp [evsOf])
    | compactSet idxs => simp [inScope'] at hop
    | read k lo hi asc =>
      simp only [checkFrom, step, touch_read, rowsOK3_read ha, if_true]
      exact hrest _ _ (by simp [evsOf])
    | files => simp only [checkFrom, Spec.C03.inScope, if_true]; exact hrest _ _ (by simp [evsOf])
    | crash tear =>
      cases tear with
      | true => simp [inScope'] at hop
      | false => simp only [checkFrom, step, if_true]; exact hrest _ _ (by simp [evsOf])
    | compactCrash i j pt n => simp only [checkFrom, step, if_true]; exact hrest _ _ (by simp [evsOf])
    | deleteCrash ss lo hi => simp [inScope'] at hop

/-- **C03, partial** — for every history of writes, deletes, snapshot sub-steps, compactions of
    adjacent files, RESTARTS (crash at any step boundary — also between the sub-steps of a snapshot
    commit and inside FileStore.replace of a compaction — followed by Engine.Open) and reads in
    which no delete covers a point held by the in-flight snapshot store, the statement holds on
    the model's trace: no deleted point is ever returned again (through later snapshots,
    compactions and restarts) and every other point is unaffected.
    What is missing for the full statement: exactly the excluded histories (C03_full_fails). -/
theorem C03_partial (ops : List Op) (hs : ∀ op ∈ ops, inScope' op = true)
    (hsafe : safeFrom init ops = true) : holdsOn (trace ops) = true := by
  simp only [holdsOn, check, trace,
    checkFrom_runFrom ops init [] {} good_init (fun _ _ => rfl) hs hsafe]
  rfl

/-- the state reached is exactly the abstract cell map of the acknowledged events -/
theorem run_refines (ops : List Op) : ∀ (s : State) (h : List Ev), Good s → AbsIs3 s h →
    (∀ op ∈ ops, inScope' op = true) → safeFrom s ops = true →
    ∃ h', Good (runFrom s ops).1 ∧ AbsIs3 (runFrom s ops).1 h' := by
  induction ops with
  | nil => intro s h hg ha _ _; exact ⟨h, hg, ha⟩
  | cons op ops ih =>
    intro s h hg ha hs hsafe
    have hsf := safeFrom_cons hsafe
    have h1 := step_refines hg ha op (hs op List.mem_cons_self) hsf.1
    exact ih _ _ h1.1 h1.2 (fun o ho => hs o (List.mem_cons_of_mem _ ho)) hsf.2

/-- the F1 history: write, begin a snapshot, delete the point, let the snapshot finish, read -/
def f1Ops : List Op :=
  [.write [⟨⟨0,0⟩,100,1⟩], .snapBegin, .delete [0] 100 100, .snapTo .idle, .read ⟨0,0⟩ 0 1000 true]

/-- **C03 at full strength fails**: in the F1 history the delete returns `ok`, yet the read
    after the snapshot commit returns the deleted point (and the new TSM file carries it
    without a tombstone, so it also survives a restart). -/
theorem C03_full_fails :
    (∀ op ∈ f1Ops, inScope' op = true) ∧ holdsOn (trace f1Ops) = false ∧
    check (trace f1Ops) = some "delete-overlaps-inflight-snapshot:s0f0t100" ∧
    (trace (f1Ops ++ [.crash false, .read ⟨0,0⟩ 0 1000 true])).getLast? =
      some (.read ⟨0,0⟩ 0 1000 true, .rows [(100, 1)]) := by decide

/-- the F1 history is exactly what `safeFrom` excludes -/
example : safeFrom init f1Ops = false := by decide

/-- the hypothesis of C03_partial is met by a non-trivial history: deletes of flushed and of
    hot points, a delete inside a snapshot window that does not touch the snapshot's points,
    compaction of tombstoned files, re-write after delete -/
def okOps : List Op :=
  [.write [⟨⟨0,0⟩,1,1⟩, ⟨⟨0,0⟩,2,2⟩, ⟨⟨1,0⟩,2,7⟩], .snapBegin, .snapTo .idle, .write [⟨⟨0,0⟩,3,3⟩],
   .delete [0] 2 3, .read ⟨0,0⟩ 0 10 true, .snapBegin, .write [⟨⟨0,1⟩,5,5⟩], .delete [0] 5 6, .snapTo .idle,
   .compact 0 0, .write [⟨⟨0,0⟩,2,9⟩], .read ⟨0,0⟩ 0 10 false, .crash false, .read ⟨1,0⟩ 0 10 true]

example : (∀ op ∈ okOps, inScope' op = true) ∧ safeFrom init okOps = true ∧
    (trace okOps).getLast? = some (.read ⟨1,0⟩ 0 10 true, .rows [(2, 7)]) ∧
    (trace okOps)[12]? = some (.read ⟨0,0⟩ 0 10 false, .rows [(2, 9), (1, 1)]) := by decide

end Influx.Props.C03
