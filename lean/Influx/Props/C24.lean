/-
  Props.C24 — the task scheduler dispatches each due run once, in order, and stops on release.

  Model: Influx.Model.Sched (TreeScheduler as a transition system over atomic events: Schedule,
  Release, clock advance, timer fire, loop wake-up, one pass of the main loop, worker done), with the
  not-due branch as repaired by fixes/C24-notdue-timer-reset.patch (`repaired = true`).  All theorems
  quantify over ARBITRARY event sequences (any interleaving of environment calls, clock moves, timer
  fires, loop passes and worker completions), arbitrary cron functions, offsets, worker counts and
  hash functions.
-/
import Influx.Lemmas.SchedHolds

namespace Influx.Props.C24
open Influx.Model.Sched Influx.Lemmas.Sched

/-- a state reachable from the initial one -/
def reach (repaired : Bool) (cfg : Cfg) (evs : List Ev) : State := runEvs repaired cfg init evs

/-- **Order / once / not early.** Every executor call in any history is for exactly the cron's next
    time after the task's previous scheduled time (LastScheduled at `Schedule`, then the previous
    run) — no skip, no duplicate —, with `runAt = scheduledFor + offset` for the offset the task was
    last scheduled with, and is dispatched only once that time has come. (Holds before and after the repair.) -/
theorem C24_order (repaired : Bool) (cfg : Cfg) (evs : List Ev) :
    WellOrdered (reach repaired cfg evs).log :=
  (invL_run repaired cfg evs invL_init).w

/-- a cron is strictly increasing -/
def Mono (c : Cron) : Prop := ∀ t n, c t = some n → t < n

/-- **Increasing.** If every scheduled cron is strictly increasing, every run's scheduled time is
    strictly later than the task's previous one. -/
theorem C24_increasing (repaired : Bool) (cfg : Cfg) (evs : List Ev)
    (hmono : ∀ id c off last, LogEv.scheduled id c off last ∈ (reach repaired cfg evs).log → Mono c) :
    ∀ (pre : List LogEv) (w : Nat) (r : Run) (now : Int) (post : List LogEv),
      (reach repaired cfg evs).log = pre ++ LogEv.took w r now :: post →
      ∃ c off t, cursor r.id post = some (c, off, t) ∧ t < r.sf := by
  intro pre w r now post hlog
  have hw := C24_order repaired cfg evs
  rw [hlog] at hw
  have hsuf : WellOrdered (LogEv.took w r now :: post) := by
    clear hlog
    induction pre with
    | nil => simpa using hw
    | cons e pre ih =>
      apply ih
      cases e <;> first | exact hw | exact hw.2
  obtain ⟨⟨c, off, t, h1, h2, _⟩, _⟩ := hsuf
  obtain ⟨last, hl⟩ := cursor_scheduled h1
  have : Mono c := hmono r.id c off last (by rw [hlog]; simp [hl])
  exact ⟨c, off, t, h1, this t r.sf h2⟩

/-- **Never concurrently with itself.** In every reachable state the executions in flight belong to
    pairwise different tasks (and each sits on the worker its id hashes to, one per worker). -/
theorem C24_exclusive (repaired : Bool) (cfg : Cfg) (evs : List Ev) :
    ((reach repaired cfg evs).busy.map (·.2.id)).Nodup :=
  busy_ids_nodup (invB_run repaired cfg evs (invB_init cfg))

/-- **Stops on release.** After `Release(id)` has returned, whatever happens next — as long as the
    task is not scheduled again — no further run of it is dispatched. -/
theorem C24_release (repaired : Bool) (cfg : Cfg) (evs₁ evs₂ : List Ev) (id : Nat)
    (hno : ∀ e ∈ evs₂, isScheduleOf id e = false) :
    countTook id (reach repaired cfg (evs₁ ++ .release id :: evs₂)).log =
      countTook id (reach repaired cfg evs₁).log := by
  unfold reach
  rw [runEvs, List.foldl_append, List.foldl_cons]
  have hu := invU_run repaired cfg evs₁ invU_init
  have hu' := invU_step repaired cfg hu (.release id)
  have habs : id ∉ ids (stepEv repaired cfg (runEvs repaired cfg init evs₁) (.release id)).queue :=
    ids_removeId id _
  have := absent_run repaired cfg id evs₂ hu' habs hno
  simp only [runEvs] at this ⊢
  rw [this]
  simp [stepEv, release, countTook]

/-- the loop goroutine sleeps, no tick is pending and the armed timer (if any) has not expired:
    nothing in the scheduler can move until the clock or the environment does -/
def Quiescent (s : State) : Prop := s.mode = .idle ∧ s.tick = false ∧ timerExpired s = false

/-- **Every due time is dispatched; `When()` is never stale at rest.** In every quiescent reachable
    state of the repaired scheduler nothing pending is due, and if anything is pending the timer is
    armed in the future, not later than `when`, which is not later than any pending due time. -/
theorem C24_quiescent (cfg : Cfg) (evs : List Ev) (hq : Quiescent (reach true cfg evs)) :
    let s := reach true cfg evs
    (∀ it ∈ s.queue, s.now < it.when) ∧
    (∀ w, s.when_ = some w → ∃ d, s.timer = some d ∧ s.now < d ∧ d ≤ w ∧ ∀ it ∈ s.queue, w ≤ it.when) ∧
    (s.queue ≠ [] → s.when_.isSome = true) := by
  intro s
  have hI : InvT s := invT_run cfg evs invT_init
  obtain ⟨hm, ht, he⟩ := hq
  have key : ∀ w, s.when_ = some w → ∃ d, s.timer = some d ∧ s.now < d ∧ d ≤ w ∧ ∀ it ∈ s.queue, w ≤ it.when := by
    intro w hw
    obtain ⟨d, hd, hle⟩ := hI.k3 hm ht w hw
    have hne : ¬ d ≤ s.now := by
      have : timerExpired s = false := he
      simp [timerExpired, hd] at this
      omega
    exact ⟨d, hd, by omega, by omega, hI.k2 w hw⟩
  refine ⟨?_, key, hI.k4⟩
  intro it hit
  have hne : s.queue ≠ [] := fun h => by simp [h] at hit
  have := hI.k4 hne
  cases hw : s.when_ with
  | none => simp [hw] at this
  | some w =>
    obtain ⟨d, _, h1, h2, h3⟩ := key w hw
    have := h3 it hit
    omega

/-- **`When()` is the earliest pending due time** whenever the loop goes back to sleep: after a pass
    that ends idle with something pending, `when` and the armed deadline both equal the smallest
    pending due time, which lies in the future. -/
theorem C24_when_earliest (cfg : Cfg) (evs : List Ev)
    (hl : (reach true cfg evs).mode = .looping)
    (hi : (iter true cfg (reach true cfg evs)).mode = .idle) :
    let s' := iter true cfg (reach true cfg evs)
    ∀ m q, s'.queue = m :: q →
      s'.when_ = some m.when ∧ s'.timer = some m.when ∧ s'.now < m.when ∧ ∀ it ∈ s'.queue, m.when ≤ it.when := by
  intro s' m q hq
  have hI : InvT (reach true cfg evs) := invT_run cfg evs invT_init
  have hI' : InvT s' := invT_iter cfg hI
  have hsorted := sorted_head_le (hq ▸ hI'.sorted)
  have hmin : ∀ it ∈ s'.queue, m.when ≤ it.when := fun it hit => hsorted it (hq ▸ hit)
  refine ⟨?_, ?_, ?_, hmin⟩ <;>
  · rcases iter_cases true cfg (reach true cfg evs) hl with ⟨hq0, he⟩ | ⟨it, rest, hq0, hdue, he⟩ | ⟨it, rest, hq0, hdue, he⟩
    · have : s'.queue = [] := by show (iter true cfg _).queue = []; rw [he]; exact hq0
      rw [this] at hq; cases hq
    · have hq1 : s'.queue = it :: rest := by
        show (iter true cfg _).queue = _; rw [he, (notDue_queue _ _ _).1]; exact hq0
      rw [hq1] at hq
      obtain ⟨rfl, _⟩ := List.cons.inj hq
      all_goals (first
        | (show (iter true cfg _).when_ = _; rw [he]; simp [notDue])
        | (show (iter true cfg _).timer = _; rw [he]; simp [notDue])
        | (show (iter true cfg _).now < _; rw [he]; simp [notDue]; omega))
    · rcases afterProcess_cases (processStep cfg (reach true cfg evs)) with ⟨hq2, ha⟩ | ⟨m2, q2, hq2, hlater, ha⟩ | ⟨m2, q2, hq2, hlater, ha⟩
      · have : s'.queue = [] := by show (iter true cfg _).queue = []; rw [he, ha]; exact hq2
        rw [this] at hq; cases hq
      · have hq1 : s'.queue = m2 :: q2 := by show (iter true cfg _).queue = _; rw [he, ha]; exact hq2
        rw [hq1] at hq
        obtain ⟨rfl, _⟩ := List.cons.inj hq
        all_goals (first
          | (show (iter true cfg _).when_ = _; rw [he, ha])
          | (show (iter true cfg _).timer = _; rw [he, ha])
          | (show (iter true cfg _).now < _; rw [he, ha]; exact hlater))
      · exfalso
        have : (iter true cfg (reach true cfg evs)).mode = .looping := by
          rw [he, ha]; simp [processStep, hl]
        rw [this] at hi; cases hi

/-- **No spin while nothing is due** (the F8 situation: something is pending, nothing is due). One
    pass of the loop sends it back to sleep with the timer armed at the earliest pending due time, in
    the future, without touching the queue or running anything; then neither the timer nor the loop
    can move until the clock or the environment does. -/
theorem C24_no_spin (cfg : Cfg) (evs : List Ev)
    (hl : (reach true cfg evs).mode = .looping)
    (hne : (reach true cfg evs).queue ≠ [])
    (hnd : ∀ it ∈ (reach true cfg evs).queue, (reach true cfg evs).now < it.when) :
    let s := reach true cfg evs
    let s' := iter true cfg s
    s'.mode = .idle ∧ timerExpired s' = false ∧ s'.queue = s.queue ∧ s'.log = s.log ∧
      stepEv true cfg s' .timerFire = s' ∧ stepEv true cfg s' .iter = s' := by
  intro s s'
  have key : s'.mode = .idle ∧ timerExpired s' = false ∧ s'.queue = s.queue ∧ s'.log = s.log := by
    rcases iter_cases true cfg s hl with ⟨hq0, _⟩ | ⟨it, rest, hq0, hdue, he⟩ | ⟨it, rest, hq0, hdue, _⟩
    · exact absurd hq0 hne
    · show (iter true cfg s).mode = _ ∧ timerExpired (iter true cfg s) = false ∧ (iter true cfg s).queue = _ ∧
        (iter true cfg s).log = _
      rw [he]
      refine ⟨by simp [notDue], ?_, by simp [notDue], by simp [notDue]⟩
      simp [notDue, timerExpired]; omega
    · have : s.now < it.when := hnd it (by show it ∈ s.queue; rw [hq0]; simp)
      omega
  refine ⟨key.1, key.2.1, key.2.2.1, key.2.2.2, ?_, ?_⟩
  · simp [stepEv, key.2.1]
  · simp [stepEv, iter, key.1]

/-- With nothing pending at all, a pass puts the loop to sleep and clears `when`; a timer left armed by
    an earlier `Schedule` can wake it once more, after which no timer is armed. -/
theorem C24_no_spin_empty (cfg : Cfg) (evs : List Ev)
    (hl : (reach true cfg evs).mode = .looping) (he : (reach true cfg evs).queue = []) :
    let s' := iter true cfg (reach true cfg evs)
    s'.mode = .idle ∧ s'.when_ = none ∧
      (runEvs true cfg s' [.timerFire, .wake, .iter]).timer = none ∨
      (s'.mode = .idle ∧ s'.when_ = none ∧ timerExpired s' = false) := by
  intro s'
  rcases iter_cases true cfg (reach true cfg evs) hl with ⟨_, hi⟩ | ⟨it, rest, hq0, _⟩ | ⟨it, rest, hq0, _⟩
  · by_cases hx : timerExpired s' = true
    · left
      refine ⟨by show (iter true cfg _).mode = _; rw [hi], by show (iter true cfg _).when_ = _; rw [hi], ?_⟩
      have hm : s'.mode = .idle := by show (iter true cfg _).mode = _; rw [hi]
      have hq : s'.queue = [] := by show (iter true cfg _).queue = _; rw [hi]; exact he
      simp only [runEvs, List.foldl_cons, List.foldl_nil, stepEv, hx, if_true]
      simp only [hm, true_and, if_true]
      simp [iter, hq]
    · right
      exact ⟨by show (iter true cfg _).mode = _; rw [hi], by show (iter true cfg _).when_ = _; rw [hi],
        by simpa using hx⟩
  · rw [he] at hq0; cases hq0
  · rw [he] at hq0; cases hq0

/-- **The code before the repair spins.** After Schedule(A); Release(A); Schedule(B later), once A's
    time has come the not-due branch (`timer.Reset(ts.Sub(it.When()))`) arms the timer in the past and
    leaves `when` at A's time: nothing is due, yet the timer is expired again, and one more round
    (fire, wake, pass) reproduces the same situation — for ever, without the clock moving
    (DESIGN §6 F8; reproduced on the real code by `bin/mutation-test` with the repair reverted:
    `spin r 150 1000` → `spin=1|when=A|pulse=fail`). -/
theorem C24_unrepaired_spins :
    let cfg : Cfg := { nworkers := 2, hash := fun id => id }
    let s0 := runEvs false cfg init
      [.schedule 1 (cronEvery 10) 0 0, .release 1, .schedule 2 (cronEvery 60) 0 0, .advance 10000,
       .timerFire, .wake, .iter]
    (s0.queue.all fun it => s0.now < it.when) = true ∧ timerExpired s0 = true ∧ s0.when_ = some 10000 ∧
    (let s1 := runEvs false cfg s0 [.timerFire, .wake, .iter]
     s1.timer = s0.timer ∧ s1.now = s0.now ∧ s1.mode = s0.mode ∧ s1.tick = s0.tick ∧ timerExpired s1 = true) := by
  decide

-- non-vacuity of the hypotheses used above: a reachable looping state with something pending and
-- nothing due (the situation of C24_no_spin), and a quiescent one (C24_quiescent)
example :
    let cfg : Cfg := { nworkers := 2, hash := fun id => id }
    let s := reach true cfg [.schedule 1 (cronEvery 10) 0 0, .release 1, .schedule 2 (cronEvery 60) 0 0,
                             .advance 10000, .timerFire, .wake]
    s.mode = .looping ∧ s.queue ≠ [] ∧ (s.queue.all fun it => s.now < it.when) = true := by decide

example :
    let cfg : Cfg := { nworkers := 2, hash := fun id => id }
    let s := reach true cfg [.schedule 1 (cronEvery 10) 0 0, .advance 10000, .timerFire, .wake, .iter, .done 1]
    s.mode = .idle ∧ s.tick = false ∧ timerExpired s = false ∧ s.when_ = some 20000 ∧ s.log.length = 3 := by decide

/-- **The run-time checker accepts the model** (partial): for every history of Schedule / Release /
    clock-advance (/ new / unblock) operations — any number of tasks, schedules, offsets, clock steps —
    in which the environment holds no executor and the real-clock operation is not used, and in which
    every run-to-quiescence of the model came to rest within its fuel (`allQuiet`, decidable, true of
    every generated history), the statement checker `Spec.C24.holdsOn` accepts the model's trace:
    order/once/not-early, nothing after release, nothing due left at quiescence, `When()` in the
    future and not after the earliest pending due time.
    Missing for the full statement: histories with executors held by the environment (`block`), where
    the checker's exclusive-run clause and the exemption of held workers come into play — covered by
    C24_exclusive on the fine-grained model and by the correspondence run — and the `spin` operation
    (its content is C24_no_spin / C24_unrepaired_spins). -/
theorem C24_holdsOn_partial (ops : List Spec.C24.Op) (hplain : ∀ op ∈ ops, plainOp op = true)
    (hq : allQuiet ops = true) : Spec.C24.holdsOn (trace ops) = true := by
  unfold Spec.C24.holdsOn trace
  rw [check_trace ops {} {} rel_init hplain hq]

-- the hypotheses of C24_holdsOn_partial are met by non-trivial histories
example : let ops : List Spec.C24.Op :=
      [.new 2, .sched 1 true 10 0 0, .sched 2 false 5 2500 3, .adv 10000, .rel 1, .adv 30000, .sched 1 true 10 0 40, .adv 10000]
    (∀ op ∈ ops, plainOp op = true) ∧ allQuiet ops = true ∧ (trace ops).length = 8 := by
  decide

end Influx.Props.C24
