/-
  Props.C24 — the task scheduler dispatches each due run once, in order, and stops on release.
  (first layer; see notes/C24.md)
-/
import Influx.Model.Sched
import Influx.Spec.C24

namespace Influx.Props.C24
open Influx.Model.Sched

/-- Before the repair: after Schedule(A); Release(A); Schedule(B later), once A's time has come the
    not-due branch arms the timer in the past, so the loop fires, wakes and iterates forever without
    the clock moving and without anything being due (DESIGN §6 F8). -/
theorem C24_unrepaired_spins :
    let cfg : Cfg := { nworkers := 2, hash := fun id => id }
    let s0 := runEvs false cfg init
      [.schedule 1 (cronEvery 10) 0 0, .release 1, .schedule 2 (cronEvery 60) 0 0, .advance 10000,
       .timerFire, .wake, .iter]
    -- nothing is due, yet the timer is already expired again …
    (s0.queue.all fun it => s0.now < it.when) = true ∧ timerExpired s0 = true ∧ s0.when_ = some 10000 ∧
    -- … and one more round (fire, wake, iter) reproduces the same situation
    (let s1 := runEvs false cfg s0 [.timerFire, .wake, .iter]
     s1.timer = s0.timer ∧ s1.now = s0.now ∧ s1.mode = s0.mode ∧ s1.tick = s0.tick ∧ timerExpired s1 = true) := by
  decide

end Influx.Props.C24
