/-
  Props.C34 — Configuration sizes and durations round-trip exactly.
  Model: `Influx.Model.Toml` (toml/toml.go, toml/size_alias.go), after
  fixes/C34-sizev2-exact-integers.patch.
-/
import Influx.Lemmas.Toml
import Influx.Lemmas.Duration
import Influx.Spec.C34

namespace Influx.Props.C34
open Influx.Model.Toml Influx.Lemmas.Toml Influx.Spec.C34

/-! ### clause 1: what is written reads back -/

/-- **SizeV1**: `UnmarshalText(MarshalText(x)) = x` for every uint64 -/
theorem C34_sizeV1_roundtrip (x : Nat) (hx : x < 2 ^ 64) : unmarshalV1U (marshalV1U x) = .ok x :=
  v1u_roundtrip x hx

/-- **SSizeV1**: the same for every int64 (including MinInt64) -/
theorem C34_ssizeV1_roundtrip (x : Int) (hx : -(2 ^ 63 : Int) ≤ x ∧ x < 2 ^ 63) :
    unmarshalV1S (marshalV1S x) = .ok x :=
  v1s_roundtrip x hx

/-- **Size (= SizeV2)**, repaired: the decimal text of every uint64 reads back exactly
    (before the fix: only below 2^53, `C34_v2_orig_loses_precision`) -/
theorem C34_sizeV2_decimal (x : Nat) (hx : x < 2 ^ 64) : unmarshalV2U (fmtNat x) = .ok x :=
  v2u_digits x hx

/-- **SSize (= SSizeV2)**, repaired: the decimal text of every int64 reads back exactly -/
theorem C34_ssizeV2_decimal (x : Int) (hx : -(2 ^ 63 : Int) ≤ x ∧ x < 2 ^ 63) :
    unmarshalV2S (fmtInt x) = .ok x :=
  v2s_digits x hx

/-- through the TOML encoder/decoder: every `Size ≤ MaxInt64` and every `SSize` comes back -/
theorem C34_toml_size (x : Nat) (hx : x ≤ 2 ^ 63 - 1) : tomlRoundTripV2U x = .ok x := toml_v2u x hx
theorem C34_toml_ssize (x : Int) (hx : -(2 ^ 63 : Int) ≤ x ∧ x < 2 ^ 63) : tomlRoundTripV2S x = .ok x :=
  toml_v2s x hx

/-- **Duration**: `time.ParseDuration(d.String()) = d` for every int64 nanosecond count (incl. MinInt64,
    sub-second units with the two-byte `µ`, and the float64 arithmetic of fractional components, which is
    shown to be exact here), hence `UnmarshalText(MarshalText(d)) = d`. -/
theorem C34_duration_roundtrip (d : Int) (hd : -(2 ^ 63 : Int) ≤ d ∧ d < 2 ^ 63) :
    durUnmarshal (durString d) = some d :=
  Influx.Lemmas.Duration.duration_roundtrip d hd

/-- what the fix repaired (F14), on the model of the original code: 2^53+1 was read back as 2^53,
    and MaxInt64 was rejected by the signed type -/
theorem C34_v2_orig_loses_precision :
    unmarshalV2U_orig (fmtNat (2 ^ 53 + 1)) = .ok (2 ^ 53) ∧
    unmarshalV2S_orig (fmtInt (2 ^ 63 - 1)) = .err := by
  constructor <;> decide +kernel

/-! ### clause 3: the overflow tests of the strconv branch are exact -/

theorem C34_overflow_test_unsigned (n mult : Nat) (hm : 0 < mult) :
    (wrapU (n * mult) / mult = n) ↔ n * mult < 2 ^ 64 := overflowU_exact n mult hm

theorem C34_overflow_test_signed (n mult : Int) (hn : -(2 ^ 63 : Int) ≤ n ∧ n < 2 ^ 63)
    (hm : mult = 1 ∨ mult = 2 ^ 10 ∨ mult = 2 ^ 20 ∨ mult = 2 ^ 30) :
    ((wrapS (n * mult)).tdiv mult = n) ↔ (-(2 ^ 63 : Int) ≤ n * mult ∧ n * mult < 2 ^ 63) :=
  overflowS_exact n mult hn hm

/-- digits + bare suffix on the strconv branch: accepted iff the product fits, and then it *is*
    the product (never a wrapped value) -/
theorem C34_fastU_exact (q : Nat) (suf : Option UInt8) (hq : q < 2 ^ 64) :
    fastU (fmtNat q) suf = if q * bareMult suf < 2 ^ 64 then some (q * bareMult suf) else none := by
  have hm : 0 < bareMult suf := by rcases bareMult_cases suf with h | h | h | h <;> rw [h] <;> decide
  split
  · next h => exact fastU_fmtNat q suf hq h hm
  · next h =>
    unfold fastU
    rw [parseUint10_fmtNat q hq]
    simp only
    rw [if_pos (by intro hc; exact h ((overflowU_exact q _ hm).mp hc))]

/-! ### the statement checker on the model -/

inductive Op where
  | rt1u (x : Nat) | rt1s (x : Int)         -- MarshalText → UnmarshalText of the 1.x types
  | toml1u (x : Nat) | toml1s (x : Int)     -- the 1.x types through the TOML encoder/decoder
  | tomlu (x : Nat) | tomls (x : Int)       -- Size / SSize through the TOML encoder/decoder
  | drt (x : Int)                           -- Duration: MarshalText → UnmarshalText (also as a TOML string)

def resU : Res Nat → Option Int
  | .ok v => some (v : Int)
  | _ => none
def resS : Res Int → Option Int
  | .ok v => some v
  | _ => none

def modelObs : Op → Obs
  | .rt1u x => .rtSize .v1u x (resU (unmarshalV1U (marshalV1U x)))
  | .rt1s x => .rtSize .v1s x (resS (unmarshalV1S (marshalV1S x)))
  | .toml1u x => .rtSize .v1u x (resU (tomlRoundTripV1U x))
  | .toml1s x => .rtSize .v1s x (resS (tomlRoundTripV1S x))
  | .tomlu x => .rtSize .v2u x (resU (tomlRoundTripV2U x))
  | .tomls x => .rtSize .v2s x (resS (tomlRoundTripV2S x))
  | .drt x => .rtDur x (durUnmarshal (durString x))

/-- the one exclusion: a `Size` above MaxInt64 sent through a TOML document -/
def opOK : Op → Bool
  | .tomlu x => decide (x ≤ 2 ^ 63 - 1)
  | _ => true

/-- **C34 fails as literally stated**: a `Size` above MaxInt64 written by the TOML encoder cannot be
    read back (the decoder rejects integers outside int64). -/
theorem C34_full_fails : ¬ ∀ op, holdsOn (modelObs op) = true := by
  intro h
  have := h (.tomlu (2 ^ 64 - 1))
  revert this
  simp only [modelObs, toml_v2u_above (2 ^ 64 - 1) (by decide), resU]
  decide

/-- **C34 (partial)**: for every value of the target type, whatever the marshalers or the TOML
    encoder write is read back as the same value — except `Size > MaxInt64` through TOML
    (`C34_full_fails`).  Missing from this theorem (covered by correspondence only): the clause-2/3
    judgement of arbitrary input texts on the humanize (float64) path and of arbitrary duration texts. -/
theorem C34_partial (op : Op) (h : opOK op = true) : holdsOn (modelObs op) = true := by
  cases op with
  | rt1u x =>
    simp only [holdsOn, modelObs, check]
    split
    · rfl
    · next hr =>
      have hx : x < 2 ^ 64 := by simp [inRange, Kind.signed] at hr; omega
      simp [v1u_roundtrip x hx, resU]
  | rt1s x =>
    simp only [holdsOn, modelObs, check]
    split
    · rfl
    · next hr =>
      have hx : -(2 ^ 63 : Int) ≤ x ∧ x < 2 ^ 63 := by simpa [inRange, Kind.signed] using hr
      simp [v1s_roundtrip x hx, resS]
  | toml1u x =>
    simp only [holdsOn, modelObs, check, tomlRoundTripV1U]
    split
    · rfl
    · next hr =>
      have hx : x < 2 ^ 64 := by simp [inRange, Kind.signed] at hr; omega
      simp [v1u_roundtrip x hx, resU]
  | toml1s x =>
    simp only [holdsOn, modelObs, check, tomlRoundTripV1S]
    split
    · rfl
    · next hr =>
      have hx : -(2 ^ 63 : Int) ≤ x ∧ x < 2 ^ 63 := by simpa [inRange, Kind.signed] using hr
      simp [v1s_roundtrip x hx, resS]
  | tomlu x =>
    simp only [opOK, decide_eq_true_eq] at h
    simp [holdsOn, modelObs, check, toml_v2u x h, resU]
  | tomls x =>
    simp only [holdsOn, modelObs, check]
    split
    · rfl
    · next hr =>
      have hx : -(2 ^ 63 : Int) ≤ x ∧ x < 2 ^ 63 := by simpa [inRange, Kind.signed] using hr
      simp [toml_v2s x hx, resS]
  | drt x =>
    simp only [holdsOn, modelObs, check]
    split
    · rfl
    · next hr =>
      have hx : -(2 ^ 63 : Int) ≤ x ∧ x < 2 ^ 63 := by simpa [inRange] using hr
      simp [C34_duration_roundtrip x hx]

example : opOK (.drt (-(2 ^ 63))) = true := by decide
example : opOK (.tomlu (2 ^ 53 + 1)) = true ∧ opOK (.rt1s (-(2 ^ 63))) = true := by decide

end Influx.Props.C34
