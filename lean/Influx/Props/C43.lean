/-
  Props.C43 — v1 database/retention-policy names resolve to one bucket.
  Model: `Influx.Model.DBRP` (dbrp.Service over its four kv buckets + bucket service).
-/
import Influx.Spec.C43
import Influx.Lemmas.DBRPStep

namespace Influx.Props.C43
open Influx.DBRP Influx.Spec.C43

/-- **virtual mappings never duplicate a (database, retention policy) pair** — in particular they
    never shadow a stored mapping: whatever the filter and the buckets, if the stored mappings
    found name each pair once, so does the merged result of `FindMany`. -/
theorem virtual_never_duplicates (f : Filter) (bs : List Bucket) (ms : List Mapping)
    (h : pairsUnique ms = true) : pairsUnique (mergeVirtual f ms bs) = true :=
  mergeVirtual_pairsUnique f bs ms h

/-- the stored mappings come first and unchanged; everything appended is virtual -/
theorem stored_first (f : Filter) (bs : List Bucket) (ms : List Mapping) :
    ∃ vs, mergeVirtual f ms bs = ms ++ vs ∧ ∀ v ∈ vs, v.Virtual = true :=
  mergeVirtual_prefix f bs ms

/-- a virtual mapping is only reported as default when no entry of its database already is -/
theorem virtual_default_yields {nm r : Mapping} {ms : List Mapping} (h : mergeOne nm ms = some r)
    (hd : r.Default = true) : ∀ m ∈ ms, m.Database = nm.Database → m.Default = false :=
  mergeOne_some_default h hd

/-- the translator's `filterFunc` (regenerated from `dbrp/service.go` on every run) never dereferences
    a nil filter field and decides exactly the conjunction of the seven optional equalities -/
theorem filterFunc_total (m : Mapping) (f : Filter) :
    Influx.Generated.DBRP.filterFunc m f = some (filterFuncSpec m f) := generated_filterFunc m f

/-- `isDBRPUnique` is exactly: no other stored mapping reachable through the (org, database) index
    has the same retention policy -/
theorem isDBRPUnique_iff (s : St) (m : Mapping) :
    isDBRPUnique s m = true ↔
      ∀ v ∈ walk s m.OrganizationID m.Database, v.ID = m.ID ∨ v.RetentionPolicy ≠ m.RetentionPolicy := by
  simp [isDBRPUnique]

/-- in every state reached by a physical-only history the four kv buckets are consistent: records
    in key order with distinct ids, both indexes list exactly the stored mappings, every database
    with a stored mapping has a default entry naming one of its mappings, and (org, db, rp) is
    unique among the stored mappings -/
theorem reachable_inv (ops : List Op) (h : ∀ op ∈ ops, physOp op = true) :
    Inv (ops.foldl (fun s op => (step s op).1) St.init) := by
  have key : ∀ (l : List Op) (s : St), (∀ op ∈ l, physOp op = true) → Inv s →
      Inv (l.foldl (fun s op => (step s op).1) s) := by
    intro l
    induction l with
    | nil => intro s _ hs; exact hs
    | cons o os ih =>
      intro s hl hs
      exact ih _ (fun op hop => hl op (by simp [hop])) (step_inv s o hs (hl o (by simp)))
  exact key ops St.init h Inv.init

/-- the listing of an organization in a consistent state: only its mappings, each (db, rp) once,
    exactly one default per database that has a stored mapping (at most one otherwise) -/
theorem listing_statement {s : St} (h : Inv s) (org : Nat) :
    ∃ L, findMany s { OrgID := some org } = .ok L ∧ listingOK org L = true :=
  ⟨_, findMany_listing h org, listing_ok h org⟩

/-- the lookup by (org, db, rp) returns at most one mapping — the one the listing shows for the pair
    (stored before virtual: a virtual mapping never shadows a stored one) -/
theorem resolve_statement {s : St} (h : Inv s) (org : Nat) (db rp : String) (hdb : db ≠ "") :
    ∃ R L, findMany s { OrgID := some org, Database := some db, RetentionPolicy := some rp } = .ok R ∧
      findMany s { OrgID := some org } = .ok L ∧ R.length ≤ 1 ∧
      ids R = ids (L.filter fun m => m.Database == db && m.RetentionPolicy == rp) :=
  ⟨_, _, findMany_resolve h org db rp hdb, findMany_listing h org, (resolve_ok h org db rp).1, (resolve_ok h org db rp).2⟩

/-- the lookup with an empty retention policy returns at most one mapping; for a database with a
    stored mapping it is the mapping the listing flags as default -/
theorem default_statement {s : St} (h : Inv s) (org : Nat) (db : String) (hdb : db ≠ "") :
    ∃ R L, findMany s { OrgID := some org, Database := some db, Default := some true } = .ok R ∧
      findMany s { OrgID := some org } = .ok L ∧ R.length ≤ 1 ∧
      ((L.any fun m => m.Database == db && !m.Virtual) = true →
        ids R = ids (L.filter fun m => m.Database == db && m.Default)) := by
  obtain ⟨R, hR, hlen, hcmp⟩ := default_ok h org db hdb
  exact ⟨R, _, hR, findMany_listing h org, hlen, hcmp⟩

/-- deleting a stored mapping (the default or not) leaves every remaining mapping's database with a
    default entry that names a remaining mapping of that database: the default is promoted iff
    another mapping exists -/
theorem delete_promotes {s : St} (h : Inv s) (org id : Nat) (hodd : id % 2 = 1) :
    ∀ x ∈ (delete s org id).1.recs, ∃ y ∈ (delete s org id).1.recs,
      getDefault (delete s org id).1 x.OrganizationID x.Database = some y.ID ∧
      y.OrganizationID = x.OrganizationID ∧ y.Database = x.Database := by
  intro x hx
  have hi := delete_inv h org id hodd
  have hex := hi.defEx x hx
  cases hd : getDefault (delete s org id).1 x.OrganizationID x.Database with
  | none => simp [hd] at hex
  | some d =>
    obtain ⟨y, hy, e1, e2, e3⟩ := hi.defSome _ _ _ hd
    exact ⟨y, hy, by rw [e1], e2, e3⟩

/-- **C43 (partial: physical-only histories)**: on every history in which mappings are created,
    updated and deleted through the ids the service handed out (any interleaving with bucket
    creation/deletion, so virtual mappings come and go), the statement checker accepts the model's
    trace.  The missing part is the known finding `virtual-mapping-mutated` (`C43_full_fails`). -/
theorem C43_partial (ops : List Op) (h : ∀ op ∈ ops, physOp op = true) : holdsOn (run St.init ops) = true :=
  judge_run ops h St.init [] Inv.init (by intro p hp; simp at hp)

/-- the history of the known finding: PATCH of a virtual mapping with `default = true` -/
def virtualUpdate : List Op :=
  [Op.bucket 2 1002 "db1/rp1", Op.create 2 "db1" "rp0" false 1002, Op.update 2 1002 none (some true),
   Op.find { OrgID := some 2 }]

/-- **the full statement is false of the code**: after updating the virtual mapping of bucket 1002
    the listing of organization 2 shows database `db1` with a stored mapping and no default -/
theorem C43_full_fails : ¬ ∀ ops : List Op, holdsOn (run St.init ops) = true := by
  intro h
  have := h virtualUpdate
  revert this
  decide

-- non-vacuity of the partial theorem's hypothesis: creates, an update, a delete, bucket changes
example : ∀ op ∈ [Op.bucket 1 1000 "db0", Op.create 1 "db0" "rp0" false 1000, Op.create 1 "db0" "rp1" true 1000,
    Op.update 1 1 (some "rp2") (some true), Op.delete 1 3, Op.delBucket 1000, Op.find { OrgID := some 1 }],
    physOp op = true := by decide

end Influx.Props.C43
