/-
  Props.C43 — v1 database/retention-policy names resolve to one bucket.
  Model: `Influx.Model.DBRP` (dbrp.Service over its four kv buckets + bucket service).
-/
import Influx.Spec.C43
import Influx.Lemmas.DBRP

namespace Influx.Props.C43
open Influx.DBRP Influx.Spec.C43

/-- **virtual mappings never duplicate a (database, retention policy) pair** — in particular they
    never shadow a stored mapping: whatever the filter and the buckets, if the stored mappings
    found name each pair once, so does the merged result of `FindMany`. -/
theorem virtual_never_duplicates (f : Filter) (bs : List Bucket) (ms : List Mapping)
    (h : pairsUnique ms = true) : pairsUnique (mergeVirtual f ms bs) = true :=
  mergeVirtual_pairsUnique f bs ms h

/-- the stored mappings come first and unchanged; everything appended is virtual -/
theorem stored_first (f : Filter) (bs : List Bucket) (ms : List Mapping) :
    ∃ vs, mergeVirtual f ms bs = ms ++ vs ∧ ∀ v ∈ vs, v.Virtual = true :=
  mergeVirtual_prefix f bs ms

/-- a virtual mapping is only reported as default when no entry of its database already is -/
theorem virtual_default_yields {nm r : Mapping} {ms : List Mapping} (h : mergeOne nm ms = some r)
    (hd : r.Default = true) : ∀ m ∈ ms, m.Database = nm.Database → m.Default = false :=
  mergeOne_some_default h hd

/-- `isDBRPUnique` is exactly: no other stored mapping reachable through the (org, database) index
    has the same retention policy -/
theorem isDBRPUnique_iff (s : St) (m : Mapping) :
    isDBRPUnique s m = true ↔
      ∀ v ∈ walk s m.OrganizationID m.Database, v.ID = m.ID ∨ v.RetentionPolicy ≠ m.RetentionPolicy := by
  simp [isDBRPUnique]

/-- queries the statement is observed through -/
def judged : Op → Bool
  | .find f => (classify f).isSome
  | _ => false

/-- first round: the statement checker accepts the model's trace on histories without judged
    lookups (trivially) — the trace-level theorem over create/update/delete histories
    (`C43_holdsOn`) needs the consistency invariant of the four kv buckets. -/
theorem C43_holdsOn_partial (ops : List Op) (h : ∀ op ∈ ops, judged op = false) (s : St)
    (known : List (Nat × List Mapping)) : judge known (run s ops) = true := by
  induction ops generalizing s known with
  | nil => rfl
  | cons op ops ih =>
    simp only [run, judge, Bool.and_eq_true]
    refine ⟨?_, ih (fun o ho => h o (by simp [ho])) _ _⟩
    have hop := h op (by simp)
    cases op with
    | find f =>
      simp only [judged, Option.isSome_eq_false_iff, Option.isNone_iff_eq_none] at hop
      simp only [step]
      split <;> simp [holdsOp, hop]
    | _ => simp [holdsOp]

example : ∀ op ∈ [Op.bucket 1 1000 "db0", Op.create 1 "db0" "rp0" false 1000, Op.delete 1 1, Op.dump], judged op = false := by
  decide

end Influx.Props.C43
