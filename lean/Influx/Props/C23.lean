/-
  Props.C23 — InfluxQL transformation functions follow their definitions.

  Model: `Influx.Reducers` (Model/Reducers.lean), the reducers of
  influxql/query/functions.go, functions.gen.go, call_iterator.go as coded.
  Statement: `Influx.Spec.C23.verdict`/`holdsOn` (Spec/C23.lean).

  Three families of theorems:
   * structural, for EVERY arithmetic (`Arith V F`, no laws): derivative, difference,
     elapsed, cumulative_sum, moving_average, stddev — the reducer emits exactly the list
     comprehension (which points, which order, which timestamps, which operands);
   * under a strict weak value order (integers; floats without NaN): percentile, median —
     the sort-based reducers satisfy the counting (sort-free) statement, including which of
     several equal-valued points percentile reports (stability);
   * under the value order laws (`OrdLaws`: `<` strict weak, `==` is "neither less"):
     distinct, top/bottom (a bounded heap abstracted as a bag with a readable / replaceable
     root), mode (the reported value has maximal frequency);
   * integers exactly: spread; integral without GROUP BY time for every arithmetic.
  Not proved (correspondence only): integral with GROUP BY time windows; float spread
  (`math.Min`/`math.Max`); which of two ±0 values a float selection reports.
  The unrestricted statement is false of the code (`C23_full_fails`): mode() breaks its
  documented tie rule (known finding `mode-tie`); integral over descending input is the
  second known finding (`integral-descending`, replayed by the harness only).
-/
import Influx.Lemmas.ReducersStream
import Influx.Lemmas.ReducersWindow
import Influx.Lemmas.ReducersSelect
import Influx.Lemmas.ReducersDistinct
import Influx.Lemmas.ReducersTop
import Influx.Lemmas.ReducersMode
import Influx.Lemmas.ReducersIntegral

namespace Influx.Props.C23
open Influx.Reducers Influx.Reducers.Lemmas Influx.Spec.C23

variable {V F : Type}

/-- a float arithmetic over `Int`, only to have concrete `Arith` values in examples / witnesses -/
def dummyF0 : FOps Int :=
  { add := (· + ·), sub := (· - ·), mul := (· * ·), div := (· / ·), lt := fun a b => decide (a < b),
    ofInt := id, sqrt := id, nan := 0, half := 0 }

/-! ## Stream functions: the emitted list IS the list comprehension, for every arithmetic -/

/-- derivative / non_negative_derivative (integer and float reducers, ascending or
    descending): one point per pair of successive distinct-time points, stamped with the
    later time, `diff / (elapsed / unit)`; negative differences dropped when non-negative. -/
theorem C23_derivative (A : Arith V F) (unit : Int) (nonNeg asc : Bool) (xs : List (Pt V)) :
    derivative A.vo A.fo unit nonNeg asc xs = derivativeDef A unit nonNeg asc xs :=
  derivative_eq_def A unit nonNeg asc xs

/-- difference / non_negative_difference = `zipWith (−) tail xs` stamped with the later time. -/
theorem C23_difference (A : Arith V F) (nonNeg : Bool) (xs : List (Pt V)) :
    difference A.vo nonNeg xs = differenceDef A nonNeg xs :=
  difference_eq_def A nonNeg xs

/-- elapsed(unit) = time between successive points in whole units. -/
theorem C23_elapsed (unit : Int) (xs : List (Pt V)) : elapsed unit xs = elapsedDef unit xs :=
  elapsed_eq_def unit xs

/-- cumulative_sum = `scanl (+)`: point `i` carries the left-to-right sum of the first `i+1` values. -/
theorem C23_cumulativeSum (A : Arith V F) (xs : List (Pt V)) :
    cumulativeSum A.vo xs = cumulativeSumDef A xs :=
  cumulativeSum_eq_def A xs

/-- moving_average(n), `n ≥ 1`: the ring buffer never indexes out of range and the
    reducer emits one point per full window, stamped with the window's last time, carrying
    (sliding sum) / n; in particular `len − n + 1` points. -/
theorem C23_movingAverage (A : Arith V F) (n : Nat) (hn : 0 < n) (xs : List (Pt V)) :
    movingAverage A.vo A.fo n xs = some (movingAverageDef A n xs) :=
  movingAverage_eq_def A n hn xs

theorem C23_movingAverage_count (A : Arith V F) (n : Nat) (hn : 0 < n) (xs : List (Pt V)) :
    ∃ out, movingAverage A.vo A.fo n xs = some out ∧ out.length ≤ xs.length + 1 - n := by
  refine ⟨_, movingAverage_eq_def A n hn xs, ?_⟩
  unfold movingAverageDef
  exact Nat.le_trans (List.length_filterMap_le _ _) (by simp)

/-- integers: the value moving_average divides by `n` is exactly the sum of the `n` values
    of the window `vs[i .. i+n)`. -/
theorem C23_movingAverage_int_window (fo : FOps F) (eqvF : F → F → Bool) (hF : ∀ x, eqvF x x = true)
    (n : Nat) (vs : List Int) (i : Nat) (h : i + n ≤ vs.length) :
    slideSum (intArith fo eqvF hF) n vs i = some (isum ((vs.drop i).take n)) :=
  slideSum_int fo eqvF hF n vs i h

/-- stddev = sqrt(Σ(x − mean)² / (n − 1)) with the incremental mean, NaN skipped, NaN for
    fewer than two points. -/
theorem C23_stddev (A : Arith V F) (xs : List (Pt V)) : stddev A.vo A.fo xs = stddevDef A xs :=
  stddev_eq_def A xs

/-! ## Selections under a strict weak value order -/

/-- percentile(p): nothing when the nearest rank `⌊len·p/100+0.5⌋−1` falls outside the
    series; otherwise exactly one INPUT point whose value has that rank (by counting), and
    among equal values the one a stable sort puts there. -/
theorem C23_percentile (A : Arith V F) (h : StrictWeak A.vo.lt) (pn : Int) (pd : Nat) (xs : List (Pt V)) :
    percentileOK A pn pd xs (percentile A.vo pn pd xs) = true :=
  percentile_ok A h pn pd xs

/-- median: the middle value by rank, or `lo + (hi − lo)/2` of the two middle ranks. -/
theorem C23_median (A : Arith V F) (h : StrictWeak A.vo.lt) (xs : List (Pt V)) (hne : xs ≠ []) :
    medianOK A xs (median A.vo A.fo xs) = true :=
  median_ok A h xs hne

/-- spread over integers (inside the int64 range) = maximum − minimum. -/
theorem C23_spread_int (fo : FOps F) (eqvF : F → F → Bool) (hF : ∀ x, eqvF x x = true)
    (xs : List (Pt Int)) (hne : xs ≠ [])
    (hrange : ∀ p ∈ xs, -9223372036854775808 ≤ p.v ∧ p.v ≤ 9223372036854775807) :
    ∃ v, spread (intOps fo) xs = [⟨zeroTime, v⟩] ∧ spreadValueOK (intArith fo eqvF hF) xs v = true :=
  spread_int_ok F fo eqvF hF xs hne hrange

/-- distinct: each value once, represented by the first point carrying it, ordered by
    (time, value). -/
theorem C23_distinct (A : Arith V F) (h : OrdLaws A) (hexact : ∀ a b, A.eqvV a b = true → a = b)
    (xs : List (Pt V)) : distinctOK A xs (distinct A.vo xs) = true :=
  distinct_ok A h.sw
    ⟨fun a b hab => by rw [eq_symm' A h]; exact hab,
     fun a b c hab hbc => by rw [← eq_congr_right A h b c hbc a]; exact hab⟩ hexact xs

/-- top(n) / bottom(n): `min n len` input points, best first (ties: earlier time first),
    no left-out point better than a selected one. -/
theorem C23_top (A : Arith V F) (h : OrdLaws A) (hexact : ∀ a b, A.eqvV a b = true → a = b)
    (isTop : Bool) (n : Nat) (xs : List (Pt V)) : topOK A isTop n xs (topN A.vo isTop n xs) = true :=
  top_ok A h hexact isTop n xs

/-- mode: ONE point whose value occurs at least as often as every other value (the
    documented tie rule is NOT part of this theorem: the code breaks it, see below). -/
theorem C23_mode_value (A : Arith V F) (h : OrdLaws A) (xs : List (Pt V)) (hne : xs ≠ []) :
    modeOK A xs (mode A.vo xs) = true :=
  mode_ok A h xs hne

/-- integral without GROUP BY time over a series inside the statement's time range
    (ascending reads), integer and float reducers, any arithmetic: one row at the start time
    with the left-to-right sum of the trapezia; nothing when the series ends on that time. -/
theorem C23_integral_plain (A : Arith V F) (isInt : Bool) (unit off st en : Int) (xs : List (Pt V))
    (hin : ∀ p ∈ xs, p.t ≤ en) :
    integral A.vo A.fo isInt unit ⟨0, off, st, en, true⟩ xs = integralPlain A isInt unit st xs :=
  integral_plain A isInt unit off st en xs hin

/-- the integer instance satisfies the value order laws -/
theorem int_ordLaws (fo : FOps F) (eqvF : F → F → Bool) (hF : ∀ x, eqvF x x = true) :
    OrdLaws (intArith fo eqvF hF) where
  sw := strictWeak_ofKey (fun (x : Int) => x)
  eq_iff := by
    intro a b
    simp only [intArith, intOps]
    by_cases h1 : a < b <;> by_cases h2 : b < a <;> simp [h1, h2] <;> omega

theorem int_exact (fo : FOps F) (eqvF : F → F → Bool) (hF : ∀ x, eqvF x x = true) :
    ∀ a b, (intArith fo eqvF hF).eqvV a b = true → a = b := by
  intro a b h; simpa [intArith] using h

/-! ## The statement checker accepts the model -/

theorem ptsEq_refl {W : Type} (eqv : W → W → Bool) (h : ∀ x, eqv x x = true) (l : List (Pt W)) :
    ptsEq eqv l l = true := by
  induction l with
  | nil => rfl
  | cons a l ih => simp [ptsEq, h, ih]

/-- the observations `C23_holdsOn_partial` covers: every function except spread (integers:
    `C23_holdsOn_int_spread`), integral restricted to ascending reads without GROUP BY time,
    and mode restricted to inputs on which the code's choice obeys the documented tie rule
    (the negation of the known finding `mode-tie`). -/
def covered (A : Arith V F) (fn : Fn) (xs : List (Pt V)) : Bool :=
  match fn with
  | .movingAverage n => decide (0 < n)
  | .spread => false
  | .mode =>
    match mode A.vo xs with
    | [p] => modeTieOK A xs p.v
    | _ => false
  | .integral _ dur _ _ _ asc => asc && decide (dur = 0)
  | _ => true

/-- **C23 (partial)**: for every arithmetic satisfying the value order laws, every covered
    function with any parameters and every non-empty input series, the statement checker
    accepts what the model of the reducer emits. -/
theorem C23_holdsOn_partial (A : Arith V F) (hord : OrdLaws A)
    (hexact : ∀ a b, A.eqvV a b = true → a = b) (isInt : Bool) (fn : Fn)
    (xs : List (Pt V)) (hne : xs ≠ []) (h : covered A fn xs = true) :
    holdsOn A isInt ⟨fn, xs, eval A isInt fn xs⟩ = true := by
  cases fn <;> simp only [covered] at h <;> try contradiction
  · simp [holdsOn, verdict, eval, expectF, C23_derivative, ptsEq_refl, A.eqvF_refl]
  · simp [holdsOn, verdict, eval, expectV, C23_difference, ptsEq_refl, A.eqvV_refl]
  · simp [holdsOn, verdict, eval, C23_elapsed, ptsEq_refl]
  · simp [holdsOn, verdict, eval, expectV, C23_cumulativeSum, ptsEq_refl, A.eqvV_refl]
  · rename_i n
    have hn : 0 < n := by simpa using h
    simp [holdsOn, verdict, eval, expectF, C23_movingAverage A n hn, ptsEq_refl, A.eqvF_refl]
  · rename_i pn pd
    simp [holdsOn, verdict, eval, C23_percentile A hord.sw]
  · have hm := C23_median A hord.sw xs hne
    simp only [holdsOn, verdict, eval]
    unfold medianOK at hm
    split at hm
    · rename_i p hp
      simp only [hp]
      simp only [Bool.and_eq_true, Bool.or_eq_true, decide_eq_true_eq] at hm
      have h2 := hm.2
      simp only [hm.1, Bool.not_true, Bool.false_eq_true, if_false]
      rcases h2 with h2 | h2
      · simp [h2]
      · simp [h2]
    · cases hm
  · -- mode
    have hm := C23_mode_value A hord xs hne
    simp only [holdsOn, verdict, eval]
    unfold modeOK at hm
    split at hm
    · rename_i p hp
      simp only [hp] at h ⊢
      simp only [Bool.and_eq_true, Bool.or_eq_true, decide_eq_true_eq] at hm
      simp only [hm.1, Bool.not_true, Bool.false_eq_true, if_false, h]
      rcases hm.2 with h2 | h2
      · simp [h2]
      · simp [h2]
    · cases hm
  · simp [holdsOn, verdict, eval, expectF, C23_stddev, ptsEq_refl, A.eqvF_refl]
  · simp [holdsOn, verdict, eval, C23_distinct A hord hexact]
  · simp [holdsOn, verdict, eval, C23_top A hord hexact]
  · simp [holdsOn, verdict, eval, C23_top A hord hexact]
  · -- integral, ascending, no GROUP BY time
    rename_i unit dur off st en asc
    simp only [Bool.and_eq_true, decide_eq_true_eq] at h
    obtain ⟨hasc, hdur⟩ := h
    subst hasc; subst hdur
    simp only [holdsOn, verdict, eval, if_true]
    by_cases hA : ascending xs = true
    · simp only [hA, Bool.not_true, Bool.false_eq_true, if_false]
      by_cases hin : (xs.all fun p => decide (st ≤ p.t) && decide (p.t ≤ en)) = true
      · simp only [hin, Bool.not_true, Bool.false_eq_true, if_false]
        have hin' : ∀ p ∈ xs, p.t ≤ en := by
          intro p hp
          have := List.all_eq_true.mp hin p hp
          simp only [Bool.and_eq_true, decide_eq_true_eq] at this
          exact this.2
        rw [C23_integral_plain A isInt unit off st en xs hin']
        unfold integralPlain
        cases hl : xs.getLast? with
        | none => simp
        | some lastp =>
          simp only
          by_cases h0 : lastp.t = (if isInt = true then if st = -9223372036854775806 then 0 else st else 0)
          · simp [h0]
          · simp [h0, ptsEq_refl, A.eqvF_refl]
      · simp [hin]
    · simp [hA]

/-- … for the integer reducers unconditionally (any float arithmetic) -/
theorem C23_holdsOn_int (fo : FOps F) (eqvF : F → F → Bool) (hF : ∀ x, eqvF x x = true) (fn : Fn)
    (xs : List (Pt Int)) (hne : xs ≠ []) (h : covered (intArith fo eqvF hF) fn xs = true) :
    holdsOn (intArith fo eqvF hF) true ⟨fn, xs, eval (intArith fo eqvF hF) true fn xs⟩ = true :=
  C23_holdsOn_partial _ (int_ordLaws fo eqvF hF) (int_exact fo eqvF hF) true fn xs hne h

/-- … and integer spread -/
theorem C23_holdsOn_int_spread (fo : FOps F) (eqvF : F → F → Bool) (hF : ∀ x, eqvF x x = true)
    (xs : List (Pt Int)) (hne : xs ≠ [])
    (hrange : ∀ p ∈ xs, -9223372036854775808 ≤ p.v ∧ p.v ≤ 9223372036854775807) :
    holdsOn (intArith fo eqvF hF) true ⟨.spread, xs, eval (intArith fo eqvF hF) true .spread xs⟩ = true := by
  obtain ⟨v, hv, hok⟩ := C23_spread_int fo eqvF hF xs hne hrange
  have hv' : spread (intArith fo eqvF hF).vo xs = [⟨zeroTime, v⟩] := hv
  simp [holdsOn, verdict, eval, hv', hok]

-- the hypotheses are met by non-trivial operations
example : covered (intArith dummyF0 (fun a b => decide (a = b)) (by simp)) (.derivative 10 true false) [⟨1, 2⟩] = true := rfl
example : covered (intArith dummyF0 (fun a b => decide (a = b)) (by simp)) (.top 3) [⟨1, 2⟩, ⟨2, 5⟩] = true := rfl
example : covered (intArith dummyF0 (fun a b => decide (a = b)) (by simp)) .mode [⟨1, 2⟩, ⟨2, 5⟩, ⟨3, 5⟩] = true := by decide

/-! ## The unrestricted statement is false of the code -/

def witnessArith : Arith Int Int := intArith dummyF0 (fun a b => decide (a = b)) (by simp)

/-- **C23 at full strength fails**: mode() over three distinct integer values reports the
    smallest value (7), the documented tie rule asks for the earliest (100).  Replayed on
    the real `IntegerModeReduceSlice` by the harness (findings.d/C23.json, `mode-tie`). -/
theorem C23_full_fails :
    ¬ ∀ (fn : Fn) (xs : List (Pt Int)), xs ≠ [] →
        holdsOn witnessArith true ⟨fn, xs, eval witnessArith true fn xs⟩ = true := by
  intro h
  have := h .mode [⟨321, 100⟩, ⟨381, 7⟩, ⟨441, 4503599627370495⟩] (by simp)
  revert this
  decide

end Influx.Props.C23
