/-
  Props.C23 — InfluxQL transformation functions follow their definitions.

  Model: `Influx.Reducers` (Model/Reducers.lean), the reducers of
  influxql/query/functions.go, functions.gen.go, call_iterator.go as coded.
  Statement: `Influx.Spec.C23.verdict`/`holdsOn` (Spec/C23.lean).
-/
import Influx.Lemmas.ReducersStream

namespace Influx.Props.C23
open Influx.Reducers Influx.Reducers.Lemmas Influx.Spec.C23

variable {V F : Type}

/-! ## Stream functions: the emitted list IS the list comprehension, for every arithmetic -/

/-- derivative / non_negative_derivative (integer and float reducers, ascending or
    descending): one point per pair of successive distinct-time points, stamped with the
    later time, `diff / (elapsed / unit)`; negative differences dropped when non-negative. -/
theorem C23_derivative (A : Arith V F) (unit : Int) (nonNeg asc : Bool) (xs : List (Pt V)) :
    derivative A.vo A.fo unit nonNeg asc xs = derivativeDef A unit nonNeg asc xs :=
  derivative_eq_def A unit nonNeg asc xs

/-- difference / non_negative_difference = `zipWith (−) tail xs` stamped with the later time. -/
theorem C23_difference (A : Arith V F) (nonNeg : Bool) (xs : List (Pt V)) :
    difference A.vo nonNeg xs = differenceDef A nonNeg xs :=
  difference_eq_def A nonNeg xs

/-- elapsed(unit) = time between successive points in whole units. -/
theorem C23_elapsed (unit : Int) (xs : List (Pt V)) : elapsed unit xs = elapsedDef unit xs :=
  elapsed_eq_def unit xs

/-- cumulative_sum = `scanl (+)`: point `i` carries the left-to-right sum of the first `i+1` values. -/
theorem C23_cumulativeSum (A : Arith V F) (xs : List (Pt V)) :
    cumulativeSum A.vo xs = cumulativeSumDef A xs :=
  cumulativeSum_eq_def A xs

/-! ## The statement checker accepts the model -/

theorem ptsEq_refl {W : Type} (eqv : W → W → Bool) (h : ∀ x, eqv x x = true) (l : List (Pt W)) :
    ptsEq eqv l l = true := by
  induction l with
  | nil => rfl
  | cons a l ih => simp [ptsEq, h, ih]

/-- functions for which "model output = definition" is proved for every arithmetic -/
def proved : Fn → Bool
  | .derivative .. => true
  | .difference _ => true
  | .elapsed _ => true
  | .cumulativeSum => true
  | _ => false

/-- **C23 (partial)**: on every input series the statement checker accepts what the
    model of the reducer emits — here for the functions in `proved`; the others are
    (so far) tied by correspondence only. -/
theorem C23_holdsOn_partial (A : Arith V F) (isInt : Bool) (fn : Fn) (xs : List (Pt V))
    (h : proved fn = true) :
    holdsOn A isInt ⟨fn, xs, eval A isInt fn xs⟩ = true := by
  cases fn <;> simp only [proved] at h <;> try contradiction
  · simp [holdsOn, verdict, eval, expectF, C23_derivative, ptsEq_refl, A.eqvF_refl]
  · simp [holdsOn, verdict, eval, expectV, C23_difference, ptsEq_refl, A.eqvV_refl]
  · simp [holdsOn, verdict, eval, C23_elapsed, ptsEq_refl]
  · simp [holdsOn, verdict, eval, expectV, C23_cumulativeSum, ptsEq_refl, A.eqvV_refl]

-- the hypothesis is met by non-trivial operations
example : proved (.derivative 10 true false) = true := rfl
example : proved (.difference true) = true := rfl

end Influx.Props.C23
