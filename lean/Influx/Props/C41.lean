/-
  Props.C41 — Flux window-aggregate tables have the right windows and values.

  Subject: `Influx.Model.FluxTable` (written from storage/flux as repaired by
  fixes/C41-window-tables.patch, compared with the real reader on every run) on top of the
  C20 cursor model.
-/
import Influx.Lemmas.FluxTable

namespace Influx.Props.C41
open Influx.WindowAgg Influx.FluxTable Influx.Spec.C41
open Influx.Window (Window Bounds)

/-- number of windows from index `i` on that start before the query stop -/
def countFrom (q : Req) (i : Int) : Nat :=
  if q.offset + i * q.every ≥ q.bstop then 0
  else ((q.bstop - 1 - (q.offset + i * q.every)) / q.every + 1).toNat

theorem countFrom_succ (q : Req) (h : 0 < q.every) (i : Int) (hlt : q.offset + i * q.every < q.bstop) :
    countFrom q i = countFrom q (i + 1) + 1 := by
  unfold countFrom
  have hne : q.every ≠ 0 := by omega
  rw [if_neg (by omega)]
  have hexp : q.offset + (i + 1) * q.every = q.offset + i * q.every + q.every := by
    rw [Int.add_mul]; omega
  rw [hexp]
  generalize q.offset + i * q.every = s at *
  have hd : (q.bstop - 1 - s) / q.every = (q.bstop - 1 - (s + q.every)) / q.every + 1 := by
    have : q.bstop - 1 - s = (q.bstop - 1 - (s + q.every)) + q.every * 1 := by omega
    rw [this, Int.add_mul_ediv_left _ _ hne]
  have hnn : 0 ≤ (q.bstop - 1 - s) / q.every := Int.ediv_nonneg (by omega) (by omega)
  by_cases hge : s + q.every ≥ q.bstop
  · rw [if_pos hge]
    have : (q.bstop - 1 - s) / q.every = 0 := Int.ediv_eq_zero_of_lt (by omega) (by omega)
    rw [this]; rfl
  · rw [if_neg hge]
    have hnn' : 0 ≤ (q.bstop - 1 - (s + q.every)) / q.every := Int.ediv_nonneg (by omega) (by omega)
    rw [hd]; omega

/-- **createEmpty: one row per window inside the bounds.**  The loop of
    `createNextBufferTimes` produces, from window `i` on, exactly the windows that start
    before the query stop, each clipped to the bounds, in order, and leaves `windowBounds`
    just behind them — for any amount of fuel that suffices. -/
theorem enumWindows_spec (q : Req) (h : 0 < q.every) (hb : q.bstart < q.bstop) :
    ∀ (fuel : Nat) (i : Int), countFrom q i ≤ fuel →
      enumWindows q fuel i = ((intRange i (countFrom q i)).map (clipped q), i + countFrom q i) := by
  intro fuel
  induction fuel with
  | zero =>
    intro i hf
    have : countFrom q i = 0 := by omega
    simp [enumWindows, this, intRange]
  | succ n ih =>
    intro i hf
    unfold enumWindows
    rw [clip_eq]
    by_cases hge : q.offset + i * q.every ≥ q.bstop
    · have hc : (clipped q i).1 ≥ q.bstop := by
        simp only [clipped]; omega
      have h0 : countFrom q i = 0 := by simp [countFrom, hge]
      simp [hc, h0, intRange]
    · have hc : ¬ (clipped q i).1 ≥ q.bstop := by
        simp only [clipped]; omega
      have hs := countFrom_succ q h i (by omega)
      simp only [hc, ↓reduceIte]
      rw [ih (i + 1) (by omega), hs]
      simp only [intRange, List.map_cons, Prod.mk.injEq, true_and]
      omega

/-- …and these are the windows the statement asks for: `widx bstart … widx (bstop-1)`. -/
theorem countFrom_first (q : Req) (h : 0 < q.every) (hb : q.bstart < q.bstop) :
    (countFrom q (widx q q.bstart) : Int) = widx q (q.bstop - 1) - widx q q.bstart + 1 := by
  have hs := widx_spec q h q.bstart
  unfold countFrom
  rw [if_neg (by omega)]
  have hne : q.every ≠ 0 := by omega
  have hd : (q.bstop - 1 - (q.offset + widx q q.bstart * q.every)) / q.every
      = widx q (q.bstop - 1) - widx q q.bstart := by
    simp only [widx]
    generalize (q.bstart - q.offset) / q.every = l
    have : q.bstop - 1 - (q.offset + l * q.every) = (q.bstop - 1 - q.offset) + q.every * (-l) := by
      rw [Int.mul_neg, Int.mul_comm]; omega
    rw [this, Int.add_mul_ediv_left _ _ hne]; omega
  have hnn : 0 ≤ (q.bstop - 1 - (q.offset + widx q q.bstart * q.every)) / q.every :=
    Int.ediv_nonneg (by omega) (by omega)
  rw [hd] at hnn ⊢
  omega

/-- `createNextBufferTimes` with createEmpty, started (as `new…WindowTable` does) at the window
    of the query start: exactly the windows of the statement. -/
theorem C41_createEmpty_windows (q : Req) (h : 0 < q.every) (hb : q.bstart < q.bstop)
    (hce : emptiesRequired q = true) (pts : List (Pt Val)) (fuel : Nat)
    (hf : countFrom q (widx q q.bstart) ≤ fuel) :
    (enumWindows q fuel (q.win.getLatestBounds q.bstart).index).1 = (windows q pts).map (clipped q) := by
  rw [glb_index q h, enumWindows_spec q h hb fuel _ hf]
  simp only [windows, hce, ↓reduceIte]
  have := countFrom_first q h hb
  congr 2
  omega

/-- **Selector tables (no empty windows): rows ↔ selected points.**  Every point the storage
    cursor selected becomes one row carrying the point's window clipped to the bounds and the
    point's value; without a time column `_time` is the point's own time, with one it is the
    clipped window start (stop) and `_start/_stop` are the query bounds. -/
theorem C41_selector_rows (q : Req) (h : 0 < q.every) (arr : List (Pt Val)) :
    selectorRows q arr = arr.map fun p =>
      let c := clipped q (widx q p.1)
      match q.timeCol with
      | .start => ⟨q.bstart, q.bstop, .val c.1, some p.2⟩
      | .stop => ⟨q.bstart, q.bstop, .val c.2, some p.2⟩
      | .none => ⟨c.1, c.2, .val p.1, some p.2⟩ := by
  unfold selectorRows
  apply List.map_congr_left
  intro p _
  rw [glb_eq_at q h, clip_eq]
  rfl

-- non-vacuity / sanity of the model on a concrete request: every 10, bounds [5,38), mean, createEmpty, time = _stop
example : seriesTables 1000 ⟨.mean, 10, 3, 5, 38, true, .stop, false⟩ [[(23, .f 2), (33, .f 3)]]
    = [⟨5, 38, [⟨5, 38, .val 13, none⟩, ⟨5, 38, .val 23, some (.f 2)⟩, ⟨5, 38, .val 33, some (.f 3)⟩,
                ⟨5, 38, .val 38, none⟩]⟩] := by decide

end Influx.Props.C41
